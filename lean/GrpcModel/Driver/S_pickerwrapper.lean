import GrpcModel.Driver.Loop
import GrpcModel.Model.PickerWrapper
/-!
component `s_pickerwrapper` (C32), tie T2: see harness/synct/c_pickerwrapper_test.go for the ops.

Each op is one external event (an `Act` of the model) followed by "run every pick goroutine
until it is parked" (`settle`: at most 8 `Act.step`s per thread; 4 suffice).  The model output is
the status line of all threads.  The verdict is the C32 predicate evaluated on the
IMPLEMENTATION's status line; it uses only the environment's ground truth (published pickers,
SubConn states, contexts: all determined by the ops) and what the implementation showed before:

* a new `Pick` call uses a published, non-nil picker whose generation is ≥ the generation current
  when the pick started / was last seen blocked, and > every generation this pick used before;
* a thread may be blocked only while no picker newer than the one it last used is published
  (and the wrapper is not closed);
* a transport is returned only for a SubConn that is READY with that transport at that moment;
* an error is returned only for: closed wrapper, expired context, status error from the picker
  (A54-restricted codes → INTERNAL), non-status error ∧ fail-fast (→ UNAVAILABLE, same text).
-/
namespace GrpcModel.Driver.S_pickerwrapper
open GrpcModel.Driver GrpcModel.PickerWrapper

/-- decimal without sign/leading zeros, ≤ 10^6 (what the Go side accepts) -/
def nat? (s : String) : Option Nat :=
  match s.toNat? with
  | some n => if toString n = s ∧ n ≤ 1000000 then some n else none
  | none => none

structure MT where
  tid : Nat
  ff : Bool
  deadline : Option Nat
  cancelled : Bool
  implSt : String            -- last status shown by the implementation
  calls : Nat
  floor : Nat
  lastGen : Option Nat
  lastRet : Option PickResult  -- result handed to this thread's Pick by the current op

structure St where
  sys : Sys
  mts : List MT
  clock : Nat

def init : St := { sys := PickerWrapper.init, mts := [], clock := 0 }

def insertMT (m : MT) : List MT → List MT
  | [] => [m]
  | x :: xs => if m.tid < x.tid then m :: x :: xs else x :: insertMT m xs

def settleThread (s : Sys) (tid : Nat) : Nat → Sys
  | 0 => s
  | n + 1 => settleThread (step s (.step tid false)).1 tid n

def settle (s : Sys) (tids : List Nat) : Sys := tids.foldl (fun s t => settleThread s t 8) s

def showOutcome : Outcome → String
  | .transport sc tr b => s!"ok:sc{sc}:tr{tr}:blk{if b then 1 else 0}"
  | .closing => "err:closing"
  | .drop c rw => s!"err:drop:{c}:{if rw then "illegal" else "same"}"
  | .unavailable e => s!"err:status:{Generated.pwCodeUnavailable}:E{e}"
  | .ctxErr c none => s!"err:status:{c}:waiting"
  | .ctxErr c (some e) => s!"err:status:{c}:lbeE{e}"

def showThread (tid : Nat) (t : Thread) : String :=
  let body := match t.pc with
    | .block _ => "blocked"
    | .inPick g => s!"inpick:{g}:{t.calls}"
    | .done o => showOutcome o
    | .load => "RUNNABLE-load"
    | .check _ _ => "RUNNABLE-check"
  s!"t{tid}={body}:d{t.dones}"

def showAll (s : Sys) (tids : List Nat) : String :=
  if tids.isEmpty then "-" else
  " ".intercalate (tids.map fun tid => match s.thr tid with
    | some t => showThread tid t
    | none => s!"t{tid}=MISSING")

def connState? : String → Option ConnState
  | "idle" => some .idle | "connecting" => some .connecting | "ready" => some .ready
  | "tf" => some .transientFailure | "shutdown" => some .shutdown | _ => none

def pickResult? : List String → Option PickResult
  | ["nosc"] => some .noSubConn
  | ["foreign"] => some .foreignSubConn
  | ["st", c] => (nat? c).map .statusErr
  | ["wst", c] => (nat? c).map .statusErr
  | ["err", e] => (nat? e).map .otherErr
  | ["nilst", e] => (nat? e).map .otherErr
  | ["sc", k] => (nat? k).map (.subConn · true)
  | ["scnd", k] => (nat? k).map (.subConn · false)
  | _ => none

def startPick (st : St) (tid : Nat) (a : Act) (rpcFailfast : Bool) (to : Nat) : Option St :=
  let s := st.sys
  match s.thr tid with
  | some _ => none
  | none =>
    let m : MT := { tid := tid, ff := rpcFailfast, deadline := if to = 0 then none else some (st.clock + to), cancelled := false,
                    implSt := "", calls := 0, floor := s.sh.cur, lastGen := none, lastRet := none }
    some { st with sys := (step s a).1, mts := insertMT m st.mts }

/-- op → the model's external event(s); `none` = bad-op. Returns the new driver state (before settle). -/
def applyOp (st : St) (fs : List String) : Option St :=
  let s := st.sys
  match fs with
  | ["update", "p"] => if s.sh.closed then none else some { st with sys := (step s (.update (some (s.sh.cur + 1)))).1 }
  | ["update", "nil"] => if s.sh.closed then none else some { st with sys := (step s (.update none)).1 }
  | ["idle"] => if s.sh.closed then none else some { st with sys := (step s .idle).1 }
  | ["close"] => if s.sh.closed then none else some { st with sys := (step s .close).1 }
  | ["sc", k, cs, tr] =>
    match nat? k, connState? cs, nat? tr with
    | some k, some cs, some tr =>
      some { st with sys := (step s (.setSc k { state := cs, transport := if tr = 0 then none else some tr })).1 }
    | _, _, _ => none
  | ["pick", tid, ff, to] =>
    match nat? tid, nat? ff, nat? to with
    | some tid, some ff, some to => startPick st tid (.start tid (ff ≠ 0)) (ff ≠ 0) to
    | _, _, _ => none
  | ["attempt", tid, ff, nr, first, to] =>
    -- the monitor judges the thread by the RPC's own fail-fast flag (ff = 0: wait-for-ready),
    -- whatever the attempt number; the model starts it the way csAttempt.getTransport does
    match nat? tid, nat? ff, nat? nr, nat? first, nat? to with
    | some tid, some ff, some nr, some first, some to =>
      startPick st tid (attemptStart tid { failFast := ff ≠ 0, numRetries := nr, firstAttempt := first ≠ 0 }) (ff ≠ 0) to
    | _, _, _, _, _ => none
  | "ret" :: tid :: rest =>
    match nat? tid, pickResult? rest with
    | some tid, some r =>
      match s.thr tid with
      | some t => match t.pc with
        | .inPick _ => some { st with sys := (step s (.pickRet tid r)).1,
                                      mts := st.mts.map fun m => if m.tid = tid then { m with lastRet := some r } else m }
        | _ => none
      | none => none
    | _, _ => none
  | ["cancel", tid] =>
    match nat? tid with
    | some tid => match s.thr tid with
      | some _ => some { st with sys := (step s (.ctxExpire tid false)).1,
                                 mts := st.mts.map fun m => if m.tid = tid then { m with cancelled := true } else m }
      | none => none
    | none => none
  | ["sleep", d] =>
    match nat? d with
    | some d =>
      let clock := st.clock + d
      let sys := st.mts.foldl (fun s m => match m.deadline with
        | some dl => if dl ≤ clock then (step s (.ctxExpire m.tid true)).1 else s
        | none => s) s
      some { st with sys := sys, clock := clock }
    | none => none
  | _ => none

/-! ### the monitor -/

def isDoneSt (s : String) : Bool := s.startsWith "ok:" || s.startsWith "err:"

def stripPrefix? (p s : String) : Option String :=
  if s.startsWith p then some (String.ofList (s.toList.drop p.length)) else none

/-- the property's own literal list of gRFC A54 restricted codes -/
def a54 : List Nat := [3, 5, 6, 9, 10, 11, 15]

/-- Judge one thread's implementation status. Returns the updated monitor record and an
    optional violation. -/
def judgeThread (sh : Shared) (clock : Nat) (m : MT) (rest : String) : MT × Option String :=
  let parts := rest.splitOn ":"
  let cur := sh.cur
  let fin (m : MT) (v : Option String) : MT × Option String :=
    ({ m with implSt := rest, lastRet := none }, v)
  if parts.getLast? = some "d!" then fin m (some "Done called with a non-zero DoneInfo") else
  if isDoneSt m.implSt then
    fin m (if rest = m.implSt then none else some s!"t{m.tid}: status changed after pick returned")
  else
  match parts with
  | ["blocked", _] =>
    let v := if sh.closed then some s!"t{m.tid}: still blocked after close"
      else if sh.pickerAt cur ≠ none ∧ m.lastGen ≠ some cur then
        some s!"t{m.tid}: blocked although picker generation {cur} is published and was not used by this pick"
      else none
    fin { m with floor := cur, lastGen := some cur } v
  | ["inpick", g, c, _] =>
    match nat? g, nat? c with
    | some g, some c =>
      if c = m.calls then
        fin m (if rest = m.implSt then none else some s!"t{m.tid}: Pick call changed without a new call")
      else
        let v := if c ≠ m.calls + 1 then some s!"t{m.tid}: more than one Pick call in one step"
          else if cur < g ∨ sh.pickerAt g = none then some s!"t{m.tid}: Pick called on a picker that was never published"
          else if g < m.floor then some s!"t{m.tid}: Pick used picker generation {g}, older than generation {m.floor} current when the pick started or last blocked"
          else match m.lastGen with
            | some l => if g ≤ l then some s!"t{m.tid}: re-picked on generation {g} although it already used/blocked on generation {l} (must wait for a newer picker)" else none
            | none => none
        fin { m with calls := c, lastGen := some g } v
    | _, _ => fin m (some "unparsable inpick status")
  | ["ok", sc, tr, _, _] =>
    match stripPrefix? "sc" sc >>= nat?, stripPrefix? "tr" tr >>= nat? with
    | some k, some t =>
      let v := match m.lastRet with
        | some (.subConn k' _) =>
          if k' ≠ k then some s!"t{m.tid}: returned SubConn {k} but the picker chose {k'}"
          else if (sh.sc k).state = .ready ∧ (sh.sc k).transport = some t then none
          else some s!"t{m.tid}: transport returned although SubConn {k} is not READY with transport {t} at return"
        | _ => some s!"t{m.tid}: transport returned without a SubConn pick result"
      fin m v
    | _, _ => fin m (some s!"t{m.tid}: transport returned for an unknown SubConn/transport ({rest})")
  | ["err", "closing", _] =>
    fin m (if sh.closed then none else some s!"t{m.tid}: ErrClientConnClosing although the wrapper is not closed")
  | ["err", "drop", code, cls, _] =>
    let v := match m.lastRet, nat? code with
      | some (.statusErr c), some code =>
        let want := if a54.contains c then 13 else c
        let wantCls := if a54.contains c then "illegal" else "same"
        if code = want ∧ cls = wantCls then none
        else some s!"t{m.tid}: picker status error {c} must end the RPC with code {want} ({wantCls}), got {code} ({cls})"
      | _, _ => some s!"t{m.tid}: RPC dropped although the picker did not return a status error"
    fin m v
  | ["err", "status", code, msg, _] =>
    let pastDeadline : Bool := match m.deadline with | some d => decide (d ≤ clock) | none => false
    let expired : Bool := m.cancelled || pastDeadline
    let v :=
      if code = "14" then
        match m.lastRet with
        | some (.otherErr e) =>
          if m.ff ∧ msg = s!"E{e}" then none
          else if ¬ m.ff then some s!"t{m.tid}: wait-for-ready pick failed with UNAVAILABLE instead of blocking"
          else some s!"t{m.tid}: UNAVAILABLE with the wrong text {msg}"
        | _ => some s!"t{m.tid}: pick failed with UNAVAILABLE instead of blocking"
      else if code = "4" then
        (if pastDeadline then none
         else some s!"t{m.tid}: DEADLINE_EXCEEDED before the deadline")
      else if code = "1" then
        (if expired then none else some s!"t{m.tid}: CANCELLED although the context is live")
      else some s!"t{m.tid}: pick failed with status {code} instead of blocking"
    fin m v
  | _ => fin m (some s!"t{m.tid}: pick failed or misbehaved: {rest}")

def judgeAll (sh : Shared) (clock : Nat) : List MT → List String → List MT × Option String
  | [], [] => ([], none)
  | m :: ms, w :: ws =>
    match stripPrefix? s!"t{m.tid}=" w with
    | some rest =>
      let (m', v) := judgeThread sh clock m rest
      let (ms', v') := judgeAll sh clock ms ws
      (m' :: ms', v <|> v')
    | none => (m :: ms, some s!"thread set differs at t{m.tid}: {w}")
  | ms, _ => (ms, some "thread set differs")

def step : Step St := fun st fs impl =>
  match applyOp st fs with
  | none => (st, "bad-op", "-")
  | some st1 =>
    let tids := st1.mts.map (·.tid)
    let sys := settle st1.sys tids
    let out := showAll sys tids
    if impl = "bad-op" then ({ st1 with sys := sys }, out, "-") else
    let words := if impl = "-" then [] else (impl.splitOn " ").filter (· ≠ "")
    let (mts, v) := judgeAll sys.sh st1.clock st1.mts words
    ({ st1 with sys := sys, mts := mts }, out, match v with | some r => "VIOL " ++ r | none => "ok")

def run : IO Unit := Driver.run init step

end GrpcModel.Driver.S_pickerwrapper
