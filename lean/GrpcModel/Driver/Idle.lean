import GrpcModel.Driver.Loop
import GrpcModel.Model.Idle
/-!
component `idle` (C29, tie T3).  Op: `step <thread>` (r<n> RPC, t<n> timer callback, c<n> Connect,
k Close): the named goroutine performs its next atomic action.  The driver keeps, next to the
counting state `St` of the proved transition system, the program point of every named thread —
only to pick WHICH rule of `GrpcModel.Idle.apply` the step is an instance of and to predict the
yield label the real goroutine parks at next.  Every state change goes through `apply`.
-/
namespace GrpcModel.Driver.Idle
open GrpcModel.Driver GrpcModel.Idle

inductive TPc
  | rIdle | rB0 | rB1 | rB2f | rX0 | rXr1 | rXrcb | rXr2 | rXr3 | rB2s | rIn | rInU | rE0 | rE0U | rE1 | rE2
  | tIdle | tH0 | tH1 | tH2 | tH3 | tH4 | tT0 | tT1 | tT2 | tT2u | tT3 | tT3cb | tT3u | tR0 | tR1
  | cIdle | cX0 | cXc1 | cXccb | cXc2 | cXc3
  | kIdle | kK0 | kK1
deriving DecidableEq, Repr

/-- the yield label of the instrumented idle.go at which a goroutine at this point is parked -/
def TPc.label : TPc → String
  | .rIdle | .rIn | .rInU | .tIdle | .cIdle | .kIdle => "done"
  | .rB0 | .rXr1 | .rXr3 | .rE0 | .rE0U | .tH0 | .tR1 | .cXc1 | .cXc3 => "isClosed:0"
  | .rB1 => "OnCallBegin:0" | .rB2f => "OnCallBegin:1" | .rB2s => "OnCallBegin:2"
  | .rX0 | .cX0 => "ExitIdleMode:lock"
  | .rXr2 | .cXc2 => "ExitIdleMode:0"
  | .rXrcb | .cXccb => "cc.ExitIdleMode"
  | .tT3cb => "cc.EnterIdleMode"
  | .rE1 => "OnCallEnd:0" | .rE2 => "OnCallEnd:1"
  | .tH1 => "handleIdleTimeout:0" | .tH2 => "handleIdleTimeout:1" | .tH3 => "handleIdleTimeout:2"
  | .tH4 => "handleIdleTimeout:3"
  | .tT0 => "tryEnterIdleMode:0" | .tT1 => "tryEnterIdleMode:lock" | .tT2 => "tryEnterIdleMode:1"
  | .tT2u => "tryEnterIdleMode:2" | .tT3 => "tryEnterIdleMode:3" | .tT3u => "tryEnterIdleMode:4"
  | .tR0 => "resetIdleTimer:lock"
  | .kK0 => "Close:0" | .kK1 => "Close:lock"

/-- try the rules in order; the first enabled one fires and the thread moves to the paired point;
    if none is enabled (a lock that is held) the thread stays where it is. -/
def fire (s : St) (stay : TPc) : List (Rule × TPc) → St × TPc × Option Rule
  | [] => (s, stay, none)
  | (r, p) :: rest => match apply s r with
    | some t => (t, p, some r)
    | none => fire s stay rest

/-- One scheduled step of a thread at program point `p`. -/
def tstep (s : St) (p : TPc) : St × TPc × Option Rule :=
  match p with
  -- call starts: run to the first yield (the isClosed load); no shared access yet
  | .rIdle => (s, .rB0, none)
  | .rIn => (s, .rE0, none)
  | .rInU => (s, .rE0U, none)
  | .tIdle => (s, .tH0, none)
  | .cIdle => (s, .cX0, none)
  | .kIdle => (s, .kK0, none)
  -- OnCallBegin
  | .rB0 => if s.closed then (s, .rInU, none) else fire s p [(.beginCheck, .rB1)]
  | .rB1 => fire s p [(.beginAddFast, .rB2f), (.beginAddSlow, .rX0)]
  | .rB2f => fire s p [(.beginStoreFast, .rIn)]
  | .rX0 => fire s p [(.exitLockR, .rXr1)]
  | .rXr1 => fire s p [(.exitCheckClosedR, .rB2s), (.exitCheckNotIdleR, .rB2s), (.exitCheckIdleR, .rXrcb)]
  | .rXrcb => fire s p [(.exitCbDoneR, .rXr2)]
  | .rXr2 => fire s p [(.exitAddR, .rXr3)]
  | .rXr3 => fire s p [(.exitResetR, .rB2s)]
  | .rB2s => fire s p [(.beginStoreSlow, .rIn)]
  -- OnCallEnd
  | .rE0 => fire s p [(.endCheckOpen, .rE1), (.endCheckClosed, .rIdle)]
  | .rE0U => (s, .rIdle, none)          -- began after Close: closed is monotone, returns at once
  | .rE1 => fire s p [(.endStoreTime, .rE2)]
  | .rE2 => fire s p [(.endAdd, .rIdle)]
  -- handleIdleTimeout / tryEnterIdleMode / resetIdleTimer
  | .tH0 => if s.closed then (s, .tIdle, none) else fire s p [(.timerCheck, .tH1)]
  | .tH1 => fire s p [(.timerLoadBusy, .tR0), (.timerLoadFree, .tH2)]
  | .tH2 => fire s p [(.timerActYes, .tH3), (.timerActNo, .tT0)]
  | .tH3 => fire s p [(.timerStoreAct, .tH4)]
  | .tH4 => fire s p [(.timerLoadTime, .tR0)]
  | .tT0 => fire s p [(.casOk, .tT1), (.casFail, .tR0)]
  | .tT1 => fire s p [(.tryLock, .tT2)]
  | .tT2 => fire s p [(.tryLoadLost, .tT2u), (.tryLoadOk, .tT3)]
  | .tT2u => fire s p [(.tryUndo2, .tR0)]
  | .tT3 => fire s p [(.tryActYes, .tT3u), (.tryEnter, .tT3cb)]
  | .tT3cb => fire s p [(.tryEnterDone, .tIdle)]
  | .tT3u => fire s p [(.tryUndo3, .tR0)]
  | .tR0 => fire s p [(.resetLock, .tR1)]
  | .tR1 => fire s p [(.resetDone, .tIdle)]
  -- Connect → ExitIdleMode
  | .cX0 => fire s p [(.connectLock, .cXc1)]
  | .cXc1 => fire s p [(.exitCheckClosedC, .cIdle), (.exitCheckNotIdleC, .cIdle), (.exitCheckIdleC, .cXccb)]
  | .cXccb => fire s p [(.exitCbDoneC, .cXc2)]
  | .cXc2 => fire s p [(.exitAddC, .cXc3)]
  | .cXc3 => fire s p [(.exitResetC, .cIdle)]
  -- Close: the store, then lock/stop timer/unlock (touches nothing modelled, needs the lock free)
  | .kK0 => fire s p [(.close, .kK1)]
  | .kK1 => if s.holder = .free then (s, .kIdle, none) else (s, .kK1, none)

structure DSt where
  s : St
  threads : List (String × TPc)

def dinit : DSt := ⟨GrpcModel.Idle.init, []⟩

def startPc (name : String) : Option TPc :=
  match name.toList.head? with
  | some 'r' => some .rIdle | some 't' => some .tIdle | some 'c' => some .cIdle | some 'k' => some .kIdle
  | _ => none

def lookup (ts : List (String × TPc)) (n : String) : Option TPc := (ts.find? (·.1 = n)).map (·.2)

def setPc (ts : List (String × TPc)) (n : String) (p : TPc) : List (String × TPc) :=
  if ts.any (·.1 = n) then ts.map (fun x => if x.1 = n then (n, p) else x) else ts ++ [(n, p)]

def b2n (b : Bool) : Nat := if b then 1 else 0

def render (d : DSt) (p : TPc) : String :=
  let active := (d.threads.filter fun x => x.2 = .rIn || x.2 = .rInU).length
  let cb := if d.s.holder = .xrcb ∨ d.s.holder = .xccb then "x" else if d.s.holder = .t3cb then "e" else "-"
  s!"{p.label} cnt={d.s.cnt} act={b2n d.s.act} idle={d.s.idle} closed={b2n d.s.closed} en={d.s.enters} ex={d.s.exits} active={active} cb={cb}"

/-- field `key=` of an implementation output line -/
def field (impl key : String) : Option String :=
  (impl.splitOn " ").findSome? fun w =>
    match w.splitOn "=" with
    | [k, v] => if k = key then some v else none
    | _ => none

/-- C29 evaluated on what the IMPLEMENTATION reported after this step. -/
def monitor (impl : String) : String :=
  match field impl "idle", field impl "closed", (field impl "active") >>= String.toNat?,
        (field impl "en") >>= String.toNat?, (field impl "ex") >>= String.toNat? with
  | some idle, some closed, some active, some en, some ex =>
    if idle = "true" ∧ closed = "0" ∧ active > 0 then
      "VIOL channel is idle while an RPC is between OnCallBegin's return and OnCallEnd"
    else if closed = "0" ∧ active > 0 ∧ field impl "cb" = some "x" then
      "VIOL an RPC is running (OnCallBegin returned) while the channel is still inside its exit-idle callback"
    else if closed = "0" ∧ active > 0 ∧ field impl "cb" = some "e" then
      "VIOL an RPC is running while the channel is inside its enter-idle callback"
    else if ex < en ∨ ex > en + 1 then
      "VIOL enter-idle / exit-idle callbacks do not alternate"
    else "ok"
  | _, _, _, _, _ => if impl.startsWith "PANIC" ∨ impl.startsWith "CRASH" then "-" else "VIOL unparsable: " ++ impl

def step : Step DSt := fun d fs impl =>
  match fs with
  | ["step", n] =>
    match (lookup d.threads n).orElse (fun _ => startPc n) with
    | none => (d, "bad-op", "-")
    | some p =>
      let (s', p', _) := tstep d.s p
      let d' : DSt := ⟨s', setPc d.threads n p'⟩
      (d', render d' p', monitor impl)
  | _ => (d, "bad-op", "-")

def run : IO Unit := Driver.run dinit step

end GrpcModel.Driver.Idle
