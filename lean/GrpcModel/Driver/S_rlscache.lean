import GrpcModel.Driver.Loop
import GrpcModel.Model.RLSCache
/-! component `s_rlscache` (C41).  Ops: see harness/synct/c_rlscache_test.go.  Model time starts at 1000. -/
namespace GrpcModel.Driver.S_rlscache
open GrpcModel.Driver GrpcModel.RLSCache

structure DSt where
  dc : DC := newDataCache 0
  now : Nat := 1000
  ready : Bool := false
  broken : Bool := false      -- the caller contract (add only absent keys) was violated: stop comparing

def dump (dc : DC) : String :=
  let n := (dc.lru.filter fun k => (dc.entries k).isSome).length
  s!" cur={dc.currentSize} max={dc.maxSize} lru={showNatList dc.lru} sum={sumSizes dc} n={n}"

def b01 (b : Bool) : String := if b then "1" else "0"

def field (impl key : String) : Option String :=
  (impl.splitOn " ").findSome? fun w =>
    match w.splitOn "=" with
    | [k, v] => if k = key then some v else none
    | _ => none

/-- C41 (cache clauses) on the implementation's answer.  `before` is the implementation's previous LRU
    order; `evictable k` says whether the entry stored under k may be evicted now (from the op history). -/
def monitor (fs : List String) (impl : String) (prevLru : List Nat) (evictable : Nat → Bool) (prevCur : Int)
    (sizeOf : Nat → Int) (isExpired : Nat → Bool) (down : Bool) : String :=
  match (field impl "cur") >>= String.toInt?, (field impl "sum") >>= String.toInt?, (field impl "lru") >>= natList with
  | some cur, some sum, some lru =>
    if cur ≠ sum then s!"VIOL accounted size {cur} is not the sum of the entries' sizes {sum}"
    else match fs with
      | ["resize", n] =>
        match n.toInt? with
        | some n =>
          let k := prevLru.length - lru.length
          let gone := prevLru.take k
          let headEv : Bool := match lru.head? with | some h => evictable h | none => false
          if prevLru.drop k ≠ lru then "VIOL resize did not evict a prefix of the LRU order"
          else if gone.any (fun x => ¬ evictable x) then "VIOL resize evicted an entry that is not yet evictable"
          else if cur > n ∧ headEv then
            "VIOL resize stopped although the cache is too large and the least recently used entry is evictable"
          else if k > 0 ∧ prevCur - ((gone.dropLast).map sizeOf).sum ≤ n then
            "VIOL resize evicted more entries than needed"
          else "ok"
        | none => "-"
      | ["evict"] =>
        if down then "ok"
        else if lru ≠ prevLru.filter (fun k => lru.contains k) then "VIOL evictExpiredEntries reordered the LRU list"
        else if (prevLru.filter fun k => ¬ lru.contains k).any (fun k => ¬ isExpired k) then
          "VIOL evictExpiredEntries removed an entry that has not expired"
        else if lru.any isExpired then "VIOL evictExpiredEntries left an expired entry"
        else "ok"
      | _ => "ok"
  | _, _, _ => if impl.startsWith "PANIC" ∨ impl.startsWith "CRASH" then "-" else "VIOL unparsable: " ++ impl

def step : Step DSt := fun d fs impl =>
  let nat := fs.map String.toNat?
  match fs with
  | ["new", n] =>
    match n.toInt? with
    | some n => let dc := newDataCache n; ({ dc := dc, ready := true }, "ok" ++ dump dc, "-")
    | none => (d, "bad-op", "-")
  | _ =>
    if ¬ d.ready then (d, "bad-op", "-") else
    let dc := d.dc
    let evictable (k : Nat) : Bool := match dc.entries k with | some e => decide (e.earliestEvict ≤ d.now) | none => true
    let sizeOf (k : Nat) : Int := ((dc.entries k).map (·.size)).getD 0
    let isExpired (k : Nat) : Bool := match dc.entries k with | some e => expired d.now e | none => false
    let fin (d' : DSt) (res : String) : DSt × String × String :=
      if d'.broken then (d', "*", "-")
      else (d', res ++ dump d'.dc, monitor fs impl dc.lru evictable dc.currentSize sizeOf isExpired dc.shutdown)
    match nat, fs with
    | [_, some k, some sz, some ee, some ex, some bx, some hb, some ta], ["add", _, _, _, _, _, _, _] =>
      let e : Entry := { size := sz, earliestEvict := ee, expiry := ex, backoffExpiry := bx, hasBackoff := hb = 1,
                         timerAt := if ta ≠ 0 ∧ hb = 1 then some ta else none }
      let absent := (dc.entries k).isNone
      let r := addEntry dc d.now k e
      let contractBroken := ¬ absent ∧ r.2.2
      fin { d with dc := r.1, broken := d.broken || contractBroken } s!"bc={b01 r.2.1} ok={b01 r.2.2}"
    | [_, some k], ["get", _] =>
      let r := getEntry dc k
      fin { d with dc := r.1 } (match r.2 with | some e => s!"hit {e.size}" | none => "miss")
    | [_, some n], ["resize", _] =>
      let r := resize dc d.now n
      fin { d with dc := r.1 } s!"bc={b01 r.2}"
    | [_], ["evict"] =>
      let r := evictExpired dc d.now
      fin { d with dc := r.1 } s!"ev={b01 r.2}"
    | [_, some k, some sz], ["upd", _, _] =>
      if (dc.entries k).isSome then fin { d with dc := updateEntrySize dc k sz } "ok" else fin d "absent"
    | [_, some k], ["rm", _] => fin { d with dc := removeEntry dc k } "ok"
    | [_], ["rbo"] => let r := resetBackoff dc; fin { d with dc := r.1 } s!"r={b01 r.2}"
    | [_], ["stop"] => fin { d with dc := stop dc } "ok"
    | [_, some s], ["sleep", _] => fin { d with now := d.now + s } "ok"
    | _, _ => (d, "bad-op", "-")

def run : IO Unit := Driver.run ({} : DSt) step

end GrpcModel.Driver.S_rlscache
