import GrpcModel.Driver.Loop
import GrpcModel.Model.RBAC
import GrpcModel.Model.Authz
/-!
component `rbac` (C48).  Stateful: a case installs a chain and then evaluates requests against it.

  chain <n> <engine>*n                      → `built` | `builderr`      (rbac.NewChainEngine)
  authz <name> <nd> <rule>*nd <na> <rule>*na → `built` | `builderr`      (authz.NewStatic on the rendered JSON)
  req <request>                             → `allow` | `deny` | `internal` | `nochain`
                                              (ChainEngine.IsAuthorized, or StaticInterceptor.UnaryInterceptor
                                               after `authz`)

  engine := A|D|L <npol> <policy>*          policy := <nperm> <perm>* <nprin> <prin>*
  perm   := and <n> <perm>* | or <n> <perm>* | any | hdr <hdr> | path <strm> | dip <cidr> | dport <n>
          | not <perm> | meta <0|1> | sni <strm> | unsup
  prin   := and <n> <prin>* | or <n> <prin>* | any | auth <strm> | rip <0|1|2> <cidr> | hdr <hdr>
          | path <strm> | meta <0|1> | not <prin> | unsup
  strm   := ex|pf|sf|ct|re|un|nil <ic 0|1> <hex>          (re: hex of the regex text; nil = absent message)
  hdr    := <name hex> <inv 0|1> (ex|re|pf|sf|ct <hex> | rg <lo> <hi> | pr <0|1> | sm <strm> | un)
  cidr   := c4 <hex8> <len> | c6 <hex32> <len> | cbad <len>
  rule   := <name> <np> <principal>* <npath> <path>* <nh> (<key> <nv> <value>*)*        (all hex)
  request:= <missing none|md|peer|method|conn> <path> <nmd> (<key> <nv> <val>*)* <addr:src> <addr:dst> <auth>
  addr   := t4 <hex8> <port> | t6 <hex32> <port>   (*net.TCPAddr)
          | r4 <hex8> | r6 <hex32>                 (an Addr printing the bare IP, no port)  | nm (prints "bufconn")
  auth   := none | other | tls <ncert> (<nuri> <uri>* <ndns> <dns>* <cn>)*
-/
namespace GrpcModel.Driver.Rbac
open GrpcModel.Driver GrpcModel.RBAC GrpcModel.Authz

abbrev P := StateT (List String) Option

def pfail {α : Type} : P α := fun _ => none
def tok : P String := fun s => match s with | [] => none | a :: t => some (a, t)
def pnat : P Nat := do let t ← tok; match t.toNat? with | some n => pure n | none => pfail
def pint : P Int := do let t ← tok; match t.toInt? with | some n => pure n | none => pfail
def pstr : P Str := do let t ← tok; match unhex t with | some b => pure b | none => pfail
def pbool : P Bool := do let t ← tok; if t = "1" then pure true else if t = "0" then pure false else pfail

def many {α : Type} (p : P α) : Nat → P (List α)
  | 0 => pure []
  | n + 1 => do let a ← p; let r ← many p n; pure (a :: r)

def counted {α : Type} (p : P α) : P (List α) := do let n ← pnat; many p n

def bytesToNat (bs : Str) : Nat := bs.foldl (fun a b => a * 256 + b.toNat) 0

def pregex (s : Str) : Regex :=
  if s = [46, 43] then .dotPlus else if s = [46, 42] then .dotStar else .bad

def pstrm : P (Option StrM) := do
  let k ← tok; let ic ← pbool; let s ← pstr
  match k with
  | "ex" => pure (some ⟨.exact s, ic⟩)
  | "pf" => pure (some ⟨.pfx s, ic⟩)
  | "sf" => pure (some ⟨.sfx s, ic⟩)
  | "ct" => pure (some ⟨.contains s, ic⟩)
  | "re" => pure (some ⟨.regex (pregex s), ic⟩)
  | "un" => pure (some ⟨.unset, ic⟩)
  | "nil" => pure none
  | _ => pfail

def phdr : P HdrM := do
  let name ← pstr; let inv ← pbool; let k ← tok
  match k with
  | "ex" => do let s ← pstr; pure ⟨name, .exact s, inv⟩
  | "re" => do let s ← pstr; pure ⟨name, .regex (pregex s), inv⟩
  | "pf" => do let s ← pstr; pure ⟨name, .pfx s, inv⟩
  | "sf" => do let s ← pstr; pure ⟨name, .sfx s, inv⟩
  | "ct" => do let s ← pstr; pure ⟨name, .contains s, inv⟩
  | "rg" => do let lo ← pint; let hi ← pint; pure ⟨name, .range lo hi, inv⟩
  | "pr" => do let b ← pbool; pure ⟨name, .present b, inv⟩
  | "sm" => do let m ← pstrm; pure ⟨name, .str m, inv⟩
  | "un" => pure ⟨name, .unset, inv⟩
  | _ => pfail

def pcidr : P Cidr := do
  let k ← tok
  match k with
  | "c4" => do let a ← pstr; let n ← pnat; pure (.v4 (BitVec.ofNat 32 (bytesToNat a)) n)
  | "c6" => do let a ← pstr; let n ← pnat; pure (.v6 (BitVec.ofNat 128 (bytesToNat a)) n)
  | "cbad" => do let _ ← pnat; pure .bad
  | _ => pfail

partial def pperm : P Perm := do
  let k ← tok
  match k with
  | "and" => do let l ← counted pperm; pure (.and (PermList.ofList l))
  | "or" => do let l ← counted pperm; pure (.or (PermList.ofList l))
  | "any" => pure .any
  | "hdr" => do let h ← phdr; pure (.header h)
  | "path" => do let m ← pstrm; pure (.urlPath m)
  | "dip" => do let c ← pcidr; pure (.destIp c)
  | "dport" => do let n ← pnat; pure (.destPort n)
  | "not" => do let p ← pperm; pure (.not p)
  | "meta" => do let b ← pbool; pure (.metadata b)
  | "sni" => do let m ← pstrm; pure (.reqServerName m)
  | "unsup" => pure .unsupported
  | _ => pfail

partial def pprin : P Prin := do
  let k ← tok
  match k with
  | "and" => do let l ← counted pprin; pure (.and (PrinList.ofList l))
  | "or" => do let l ← counted pprin; pure (.or (PrinList.ofList l))
  | "any" => pure .any
  | "auth" => do let m ← pstrm; pure (.authenticated m)
  | "rip" => do let kind ← pnat; let c ← pcidr; pure (.remoteIp kind c)
  | "hdr" => do let h ← phdr; pure (.header h)
  | "path" => do let m ← pstrm; pure (.urlPath m)
  | "meta" => do let b ← pbool; pure (.metadata b)
  | "not" => do let p ← pprin; pure (.not p)
  | "unsup" => pure .unsupported
  | _ => pfail

def ppolicy : P Policy := do
  let perms ← counted pperm
  let prins ← counted pprin
  pure ⟨PermList.ofList perms, PrinList.ofList prins⟩

def pengine : P Engine := do
  let a ← tok
  let act ← match a with
    | "A" => pure Action.allow | "D" => pure Action.deny | "L" => pure Action.log | _ => pfail
  let pols ← counted ppolicy
  pure ⟨act, pols⟩

def pheader : P Header := do let k ← pstr; let vs ← counted pstr; pure ⟨k, vs⟩

def prule : P Rule := do
  let name ← pstr
  let prins ← counted pstr
  let paths ← counted pstr
  let hs ← counted pheader
  pure ⟨name, prins, paths, hs⟩

def psdk : P SDKPolicy := do
  let name ← pstr
  let deny ← counted prule
  let allow ← counted prule
  pure ⟨name, deny, allow⟩

/-- `net.IP.String` prints a 16-byte IPv4-mapped address in dotted form, which `netip.ParseAddr`
    reads back as IPv4. -/
def tcp6 (a : BitVec 128) : IP :=
  if a >>> 32 == 0xffff#128 then .v4 (a.setWidth 32) else .v6 a

/-- (host parsed as IP, port) of `Addr.String()` -/
def paddr : P (Option IP × Option Nat) := do
  let k ← tok
  match k with
  | "t4" => do let a ← pstr; let p ← pnat; pure (some (.v4 (BitVec.ofNat 32 (bytesToNat a))), some p)
  | "t6" => do let a ← pstr; let p ← pnat; pure (some (tcp6 (BitVec.ofNat 128 (bytesToNat a))), some p)
  | "r4" => do let a ← pstr; pure (some (.v4 (BitVec.ofNat 32 (bytesToNat a))), none)
  | "r6" => do let a ← pstr; pure (some (.v6 (BitVec.ofNat 128 (bytesToNat a))), none)
  | "nm" => pure (none, none)
  | _ => pfail

/-- `pkix.Name{CommonName: cn}.String()` for an alphanumeric cn. -/
def subjectOf (cn : Str) : Str := if cn.isEmpty then [] else [67, 78, 61] ++ cn

def pcert : P Cert := do
  let uris ← counted pstr
  let dns ← counted pstr
  let cn ← pstr
  pure ⟨uris, dns, subjectOf cn⟩

def pauth : P (Bool × List Cert) := do
  let k ← tok
  match k with
  | "none" => pure (false, [])
  | "other" => pure (false, [])
  | "tls" => do let cs ← counted pcert; pure (true, cs)
  | _ => pfail

def pmdEntry : P (Str × List Str) := do let k ← pstr; let vs ← counted pstr; pure (k, vs)

def prequest : P Request := do
  let miss ← tok
  let path ← pstr
  let md ← counted pmdEntry
  let (src, _) ← paddr
  let (dst, dport) ← paddr
  let (tls, certs) ← pauth
  pure { missing := miss != "none", path := path, md := md, src := src, dst := dst, dstPort := dport,
         tls := tls, certs := certs }

def parseAll {α : Type} (p : P α) (fs : List String) : Option α :=
  match p fs with
  | some (a, []) => some a
  | _ => none

inductive Installed
  | none
  | failed
  | chain (c : Chain)
  | sdk (p : SDKPolicy) (c : Chain)

/-- C48 on one implementation answer: the decision must be the one the policy semantics give. -/
def monitor (st : Installed) (r : Request) (impl : String) : String :=
  if !r.wellFormed then "-" else
  match st with
  | .chain c =>
    let want := (RBAC.Spec.decision c r).show
    if impl = want then "ok" else s!"VIOL decision {impl} but the chain's policy semantics give {want}"
  | .sdk p _ =>
    let want := (Authz.Spec.decision p r).show
    if impl = want then "ok"
    else
      -- diagnosis: is the wrong answer exactly what one gets when same-named rules shadow each other?
      let shadow := (Authz.Spec.decision { p with deny := Authz.Spec.lastWins p.deny, allow := Authz.Spec.lastWins p.allow } r).show
      if impl = shadow then
        if p.deny.any (Authz.Spec.ruleMatches r) then
          s!"VIOL [dup-rule-name] request matches a deny rule whose name is repeated by a later deny rule, and is not denied: decision {impl}"
        else
          s!"VIOL [dup-rule-name] request matches no deny rule and an allow rule whose name is repeated by a later allow rule, and is not allowed: decision {impl}"
      else if p.deny.any (Authz.Spec.ruleMatches r) then
        s!"VIOL request matches a deny rule of the accepted policy but the decision is {impl}"
      else s!"VIOL decision {impl} but the rules as written give {want}"
  | _ => "-"

def step : Step Installed := fun st fs impl =>
  match fs with
  | "chain" :: rest =>
    match parseAll (counted pengine) rest with
    | none => (.none, "bad-op", "-")
    | some c =>
      match newChainEngine c with
      | some c' => (.chain c', "built", "-")
      | none => (.failed, "builderr", "-")
  | "authz" :: rest =>
    match parseAll psdk rest with
    | none => (.none, "bad-op", "-")
    | some p =>
      -- The property only speaks about policies the translator accepts.  A policy that repeats a rule name
      -- within a list may legitimately be rejected (that is the suggested fix of F4): follow the
      -- implementation there instead of reporting a divergence; everything else is compared.
      let dup := Authz.Spec.lastWins p.deny != p.deny || Authz.Spec.lastWins p.allow != p.allow
      if dup ∧ impl = "builderr" then (.failed, "*", "-") else
      match newStatic p with
      | some c => (.sdk p c, "built", "-")
      | none => (.failed, "builderr", "-")
  | "req" :: rest =>
    match parseAll prequest rest with
    | none => (st, "bad-op", "-")
    | some r =>
      match st with
      | .chain c => (st, (isAuthorized c r).show, monitor st r impl)
      | .sdk _ c => (st, (intercept c r).show, monitor st r impl)
      | _ => (st, "nochain", "-")
  | _ => (st, "bad-op", "-")

def run : IO Unit := Driver.run Installed.none step

end GrpcModel.Driver.Rbac
