import GrpcModel.Driver.Loop
import GrpcModel.Model.Framing
/-! component `framing` (C06): see harness/cmd/impl/c_framing.go for the op list.

The compressor is a parameter of the model. For the `xor` test codec it is the concrete function
below; for gzip it is the graph observed so far (`table`: compressed payload ↦ plaintext, filled by
`send`/`sendn` from what the real gzip produced), i.e. gzip itself is trusted to be a function with
a left inverse and is not predicted. -/
namespace GrpcModel.Driver.Framing
open GrpcModel.Driver GrpcModel.Framing GrpcModel.Generated

inductive Kind | none | gzip | xor | lgzip | lxor
deriving DecidableEq, Repr

def Kind.ofString : String → Option Kind
  | "none" => some .none | "gzip" => some .gzip | "xor" => some .xor
  | "lgzip" => some .lgzip | "lxor" => some .lxor | _ => Option.none

def Kind.path : Kind → Path
  | .none => .none | .gzip => .newApi | .xor => .newApi | .lgzip => .legacyGzip | .lxor => .legacyCustom

/-- the harness cannot count what the built-in legacy gzip decompressor materialises -/
def Kind.observable : Kind → Bool
  | .lgzip => false | _ => true

def rcOfString : String → Option RecvCompress
  | "empty" => some .empty | "identity" => some .identity | "named" => some .named | _ => none

/-! the `xor` test codec of the harness: 'X' ++ (data xor 0x5A) ++ 0xA5, and the run-length form
    'R' ++ be32 n ++ b ++ 0xA5 (n copies of b: a 7-byte bomb) -/
def xorComp (d : Bytes) : Bytes := 0x58 :: (d.map (· ^^^ 0x5A)) ++ [0xA5]

def xorDecomp : Decomp
  | [] => Option.none
  | m :: rest =>
    if m == 0x52 then
      match rest with
      | n3 :: n2 :: n1 :: n0 :: b :: tl => some (List.replicate (u32 [n3, n2, n1, n0]) b, tl != [0xA5])
      | _ => Option.none
    else if m != 0x58 then Option.none
    else match rest.getLast? with
      | Option.none => some ([], true)
      | some tr => some (rest.dropLast.map (· ^^^ 0x5A), tr != 0xA5)

structure St where
  cfg : Cfg := ⟨4194304, .none, .empty, false⟩
  kind : Kind := .none
  stream : Bytes := []
  table : List (Bytes × Bytes) := []

def St.dec (s : St) (k : Kind) : Decomp :=
  match k with
  | .none => fun _ => Option.none
  | .xor | .lxor => xorDecomp
  | .gzip | .lgzip => fun p => (s.table.lookup p).map fun d => (d, false)

def errName : Err → String
  | .eof => "EOF" | .unexpectedEOF => "UEOF" | .resourceExhausted => "RESOURCE_EXHAUSTED"
  | .internal => "INTERNAL" | .unimplemented => "UNIMPLEMENTED"

def errOfName : String → Option Err
  | "EOF" => some .eof | "UEOF" => some .unexpectedEOF | "RESOURCE_EXHAUSTED" => some .resourceExhausted
  | "INTERNAL" => some .internal | "UNIMPLEMENTED" => some .unimplemented | _ => none

def pathName : Path → String
  | .none => "no decompressor" | .legacyGzip => "legacy built-in gzip Decompressor"
  | .legacyCustom => "legacy third-party Decompressor.Do" | .newApi => "encoding.Compressor"

def matStr (obs : Bool) (n : Nat) : String := if obs then toString n else "-"

def showRes (r : Except Err Bytes) (obs : Bool) (mat : Nat) : String :=
  match r with
  | .ok m => s!"ok {hex m} {matStr obs mat}"
  | .error e => s!"err {errName e} {matStr obs mat}"

/-- implementation answer of recv/dec: (result, mat if observable) -/
def parseRes (impl : String) : Option (Except Err Bytes × Option Nat) :=
  match impl.splitOn " " with
  | ["ok", h, m] => (unhex h).map fun b => (.ok b, m.toNat?)
  | ["err", c, m] => (errOfName c).map fun e => (.error e, m.toNat?)
  | _ => none

/-! ### the property (C06) as a predicate on ONE implementation answer, written independently of the
    model's `recvAndDecompress`: what may be delivered / must be refused given the unread stream. -/
def recvSpec (cfg : Cfg) (dec : Decomp) (oracle : Bool) (stream : Bytes) (res : Except Err Bytes) (mat : Option Nat) : String :=
  let complete := decide (stream.length ≥ 5)
  let pf := (stream.headD 0).toNat
  let len := u32 (stream.drop 1)
  let rest := stream.drop 5
  let payload := rest.take len
  let usable := cfg.path != .none && cfg.rc == .named
  let matV : String :=
    match mat with
    | some n => if n > cfg.limit + 1 then s!"VIOL decompression ({pathName cfg.path}) materialised {n} bytes > limit+1 = {cfg.limit + 1}" else "ok"
    | Option.none => "ok"
  if matV != "ok" then matV else
  match res with
  | .ok m =>
    if !complete then "VIOL a message was delivered from an incomplete header"
    else if len > cfg.limit then "VIOL a message with declared size above the limit was delivered"
    else if rest.length < len then "VIOL a message was delivered from a truncated frame"
    else if pf = 0 then (if m = payload then "ok" else "VIOL delivered message differs from the sent payload")
    else if pf = 1 then
      if !usable then "VIOL compressed flag without a usable decompressor yielded a message"
      else match dec payload with
        | some (d, bad) =>
          if bad && d.length ≤ cfg.limit then "VIOL a message was delivered although the decompressor ended with an error"
          else if m != d then "VIOL delivered message differs from the decompressed payload"
          else if m.length > cfg.limit then "VIOL a message larger than the limit after decompression was delivered"
          else "ok"
        | Option.none => if oracle then "ok" else "VIOL a message was delivered from an undecodable payload"
    else "VIOL unknown payload flag yielded a message"
  | .error e =>
    if stream.isEmpty then (if e = .eof then "ok" else "VIOL clean end of stream not reported as io.EOF")
    else if e = .eof then "VIOL truncated or refused data reported as a clean end of stream"
    else if !complete then "ok"
    else if len > cfg.limit then
      (if e = .resourceExhausted then "ok" else "VIOL declared size above the limit not RESOURCE_EXHAUSTED")
    else if rest.length < len then "ok"
    else if pf = 0 then "VIOL a well-formed uncompressed message within the limit was refused"
    else if pf = 1 && usable then
      match dec payload with
      | some (d, false) =>
        if d.length > cfg.limit then
          (if e = .resourceExhausted then "ok" else "VIOL decompressed size above the limit not RESOURCE_EXHAUSTED")
        else "VIOL a well-formed compressed message within the limit was refused"
      | _ => "ok"
    else "ok"

def runRecv (s : St) : Out := recvAndDecompress s.cfg (s.dec s.kind) s.stream

def bytesOfRep (n : Nat) (b : UInt8) : Bytes := List.replicate n b

/-- sender: model wire bytes (for gzip kinds the compressed payload is taken from the implementation's
    answer and recorded in the table). Returns (wire, new table). -/
def sendWire (s : St) (c : Bool) (msg : Bytes) (impl : String) : Bytes × List (Bytes × Bytes) :=
  if !c || s.kind == .none then (frame Option.none msg, s.table)
  else match s.kind with
    | .xor | .lxor => (frame (some xorComp) msg, s.table)
    | _ =>
      if msg.isEmpty then (frame (some id) msg, s.table)
      else
        let p := ((unhex impl).getD []).drop 5
        (frame (some fun _ => p) msg, (p, msg) :: s.table)

/-- an ideal receiver would get `msg` back from this frame -/
def sendSpec (msg : Bytes) (dec : Decomp) (oracle : Bool) (impl : String) : String :=
  match unhex impl with
  | Option.none => "VIOL sender produced no frame: " ++ impl
  | some w =>
    if w.length < 5 then "VIOL frame shorter than its header"
    else
      let pf := (w.headD 0).toNat
      let payload := w.drop 5
      if u32 (w.drop 1) != payload.length then "VIOL length prefix differs from the payload length"
      else if pf = 0 then (if payload = msg then "ok" else "VIOL uncompressed payload differs from the message")
      else if pf = 1 then
        (if oracle then "ok" else if dec payload == some (msg, false) then "ok" else "VIOL compressed payload does not decompress to the message")
      else "VIOL sender used an unknown payload flag"

def step (s : St) (fs : List String) (impl : String) : St × String × String :=
  match fs with
  | ["cfg", l, k, r, sv] =>
    match l.toNat?, Kind.ofString k, rcOfString r with
    | some l, some k, some r => ({ s with cfg := ⟨l, k.path, r, sv == "1"⟩, kind := k }, "ok", "-")
    | _, _, _ => (s, "bad-op", "-")
  | ["chunks", _] => (s, "ok", "-")
  | ["send", c, h] =>
    match unhex h with
    | some msg =>
      let (w, t) := sendWire s (c == "1") msg impl
      let oracle := s.kind == .gzip || s.kind == .lgzip
      ({ s with stream := s.stream ++ w, table := t }, hex w, sendSpec msg (s.dec s.kind) oracle impl)
    | Option.none => (s, "bad-op", "-")
  | ["sendn", c, n, b] =>
    match n.toNat?, unhex b with
    | some n, some (b :: _) =>
      let msg := bytesOfRep n b
      let (w, t) := sendWire s (c == "1") msg impl
      let oracle := s.kind == .gzip || s.kind == .lgzip
      ({ s with stream := s.stream ++ w, table := t }, hex w, sendSpec msg (s.dec s.kind) oracle impl)
    | _, _ => (s, "bad-op", "-")
  | ["raw", h] =>
    match unhex h with
    | some b => ({ s with stream := s.stream ++ b }, "ok", "-")
    | Option.none => (s, "bad-op", "-")
  | ["recv"] =>
    let o := runRecv s
    let obs := s.kind.observable
    let oracle := s.kind == .gzip || s.kind == .lgzip
    let v := match parseRes impl with
      | some (r, m) => recvSpec s.cfg (s.dec s.kind) oracle s.stream r m
      | Option.none => "VIOL unparsable answer: " ++ impl
    ({ s with stream := o.rest }, showRes o.res obs o.mat, v)
  | ["dec", l, k, h] =>
    match l.toNat?, Kind.ofString k, unhex h with
    | some l, some k, some d =>
      let r := decompress k.path (s.dec k) l d
      let v := match parseRes impl with
        | some (_, some m) => if m > l + 1 then s!"VIOL decompression ({pathName k.path}) materialised {m} bytes > limit+1 = {l + 1}" else "ok"
        | some (_, Option.none) => "ok"
        | Option.none => "VIOL unparsable answer: " ++ impl
      (s, showRes r.1 k.observable r.2, v)
    | _, _, _ => (s, "bad-op", "-")
  | ["chk", pf, r, hv, sv] =>
    match pf.toNat?, rcOfString r with
    | some pf, some r =>
      let out := match checkRecvPayload pf r (hv == "1") (sv == "1") with
        | Option.none => "OK" | some e => errName e
      let v := if pf ≥ 2 && impl == "OK" then "VIOL unknown payload flag accepted"
               else if pf == 1 && (hv != "1" || r != .named) && impl == "OK" then "VIOL compressed flag accepted without a usable decompressor"
               else "ok"
      (s, out, v)
    | _, _ => (s, "bad-op", "-")
  | ["lgz", l, n, _] =>
    match n.toNat? with
    | some n =>
      let lim := if l == "max" then maxInt64 else l.toNat?.getD 0
      let r := limitedRead lim (bytesOfRep n 0) false
      let v := match impl.toNat? with
        | some m => if l != "max" && m > lim + 1 then s!"VIOL gzip decompressor materialised {m} bytes > limit+1" else "ok"
        | Option.none => "VIOL " ++ impl
      (s, toString r.1.length, v)
    | Option.none => (s, "bad-op", "-")
  | ["hdr", pf, dl, cl] =>
    match pf.toNat?, dl.toNat?, cl.toNat? with
    | some pf, some dl, some cl =>
      let h := msgHeader (bytesOfRep dl 0) (bytesOfRep cl 0) pf
      let which := if dl == cl then s!"len{h.2.length}" else if h.2.length == cl then "comp" else "data"
      (s, hex h.1 ++ " " ++ which, "-")
    | _, _, _ => (s, "bad-op", "-")
  | _ => (s, "bad-op", "-")

def run : IO Unit := Driver.run ({} : St) step

end GrpcModel.Driver.Framing
