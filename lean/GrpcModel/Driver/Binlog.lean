import GrpcModel.Driver.Loop
import GrpcModel.Model.Binlog
/-! component `binlog` (C55)

    omit <key>                      → true | false                      (metadataKeyOmit)
    mdproto <md>                    → <entries sorted by key> grouped=<bool>   (mdToMetadataProto)
    trunc <h> <entries>             → T|F <entries>                     (truncateMetadata on a proto built in this order)
    msg <m> <data>                  → T|F <Length> <data>               (truncateMessage)
    build ch|sh|tr <h> <m> <md>     → T|F <entries in the order logged> (Build; Go map order is unknown)
    build cm|sm <h> <m> <data>      → T|F <Length> <data>

    bytes are hex (`-` = empty); entries `k=v,k=v` (`-` = none); md `k=v,v;k=!;…` (`!` = no values, `-` = empty md).
-/
namespace GrpcModel.Driver.Binlog
open GrpcModel.Driver GrpcModel.Binlog

def parseEntry (s : String) : Option Entry :=
  match s.splitOn "=" with
  | [k, v] => do pure ⟨← unhex k, ← unhex v⟩
  | _ => none

def parseEntries (s : String) : Option (List Entry) :=
  if s = "-" then some [] else (s.splitOn ",").mapM parseEntry

def parseGroup (s : String) : Option (Bytes × List Bytes) :=
  match s.splitOn "=" with
  | [k, vs] => do
    let k ← unhex k
    if vs = "!" then pure (k, []) else pure (k, ← (vs.splitOn ",").mapM unhex)
  | _ => none

def parseMD (s : String) : Option MD :=
  if s = "-" then some [] else (s.splitOn ";").mapM parseGroup

def showEntries (es : List Entry) : String :=
  if es.isEmpty then "-" else ",".intercalate (es.map fun e => hex e.key ++ "=" ++ hex e.value)

def showFlag (b : Bool) : String := if b then "T" else "F"

def parseFlag (s : String) : Option Bool :=
  if s = "T" then some true else if s = "F" then some false else none

/-- bytewise lexicographic `<` (Go string comparison) -/
def bytesLt : Bytes → Bytes → Bool
  | [], [] => false
  | [], _ :: _ => true
  | _ :: _, [] => false
  | a :: as, b :: bs => if a < b then true else if b < a then false else bytesLt as bs

def insertSorted (g : Bytes × List Bytes) : MD → MD
  | [] => [g]
  | h :: t => if bytesLt g.1 h.1 then g :: h :: t else h :: insertSorted g t

def sortMD (md : MD) : MD := md.foldr insertSorted []

def insertAll {α} (x : α) : List α → List (List α)
  | [] => [[x]]
  | y :: ys => (x :: y :: ys) :: (insertAll x ys).map (y :: ·)

def perms {α} : List α → List (List α)
  | [] => [[]]
  | x :: xs => (perms xs).flatMap (insertAll x)

/-- groups that produce at least one log entry -/
def loggable (md : MD) : MD := md.filter fun g => !(metadataKeyOmit g.1) && !g.2.isEmpty

def dedup {α} [DecidableEq α] : List α → List α
  | [] => []
  | x :: xs => let r := dedup xs; if r.contains x then r else x :: r

def showMeta (r : List Entry × Bool) : String := showFlag r.2 ++ " " ++ showEntries r.1

def parseMeta (impl : String) : Option (Bool × List Entry) :=
  match impl.splitOn " " with
  | [f, es] => do pure (← parseFlag f, ← parseEntries es)
  | _ => none

def parseMsg (impl : String) : Option (Bool × Nat × Bytes) :=
  match impl.splitOn " " with
  | [f, n, d] => do pure (← parseFlag f, ← n.toNat?, ← unhex d)
  | _ => none

def maxPermGroups : Nat := 6

def truncModel (h : Nat) (es : List Entry) : List Entry × Bool := truncateMetadata h es

/-- all results `Build` can produce for a header (`trunc = true`) / trailer over the map orders -/
def buildResults (trunc : Bool) (h : Nat) (md : MD) : List (List Entry × Bool) :=
  dedup ((perms (loggable md)).map fun p =>
    if trunc then truncModel h (mdToMetadataProto p) else (mdToMetadataProto p, false))

def model (fs : List String) : String :=
  match fs with
  | ["omit", k] => match unhex k with
    | some k => toString (metadataKeyOmit k)
    | none => "bad-op"
  | ["mdproto", md] => match parseMD md with
    | some md => showEntries (mdToMetadataProto (sortMD md)) ++ " grouped=true"
    | none => "bad-op"
  | ["trunc", h, es] => match h.toNat?, parseEntries es with
    | some h, some es => showMeta (truncModel h es)
    | _, _ => "bad-op"
  | ["msg", m, d] => match m.toNat?, unhex d with
    | some m, some d => let r := truncateMessage m d; s!"{showFlag r.2} {d.length} {hex r.1}"
    | _, _ => "bad-op"
  | ["build", kind, h, m, p] =>
    match h.toNat?, m.toNat? with
    | some h, some m =>
      if kind = "cm" || kind = "sm" then
        match unhex p with
        | some d => match build h m (.message d) with
          | .msg n o f => s!"{showFlag f} {n} {hex o}"
          | _ => "bad-op"
        | none => "bad-op"
      else if kind = "ch" || kind = "sh" || kind = "tr" then
        match parseMD p with
        | some md =>
          if (loggable md).length > maxPermGroups then "*" else
          match buildResults (kind != "tr") h md with
          | [r] => showMeta r
          | _ => "*"
        | none => "bad-op"
      else "bad-op"
    | _, _ => "bad-op"
  | _ => "bad-op"

def mustOmitIn (es : List Entry) : Bool := es.any fun e => mustOmit e.key

/-- best verdict over the iteration orders of the map: ok if some order makes the whole property
    hold; else the always-kept failure if some order satisfies everything else; else the first. -/
def bestVerdict (vs : List MetaVerdict) : MetaVerdict :=
  if vs.contains .ok then .ok
  else if vs.contains .traceBinDropped then .traceBinDropped
  else vs.headD .notPrefix

def monitor (fs : List String) (impl : String) : String :=
  match fs with
  | ["omit", k] => match unhex k with
    | some k => if mustOmit k && impl != "true" then "VIOL a header that must be omitted is loggable" else "ok"
    | none => "-"
  | ["mdproto", _] => match impl.splitOn " " with
    | [es, g] => match parseEntries es with
      | some es => if mustOmitIn es then "VIOL an omitted header appears in the log entry"
                   else if g != "grouped=true" then "VIOL values of a key are not logged contiguously in order"
                   else "ok"
      | none => "VIOL unparsable answer"
    | _ => "VIOL unparsable answer"
  | ["trunc", h, es] => match h.toNat?, parseEntries es, parseMeta impl with
    | some h, some es, some (flag, out) => (metaVerdict h es out flag).text
    | some _, some _, none => "VIOL unparsable answer " ++ impl
    | _, _, _ => "-"
  | ["msg", m, d] => match m.toNat?, unhex d, parseMsg impl with
    | some m, some d, some (flag, _, out) => msgVerdict m d out flag
    | some _, some _, none => "VIOL unparsable answer " ++ impl
    | _, _, _ => "-"
  | ["build", kind, h, m, p] =>
    match h.toNat?, m.toNat? with
    | some h, some m =>
      if kind = "cm" || kind = "sm" then
        match unhex p, parseMsg impl with
        | some d, some (flag, _, out) => msgVerdict m d out flag
        | some _, none => "VIOL unparsable answer " ++ impl
        | _, _ => "-"
      else match parseMD p, parseMeta impl with
        | some md, some (flag, out) =>
          if mustOmitIn out then "VIOL an omitted header appears in the log entry"
          else if (loggable md).length > maxPermGroups then "-"
          else if kind = "tr" then
            -- the header limit is not applied to trailers by Build (see LEVEL_NOTE); only the
            -- conversion is checked: some order of the map gives exactly these entries
            if flag = false && (perms (loggable md)).any (fun p => mdToMetadataProto p = out) then "ok"
            else "VIOL trailer metadata is not the loggable entries of the map"
          else (bestVerdict ((perms (loggable md)).map fun p => metaVerdict h (mdToMetadataProto p) out flag)).text
        | some _, none => "VIOL unparsable answer " ++ impl
        | _, _ => "-"
    | _, _ => "-"
  | _ => "-"

def run : IO Unit := Driver.run () (pureStepMon model monitor)

end GrpcModel.Driver.Binlog
