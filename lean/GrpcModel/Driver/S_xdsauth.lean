import GrpcModel.Driver.Loop
import GrpcModel.Model.XdsAuth
import GrpcModel.Model.XdsAuthSpec
/-! component `s_xdsauth` (C43, C44; T2) — ops and output format as in harness/synct/c_xdsauth_test.go.

The monitor (`GrpcModel.XdsAuth.Spec`) is fed only by the op lines and by the IMPLEMENTATION's
output lines (its own snapshots of the authority); it never looks at the model state. -/
namespace GrpcModel.Driver.S_xdsauth
open GrpcModel.Driver GrpcModel.XdsAuth

structure D where
  s : Option Sys := none
  mon : Spec.Mon := {}

def sortNats (l : List Nat) : List Nat := l.foldl (fun acc x => ins x acc) []
where ins (x : Nat) : List Nat → List Nat
  | [] => [x]
  | y :: ys => if x ≤ y then x :: y :: ys else y :: ins x ys

def joinOr (l : List String) (sep : String) : String := if l.isEmpty then "-" else sep.intercalate l

def showErr : Err → String
  | .nack t => "nack." ++ t
  | .notFound => "notfound"
  | .conn => "conn"
  | .other => "other"

def showCb : CbKind → String
  | .changed c => "C." ++ c
  | .resErr e => "R." ++ showErr e
  | .ambErr e => "A." ++ showErr e

def showStatus : Status → String
  | .requested => "requested" | .notExist => "notexist" | .acked => "acked" | .nacked => "nacked"

def showWS : WS → String
  | .started => "s" | .requested _ => "q" | .received => "r" | .timeout => "t"

def renderCbs (cbs : List Cb) : String :=
  let ids := sortNats ((cbs.map (·.w)).eraseDups)
  joinOr (ids.map fun id => s!"w{id}:" ++ "+".intercalate ((cbs.filter (·.w = id)).map (showCb ·.k))) ";"

def renderChan (i : Nat) (c : Chan) : String :=
  if !c.opened then s!"s{i}={c.gen}/{c.streams}/closed" else
  let inStream := c.phase == .recv
  let state := if inStream then (if c.live then "live" else "dead") else "idle"
  let flags := (if inStream then (if c.fcPending then "B" else "W") ++ (if c.msgRecv then "m" else "n") else "")
    ++ (if c.fcPending then "p" else "f")
  let unread := if inStream then c.inbox.length else 0
  let view := if inStream ∧ c.live then
      joinOr (sortStrs (c.view.map fun p => p.1 ++ ":" ++ "+".intercalate p.2)) ","
    else "-"
  let ws := joinOr (sortStrs (c.subs.map fun p => p.1.typ ++ "." ++ p.1.name ++ ":" ++ showWS p.2)) "+"
  let refs := joinOr ((sortNats c.refs).map toString) "+"
  s!"s{i}={c.gen}/{c.streams}/{state}{flags}/u{unread}/x{refs}/view={view}/ws={ws}"

def renderRes (off : Nat) (p : Key × RState) : String :=
  let r := p.2
  let w := joinOr ((sortNats r.watchers).map toString) "+"
  let c := r.cache.getD "-"
  let v := if r.version = "" then "-" else r.version
  let e := match r.err with | none => "-" | some (t, ev) => t ++ "@" ++ ev
  let ch := joinOr ((sortNats (r.chans.map (· + off))).map toString) "+"
  s!"{p.1.typ}.{p.1.name}[w={w};c={c};st={showStatus r.status};v={v};e={e};di={if r.delIgnored then 1 else 0};ch={ch}]"

/-- server indices are printed as indices into the top-level server list (`off` = where this authority's list starts) -/
def renderAuth (pre : String) (off : Nat) (a : Auth) : String :=
  let act := match a.active with | some x => toString (x + off) | none => "-"
  let opn := joinOr ((sortNats (a.opened.map (· + off))).map toString) "+"
  s!"{pre}act={act} {pre}open={opn} {pre}res={joinOr (sortStrs (a.res.map (renderRes off))) ","}"

def render (s : Sys) : String :=
  let srv := " ".intercalate ((List.range s.chans.length).map fun i => renderChan i (getChan s i))
  s!"cb={renderCbs s.cbs} {srv} {renderAuth "" 0 s.auth} {renderAuth "b" s.boff s.authB}"

def parseEntries (e : String) : Option (List (String × Upd)) :=
  if e = "-" then some [] else
  (e.splitOn ",").foldlM (fun acc x =>
    match x.splitOn ":" with
    | ["?", _] => some acc                       -- a resource without a name: not in the updates map
    | [n, "ok", c] => some ((acc.filter (·.1 ≠ n)) ++ [(n, Upd.ok c)])
    | [n, "bad", t] => some ((acc.filter (·.1 ≠ n)) ++ [(n, Upd.bad t)])
    | _ => none) []

def parseOp (n : Nat) (fs : List String) : Option Op :=
  let srvOf (x : String) : Option Nat := x.toNat?.bind fun i => if i < n then some i else none
  match fs with
  | ["watch", t, name, w] => w.toNat?.map (Op.watch t name)
  | ["unwatch", w] => w.toNat?.map Op.unwatch
  | ["respond", i, t, v, e] =>
    if t ≠ "T" ∧ t ≠ "U" then none else do
      let i ← srvOf i
      let es ← parseEntries e
      pure (Op.respond i ⟨t, v, es⟩)
  | ["break", i] => (srvOf i).map Op.brk
  | ["down", i] => (srvOf i).map Op.down
  | ["up", i] => (srvOf i).map Op.up
  | ["sleep", ms] => ms.toNat?.map Op.sleep
  | ["nobuild", l] => some (.nobuild (if l = "-" then [] else (l.splitOn "+").filterMap String.toNat?))
  | ["hold"] => some .hold
  | ["release"] => some .release
  | ["close"] => some .close
  | _ => none

def dstep : Step D := fun d fs impl =>
  match fs, d.s with
  | "cfg" :: n :: ign :: mon :: rest, none =>
    -- optional 5th field: authority "b" is configured with the top-level servers from this index on
    let boff? : Option Nat := match rest with | [] => some 0 | [b] => b.toNat? | _ => none
    match n.toNat?, boff? with
    | some n, some boff =>
      if 1 ≤ n ∧ n ≤ 3 ∧ ign.length = n ∧ boff < n then
        let ignL := ign.toList.map (· == '1')
        ({ s := some (Sys.init n ignL boff), mon := Spec.Mon.start n ignL mon boff }, "ok", "-")
      else (d, "bad-op", "-")
    | _, _ => (d, "bad-op", "-")
  | _, none => (d, if fs.head? = some "cfg" then "bad-op" else "nocfg", "-")
  | _, some s =>
    match parseOp s.chans.length fs with
    | none => (d, "bad-op", "-")
    | some op =>
      let (s', r) := step s op
      let out := match r with | .snap => render s' | .tag t => t
      let (mon, v) := Spec.observe d.mon fs impl
      ({ s := some s', mon := mon }, out, v)

def run : IO Unit := Driver.run ({} : D) dstep

end GrpcModel.Driver.S_xdsauth
