import GrpcModel.Driver.Loop
import GrpcModel.Prim.Utf8
/-! component `utf8` (primitive model used by C08; no property monitor, pure model/impl diff):
    `dec <hex>` → `<rune> <size>` (utf8.DecodeRuneInString and utf8.DecodeRune) ;
    `enc <rune>` → hex of `[]byte(string(rune(r)))` (and utf8.AppendRune) ;
    `valid <hex>` → `true|false` (utf8.ValidString) ; `san <hex>` → hex of `string([]rune(s))` -/
namespace GrpcModel.Driver.Utf8
open GrpcModel.Driver GrpcModel.Utf8

def model (fs : List String) : String :=
  match fs with
  | ["dec", h] => match unhex h with
    | some bs => let p := decodeRune bs; s!"{p.1} {p.2}"
    | none => "bad-op"
  | ["enc", n] => match n.toNat? with
    | some r => hex (encodeRune r)
    | none => "bad-op"
  | ["valid", h] => match unhex h with
    | some bs => toString (valid bs)
    | none => "bad-op"
  | ["san", h] => match unhex h with
    | some bs => hex (sanitize bs)
    | none => "bad-op"
  | _ => "bad-op"

def run : IO Unit := Driver.run () (pureStep model)

end GrpcModel.Driver.Utf8
