import GrpcModel.Driver.Loop
import GrpcModel.Model.RecvBuffer
/-!
component `recvbuffer` (C05).  Ops (one goroutine drives the real recvBuffer + recvBufferReader):

  cfg <0|1>          envconfig.EnableReceiveBufferCompaction for this case (first op; default 1)
  consts             → `<recvMsgSize> <rbUtilizationFactor> <compactionThreshold>` of the real package
  put d <hex>        recvBuffer.put(recvMsg{buffer: mem.Copy(bytes)})
  put e <k>          recvBuffer.put(recvMsg{err: k})            (1 = io.EOF)
  load               recvBuffer.load()
  read <n>           recvBufferReader.Read(n)                    (or `blocked` when it would block)
  hdr <k>            recvBufferReader.ReadMessageHeader(make([]byte,k))
  rbegin             the part of Read/ReadMessageHeader up to and including `<-r.recv.get()`
  fin <n>, finh <k>  readAdditional / readMessageHeaderAdditional on the received message

Output of every op:  `<answer> | c=<len(chan)> bl=<len(backlog)> bb=<payload bytes in backlog>
sl=<uncompactedSuffixLen> sb=<uncompactedBytes> last=<len(r.last) or -> e=<r.err or -> h=<held>`
with answer one of `ok`, `d <hex>`, `e <k>`, `blocked`, `took`, `skip`, `busy`.
-/
namespace GrpcModel.Driver.RecvBuffer
open GrpcModel.Driver GrpcModel.RecvBuffer

structure DState where
  s : State := init true
  sp : Spec := {}
  started : Bool := false

def showOut : Out → String
  | .ok => "ok"
  | .bytes b => "d " ++ hex b
  | .err e => s!"e {e}"
  | .blocked => "blocked"
  | .took => "took"
  | .skip => "skip"
  | .busy => "busy"
  | .panic => "PANIC"

def parseOut (s : String) : Option Out :=
  match s.splitOn " " with
  | ["ok"] => some .ok
  | ["d", h] => (unhex h).map .bytes
  | ["e", k] => k.toNat?.map .err
  | ["blocked"] => some .blocked
  | ["took"] => some .took
  | ["skip"] => some .skip
  | ["busy"] => some .busy
  | "PANIC" :: _ => some .panic
  | _ => none

def optLen (o : Option Bytes) : String :=
  match o with
  | none => "-"
  | some l => toString l.length

def optNat (o : Option Nat) : String :=
  match o with
  | none => "-"
  | some n => toString n

def showState (s : State) : String :=
  let c := if s.rb.chan.isSome then 1 else 0
  let bb := (s.rb.backlog.map Msg.len).foldl (· + ·) 0
  let h := match s.held with
    | none => "-"
    | some (.data d) => s!"d{d.length}"
    | some (.err e) => s!"e{e}"
  s!"c={c} bl={s.rb.backlog.length} bb={bb} sl={s.rb.sufLen} sb={s.rb.sufBytes} last={optLen s.rd.last} e={optNat s.rd.err} h={h}"

def parseOp (fs : List String) : Option Op :=
  match fs with
  | ["put", "d", h] => (unhex h).map .putD
  | ["put", "e", k] => k.toNat?.map .putE
  | ["load"] => some .load
  | ["read", n] => n.toNat?.map .read
  | ["hdr", n] => n.toNat?.map .hdr
  | ["rbegin"] => some .rbegin
  | ["fin", n] => n.toNat?.map .fin
  | ["finh", n] => n.toNat?.map .finh
  | _ => none

/-- the implementation's answer is the part before " | " -/
def implAnswer (impl : String) : String :=
  match impl.splitOn " | " with
  | a :: _ => a
  | [] => impl

def step (st : DState) (fs : List String) (impl : String) : DState × String × String :=
  match fs with
  | ["cfg", c] =>
    -- only meaningful as the first op of a case (the theorems are about `init c`)
    if st.started then (st, "late-cfg", "-") else
    ({ st with s := init (c != "0"), started := true }, "ok", "-")
  | ["consts"] =>
    (st, s!"{recvMsgSize} {GrpcModel.Generated.rbUtilizationFactor} {compactionThreshold}", "-")
  | _ =>
    match parseOp fs with
    | none => (st, "bad-op", "-")
    | some op =>
      let (s', o) := GrpcModel.RecvBuffer.step st.s op
      let mo := showOut o ++ " | " ++ showState s'
      -- monitor: the spec automaton on the IMPLEMENTATION's answer
      let (sp', verdict) := match parseOut (implAnswer impl) with
        | none => (st.sp, "VIOL unparsable or failed answer: " ++ implAnswer impl)
        | some io => match st.sp.check op io with
          | .ok sp' => (sp', "ok")
          | .error e => (st.sp, "VIOL " ++ e)
      ({ st with s := s', sp := sp', started := true }, mo, verdict)

def run : IO Unit := Driver.run ({} : DState) step

end GrpcModel.Driver.RecvBuffer
