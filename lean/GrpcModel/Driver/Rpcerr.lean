import GrpcModel.Driver.Loop
import GrpcModel.Model.Errors
/-! component `rpcerr` (C24, T1): `torpc <spec>` | `fromerr <spec>` | `restricted <code>`.
spec = wrapper:…:terminal; wrappers `w` `nse` `conn`; terminals nil eof ueof ctxd ctxc nosub st.<c> gst.<c> nilst plain. -/
namespace GrpcModel.Driver.Rpcerr
open GrpcModel.Driver GrpcModel.Errors

def parseTerminal (t : String) : Option GoErr :=
  if t = "nil" then some .nil
  else if t = "eof" then some .eof
  else if t = "ueof" then some .unexpectedEOF
  else if t = "ctxd" then some .ctxDeadline
  else if t = "ctxc" then some .ctxCanceled
  else if t = "nosub" then some .noSubConn
  else if t = "nilst" then some .nilStatus
  else if t = "plain" then some .other
  else if t.startsWith "st." then (t.drop 3).toString.toNat?.map .status
  else if t.startsWith "gst." then (t.drop 4).toString.toNat?.map .status
  else none

def wrap : List String → GoErr → Option GoErr
  | [], e => some e
  | w :: ws, e =>
    match wrap ws e with
    | none => none
    | some inner =>
      if w = "w" then some (.wrapped inner)
      else if w = "nse" then some (.newStreamErr inner)
      else if w = "conn" then some (.connErr inner)
      else none

def parseSpec (s : String) : Option GoErr :=
  let parts := s.splitOn ":"
  match parts.getLast? with
  | none => none
  | some t => match parseTerminal t with
    | none => none
    | some e => wrap parts.dropLast e

def canon : GoErr → String
  | .nil => "nil"
  | .eof => "eof"
  | e => match fromError e with
    | some c => s!"st:{c}"
    | none => "raw"

def model (fs : List String) : String :=
  match fs with
  | ["torpc", sp] =>
    match parseSpec sp with
    | some e => s!"{canon (toRPCErr e)} same={if toRPCErr e = e then 1 else 0}"
    | none => "bad-op"
  | ["fromerr", sp] =>
    match parseSpec sp with
    | some .nil => "ok=1 code=0"
    | some e => (match fromError e with
      | some c => s!"ok=1 code={c}"
      | none => "ok=0 code=2")
    | none => "bad-op"
  | ["restricted", c] =>
    match c.toNat? with
    | some n => if restricted n then "1" else "0"
    | none => "bad-op"
  | _ => "bad-op"

/-- The property on one `toRPCErr` answer: nil, io.EOF or a status; nil/EOF only for nil/EOF input.
    On `restricted`: exactly the seven codes of gRFC A54. -/
def monitor (fs : List String) (impl : String) : String :=
  match fs with
  | ["torpc", sp] =>
    match parseSpec sp, impl.splitOn " " with
    | some e, [c, _] =>
      if c = "nil" then (if stripNSE e = .nil then "ok" else "VIOL toRPCErr turned an error into nil")
      else if c = "eof" then (if stripNSE e = .eof then "ok" else "VIOL toRPCErr produced io.EOF from another error")
      else if c.startsWith "st:" then (if stripNSE e = .nil ∨ stripNSE e = .eof then "VIOL nil/EOF not passed through" else "ok")
      else "VIOL toRPCErr returned an error without a gRPC status"
    | _, _ => "VIOL unparsable answer " ++ impl
  | ["restricted", c] =>
    match c.toNat? with
    | some n =>
      let want := [3, 5, 6, 9, 10, 11, 15].contains n
      if (impl = "1") = want then "ok" else s!"VIOL IsRestrictedControlPlaneCode({n}) = {impl}"
    | none => "-"
  | _ => "-"

def run : IO Unit := Driver.run () (pureStepMon model monitor)

end GrpcModel.Driver.Rpcerr
