import GrpcModel.Driver.Loop
import GrpcModel.Model.ClusterRefs
import GrpcModel.Model.PluginRefs
/-!
component `s_clusterrefs` (C51, tie T2): the real xDS resolver + dependency manager in a synctest bubble.

  rds <r,r,…>   pause   next   select <id> <c|p<k>>   commit <id>
      r = c | c+c'+… (clusters of one route; the same cluster may occur in several routes — the resolver
      takes ONE reference per distinct cluster) | p<k> (a route whose action is cluster specifier plugin k)

Model side: every state change goes through `GrpcModel.ClusterRefs.step` (clusters, dependency manager)
and `GrpcModel.PluginRefs.step` (plugins, numbering of config selectors), run in lockstep.  The driver
only keeps the FIFO of callbacks waiting in the resolver's serializer (`tags`: an `Update` with the
plugins its routes name, or a regen scheduled by a config selector's sendNewServiceConfig) and where
the blocking callbacks sit in it (`segs`): `pause` appends one, `next` removes the oldest; callbacks in
front of the first blocking callback run as soon as they are enqueued, the others wait.

Monitor (implementation outputs + op log only): every RPC for which SelectConfig succeeded and whose
OnCommitted has not been called finds its cluster / plugin among the children of the last service
config, and its cluster among the clusters of the last XDSConfig given to the channel; a repeated
OnCommitted changes no reference count; the channel is never given a config selector that had already
been replaced by a newer one;
when nothing is pending (no blocking callback, no uncommitted RPC) the service config lists only
clusters / plugins of the current route configuration.  The cause tag in `[…]` comes from the model's
ghost state (it only serves to tell the known findings apart).
Plugins are the numbers 1000+k inside the monitor.
-/
namespace GrpcModel.Driver.S_clusterrefs
open GrpcModel.Driver GrpcModel.ClusterRefs

inductive QTag | upd (ps : List Nat) | regen
deriving Repr

structure DSt where
  m : State := init
  pm : GrpcModel.PluginRefs.State := GrpcModel.PluginRefs.init
  tags : List QTag := []             -- callbacks waiting in the serializer, oldest first
  routeP : List Nat := []            -- plugins named by the route configuration the dependency manager has
  segs : List Nat := []              -- per outstanding blocking callback: callbacks queued right behind it
  -- monitor (from the implementation's answers)
  inflight : List (Nat × Nat) := []  -- (rpc id, cluster or 1000+plugin) selected ok, not committed
  done : List Nat := []              -- committed ids
  lastRoute : List Nat := []
  lastAct : String := ""

def showName (n : Nat) : String := if n ≥ 1000 then s!"p{n - 1000}" else toString n

def showList (l : List Nat) : String :=
  if l.isEmpty then "-" else ",".intercalate ((l.mergeSort (· ≤ ·)).map showName)

def showAct (a : List Info) : String :=
  if a.isEmpty then "-" else
  ",".intercalate ((a.mergeSort (fun x y => x.name ≤ y.name)).map fun i => s!"{i.name}={i.refCount}")

def showPl (a : List (Nat × Nat)) : String :=
  if a.isEmpty then "-" else
  ",".intercalate ((a.mergeSort (fun x y => x.1 ≤ y.1)).map fun e => s!"p{e.1}={e.2}")

def status (d : DSt) : String :=
  s!"sc={showList (d.m.pushedSC ++ d.pm.pushedSP.map (· + 1000))} xc={showList d.m.pushedXC} act={showAct d.m.active} pl={showPl d.pm.active} sel={if d.pm.curSel = 0 then "-" else if d.pm.pushedSel = d.pm.curSel then "cur" else "old"}"

def isUpd : QTag → Bool | .upd _ => true | .regen => false

/-- callbacks the two models have scheduled since the last look: Updates (they carry the plugins of
    the route configuration the dependency manager has now) come before regens (stop() releases the
    clusters before the plugins) -/
def sync (d : DSt) : DSt :=
  let nu := d.m.queue.length - (d.tags.filter isUpd).length
  let nr := d.pm.pending - (d.tags.filter (fun t => !isUpd t)).length
  { d with tags := d.tags ++ List.replicate nu (.upd d.routeP) ++ List.replicate nr .regen }

/-- the serializer runs its oldest callback -/
def deliverOne (d : DSt) : DSt :=
  match d.tags with
  | [] => d
  | .upd ps :: rest =>
    sync { d with tags := rest, m := step d.m .deliver, pm := GrpcModel.PluginRefs.step d.pm (.update ps) }
  | .regen :: rest =>
    sync { d with tags := rest, m := step d.m .regen, pm := GrpcModel.PluginRefs.step d.pm .regen }

def deliverN : Nat → DSt → DSt
  | 0, d => d
  | n + 1, d => deliverN n (deliverOne d)

def drain : Nat → DSt → DSt
  | 0, d => d
  | fuel + 1, d => if d.tags.isEmpty then d else drain fuel (deliverOne d)

/-- after an op: callbacks enqueued meanwhile either run at once (no blocking callback) or wait
    behind the last one -/
def settle (d : DSt) : DSt :=
  let d := sync d
  match d.segs.reverse with
  | [] => drain 1000 d
  | last :: revInit =>
    let known := d.segs.foldl (· + ·) 0
    { d with segs := (((last + (d.tags.length - known)) :: revInit).reverse) }

def parseField (impl : String) (key : String) : Option String :=
  ((impl.splitOn " ").filterMap fun t => if t.startsWith key then some (t.drop key.length).toString else none).head?

def parseName (t : String) : Option Nat :=
  if t.startsWith "p" then ((t.drop 1).toString.toNat?).map (· + 1000) else t.toNat?

def parseNames (s : String) : List Nat := if s = "-" then [] else (s.splitOn ",").filterMap parseName

/-- `1,2+2,p1` ↦ the clusters named by the routes (with repetitions) and the plugins -/
def parseRoutes (l : String) : Option (List Nat × List Nat) :=
  if l = "-" then some ([], []) else
  ((l.splitOn ",").mapM fun (item : String) => (item.splitOn "+").mapM parseName).map fun ll =>
    let all := ll.flatten
    (all.filter (· < 1000), (all.filter (· ≥ 1000)).map (· - 1000))

def causeOf (m : State) (c : Nat) : String :=
  if c ≥ 1000 then "[plugin]" else
  match findInfo m.active c with
  | some i => if i.spent then "[clusterInfo whose unsubscribe was already used]" else "[live subscription]"
  | none => "[no clusterInfo]"

/-- the monitor: C51 on the implementation's answer for this op -/
def monitor (d : DSt) (impl : String) (recommit : Bool) (prevAct : String) : String :=
  match parseField impl "sc=", parseField impl "xc=", parseField impl "act=" with
  | some sc, some xc, some act =>
    let scl := parseNames sc
    let xcl := parseNames xc
    let actAll := act ++ " " ++ (parseField impl "pl=").getD ""
    if recommit ∧ actAll ≠ prevAct then "VIOL a second OnCommitted changed the reference counts" else
    if (parseField impl "sel=") = some "old" then "VIOL the channel was given again a config selector that a newer one had already replaced (a stopped config selector routes new RPCs)" else
    match d.inflight.find? (fun r => !scl.contains r.2) with
    | some r => s!"VIOL RPC {r.1} is routed to cluster {showName r.2} and not committed, but the service config no longer contains it {causeOf d.m r.2}"
    | none =>
      match d.inflight.find? (fun r => r.2 < 1000 && !xcl.contains r.2) with
      | some r => s!"VIOL RPC {r.1} is routed to cluster {r.2} and not committed, but the XDSConfig of the channel no longer contains it {causeOf d.m r.2}"
      | none =>
        if d.segs.isEmpty ∧ d.inflight.isEmpty then
          match scl.find? (fun c => !d.lastRoute.contains c) with
          | some c => s!"VIOL nothing refers to cluster {showName c} any more (no route, no uncommitted RPC, no queued update) but it is still in the service config {causeOf d.m c}"
          | none => "ok"
        else "ok"
  | _, _, _ => "VIOL unparsable status: " ++ impl

def step (d : DSt) (fs : List String) (impl : String) : DSt × String × String :=
  let prevAct := d.lastAct
  let finish (d : DSt) (pre : String) (recommit : Bool) : DSt × String × String :=
    let d := settle d
    let d := { d with lastAct := (parseField impl "act=").getD "" ++ " " ++ (parseField impl "pl=").getD "" }
    (d, pre ++ status d, monitor d impl recommit prevAct)
  match fs with
  | ["rds", l] =>
    match parseRoutes l with
    | some (cl, pl) =>
      finish { d with m := GrpcModel.ClusterRefs.step d.m (.rds cl), routeP := pl, lastRoute := cl ++ pl.map (· + 1000) } "" false
    | none => (d, "bad-op", "-")
  | ["pause"] => finish { (sync d) with segs := d.segs ++ [0] } "" false
  | ["next"] =>
    match d.segs with
    | [] => (d, "bad-op", "-")
    | k :: rest => finish { (deliverN k d) with segs := rest } "" false
  | ["select", id, c] =>
    match id.toNat?, parseName c with
    | some id, some c =>
      if d.m.rpcs.any (·.id == id) ∨ d.pm.rpcs.any (·.id == id) then (d, "bad-op", "-") else
      let d' : DSt := if c ≥ 1000 then { d with pm := GrpcModel.PluginRefs.step d.pm (.select id (c - 1000)) }
                      else { d with m := GrpcModel.ClusterRefs.step d.m (.select id c) }
      let okM := d'.m.rpcs.any (·.id == id) || d'.pm.rpcs.any (·.id == id)
      let okI := impl.startsWith "ok "
      let d' := { d' with inflight := if okI then d'.inflight ++ [(id, c)] else d'.inflight }
      finish d' (if okM then "ok " else if d.m.cur.isNone then "err:nocs " else "err:select ") false
    | _, _ => (d, "bad-op", "-")
  | ["commit", id] =>
    match id.toNat? with
    | some id =>
      let known := d.m.rpcs.any (·.id == id) || d.pm.rpcs.any (·.id == id)
      let recommit := d.done.contains id
      let d := { d with m := GrpcModel.ClusterRefs.step d.m (.commit id),
                        pm := GrpcModel.PluginRefs.step d.pm (.commit id),
                        inflight := d.inflight.filter (·.1 != id),
                        done := if impl.startsWith "ok " then d.done ++ [id] else d.done }
      finish d (if known then "ok " else "err:norpc ") recommit
    | none => (d, "bad-op", "-")
  | _ => (d, "bad-op", "-")

def run : IO Unit := Driver.run ({} : DSt) step

end GrpcModel.Driver.S_clusterrefs
