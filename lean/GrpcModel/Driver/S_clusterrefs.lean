import GrpcModel.Driver.Loop
import GrpcModel.Model.ClusterRefs
/-!
component `s_clusterrefs` (C51, tie T2): the real xDS resolver + dependency manager in a synctest bubble.

  rds <r,r,…>   pause   next   select <id> <c>   commit <id>      (r = c | c+c'+…: clusters of one route;
  the same cluster may occur in several routes — the resolver takes ONE reference per distinct cluster)

Model side: every state change goes through `GrpcModel.ClusterRefs.step`.  The driver only keeps track
of where the blocking callbacks sit in the resolver's serializer queue (`segs`): `pause` appends one,
`next` removes the oldest; queued `Update`s in front of the first blocking callback are delivered
(`Op.deliver`) as soon as they are enqueued, the others wait.

Monitor (implementation outputs + op log only): every RPC for which SelectConfig succeeded and whose
OnCommitted has not been called finds its cluster among the children of the last service config AND
among the clusters of the last XDSConfig given to the channel; a repeated OnCommitted changes no
reference count; when nothing is pending (no blocking callback, no uncommitted RPC) the service
config lists only clusters of the current route configuration.  The cause tag in `[…]` comes from the
model's ghost state (it only serves to tell the known finding F36 from anything else).
-/
namespace GrpcModel.Driver.S_clusterrefs
open GrpcModel.Driver GrpcModel.ClusterRefs

structure DSt where
  m : State := init
  segs : List Nat := []              -- per outstanding blocking callback: updates queued right behind it
  -- monitor (from the implementation's answers)
  inflight : List (Nat × Nat) := []  -- (rpc id, cluster) selected ok, not committed
  done : List Nat := []              -- committed ids
  lastRoute : List Nat := []
  lastAct : String := ""

def showList (l : List Nat) : String :=
  if l.isEmpty then "-" else ",".intercalate ((l.mergeSort (· ≤ ·)).map toString)

def showAct (a : List Info) : String :=
  if a.isEmpty then "-" else
  ",".intercalate ((a.mergeSort (fun x y => x.name ≤ y.name)).map fun i => s!"{i.name}={i.refCount}")

def status (s : State) : String :=
  s!"sc={showList s.pushedSC} xc={showList s.pushedXC} act={showAct s.active}"

def deliverN : Nat → State → State
  | 0, s => s
  | n + 1, s => deliverN n (step s .deliver)

def drain : Nat → State → State
  | 0, s => s
  | fuel + 1, s => if s.queue.isEmpty then s else drain fuel (step s .deliver)

/-- after an op: updates enqueued meanwhile either run at once (no blocking callback) or wait
    behind the last one -/
def settle (d : DSt) : DSt :=
  match d.segs.reverse with
  | [] => { d with m := drain 1000 d.m }
  | last :: revInit =>
    let known := d.segs.foldl (· + ·) 0
    { d with segs := (((last + (d.m.queue.length - known)) :: revInit).reverse) }

/-- `1,2+2,1` ↦ the clusters named by the routes, with repetitions: [1,2,2,1] -/
def parseRoutes (l : String) : Option (List Nat) :=
  if l = "-" then some [] else
  ((l.splitOn ",").mapM fun (item : String) => (item.splitOn "+").mapM String.toNat?).map List.flatten

def parseField (impl : String) (key : String) : Option String :=
  ((impl.splitOn " ").filterMap fun t => if t.startsWith key then some (t.drop key.length).toString else none).head?

def parseNatList (s : String) : List Nat := if s = "-" then [] else (s.splitOn ",").filterMap String.toNat?

def causeOf (m : State) (c : Nat) : String :=
  match findInfo m.active c with
  | some i => if i.spent then "[clusterInfo whose unsubscribe was already used]" else "[live subscription]"
  | none => "[no clusterInfo]"

/-- the monitor: C51 on the implementation's answer for this op -/
def monitor (d : DSt) (impl : String) (recommit : Bool) (prevAct : String) : String :=
  match parseField impl "sc=", parseField impl "xc=", parseField impl "act=" with
  | some sc, some xc, some act =>
    let scl := parseNatList sc
    let xcl := parseNatList xc
    if recommit ∧ act ≠ prevAct then "VIOL a second OnCommitted changed the reference counts" else
    match d.inflight.find? (fun r => !scl.contains r.2) with
    | some r => s!"VIOL RPC {r.1} is routed to cluster {r.2} and not committed, but the service config no longer contains it {causeOf d.m r.2}"
    | none =>
      match d.inflight.find? (fun r => !xcl.contains r.2) with
      | some r => s!"VIOL RPC {r.1} is routed to cluster {r.2} and not committed, but the XDSConfig of the channel no longer contains it {causeOf d.m r.2}"
      | none =>
        if d.segs.isEmpty ∧ d.inflight.isEmpty then
          match scl.find? (fun c => !d.lastRoute.contains c) with
          | some c => s!"VIOL nothing refers to cluster {c} any more (no route, no uncommitted RPC, no queued update) but it is still in the service config {causeOf d.m c}"
          | none => "ok"
        else "ok"
  | _, _, _ => "VIOL unparsable status: " ++ impl

def step (d : DSt) (fs : List String) (impl : String) : DSt × String × String :=
  let prevAct := d.lastAct
  let finish (d : DSt) (pre : String) (recommit : Bool) : DSt × String × String :=
    let d := settle d
    let d := { d with lastAct := (parseField impl "act=").getD "" }
    (d, pre ++ status d.m, monitor d impl recommit prevAct)
  match fs with
  | ["rds", l] =>
    match parseRoutes l with
    | some cl => finish { d with m := GrpcModel.ClusterRefs.step d.m (.rds cl), lastRoute := cl } "" false
    | none => (d, "bad-op", "-")
  | ["pause"] => finish { d with segs := d.segs ++ [0] } "" false
  | ["next"] =>
    match d.segs with
    | [] => (d, "bad-op", "-")
    | k :: rest => finish { d with m := deliverN k d.m, segs := rest } "" false
  | ["select", id, c] =>
    match id.toNat?, c.toNat? with
    | some id, some c =>
      if d.m.rpcs.any (·.id == id) then (d, "bad-op", "-") else
      let m' := GrpcModel.ClusterRefs.step d.m (.select id c)
      let okM := m'.rpcs.any (·.id == id)
      let okI := impl.startsWith "ok "
      let d := { d with m := m', inflight := if okI then d.inflight ++ [(id, c)] else d.inflight }
      finish d (if okM then "ok " else if d.m.cur.isNone then "err:nocs " else "err:select ") false
    | _, _ => (d, "bad-op", "-")
  | ["commit", id] =>
    match id.toNat? with
    | some id =>
      let known := d.m.rpcs.any (·.id == id)
      let recommit := d.done.contains id
      let d := { d with m := GrpcModel.ClusterRefs.step d.m (.commit id),
                        inflight := d.inflight.filter (·.1 != id),
                        done := if impl.startsWith "ok " then d.done ++ [id] else d.done }
      finish d (if known then "ok " else "err:norpc ") recommit
    | none => (d, "bad-op", "-")
  | _ => (d, "bad-op", "-")

def run : IO Unit := Driver.run ({} : DSt) step

end GrpcModel.Driver.S_clusterrefs
