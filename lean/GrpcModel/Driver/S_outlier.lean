import GrpcModel.Driver.Loop
import GrpcModel.Model.Outlier
/-!
component `s_outlier` (C40, tie T2).  Ops and output format: see harness/synct/c_outlier_test.go.

The real code iterates a Go map and draws from the global math/rand source.  The harness reports
the sequence of enforced / unenforced decisions of every run of intervalTimerAlgorithm (metrics
recorder + state diff); the driver turns that sequence into an `order`/`draws` argument of the
model (ejected endpoints at the positions of the `E` events, the other outliers — computed by the
model — at the positions of the `U` events) and runs the model with it.  If the reported sequence
is not one the model can produce with ANY order and draws, the model's output differs.

The monitors (verdict column) evaluate the property on the IMPLEMENTATION's output only
(previous and current snapshot of the real balancer's state, the reported decisions, the
configuration sent): M1 ejected only with volume and criterion, M2 no ejection at or above
max_ejection_percent of the true ejected share, M3 numEndpointsEjected = number of ejected current
endpoints, M4 the un-ejection rule, M5 ejected sub-connections look TRANSIENT_FAILURE to the child,
M6 a no-op config un-ejects everything.
-/
namespace GrpcModel.Driver.S_outlier
open GrpcModel.Driver GrpcModel.Outlier

/-! ### rendering -/

def showOI (o : Option Int) : String := match o with | none => "-" | some v => toString v
def showON (o : Option Nat) : String := match o with | none => "-" | some v => toString v
def joinOr (l : List String) (sep : String) : String := if l.isEmpty then "-" else sep.intercalate l

def AlgK.str : AlgK → String | .sr => "sr" | .fp => "fp"

def showEv : Ev → String
  | .eject k id => s!"E.{AlgK.str k}.{id}"
  | .umax k => s!"Um.{AlgK.str k}"
  | .uenf k => s!"Ue.{AlgK.str k}"

def showEp (withSws : Bool) (e : Ep) : String :=
  let b := s!"{e.id}:{showOI e.ej}:{e.mult}:{e.actS}:{e.actF}:{e.inS}:{e.inF}"
  if withSws then b ++ s!":{e.sws.length}" else b

def showSnap (withSws : Bool) (n : Int) (ts : Option Int) (eps : List Ep) : String :=
  s!"n={n} ts={showOI ts} eps={joinOr (eps.map (showEp withSws)) ","}"

def showFire (f : FireRec) : String :=
  s!"F {f.t} ev={joinOr (f.evs.map showEv) ";"} {showSnap false f.nEj f.ts f.eps}"

def showDl (d : Dl) : String := (if d.2.1 then "h" else "r") ++ s!"{d.1}:{d.2.2}"

/-- stable insertion sort of the deliveries by serial -/
def insDl (d : Dl) : List Dl → List Dl
  | [] => [d]
  | x :: xs => if d.1 < x.1 then d :: x :: xs else x :: insDl d xs
def sortDl (l : List Dl) : List Dl := l.foldl (fun acc d => insDl d acc) []

def showSub (w : Scw) : String :=
  s!"{w.serial}:{w.addr}:{showON w.raw}:{if w.hl then 1 else 0}:{showON w.last}"

def render (s : St) (o : Out) : String :=
  match o.err with
  | some e => e
  | none =>
    let fs := o.fires.map fun f => showFire f ++ " "
    String.join fs ++ "S " ++ showSnap true s.nEj s.timerStart s.eps
      ++ " dl=" ++ joinOr ((sortDl o.dl).map showDl) ";"
      ++ " up=" ++ joinOr (o.ups.map fun u => s!"{u.1}/{if u.2 then 1 else 0}") ";"
      ++ " subs=" ++ joinOr ((s.scws.filter fun w => !w.dead).map showSub) ","

/-! ### parsing the implementation's line -/

structure PSnap where
  n : Int
  ts : Option Int
  eps : List Ep          -- gen/sws unknown (0 / [])
deriving Repr

structure PFire where
  t : Int
  evs : List Ev
  snap : PSnap
deriving Repr

structure PSub where
  serial : Nat
  addr : Nat
  hl : Bool
  last : Option Nat
deriving Repr

structure PLine where
  fires : List PFire
  snap : PSnap
  subs : List PSub
deriving Repr

def valOf (tok : String) : String := "=".intercalate ((tok.splitOn "=").drop 1)

def optInt (s : String) : Option (Option Int) := if s = "-" then some none else s.toInt?.map some
def optNat (s : String) : Option (Option Nat) := if s = "-" then some none else s.toNat?.map some

def parseEp (s : String) : Option Ep :=
  match s.splitOn ":" with
  | id :: ts :: mult :: aS :: aF :: iS :: iF :: _ => do
    let id ← id.toNat?
    let ts ← optInt ts
    let mult ← mult.toInt?
    let aS ← aS.toNat?
    let aF ← aF.toNat?
    let iS ← iS.toNat?
    let iF ← iF.toNat?
    pure { id := id, gen := 0, actS := aS, actF := aF, inS := iS, inF := iF, ej := ts, mult := mult, sws := [] }
  | _ => none

def parseList {α} (f : String → Option α) (sep s : String) : Option (List α) :=
  if s = "-" then some [] else (s.splitOn sep).mapM f

def parseSnap (n ts eps : String) : Option PSnap := do
  let n ← (valOf n).toInt?
  let ts ← optInt (valOf ts)
  let eps ← parseList parseEp "," (valOf eps)
  pure { n := n, ts := ts, eps := eps }

def parseAlg (s : String) : Option AlgK := if s = "sr" then some .sr else if s = "fp" then some .fp else none

def parseEv (s : String) : Option Ev :=
  match s.splitOn "." with
  | ["E", k, id] => do pure (.eject (← parseAlg k) (← id.toNat?))
  | ["Um", k] => do pure (.umax (← parseAlg k))
  | ["Ue", k] => do pure (.uenf (← parseAlg k))
  | _ => none

def parseSub (s : String) : Option PSub :=
  match s.splitOn ":" with
  | [serial, addr, _, hl, last] => do
    pure { serial := ← serial.toNat?, addr := ← addr.toNat?, hl := hl = "1", last := ← optNat last }
  | _ => none

def parseFires : List String → List PFire → Option (List PFire × List String)
  | "F" :: t :: ev :: n :: ts :: eps :: rest, acc => do
    let t ← t.toInt?
    let evs ← parseList parseEv ";" (valOf ev)
    let snap ← parseSnap n ts eps
    parseFires rest (acc ++ [{ t := t, evs := evs, snap := snap }])
  | rest, acc => some (acc, rest)

def parseLine (l : String) : Option PLine := do
  let (fires, rest) ← parseFires (l.splitOn " ") []
  match rest with
  | ["S", n, ts, eps, _, _, subs] =>
    let snap ← parseSnap n ts eps
    let subs ← parseList parseSub "," (valOf subs)
    pure { fires := fires, snap := snap, subs := subs }
  | _ => none

/-! ### the order / draws argument reconstructed from the reported decisions -/

def evAlg : Ev → AlgK | .eject k _ => k | .umax k => k | .uenf k => k

/-- positions of the `E` events get their endpoint, the other positions the remaining outliers -/
def mkOrder (evs : List Ev) (outliers : List Nat) : List Nat :=
  let ejected := evs.filterMap fun e => match e with | .eject _ id => some id | _ => none
  let rest := outliers.filter fun id => !ejected.contains id
  let (ord, rest) := evs.foldl (fun (acc : List Nat × List Nat) e =>
    match e with
    | .eject _ id => (acc.1 ++ [id], acc.2)
    | _ => match acc.2 with
      | [] => acc
      | r :: rs => (acc.1 ++ [r], rs)) ([], rest)
  ord ++ rest

def mkDraws (evs : List Ev) : List Nat :=
  evs.filterMap fun e => match e with | .eject _ _ => some 0 | .uenf _ => some 99 | .umax _ => none

/-! ### float ambiguity of the success-rate criterion -/

def eps9 : Rat := (1 : Rat) / 1000000000

/-- some considered endpoint's success rate is within 1e-9 of `mean − stddev·factor/1000`:
    the binary64 evaluation of the real code may fall on either side. -/
def srTight (eps : List Ep) (a : Alg) : Bool :=
  let c := considered eps a.vol
  if !(decide (a.minHosts ≤ c.length) && c.all (fun x => decide (0 < x.rv))) then false else
  let t : Rat := (a.param : Rat) / 1000
  let v := variance c * (t * t)
  c.any fun e =>
    let d := mean c - rate e
    let clearlyOut := decide (0 < d - eps9) && decide (v < (d - eps9) * (d - eps9))
    let clearlyIn := decide (d + eps9 ≤ 0) || decide ((d + eps9) * (d + eps9) < v)
    !(clearlyOut || clearlyIn)

/-! ### running the model -/

structure DSt where
  s : St := {}
  poisoned : Bool := false        -- a float-ambiguous comparison happened: the model can no longer follow
  prev : Option PSnap := none     -- last snapshot printed by the implementation
deriving Repr

/-- one run of intervalTimerAlgorithm with the decisions the implementation reported -/
def fireWith (s : St) (evs : List Ev) : St × FireRec × List Dl × Bool :=
  match s.cfg with
  | none => let (s', r, dl) := fire s [] [] []; (s', r, dl, false)
  | some c =>
    let eps1 := s.eps.map Ep.swap
    let ids := eps1.map (·.id)
    let evsSr := evs.filter fun e => evAlg e = .sr
    let evsFp := evs.filter fun e => evAlg e = .fp
    -- outliers that are ejected already are skipped silently by both loops
    let ejBefore : List Nat := (eps1.filter Ep.ejected).map (·.id)
    let ejBySr : List Nat := evsSr.filterMap fun e => match e with | .eject _ id => some id | _ => none
    let outs (k : AlgK) (a : Option Alg) : List Nat := match a with
      | none => []
      | some a => ids.filter fun id => outSet k eps1 a id && !ejBefore.contains id && !(k == .fp && ejBySr.contains id)
    let tight := match c.sr with | some a => srTight eps1 a | none => false
    let (s', r, dl) := fire s (mkOrder evsSr (outs .sr c.sr)) (mkOrder evsFp (outs .fp c.fp)) (mkDraws (evsSr ++ evsFp))
    (s', r, dl, tight)

/-- fire every timer that is due at or before `target` (in order), then move the clock there -/
def sleepTo (fuel : Nat) (s : St) (target : Int) (pf : List PFire) (acc : List FireRec) (dl : List Dl) (tight : Bool) :
    St × List FireRec × List Dl × Bool :=
  match fuel with
  | 0 => ({ s with now := target }, acc, dl, tight)
  | fuel + 1 =>
    match s.timer with
    | none => ({ s with now := max s.now target }, acc, dl, tight)
    | some t =>
      if t ≤ target then
        let s1 := { s with now := max s.now t }
        let (s2, r, d, tg) := fireWith s1 ((pf.head?.map (·.evs)).getD [])
        sleepTo fuel s2 target pf.tail (acc ++ [r]) (dl ++ d) (tight || tg)
      else ({ s with now := max s.now target }, acc, dl, tight)

def parseAlgCfg (s : String) : Option (Option Alg) :=
  if s = "-" then some none else
  match (s.splitOn ":").mapM String.toNat? with
  | some [p, e, m, v] => some (some { param := p, enf := e, minHosts := m, vol := v })
  | _ => none

def parseCfg (f : List String) : Option (Cfg × List Nat) :=
  match f with
  | [i, b, m, p, sr, fp, ids] => do
    let c : Cfg := { interval := ← i.toInt?, base := ← b.toInt?, maxEj := ← m.toInt?, maxPct := ← p.toNat?,
                     sr := ← parseAlgCfg sr, fp := ← parseAlgCfg fp }
    pure (c, ← natList ids)
  | _ => none

/-- model step for one op; `pf` = the F records the implementation printed for it -/
def mstep (s : St) (fs : List String) (pf : List PFire) : St × Out × Bool :=
  let after (r : St × Out) : St × Out × Bool :=
    -- a timer that is due now (UpdateClientConnState with an elapsed interval) fires at once
    let (s1, fr, dl, tg) := sleepTo 2 r.1 r.1.now pf [] [] false
    (s1, { r.2 with fires := r.2.fires ++ fr, dl := r.2.dl ++ dl }, tg)
  match fs with
  | "cfg" :: rest =>
    match parseCfg rest with
    | some (c, ids) => after (update s c ids)
    | none => (s, { err := some "bad-op" }, false)
  | ["calls", a, b, c] =>
    match a.toNat?, b.toNat?, c.toNat? with
    | some a, some b, some c => let r := calls s a b c; (r.1, r.2, false)
    | _, _, _ => (s, { err := some "bad-op" }, false)
  | ["sc", a, b] =>
    match a.toNat?, b.toNat? with
    | some a, some b => if b > 3 then (s, { err := some "bad-op" }, false) else let r := scUpdate s a b; (r.1, r.2, false)
    | _, _ => (s, { err := some "bad-op" }, false)
  | ["health", a, b] =>
    match a.toNat?, b.toNat? with
    | some a, some b => let r := healthUpdate s a b; (r.1, r.2, false)
    | _, _ => (s, { err := some "bad-op" }, false)
  | ["newsc", a] =>
    match a.toNat? with
    | some a => let r := childNewSc s a; (r.1, r.2, false)
    | none => (s, { err := some "bad-op" }, false)
  | ["rmsc", a] =>
    match a.toNat? with
    | some a => let r := childRmSc s a; (r.1, r.2, false)
    | none => (s, { err := some "bad-op" }, false)
  | ["childstate", a] =>
    match a.toNat? with
    | some a => let r := childState s a; (r.1, r.2, false)
    | none => (s, { err := some "bad-op" }, false)
  | ["quiet", a] => ({ s with quiet := a = "1" }, {}, false)
  | ["sleep", d] =>
    match d.toNat? with
    | some d =>
      let (s1, fr, dl, tg) := sleepTo (d + 2) s (s.now + d) pf [] [] false
      (s1, { fires := fr, dl := dl }, tg)
    | none => (s, { err := some "bad-op" }, false)
  | ["fire"] =>
    if s.cfg.isNone then (s, { err := some "nocfg" }, false) else
    let (s1, r, dl, tg) := fireWith s ((pf.head?.map (·.evs)).getD [])
    (s1, { fires := [r], dl := dl }, tg)
  | _ => (s, { err := some "bad-op" }, false)

/-! ### monitors on the implementation's output -/

def epOf (eps : List Ep) (id : Nat) : Option Ep := eps.find? (·.id = id)

/-- numEndpointsEjected minus the number of ejected current endpoints -/
def drift (p : PSnap) : Int := p.n - (trueCount p.eps : Int)

/-- how many `E` decisions hit an endpoint that is ejected already (F5c) -/
def reEjections (pre : List Nat) (evs : List Ev) : List Nat :=
  (evs.foldl (fun (acc : List Nat × List Nat) e =>
    match e with
    | .eject _ id => if acc.1.contains id then (acc.1, acc.2 ++ [id]) else (id :: acc.1, acc.2)
    | _ => acc) (pre, [])).2

/-- M3: numEndpointsEjected = number of ejected current endpoints.  Reported at the step where
    the difference changes, with the cause when the step explains it exactly. -/
def monCounter (pre post : PSnap) (removedEj reEj : List Nat) : Option String :=
  if post.n = (trueCount post.eps : Int) ∧ drift pre = 0 then none else
  let delta := drift post - drift pre
  if delta = 0 then none
  else if delta = (removedEj.length + reEj.length : Nat) then
    some (s!"numEndpointsEjected={post.n} but {trueCount post.eps} of the {post.eps.length} current endpoints are ejected:"
      ++ (if removedEj.isEmpty then "" else s!" removed while ejected {removedEj} (counter not decremented)")
      ++ (if reEj.isEmpty then "" else s!" ejected again while ejected {reEj} (counted twice)"))
  else some s!"numEndpointsEjected={post.n} but {trueCount post.eps} of the {post.eps.length} current endpoints are ejected (unexplained change {delta})"

/-- M1 + M2 + M4 for one run of the interval timer algorithm: `pre` is the implementation's
    state before it (restricted to the current endpoints), `f` the reported decisions and the
    state after it. -/
def monFire (c : Cfg) (pre : PSnap) (f : PFire) : Option String :=
  let post := f.snap.eps
  let n := post.length
  -- M1: justification of every ejection, on the buckets the algorithm looked at (post.inS/inF)
  let m1 := f.evs.findSome? fun e => match e with
    | .eject k id =>
      match epOf post id, (match k with | .sr => c.sr | .fp => c.fp) with
      | some ep, some a =>
        if justified k post a ep then none
        else if k = .sr ∧ decide (a.vol ≤ ep.rv) ∧ decide (a.minHosts ≤ (considered post a.vol).length) ∧ (considered post a.vol).all (fun x => decide (0 < x.rv))
                ∧ variance (considered post a.vol) = 0 then
          some s!"endpoint {id} ejected by sr although all {(considered post a.vol).length} considered endpoints have the same success rate {ep.inS}/{ep.rv} [binary64 rounds the mean above it]"
        else if k = .sr ∧ srTight post a then none
        else some s!"endpoint {id} ejected by {AlgK.str k} without request volume / criterion (calls {ep.inS}+{ep.inF})"
      | _, _ => some s!"endpoint {id} ejected by {AlgK.str k} which is not configured / not a current endpoint"
    | _ => none
  -- M2: walk the decisions with the TRUE number of ejected current endpoints
  let preEj : List Nat := (pre.eps.filter fun e => e.ejected && (epOf post e.id).isSome).map (·.id)
  let m2 := (f.evs.foldl (fun (acc : List Nat × Int × Option String) e =>
    match acc.2.2, e with
    | some _, _ => acc
    | none, .eject _ id =>
      if decide (c.maxPct * n ≤ acc.1.length * 100) then
        (acc.1, acc.2.1, some s!"endpoint {id} ejected while {acc.1.length} of {n} current endpoints are ejected (max_ejection_percent {c.maxPct}, counter {acc.2.1})")
      else (if acc.1.contains id then acc.1 else id :: acc.1, acc.2.1 + 1, none)
    | none, _ => acc) (preEj, pre.n, none)).2.2
  -- M4: un-ejection rule and "nothing else changes"
  let ejNow : List Nat := f.evs.filterMap fun e => match e with | .eject _ id => some id | _ => none
  let m4 := post.findSome? fun q =>
    if ejNow.contains q.id then
      (if q.ej = some f.t then none else some s!"endpoint {q.id} reported ejected at {f.t} but its timestamp is {showOI q.ej}")
    else match epOf pre.eps q.id with
      | none => if q.ejected then some s!"endpoint {q.id} ejected without a decision" else none
      | some p =>
        match p.ej with
        | none => if q.ejected then some s!"endpoint {q.id} ejected without a decision" else none
        | some ts =>
          let due := decide (f.t > ts + ejectionTime c p.mult)
          if due && q.ejected then some s!"endpoint {q.id} still ejected at {f.t}: ejected at {ts}, multiplier {p.mult}, due after {ejectionTime c p.mult}"
          else if !due && !q.ejected then some s!"endpoint {q.id} un-ejected at {f.t} before {ts}+{ejectionTime c p.mult}"
          else none
  m1 <|> m2 <|> m4

/-- M5: every live sub-connection of an ejected current endpoint whose health listener is
    registered has TRANSIENT_FAILURE as the last state delivered to that listener. -/
def monTF (p : PLine) : Option String :=
  p.subs.findSome? fun w =>
    match epOf p.snap.eps w.addr with
    | some e =>
      if e.ejected && w.hl && w.last != some 3 then
        some s!"sub-connection {w.serial} of ejected endpoint {w.addr}: health listener registered, last state delivered {showON w.last} (not TRANSIENT_FAILURE)"
      else none
    | none => none

/-- M6 -/
def monNoop (c : Cfg) (p : PSnap) : Option String :=
  if !c.noop then none else
  p.eps.findSome? fun e =>
    if e.ejected then some s!"endpoint {e.id} still ejected after a no-op config"
    else if e.mult ≠ 0 then some s!"endpoint {e.id} multiplier {e.mult} after a no-op config" else none

def monitor (c : Option Cfg) (prev : Option PSnap) (isCfg : Bool) (p : PLine) : String :=
  match c with
  | none => "ok"
  | some c =>
    let pre0 : PSnap := prev.getD { n := 0, ts := none, eps := [] }
    let first : PSnap := (p.fires.head?.map (·.snap)).getD p.snap
    -- endpoints that were ejected and are dropped by this UpdateClientConnState
    let removedEj : List Nat := if isCfg then (pre0.eps.filter fun e => e.ejected && (epOf first.eps e.id).isNone).map (·.id) else []
    -- what the interval timer algorithm sees as its pre-state: the current endpoints only
    let cur : PSnap := { pre0 with eps := pre0.eps.filter fun e => (epOf first.eps e.id).isSome }
    let r := (p.fires.foldl (fun (acc : PSnap × PSnap × List Nat × Option String) f =>
      match acc.2.2.2 with
      | some _ => acc
      | none =>
        let reEj := reEjections ((acc.2.1.eps.filter Ep.ejected).map (·.id)) f.evs
        (f.snap, f.snap, [], monFire c acc.2.1 f <|> monCounter acc.1 f.snap acc.2.2.1 reEj)) (pre0, cur, removedEj, none))
    let r2 := r.2.2.2 <|> monCounter r.1 p.snap r.2.2.1 [] <|> monTF p <|> (if isCfg then monNoop c p.snap else none)
    match r2 with
    | some m => "VIOL " ++ m
    | none => "ok"

def step : Step DSt := fun d fs impl =>
  match parseLine impl with
  | none =>
    -- the implementation printed an error token (or garbage): no snapshot to judge
    let (s', o, _) := mstep d.s fs []
    ({ d with s := s' }, if d.poisoned then "*" else render s' o, "-")
  | some p =>
    let (s', o, tight) := mstep d.s fs p.fires
    let poisoned := d.poisoned || tight
    -- the cfg the monitors use is the one in force after this op (for `cfg` the new one)
    let isCfg := fs.head? = some "cfg"
    let v := monitor s'.cfg d.prev isCfg p
    ({ s := s', poisoned := poisoned, prev := some p.snap }, if poisoned then "*" else render s' o, v)

def run : IO Unit := Driver.run ({} : DSt) step

end GrpcModel.Driver.S_outlier
