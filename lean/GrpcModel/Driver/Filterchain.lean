import GrpcModel.Driver.Loop
import GrpcModel.Model.FilterChain
/-!
component `filterchain` (C49).  Stateful: a case installs a listener and then looks connections up.

  lis <hasDefault 0|1> <n> <chain>*n          → `ok` | `reject:prefix|srctype|overlap|empty`
  look <wild 0|1> <addr:dst> <addr:src> <port> → `fc<i>` | `default` | `err:none` | `err:multiple` | `nolis`

  chain := <dstPort 0|1> <serverNames 0|1> <tp 0|1|2> <alpn 0|1> <srcType> <nd> <cidr>* <ns> <cidr>* <np> <port>*
  cidr  := c4 <hex8> <len> | c6 <hex32> <len> | cbad <len>
  addr  := a4 <hex8> | a6 <hex32>
-/
namespace GrpcModel.Driver.Filterchain
open GrpcModel.Driver GrpcModel.FilterChain

abbrev P := StateT (List String) Option

def pfail {α : Type} : P α := fun _ => none
def tok : P String := fun s => match s with | [] => none | a :: t => some (a, t)
def pnat : P Nat := do let t ← tok; match t.toNat? with | some n => pure n | none => pfail
def pbytes : P (List UInt8) := do let t ← tok; match unhex t with | some b => pure b | none => pfail
def pbool : P Bool := do let t ← tok; if t = "1" then pure true else if t = "0" then pure false else pfail

def many {α : Type} (p : P α) : Nat → P (List α)
  | 0 => pure []
  | n + 1 => do let a ← p; let r ← many p n; pure (a :: r)

def counted {α : Type} (p : P α) : P (List α) := do let n ← pnat; many p n

def bytesToNat (bs : List UInt8) : Nat := bs.foldl (fun a b => a * 256 + b.toNat) 0

def pcidr : P RawCidr := do
  let k ← tok
  match k with
  | "c4" => do let a ← pbytes; let n ← pnat; pure (.v4 (BitVec.ofNat 32 (bytesToNat a)) n)
  | "c6" => do let a ← pbytes; let n ← pnat; pure (.v6 (BitVec.ofNat 128 (bytesToNat a)) n)
  | "cbad" => do let _ ← pnat; pure .bad
  | _ => pfail

def pchain : P ChainCfg := do
  let dp ← pbool; let sn ← pbool; let tp ← pnat; let alpn ← pbool; let st ← pnat
  let dst ← counted pcidr
  let src ← counted pcidr
  let ports ← counted pnat
  pure ⟨dp, sn, tp, alpn, st, dst, src, ports⟩

/-- `netip.AddrFromSlice(tcpAddr.IP)` followed by `Unmap()` -/
def paddr : P IP := do
  let k ← tok
  match k with
  | "a4" => do let a ← pbytes; pure (.v4 (BitVec.ofNat 32 (bytesToNat a)))
  | "a6" => do let a ← pbytes; pure (unmap (BitVec.ofNat 128 (bytesToNat a)))
  | _ => pfail

def parseAll {α : Type} (p : P α) (fs : List String) : Option α :=
  match p fs with
  | some (a, []) => some a
  | _ => none

structure St where
  table : Option Table
  hasDefault : Bool

/-- number of distinct destination-prefix entries -/
def dstEntries (t : Table) : Nat := (t.slots.map (·.dst)).eraseDups.length

/-- C49 on one implementation answer: the chosen chain must be the most specific match. -/
def monitor (t : Table) (hasDefault : Bool) (c : Conn) (impl : String) : String :=
  let want := Spec.select t hasDefault c
  if want = .multiple then
    if !c.wild ∧ dstEntries t ≥ 2 then
      s!"VIOL [F16 non-wildcard listener, {dstEntries t} destination prefixes] two filter chains of a validated listener tie for this connection (lookup answered {impl})"
    else s!"VIOL two filter chains of a validated listener tie for this connection (lookup answered {impl})"
  else if impl = want.show then "ok"
  else if !c.wild ∧ dstEntries t ≥ 2 ∧ impl = "err:multiple" then
    s!"VIOL [F16 non-wildcard listener, {dstEntries t} destination prefixes] lookup fails with 'multiple matching filter chains' but the most specific match is {want.show}"
  else s!"VIOL lookup answered {impl} but the most specific match is {want.show}"

def step : Step St := fun st fs impl =>
  match fs with
  | "lis" :: rest =>
    match parseAll (do let d ← pbool; let cs ← counted pchain; pure (d, cs)) rest with
    | none => (⟨none, false⟩, "bad-op", "-")
    | some (d, cs) =>
      -- monitor: "configurations in which two chains would tie are rejected during validation"
      match build d cs with
      | .ok t => (⟨some t, d⟩, "ok", if impl = "ok" ∨ impl.startsWith "reject:" then "ok" else s!"VIOL unexpected answer {impl}")
      | .error e =>
        let v := if e = .overlap ∧ impl = "ok" then
            "VIOL validation accepted a listener in which two filter chains have the same match criteria (a tie)"
          else "-"
        (⟨none, d⟩, e.show, v)
  | "look" :: rest =>
    match st.table with
    | none => (st, "nolis", "-")
    | some t =>
      match parseAll (do let w ← pbool; let d ← paddr; let s ← paddr; let p ← pnat; pure (⟨w, d, s, p⟩ : Conn)) rest with
      | none => (st, "bad-op", "-")
      | some c => (st, (lookup t st.hasDefault c).show, monitor t st.hasDefault c impl)
  | _ => (st, "bad-op", "-")

def run : IO Unit := Driver.run (⟨none, false⟩ : St) step

end GrpcModel.Driver.Filterchain
