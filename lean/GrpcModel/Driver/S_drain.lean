import GrpcModel.Driver.Loop
import GrpcModel.Model.ServerDrainSim
/-! component `s_drain` (C14, server half): real http2Server vs. the `ServerDrain` model; monitor = the
server clauses of C14 evaluated on the implementation's snapshots. -/
namespace GrpcModel.Driver.S_drain
open GrpcModel.Driver GrpcModel.ServerDrainSim

structure St where
  sim : Sim
  mon : MonSt
deriving Inhabited

def step : Step St := fun st fs impl =>
  let (sim, out) := st.sim.op fs
  let (mon, verdict) := monitor st.mon fs impl
  ({ sim := sim, mon := mon }, out, verdict)

def run : IO Unit := Driver.run { sim := Sim.init, mon := MonSt.init } step

end GrpcModel.Driver.S_drain
