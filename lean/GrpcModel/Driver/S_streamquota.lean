import GrpcModel.Driver.Loop
import GrpcModel.Model.QuotaWait
/-! component `s_streamquota` (C17, tie T2 on a real `http2Client`; op language in
`harness/synct/c_streamquota_test.go`).

Op-level with trace validation: which of several concurrent / parked NewStream calls obtains a
freed quota unit is decided by the Go runtime; the implementation reports WHO was created during
the op, and the driver replays a schedule of the small-step model `QuotaWait.step` that favours
exactly those callers (first attempts of the reported winners first; among movable waiters a
reported winner moves first) and then runs until no waiter can move. The model's resulting
created / failed / still-waiting sets, `streamQuota` and `waitingStreams` must equal the
implementation's. Interleavings inside an op are otherwise covered by the theorems only.

Verdict: `QuotaWait.Mon` (theorem `streamquota_monitor_ok`) on the IMPLEMENTATION's observations:
a stream is created only while the ledger quota (max − created + closed + SETTINGS deltas) is
positive; at quiescence nobody is still waiting while the ledger quota is positive; the reported
`streamQuota` equals the ledger. -/
namespace GrpcModel.Driver.S_streamquota
open GrpcModel GrpcModel.Driver GrpcModel.QuotaWait

structure DSt where
  s        : St
  m        : Mon
  max      : Nat
  started  : Bool
  known    : List Nat            -- callers ever started
  active   : List Nat            -- callers that hold an open stream (model)
  iactive  : List Nat            -- … according to the implementation's reports
  created  : List Nat            -- model: created during this op
  failed   : List Nat

def dinit : DSt :=
  { s := init 1, m := Mon.init 1, max := 1, started := false, known := [], active := [], iactive := [],
    created := [], failed := [] }

def insertNat (x : Nat) : List Nat → List Nat
  | [] => [x]
  | y :: t => if x ≤ y then x :: y :: t else y :: insertNat x t

def sortNat (l : List Nat) : List Nat := l.foldl (fun acc x => insertNat x acc) []

def showIds (l : List Nat) : String := if l.isEmpty then "-" else ",".intercalate ((sortNat l).map toString)

def parseIds (s : String) : Option (List Nat) :=
  if s = "-" then some [] else (s.splitOn ",").mapM String.toNat?

structure ImplOut where
  created : List Nat
  failed  : List Nat
  waiting : List Nat
  q       : Int
  ws      : Nat

def field (pfx : String) (s : String) : Option String :=
  if s.startsWith pfx then some (s.drop pfx.length).toString else none

def parseImpl (s : String) : Option ImplOut :=
  match s.splitOn " " with
  | [a, b, c, d, e] => do
    let cr ← (field "created=" a) >>= parseIds
    let fl ← (field "failed=" b) >>= parseIds
    let wt ← (field "waiting=" c) >>= parseIds
    let q ← (field "q=" d) >>= String.toInt?
    let ws ← (field "ws=" e) >>= String.toNat?
    pure { created := cr, failed := fl, waiting := wt, q, ws }
  | _ => none

/-- one model op, recording creations -/
def act (d : DSt) (o : Op) (w : Nat) : DSt :=
  let r := step d.s o
  match r.2 with
  | .created => { d with s := r.1, created := w :: d.created, active := w :: d.active }
  | .gaveUp => { d with s := r.1, failed := w :: d.failed }
  | _ => { d with s := r.1 }

/-- run waiters until nobody can move; a waiter the implementation reported as created moves first -/
def settle (winners : List Nat) (onlyWinners : Bool) : Nat → DSt → DSt
  | 0, d => d
  | n + 1, d =>
    let movable := d.s.waiters.filter (canMove d.s)
    let win := movable.find? fun p => winners.contains p.1 && !d.created.contains p.1
    let pick := if onlyWinners then win else win.orElse fun _ => movable.head?
    match pick with
    | none => d
    | some (w, .retry) => settle winners onlyWinners n (act d (.retry w) w)
    | some (w, .parked _) => settle winners onlyWinners n (act d (.wake w) w)

inductive Item | new (w : Nat) | close (w : Nat) | giveup (w : Nat)

def parseItem (s : String) : Option Item :=
  match s.splitOn ":" with
  | ["new", n] => n.toNat?.map .new
  | ["close", n] => n.toNat?.map .close
  | ["giveup", n] => n.toNat?.map .giveup
  | _ => none

def showV : Verdict → Option String
  | .viol c => some ("VIOL " ++ violText c)
  | _ => none

def step' : Step DSt := fun d fs impl =>
  let io? := parseImpl impl
  let io := io?.getD { created := [], failed := [], waiting := [], q := 0, ws := 0 }
  let go (d : DSt) (items : List Item) (newMax : Option Nat) : DSt × String × String :=
    let d := { d with created := [], failed := [] }
    -- external events: closes and SETTINGS first, then first attempts (reported winners first), then give-ups
    let closes := (items.filterMap fun i => match i with | .close w => some w | _ => none).eraseDups
    let news := items.filterMap fun i => match i with | .new w => some w | _ => none
    let gives := items.filterMap fun i => match i with | .giveup w => some w | _ => none
    let realCloses := closes.filter fun w => d.active.contains w
    let d := realCloses.foldl (fun d w => { (act d .closeStream w) with active := d.active.filter (· ≠ w) }) d
    let (d, delta) := match newMax with
      | some k => let dl : Int := (k : Int) - (d.max : Int); ({ (act d (.settings dl) 0) with max := k }, dl)
      | none => (d, 0)
    let news := news.filter fun w => !d.known.contains w
    -- a give-up the implementation reports as having failed its NewStream happened before that caller was woken
    let givesEarly := gives.filter (io.failed.contains ·)
    let d := givesEarly.foldl (fun d w => act d (.giveUp w) w) d
    -- the callers the implementation reports as created go first: first attempts of reported winners,
    -- then parked reported winners; only then the other first attempts
    let d := (news.filter (io.created.contains ·)).foldl (fun d w => act { d with known := w :: d.known } (.newStream w) w) d
    let d := settle io.created true 64 d
    let d := (news.filter (!io.created.contains ·)).foldl (fun d w => act { d with known := w :: d.known } (.newStream w) w) d
    let d := settle io.created false 64 d
    let d := (gives.filter (!io.failed.contains ·)).foldl (fun d w => act d (.giveUp w) w) d
    let d := settle io.created false 64 d
    let waitingM := d.s.waiters.map (·.1)
    let mo := s!"created={showIds d.created} failed={showIds d.failed} waiting={showIds waitingM} q={d.s.quota} ws={d.s.waiting}"
    -- monitor on the implementation's observations (closes of streams the implementation says exist)
    let iCloses := closes.filter fun w => d.iactive.contains w
    let m0 := iCloses.foldl (fun m _ => (m.step .closeStream .none).1) d.m
    let m1 := if newMax.isSome then (m0.step (.settings delta) .none).1 else m0
    let (m2, v1) := io.created.foldl (fun (acc : Mon × Option String) _ =>
        let r := acc.1.step (.newStream 0) .created
        (r.1, acc.2.orElse fun _ => showV r.2)) (m1, none)
    let v2 := showV (m2.quiescent (!io.waiting.isEmpty))
    let v3 := showV (m2.ledger io.q)
    let v := if io?.isNone then "VIOL unparsable implementation output" else (v1.orElse fun _ => v2.orElse fun _ => v3).getD "ok"
    let iactive := (d.iactive.filter fun w => !iCloses.contains w) ++ io.created
    ({ d with m := m2, iactive := iactive }, mo, v)
  match fs with
  | ["max0", n] =>
    match n.toNat? with
    | some k =>
      if d.started then (d, "bad-op already connected", "-")
      else ({ dinit with s := init k, m := Mon.init k, max := k, started := true },
            s!"created=- failed=- waiting=- q={k} ws=0", "-")
    | none => (d, "bad-op", "-")
  | ["new", n] => match n.toNat? with
    | some w => go { d with started := true } [.new w] none
    | none => (d, "bad-op", "-")
  | ["close", n] => match n.toNat? with
    | some w => go { d with started := true } [.close w] none
    | none => (d, "bad-op", "-")
  | ["giveup", n] => match n.toNat? with
    | some w => go { d with started := true } [.giveup w] none
    | none => (d, "bad-op", "-")
  | "closeall" :: ws => match ws.mapM String.toNat? with
    | some l => go { d with started := true } (l.map .close) none
    | none => (d, "bad-op", "-")
  | ["max", n] => match n.toNat? with
    | some k => go { d with started := true } [] (some k)
    | none => (d, "bad-op", "-")
  | "conc" :: items => match items.mapM parseItem with
    | some l => go { d with started := true } l none
    | none => (d, "bad-op", "-")
  | _ => (d, "bad-op", "-")

def run : IO Unit := Driver.run dinit step'

end GrpcModel.Driver.S_streamquota
