import GrpcModel.Driver.Loop
import GrpcModel.Model.ServerAdmission
/-!
component `s_admit` (C12, tie T2): a real grpc.Server against a scripted raw-frame client.

  start <MaxConcurrentStreams> [mhl=<MaxHeaderListSize>]
  hdr <id> <es|-> <hexname>:<hexvalue> …      rst <id> <code>      data <id> <es|->
  finish <id>      sleep <ms>      frame …      raw …

The model predicts the whole line while the connection is in a state it tracks; after a connection
error, a raw frame or raw bytes it prints `*` and only the monitor keeps judging.
The monitor evaluates C12 on the implementation's line alone (plus the op that was sent and the
previous line): a handler may start only for a HEADERS op whose request is legal, the active-stream
and running-handler counts never exceed MaxConcurrentStreams, an otherwise legal request arriving
at the limit is answered with RST_STREAM(REFUSED_STREAM).
-/
namespace GrpcModel.Driver.S_admit
open GrpcModel.Driver GrpcModel.ServerAdmission

def registered : List (Bytes × Bytes) := [(str "s", str "m")]

structure Mon where
  maxStreams : Nat := 4294967295
  maxHL : Nat := 16777216
  prevAct : Nat := 0
  prevMx : Nat := 0
  /-- the property's own notion of the highest stream id that was LEGAL when it arrived (odd, above
  every earlier legal id, header block accepted untruncated by the framer) — computed from the ops the
  client sent, never from the server's `maxStreamID` field: whatever the server then does with such a
  request (415, 400, REFUSED_STREAM, 405, deadline, handler), its id is used up -/
  hi : Nat := 0
  goAway : Bool := false

structure DS where
  started : Bool := false
  tracked : Bool := true
  s : SrvState := initState 0 16777216
  mon : Mon := {}

def kv (fs : List String) (k : String) : Option String :=
  fs.findSome? fun f => if f.startsWith (k ++ "=") then some (f.drop (k.length + 1)).toString else none

def parseFieldTok (t : String) : Option Field :=
  match t.splitOn ":" with
  | [n, v] => do
    let n ← unhex n
    let v ← unhex v
    pure ⟨n, v⟩
  | _ => none

def outStr : Out → Option String
  | .rst id c => some s!"R{id}:{c}"
  | .trailers id h g => some s!"H{id}:{h}:{g}"
  | .goAway c => some s!"G{c}"
  | .closed => some "X"
  | .handlerStarted _ => none

def insertSorted (x : String) : List String → List String
  | [] => [x]
  | y :: t => if x < y then x :: y :: t else y :: insertSorted x t

def sortStrings (l : List String) : List String := l.foldl (fun acc x => insertSorted x acc) []

def render (s : SrvState) (outs : List Out) (sortEv : Bool) (closed : Bool) : String :=
  let evs := outs.filterMap outStr
  let evs := if sortEv then sortStrings evs else evs
  let ev := if evs.isEmpty then "-" else ",".intercalate evs
  let st := sortStrings (outs.filterMap fun o => match o with | .handlerStarted id => some (toString id) | _ => none)
  let stS := if st.isEmpty then "-" else ",".intercalate st
  let run := (s.active.filter (·.running)).length
  if closed then s!"ev={ev} started={stS} run=0 act=- mx=- closed=1"
  else s!"ev={ev} started={stS} run={run} act={s.active.length} mx={s.maxStreamID} closed=0"

def toOp (fs : List String) : Option Op :=
  match fs with
  | "hdr" :: id :: es :: rest => do
    let id ← id.toNat?
    let fields ← rest.mapM parseFieldTok
    pure (.headers ⟨id, es == "es", fields⟩)
  | ["rst", id, _] => id.toNat?.map .rst
  | ["data", id, es] => id.toNat?.map fun id => .data id (es == "es")
  | ["finish", id] => id.toNat?.map .finish
  | ["sleep", ms] => ms.toNat?.map fun ms => .sleep (ms * 1000000)
  | _ => none

/-! ### monitor -/

structure Impl where
  ev : List String
  started : List String
  run : Nat
  act : Option Nat
  mx : Option Nat
  closed : Bool

def parseImpl (line : String) : Option Impl := do
  let fs := fields line
  let lst (x : String) : List String := if x == "-" then [] else x.splitOn ","
  let ev ← kv fs "ev"
  let st ← kv fs "started"
  let run ← (← kv fs "run").toNat?
  let act ← kv fs "act"
  let mx ← kv fs "mx"
  let c ← kv fs "closed"
  pure { ev := lst ev, started := lst st, run := run, act := act.toNat?, mx := mx.toNat?, closed := c == "1" }

/-- why a request is not legal (none = legal); strict content-type reading -/
def illegalReason (raw : List Field) : Option String :=
  if !(countName raw (str ":method") == 1 && raw.all (fun f => f.name != str ":method" || f.value == str "POST")) then
    some "a non-POST (or missing/duplicate) :method"
  else if !raw.any (fun f => f.name == str "content-type" && validContentType f.value) then
    some "no valid gRPC content-type"
  else if !raw.all (fun f => f.name != str "grpc-timeout" || (GrpcModel.Timeout.decodeBytes f.value).isSome) then
    some "a malformed grpc-timeout"
  else if !(countName raw (str ":authority") ≤ 1 && countName raw (str "host") ≤ 1) then
    some "duplicate :authority/host"
  else if !raw.all (fun f => !hasSuffix f.name (str "-bin") || (isReservedHeader f.name && !isWhitelistedHeader f.name) || binHeaderOK f.value) then
    some "undecodable binary metadata"
  else if !raw.all (fun f => f.name != str "connection") then
    some "a connection header"
  else if !raw.all (fun f => f.name != str "content-type" || validContentType f.value) then
    some "an invalid content-type field (another content-type field is valid)"
  else none

def monitor (m : Mon) (fs : List String) (line : String) : Mon × String :=
  match parseImpl line with
  | none => (m, "-")
  | some im =>
    let m := match fs with
      | "start" :: n :: rest =>
        let n := n.toNat?.getD 0
        { m with maxStreams := if n == 0 then 4294967295 else n,
                 maxHL := ((kv rest "mhl").bind String.toNat?).getD 16777216 }
      | _ => m
    let sawGoAway := im.ev.any (·.startsWith "G")
    let verdict : String :=
      if im.run > m.maxStreams then s!"VIOL {im.run} handlers running but MaxConcurrentStreams is {m.maxStreams}"
      else if (im.act.getD 0) > m.maxStreams then s!"VIOL {im.act.getD 0} active streams but MaxConcurrentStreams is {m.maxStreams}"
      else match fs with
        | "hdr" :: id :: _ :: rest =>
          match id.toNat?, rest.mapM parseFieldTok with
          | some id, some raw =>
            if !im.started.isEmpty then
              if m.goAway then "VIOL handler ran after the server sent GOAWAY"
              else if id % 2 != 1 || id ≤ max m.prevMx m.hi then s!"VIOL handler ran for illegal stream id {id} (highest id used before: {max m.prevMx m.hi})"
              else if m.prevAct ≥ m.maxStreams then s!"VIOL handler ran although {m.prevAct} streams were active (MaxConcurrentStreams {m.maxStreams})"
              else match illegalReason raw with
                | some why => s!"VIOL handler ran for a request with {why}"
                | none => "ok"
            else
              -- excess streams get RST_STREAM(REFUSED_STREAM)
              let framerOK := match framer m.maxHL raw with | .ok _ tr => !tr | .streamErr => false
              if !m.goAway && !im.closed && id % 2 == 1 && id > max m.prevMx m.hi && framerOK && headerLegalB false raw
                  && m.prevAct ≥ m.maxStreams && !im.ev.contains s!"R{id}:7" then
                s!"VIOL stream {id} arrived with {m.prevAct} active streams (limit {m.maxStreams}) and was not refused with REFUSED_STREAM"
              else "ok"
          | _, _ => "-"
        | _ =>
          if !im.started.isEmpty then "VIOL a handler started on an op that is not a HEADERS frame" else "ok"
    let hi := match fs with
      | "hdr" :: id :: _ :: rest =>
        match id.toNat?, rest.mapM parseFieldTok with
        | some id, some raw =>
          let framerOK := match framer m.maxHL raw with | .ok _ tr => !tr | .streamErr => false
          if id % 2 == 1 && id > m.hi && framerOK then id else m.hi
        | _, _ => m.hi
      | _ => m.hi
    let m := { m with prevAct := im.act.getD m.prevAct, prevMx := (match im.mx with | some 4294967295 => m.prevMx | some v => v | none => m.prevMx), goAway := m.goAway || sawGoAway, hi := hi }
    (m, verdict)

/-! ### step -/

def step (d : DS) (fs : List String) (impl : String) : DS × String × String :=
  let (mon, verdict) := monitor d.mon fs impl
  let d := { d with mon := mon }
  match fs with
  | "start" :: n :: rest =>
    if d.started then (d, "bad-op", verdict) else
    let mhl := ((kv rest "mhl").bind String.toNat?).getD 16777216
    let s := initState (n.toNat?.getD 0) mhl
    ({ d with started := true, s := s }, render s [] false false, verdict)
  | _ =>
    if !d.started then (d, "not-started", verdict)
    else if !d.tracked then (d, "*", verdict)
    else match toOp fs with
      | none =>
        match fs with
        | "frame" :: _ => ({ d with tracked := false }, "*", verdict)
        | "raw" :: _ => ({ d with tracked := false }, "*", verdict)
        | _ => (d, "bad-op", verdict)
      | some op =>
        let (s, outs) := ServerAdmission.step registered d.s op
        let isSleep := match op with | .sleep _ => true | _ => false
        let closed := outs.contains .closed
        let lost := closed || outs.any (fun o => match o with | .goAway _ => true | _ => false)
        ({ d with s := s, tracked := !lost }, render s outs isSleep closed, verdict)

def run : IO Unit := Driver.run ({} : DS) step

end GrpcModel.Driver.S_admit
