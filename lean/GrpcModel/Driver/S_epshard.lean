import GrpcModel.Driver.Loop
import GrpcModel.Model.EpShard
/-! component `s_epshard` (C35): the real `endpointsharding` balancer with stub children, in a bubble.

    new <disableAutoReconnect 0|1>
    update <r> <ep/state/err,...|->     state ∈ I C R T S or - (child reports nothing)
    cs <child id> <state> <picker 0|1> <r>
    reserr <r> | exitidle <r> | close
    pick <k> | wrappick <start> <k>
    pickold <g> <k>        k picks on the g-th most recently superseded picker (0 = the previous one)

  answers:  `calls=… err=… push=<agg>;<c1@e3:R+,…>;<c1,nil,err…>;<next>`  /  `picks=c1,c2,…` -/
namespace GrpcModel.Driver.S_epshard
open GrpcModel.Driver GrpcModel.EpShard GrpcModel.LbConnState

def commaList (s : String) : List String := if s = "-" ∨ s = "" then [] else s.splitOn ","
def showList (l : List String) : String := if l.isEmpty then "-" else ",".intercalate l

def parseEntry (s : String) : Option Entry :=
  match s.splitOn "/" with
  | [e, st, er] => do
    let ep ← e.toNat?
    let rep ← if st = "-" then some none else (ConnState.parse st).map some
    let err ← if er = "0" then some false else if er = "1" then some true else none
    pure ⟨ep, rep, err⟩
  | _ => none

def parseBool (s : String) : Option Bool := if s = "0" then some false else if s = "1" then some true else none

def parseOp (fs : List String) : Option Op :=
  match fs with
  | ["update", r, es] => do pure (.update (← r.toNat?) (← (commaList es).mapM parseEntry))
  | ["cs", id, st, pk, r] => do pure (.cs (← id.toNat?) (← ConnState.parse st) (← parseBool pk) (← r.toNat?))
  | ["reserr", r] => do pure (.reserr (← r.toNat?))
  | ["exitidle", r] => do pure (.exitidle (← r.toNat?))
  | ["close"] => some .close
  | ["pick", k] => do pure (.pick (← k.toNat?))
  | ["wrappick", st, k] => do pure (.wrappick (← st.toNat?) (← k.toNat?))
  | ["pickold", g, k] => do pure (.pickold (← g.toNat?) (← k.toNat?))
  | _ => none

def showCall : Call → String
  | .build i => s!"b{i}" | .ucc i => s!"u{i}" | .close i => s!"x{i}" | .reserr i => s!"re{i}" | .exitIdle i => s!"ei{i}"

def callKey : Call → Nat × Nat
  | .build i => (0, i) | .ucc i => (0, i) | .close i => (1, i) | .reserr i => (2, i) | .exitIdle i => (3, i)

def insertBy {α : Type} (lt : α → α → Bool) (a : α) : List α → List α
  | [] => [a]
  | b :: t => if lt a b then a :: b :: t else b :: insertBy lt a t
def sortBy {α : Type} (lt : α → α → Bool) (l : List α) : List α := l.foldr (insertBy lt) []

/-- builds / UpdateClientConnState calls keep their order (it is the rotated order); calls made
    while ranging over the endpoint map are sorted (kind, child id). -/
def canonCalls (l : List Call) : List Call :=
  let ord := l.filter fun c => (callKey c).1 = 0
  let rest := l.filter fun c => (callKey c).1 ≠ 0
  ord ++ sortBy (fun a b => (callKey a).1 < (callKey b).1 ∨ ((callKey a).1 = (callKey b).1 ∧ (callKey a).2 < (callKey b).2)) rest

def showDel : Del → String
  | .child i _ => s!"c{i}" | .nilp => "nil" | .err => "err"

def showCState (c : CState) : String := s!"c{c.id}@e{c.ep}:{c.state.letter}{if c.hasPicker then "+" else "-"}"

def showPushed (p : Pushed) : String :=
  let cs := sortBy (fun a b => a.id < b.id) p.childStates
  s!"{p.agg.letter};{showList (cs.map showCState)};{showList (p.pickers.map showDel)};{p.next.toNat}"

def showErr : UErr → String
  | .none => "nil" | .child i => s!"c{i}" | .bad => "bad"

def showOut (o : Out) : String :=
  match o.picks with
  | some ds => s!"picks={showList (ds.map showDel)}"
  | none =>
    let push := match o.push with | some p => showPushed p | none => "-"
    -- `go es.exitIdle()` goroutines may run before or after the op returns: one canonical list
    s!"calls={showList ((canonCalls (o.calls ++ o.async)).map showCall)} err={showErr o.err} push={push}"

/-! parsing the implementation's answer -/

def parseCState (s : String) : Option CState :=
  match s.splitOn "@" with
  | [c, rest] =>
    match rest.splitOn ":" with
    | [e, sp] => do
      let id ← (c.drop 1).toString.toNat?
      let ep ← (e.drop 1).toString.toNat?
      let st ← ConnState.parse (sp.take 1).toString
      let pk ← if sp.endsWith "+" then some true else if sp.endsWith "-" then some false else none
      if c.startsWith "c" ∧ e.startsWith "e" then pure ⟨id, ep, st, pk⟩ else none
    | _ => none
  | _ => none

def parseDel (cs : List CState) (s : String) : Option Del :=
  if s = "nil" then some .nilp else if s = "err" then some .err
  else if s.startsWith "c" then do
    let id ← (s.drop 1).toString.toNat?
    -- the endpoint of the child comes from the child states of the same answer (0 if unknown)
    pure (.child id ((cs.find? (·.id = id)).map (·.ep) |>.getD 0))
  else none

def field (impl key : String) : Option String :=
  (fields impl).findSome? fun f => if f.startsWith (key ++ "=") then some (f.drop (key.length + 1)).toString else none

def parsePushed (impl : String) : Option Pushed := do
  let f ← field impl "push"
  match f.splitOn ";" with
  | [a, cs, ps, nx] =>
    let agg ← ConnState.parse a
    let cs ← (commaList cs).mapM parseCState
    let ps ← (commaList ps).mapM (parseDel cs)
    let nx ← nx.toNat?
    pure ⟨agg, ps, BitVec.ofNat 32 nx, cs⟩
  | _ => none

/-- the model's pushed state always lists child states in insertion order; the monitor and the
    parsed implementation value use id order — order of `childStates` is irrelevant to `pushOk`
    only up to the permutation check, so the implementation's picker order is judged against the
    implementation's own child list in id order. -/
structure DSt where
  s : St := {}
  started : Bool := false
  implLast : Option Pushed := none
  implWindow : List Del := []
  /-- superseded pickers as the IMPLEMENTATION pushed them, with the picks made on each since -/
  implOlds : List (Pushed × List Del × Nat) := []
  /-- value of `next` when the current window of picks started -/
  winStart : Nat := 0

def monitorPush (impl : String) : Option Pushed × String :=
  match field impl "push" with
  | some "-" => (none, "-")
  | none => (none, "-")
  | some _ =>
    match parsePushed impl with
    | none => (none, "VIOL unparsable pushed state")
    | some p =>
      if p.agg != prec (p.childStates.map (·.state)) then
        (some p, s!"VIOL aggregate state {p.agg.letter} is not the precedence-rule state {(prec (p.childStates.map (·.state))).letter}")
      else if !(p.pickers.isPerm (expectedPickers p.childStates p.agg)) then
        (some p, "VIOL picker does not hold exactly the children in the aggregate state")
      -- (where the rotation starts is not part of the property: a start index the model does not predict shows up as a
      --  model/implementation difference, and fairness is judged on the picks themselves)
      else (some p, "ok")

/-- C35 on the answer to a run of picks on picker `p` (as the implementation pushed it) whose earlier
    consecutive picks are `prev`; returns the new window -/
def monitorPicks (p : Pushed) (prev : List Del) (nextBefore : Nat) (k : Nat) (impl : String) (fresh : Bool) : List Del × String :=
  match field impl "picks" with
  | some f =>
    match (commaList f).mapM (parseDel p.childStates) with
    | none => ([], "VIOL unparsable picks")
    | some ds =>
      let w := if fresh then ds else prev ++ ds
      if ds.length ≠ k then (w, "VIOL wrong number of picks")
      else match ds.find? (fun x => !(delegateOk p x)) with
      | some x => (w, s!"VIOL delegated to {showDel x} which is not a child in the aggregate state")
      | none =>
        if windowFair p ds && windowFair p w then (w, "ok")
        else if nextBefore + w.length ≥ 4294967296 then (w, "VIOL round robin share is not floor/ceil of k/n across the uint32 index wrap")
        else (w, "VIOL round robin share is not floor/ceil of k/n")
  | none => ([], "-")

def monitorPick (d : DSt) (nextBefore : Nat) (k : Nat) (impl : String) (fresh : Bool) : List Del × String :=
  match d.implLast with
  | some p => monitorPicks p d.implWindow nextBefore k impl fresh
  | none => ([], "-")

def step (d : DSt) (fs : List String) (impl : String) : DSt × String × String :=
  match fs with
  | ["new", da] =>
    match parseBool da with
    | some b => ({ s := { disableAuto := b }, started := true }, "ok", "-")
    | none => (d, "bad-op", "-")
  | _ =>
    match parseOp fs with
    | none => (d, "bad-op", "-")
    | some op =>
      -- a `cs` naming a child that was never built is rejected by the harness
      let known := match op with
        | .cs id _ _ _ => (d.s.endpoints ++ d.s.gone).any (·.id = id)
        | .pickold g _ => decide (g < d.s.olds.length)
        | _ => true
      if !known then (d, "bad-op", "-") else
      let implP := parsePushed impl
      let oracle := match implP with | some p => p.pickers | none => []
      let (s', out) := EpShard.step d.s op oracle
      let mo := showOut out
      match op with
      | .pick k =>
        let (w, v) := monitorPick d d.winStart k impl false
        ({ d with s := s', implWindow := w }, mo, v)
      | .wrappick st k =>
        let (w, v) := monitorPick d st k impl true
        ({ d with s := s', implWindow := w, winStart := st % 4294967296 }, mo, v)
      | .pickold g k =>
        -- k consecutive picks on a superseded picker: its own rotation, whatever was picked elsewhere in between
        match d.implOlds[g]? with
        | none => ({ d with s := s' }, mo, "-")
        | some (p, prev, start) =>
          let (w, v) := monitorPicks p prev start k impl false
          ({ d with s := s', implOlds := d.implOlds.set g (p, w, start) }, mo, v)
      | _ =>
        let (p, v) := monitorPush impl
        match p with
        | some p =>
          let olds := match d.implLast with
            | some q => (q, d.implWindow, d.winStart) :: d.implOlds
            | none => d.implOlds
          ({ d with s := s', implLast := some p, implWindow := [], winStart := p.next.toNat, implOlds := olds }, mo, v)
        | none => ({ d with s := s' }, mo, v)

def run : IO Unit := Driver.run ({} : DSt) step

end GrpcModel.Driver.S_epshard
