import GrpcModel.Driver.Loop
import GrpcModel.Model.RLSAdaptive
/-! component `rlsadaptive` (C41).  Ops: see harness/cmd/impl/c_rlsadaptive.go. -/
namespace GrpcModel.Driver.Rlsadaptive
open GrpcModel.Driver GrpcModel.RLSAdaptive

structure DSt where
  lb : LB := newLookback 1 1
  th : Thr := newThrottler
  ops : List Op := []            -- every ladd / lsum since the last lnew (for the monitor)
  tAcc : List Op := []           -- the same for the throttler's two lookbacks
  tThr : List Op := []

def showLB (l : LB) : String :=
  let nz := (List.range l.bins).filterMap fun i => if l.buf i ≠ 0 then some s!"{i}:{l.buf i}" else none
  s!"head={l.head} total={l.total} buf={if nz.isEmpty then "-" else ",".intercalate nz}"

def showT (t : Thr) : String := s!"acc={t.accepts.head}:{t.accepts.total} thr={t.throttles.head}:{t.throttles.total}"

def field (impl key : String) : Option String :=
  (impl.splitOn " ").findSome? fun w =>
    match w.splitOn "=" with
    | [k, v] => if k = key then some v else none
    | _ => none

/-- C41 (lookback clause): the total the IMPLEMENTATION reports equals the sum of the values added to
    the bins in (head − bins, head], head being the largest bin any call has mentioned. -/
def monLB (width bins : Nat) (ops : List Op) (implTotal : Option Int) : String :=
  match implTotal with
  | none => "VIOL unparsable"
  | some tot =>
    if tot = windowSum (hist width ops) (maxBin width ops) bins then "ok"
    else s!"VIOL reported sum {tot} is not the sum over the last {bins} bins ({windowSum (hist width ops) (maxBin width ops) bins})"

def pairTotal (s : String) : Option Int := match s.splitOn ":" with
  | [_, t] => t.toInt?
  | _ => none

def step : Step DSt := fun d fs impl =>
  match fs.map String.toInt?, fs with
  | [_, some b, some dur], ["lnew", _, _] =>
    if b ≤ 0 ∨ dur < b then (d, "bad-op", "-")
    else ({ d with lb := newLookback b.toNat dur.toNat, ops := [] }, "ok", "-")
  | [_, some t, some v], ["ladd", _, _] =>
    let l := add d.lb t.toNat v
    let ops := d.ops ++ [Op.add t.toNat v]
    ({ d with lb := l, ops := ops }, showLB l, monLB l.width l.bins ops ((field impl "total") >>= String.toInt?))
  | [_, some t], ["lsum", _] =>
    let r := sum d.lb t.toNat
    let ops := d.ops ++ [Op.sum t.toNat]
    ({ d with lb := r.1, ops := ops }, s!"{r.2} {showLB r.1}",
      monLB r.1.width r.1.bins ops (((impl.splitOn " ").head?) >>= String.toInt?))
  | [_], ["tnew"] => ({ d with th := newThrottler, tAcc := [], tThr := [] }, "ok", "-")
  | [_, some t, some rn, some rd], ["should", _, _, _] =>
    if rd ≤ 0 then (d, "bad-op", "-") else
    let now := t.toNat
    let r := shouldThrottle d.th now ((rn : Rat) / (rd : Rat))
    let tAcc := d.tAcc ++ [Op.sum now]
    let tThr0 := d.tThr ++ [Op.sum now]
    -- the statement's formula, from the window sums of the call history, decides what the answer must be
    let w := d.th.accepts.width
    let b := d.th.accepts.bins
    let acc := windowSum (hist w tAcc) (maxBin w tAcc) b
    let thr := windowSum (hist w tThr0) (maxBin w tThr0) b
    let want := decide (probability acc thr > (rn : Rat) / (rd : Rat))
    let got := (impl.splitOn " ").head?
    let v := if got = some (if want then "t" else "f") then "ok"
             else s!"VIOL ShouldThrottle disagrees with (requests-2*accepts)/(requests+8) over the last 30 s: accepts={acc} throttles={thr}"
    let tThr := if r.2 then tThr0 ++ [Op.add now 1] else tThr0
    ({ d with th := r.1, tAcc := tAcc, tThr := tThr }, s!"{if r.2 then "t" else "f"} {showT r.1}", v)
  | [_, some t, some x], ["resp", _, _] =>
    let now := t.toNat
    let th := registerBackendResponse d.th now (x = 1)
    let tAcc := if x = 1 then d.tAcc else d.tAcc ++ [Op.add now 1]
    let tThr := if x = 1 then d.tThr ++ [Op.add now 1] else d.tThr
    let w := d.th.accepts.width
    let b := d.th.accepts.bins
    let okA := ((field impl "acc") >>= pairTotal) = some (windowSum (hist w tAcc) (maxBin w tAcc) b)
    let okT := ((field impl "thr") >>= pairTotal) = some (windowSum (hist w tThr) (maxBin w tThr) b)
    ({ d with th := th, tAcc := tAcc, tThr := tThr }, s!"ok {showT th}",
      if okA ∧ okT then "ok" else "VIOL throttler counters are not the sums over the last 30 s")
  | _, _ => (d, "bad-op", "-")

def run : IO Unit := Driver.run ({} : DSt) step

end GrpcModel.Driver.Rlsadaptive
