import GrpcModel.Driver.Loop
import GrpcModel.Model.WRRStride
/-! component `wrrstride` (C36). Ops: see harness/cmd/impl/c_wrrstride.go.

Model outputs come from the integer scheduler model and from the `Float` instance of the generic
float code (bit-for-bit what the Go code computes); the monitor judges the IMPLEMENTATION's output
with the integer predicates of the property and with the exact (`Rat`) instance. -/
namespace GrpcModel.Driver.WRRStride
open GrpcModel.Driver GrpcModel.WRRStride

structure Ep where
  f : EW Float
  /-- time of the first / of the latest non-empty report, and the latter's weight bits, tracked from
      the implementation's answers (used only by the monitor) -/
  first : Option Int := none
  last : Option Int := none
  lastBits : Nat := 0
  /-- start of the current blackout window by the property's own history reading: the first non-empty
      report since the start or since the last weight query that found the data expired -/
  since : Option Int := none
  /-- a report outside the monitor's domain (negative / non-finite) was seen: ledger unreliable -/
  tainted : Bool := false

structure St where
  sched : Option Sched := none
  v : Nat := 0
  blackout : Int := 10000000000
  exp : Int := 180000000000
  penalty : Nat := 4607182418800017408
  now : Int := 0
  eps : Array Ep := #[]

def fOfBits (b : Nat) : Float := Float.ofBits (UInt64.ofNat b)
def bitsOfF (x : Float) : Nat := x.toBits.toNat

def showSched : Option Sched → String
  | none => "nil"
  | some (.rr n) => s!"rr {n}"
  | some (.edf ws) => s!"edf {showNatList ws}"

def parseSched (s : String) : Option (Option Sched) :=
  match s.splitOn " " with
  | ["nil"] => some none
  | ["rr", n] => n.toNat?.map fun n => some (.rr n)
  | ["edf", ws] => (natList ws).map fun ws => some (.edf ws)
  | _ => none

/-- sequence-number budget of one `nextIndex` call (the harness panics beyond it). -/
def fuelFor (n : Nat) : Nat := 70000 * n

structure Win where
  counts : Array Nat
  used : Nat := 0
  maxc : Nat := 0
  maxw : Nat := 0
  v : Nat
  hang : Bool := false

/-- `win`: repeat `nextIndex` until `L` sequence numbers are consumed (at most `L` calls). -/
def winRun (ws : List Nat) (L : Nat) : Nat → Win → Win
  | 0, w => w
  | k + 1, w =>
    if w.used ≥ L || w.hang then w else
    match edfNext (fuelFor ws.length) ws w.v with
    | none => { w with hang := true }
    | some (i, v') =>
      let c := consumed w.v v'
      let used := w.used + c
      let w1 := if w.v + c ≥ seqMod then { w with maxw := c } else { w with maxc := max w.maxc c }
      winRun ws L k { w1 with used := used, v := v', counts := if used ≤ L then w1.counts.modify i (· + 1) else w1.counts }

def showWin (w : Win) : String :=
  if w.hang then "PANIC hang: nextIndex consumed its whole sequence-number budget" else
  s!"counts={showNatList w.counts.toList} maxc={w.maxc} maxw={w.maxw} v={w.v}"

def kv (s key : String) : Option String :=
  (s.splitOn " ").findSome? fun p => match p.splitOn "=" with
    | [k, v] => if k = key then some v else none
    | _ => none

/-- C36 on the result of running a real edfScheduler over a window. -/
def monWin (ws : List Nat) (v0 L : Nat) (impl : String) : String :=
  let n := ws.length
  match kv impl "counts" >>= natList, kv impl "maxc" >>= String.toNat?, kv impl "maxw" >>= String.toNat? with
  | some counts, some maxc, some maxw =>
    let hasMax := ws.any (· == maxWeight)
    if hasMax && maxc > n then s!"VIOL a pick consumed {maxc} > n={n} sequence numbers"
    else if hasMax && maxw > n then s!"VIOL a pick consumed {maxw} > n={n} sequence numbers across the uint32 wrap of the sequence counter"
    else if L % (maxWeight * n) = 0 && L > 0 then
      let k := L / (maxWeight * n)
      let bad := (List.range n).find? fun i => counts.getD i 0 ≠ k * ws.getD i 0
      match bad with
      | none => if counts.length = n then "ok" else "VIOL counts length"
      | some i =>
        let msg := s!"backend {i} chosen {counts.getD i 0} times in {k} window(s) of 65535*n sequence numbers, scaled weight {ws.getD i 0}"
        if v0 + L ≥ seqMod then s!"VIOL {msg} across the uint32 wrap of the sequence counter" else s!"VIOL {msg}"
    else "ok"
  | _, _, _ => "VIOL unparsable answer " ++ impl

def nextRun (sc : Sched) : Nat → Nat → List Nat → Option (List Nat × Nat)
  | 0, v, acc => some (acc.reverse, v)
  | k + 1, v, acc =>
    match sc with
    | .rr n => let (i, v') := rrNext n v; nextRun sc k v' (i :: acc)
    | .edf ws => match edfNext (fuelFor ws.length) ws v with
      | none => none
      | some (i, v') => nextRun sc k v' (i :: acc)

def schedSize : Sched → Nat
  | .rr n => n
  | .edf ws => ws.length

def monNext (sc : Sched) (impl : String) : String :=
  match impl.splitOn ";" with
  | [l, _] => match natList l with
    | some is => if is.all (· < schedSize sc) then "ok" else "VIOL index out of range"
    | none => "VIOL unparsable answer"
  | _ => "VIOL unparsable answer " ++ impl

/-- distance of `x + 1/2` to the nearest integer is below 2^-20: float and exact rounding may differ. -/
def nearHalf (x : Rat) : Bool :=
  let y := x + 1 / 2
  let fr := y - (y.floor : Rat)
  decide (fr < 1 / 1048576) || decide (fr > 1 - 1 / 1048576)

/-- C36 on the scheduler the real `newScheduler` built from float weights with bit patterns `bs`. -/
def monScale (bs : List Nat) (impl : String) : String :=
  if !(bs.all bitsFiniteNonneg) then "-" else
  let ep : List Rat := bs.map ratOfBits
  let n := ep.length
  let exact := newScheduler ep
  let sf : Rat := scalingFactor ep
  let boundary : Bool := ep.any (fun w => nearHalf (sf * w)) ||
    nearHalf (sf * (sumW ep / ((n - numZero ep : Nat) : Rat)))
  match parseSched impl with
  | none => "VIOL unparsable answer " ++ impl
  | some got =>
    -- the integer facts the stride theorems need
    match got with
    | some (.edf ws) =>
      if ws.length ≠ n then "VIOL edf scheduler over a different number of backends"
      else if !(ws.any (· == 65535)) then "VIOL edf scheduler without a backend of scaled weight 65535 (nextIndex may not terminate within n)"
      else if n < 2 || (n - numZero ep) < 2 then "VIOL edf scheduler although fewer than two weights are non-zero"
      else match exact with
        | some (.edf ws') =>
          if ws = ws' then "ok"
          else if boundary && (List.zip ws ws').all (fun (a, b) => a ≤ b + 1 && b ≤ a + 1) then "ok"
          else s!"VIOL scaled weights differ from round(65535*w/max) (mean for w=0): exact {showNatList ws'}"
        | _ => if boundary then "ok" else "VIOL edf scheduler although all scaled weights are equal"
    | some (.rr k) =>
      if k ≠ n then "VIOL rr scheduler over a different number of backends"
      else match exact with
        | some (.rr _) => "ok"
        | _ => if boundary then "ok" else "VIOL round robin although two or more weights are non-zero and not all scaled weights are equal"
    | none => if n = 0 then "ok" else "VIOL nil scheduler for a non-empty endpoint list"

def relClose (a b : Rat) : Bool :=
  -- |a - b| ≤ 2^-50 · b   (b > 0): four correctly rounded operations without cancellation
  let d := if a < b then b - a else a - b
  decide (d * 1125899906842624 ≤ b)

def showT : Option Int → String
  | none => "-"
  | some t => toString t

def step : Step St := fun s fs impl =>
  match fs with
  | ["win", wsS, v0S, lS] =>
    match natList wsS, v0S.toNat?, lS.toNat? with
    | some ws, some v0, some L =>
      let w := winRun ws L L { counts := Array.replicate ws.length 0, v := v0 }
      (s, showWin w, monWin ws v0 L impl)
    | _, _, _ => (s, "bad-op", "-")
  | ["edf", wsS, v0S] =>
    match natList wsS, v0S.toNat? with
    | some ws, some v0 => ({ s with sched := some (.edf ws), v := v0 }, "ok", "-")
    | _, _ => (s, "bad-op", "-")
  | ["rr", nS, v0S] =>
    match nS.toNat?, v0S.toNat? with
    | some n, some v0 => ({ s with sched := some (.rr n), v := v0 }, "ok", "-")
    | _, _ => (s, "bad-op", "-")
  | ["next", kS] =>
    match s.sched, kS.toNat? with
    | some sc, some k =>
      match nextRun sc k s.v [] with
      | some (is, v') => ({ s with v := v' }, s!"{showNatList is};v={v'}", monNext sc impl)
      | none => (s, "PANIC hang: nextIndex consumed its whole sequence-number budget", "-")
    | none, some _ => (s, "no-scheduler", "-")
    | _, _ => (s, "bad-op", "-")
  | ["scale", bsS] =>
    match natList bsS with
    | some bs => (s, showSched (newScheduler (bs.map fOfBits)), monScale bs impl)
    | none => (s, "bad-op", "-")
  | ["cfg", b, e, p] =>
    match b.toInt?, e.toInt?, p.toNat? with
    | some b, some e, some p => ({ s with blackout := b, exp := e, penalty := p, eps := #[], sched := none }, "ok", "-")
    | _, _, _ => (s, "bad-op", "-")
  | ["eps", k] =>
    match k.toNat? with
    | some k => ({ s with eps := Array.replicate k { f := EW.init }, sched := none }, "ok", "-")
    | none => (s, "bad-op", "-")
  | ["adv", d] =>
    match d.toInt? with
    | some d => ({ s with now := s.now + d }, "ok", "-")
    | none => (s, "bad-op", "-")
  | ["report", iS, a, c, r, e] =>
    match iS.toNat?, a.toNat?, c.toNat?, r.toNat?, e.toNat? with
    | some i, some a, some c, some r, some e =>
      if h : i < s.eps.size then
        let ep := s.eps[i]
        let rep : Report Float := { appUtil := fOfBits a, cpuUtil := fOfBits c, rps := fOfBits r, eps := fOfBits e }
        let f' := onLoadReport (fOfBits s.penalty) s.now ep.f rep
        let out := s!"{bitsOfF f'.weightVal} {showT f'.nonEmptySince} {showT f'.lastUpdated}"
        -- monitor: the stored weight is the formula of the property, evaluated exactly
        let dom := [a, c, r, e, s.penalty].all bitsFiniteNonneg
        let repQ : Report Rat := { appUtil := ratOfBits a, cpuUtil := ratOfBits c, rps := ratOfBits r, eps := ratOfBits e }
        let implBits := ((impl.splitOn " ").headD "").toNat?
        let (verdict, ep') :=
          match implBits with
          | none => ("VIOL unparsable answer " ++ impl, ep)
          | some ib =>
            if !dom then ("-", { ep with tainted := true })
            else if repQ.empty then
              (if ib = bitsOfF ep.f.weightVal then "ok" else "VIOL an empty load report changed the weight", ep)
            else
              let want : Rat := repQ.rps / (repQ.utilization + repQ.eps / repQ.rps * ratOfBits s.penalty)
              let ep1 := { ep with first := ep.first.orElse (fun _ => some s.now), last := some s.now, lastBits := ib,
                                   since := ep.since.orElse (fun _ => some s.now) }
              if !bitsFiniteNonneg ib then ("-", ep1)
              else if decide (want < 1 / (2 : Rat) ^ 900) || decide (want > (2 : Rat) ^ 900) then ("-", ep1)
              else if relClose (ratOfBits ib) want then ("ok", ep1)
              else ("VIOL weight is not qps/(utilization+eps/qps*penalty)", ep1)
        ({ s with eps := s.eps.set i { ep' with f := f' } }, out, verdict)
      else (s, "bad-op", "-")
    | _, _, _, _, _ => (s, "bad-op", "-")
  | ["weight", iS] =>
    match iS.toNat? with
    | some i =>
      if h : i < s.eps.size then
        let ep := s.eps[i]
        let (f', w) := weight s.now s.exp s.blackout ep.f
        let out := s!"{bitsOfF w} {showT f'.nonEmptySince}"
        let expired := match ep.last with
          | some tl => decide (s.now - tl ≥ s.exp)
          | none => false
        let verdict :=
          match ((impl.splitOn " ").headD "").toNat? with
          | none => "VIOL unparsable answer " ++ impl
          | some ib =>
            if ep.tainted then "-" else
            let isZero := ib = 0 || ib = 9223372036854775808
            match ep.first, ep.last with
            | some _, some _ =>
              if expired then (if isZero then "ok" else "VIOL non-zero weight after the expiration period")
              else
                let inBlackout := s.blackout ≠ 0 && (match ep.since with
                  | none => true
                  | some t => decide (s.now - t < s.blackout))
                if inBlackout then (if isZero then "ok" else "VIOL non-zero weight during the blackout period")
                else if ib = ep.lastBits then "ok"
                else if isZero then "VIOL zero weight although the latest load report is within the expiration period and the blackout period has elapsed"
                else "VIOL weight is not the one of the latest load report"
            | _, _ => if isZero then "ok" else "VIOL non-zero weight before the first load report"
        let since' := if expired then none else ep.since
        ({ s with eps := s.eps.set i { ep with f := f', since := since' } }, out, verdict)
      else (s, "bad-op", "-")
    | none => (s, "bad-op", "-")
  | ["sched", v0S] =>
    match v0S.toNat? with
    | some v0 =>
      let rs := s.eps.map fun ep => weight s.now s.exp s.blackout ep.f
      -- endpointWeights() queries every endpoint: a query that finds the data expired restarts the blackout
      let eps' := (s.eps.zip rs).map fun (ep, r) =>
        let expired := match ep.last with
          | some tl => decide (s.now - tl ≥ s.exp)
          | none => false
        { ep with f := r.1, since := if expired then none else ep.since }
      let ws := (rs.map (·.2)).toList
      let sc := newScheduler ws
      ({ s with eps := eps', sched := sc, v := v0 }, showSched sc, monScale (ws.map bitsOfF) impl)
    | none => (s, "bad-op", "-")
  | _ => (s, "bad-op", "-")

def run : IO Unit := Driver.run {} step

end GrpcModel.Driver.WRRStride
