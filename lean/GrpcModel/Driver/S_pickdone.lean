import GrpcModel.Driver.Loop
import GrpcModel.Driver.S_shouldretry
import GrpcModel.Driver.S_retry
import GrpcModel.Model.PickDone
/-!
component `s_pickdone` (C23): the `s_retry` world with a scripted, instrumented picker.

    cfg <as s_retry> picks=<ok|oknd|notready|nosc|hang|drop<code>,…|->
    new <buf|d> | send <n> | close | recv | hdr | cancel
        → <result> t=… ev=… [pending=<result of the blocked op>] pk=<P<id>:<kind>,D<id>:<code>,…|->

The retry machinery is the model of C18 (`GrpcModel.RetryLoop`); the pick / Done events are
`GrpcModel.PickDone.pkEvents`.  The monitor counts Done calls per pick on the IMPLEMENTATION's events.
-/
namespace GrpcModel.Driver.S_pickdone
open GrpcModel.Driver GrpcModel.Retry GrpcModel.RetryLoop GrpcModel.PickDone
open GrpcModel.Driver.S_shouldretry (getKV)

def parsePick (s : String) : Option PickBeh :=
  if s = "notready!" then some .notreadyCancel else if s = "nosc!" then some .noscCancel else
  if s = "ok" then some .ok else if s = "oknd" then some .oknd else if s = "notready" then some .notready
  else if s = "nosc" then some .nosc else if s = "hang" then some .hang
  else if s.startsWith "drop" then ((s.drop 4).toString.toNat?).map .drop else none

def showPick : PickBeh → String
  | .ok => "ok" | .oknd => "oknd" | .notready => "notready" | .nosc => "nosc" | .hang => "hang" | .drop c => s!"drop{c}"
  | .notreadyCancel => "notready!" | .noscCancel => "nosc!"

def showPEv : PEv → String
  | .pick id b => s!"P{id}:{showPick b}"
  | .done id c => s!"D{id}:{c}"

def showPEvs (l : List PEv) : String := if l.isEmpty then "-" else ",".intercalate (l.map showPEv)

def parsePEv (s : String) : Option PEv :=
  match s.toList with
  | 'P' :: r => match (String.ofList r).splitOn ":" with
    | [i, k] => match i.toNat?, parsePick k with | some i, some k => some (.pick i k) | _, _ => none
    | _ => none
  | 'D' :: r => match (String.ofList r).splitOn ":" with
    | [i, c] => match i.toNat?, c.toNat? with | some i, some c => some (.done i c) | _, _ => none
    | _ => none
  | _ => none

def parsePEvs (s : String) : Option (List PEv) := if s = "-" then some [] else (s.splitOn ",").mapM parsePEv

/-- monitor state: per pick id, whether it carries a Done and how often Done ran -/
structure PMon where
  picks : List (Nat × Bool × Nat) := []      -- id, hasDone, done calls
  pendingNotReady : Option Nat := none

structure PS where
  inner : S_retry.DS := {}
  ps : PickSt := { script := [] }
  dead : Bool := false          -- NewStream failed: there is no stream
  blockedNew : Bool := false    -- NewStream is blocked in the picker
  skip : Bool := false          -- some op never returned: the harness skips the rest
  blockedOp : String := ""      -- which op that was
  mon : PMon := {}

def hasDoneKind : PickBeh → Bool
  | .ok => true | .notready => true | .notreadyCancel => true | _ => false

/-- C23 on the implementation's pick/Done events of one op; `ended` = the RPC is over after this op -/
def monitorPk (m : PMon) (evs : List PEv) (ended : Bool) : PMon × String := Id.run do
  let mut mon := m
  let mut verdict := "ok"
  let mut expectDone : Option Nat := none      -- a not-ready pick must be followed at once by its Done
  for e in evs do
    match e with
    | .pick id b =>
      if let some w := expectDone then verdict := s!"VIOL Done of the not-ready pick {w} did not run before the next pick"
      if mon.picks.any (fun p => p.1 == id) then verdict := s!"VIOL pick id {id} reported twice"
      mon := { mon with picks := mon.picks ++ [(id, hasDoneKind b, 0)] }
      expectDone := if b == .notready || b == .notreadyCancel then some id else none
    | .done id _ =>
      match mon.picks.find? (fun p => p.1 == id) with
      | none => verdict := s!"VIOL Done called for an unknown pick {id}"
      | some (_, hd, n) =>
        if !hd then verdict := s!"VIOL Done called for pick {id} which has no Done callback"
        else if n ≥ 1 then verdict := s!"VIOL Done of pick {id} called more than once"
        mon := { mon with picks := mon.picks.map fun p => if p.1 == id then (p.1, p.2.1, p.2.2 + 1) else p }
      if expectDone == some id then expectDone := none
  if let some w := expectDone then verdict := s!"VIOL the not-ready pick {w} was discarded without calling its Done"
  if ended then
    for p in mon.picks do
      if p.2.1 ∧ p.2.2 ≠ 1 then verdict := s!"VIOL the RPC ended and Done of pick {p.1} ran {p.2.2} times"
  return (mon, verdict)

def step (s : PS) (fs : List String) (impl : String) : PS × String × String :=
  let ifs := fields impl
  let ipk := parsePEvs (getKV ifs "pk")
  match fs with
  | "cfg" :: kvs =>
    let (inner, line, _) := S_retry.step {} fs impl
    let picks := getKV kvs "picks"
    let script : Option (List PickBeh) := if picks = "-" ∨ picks = "" then some [] else (picks.splitOn ",").mapM parsePick
    match script with
    | some sc =>
      -- a pick that ends with the context cancelled fails that stream creation with CANCELLED
      let inner := match inner.cfg with
        | some c => { inner with cfg := some { c with st := { c.st with nsScript := mergeNS 64 sc c.st.nsScript } } }
        | none => inner
      ({ inner := inner, ps := { script := sc } }, line, "-")
    | none => (s, "bad-op", "-")
  | op :: _ =>
    match s.inner.cfg with
    | none => (s, "not-configured", "-")
    | some c =>
      if op = "cancel" then
        if s.blockedNew then
          let (mon, v) := match ipk with | some e => monitorPk s.mon e true | none => (s.mon, "-")
          let v := if v.startsWith "VIOL" then v
                   else if (getKV ifs "pending") = "err_1" then v else "VIOL a pick blocked without a picker was not woken by the context cancellation"
          ({ s with blockedNew := false, dead := true, skip := false, mon := mon }, "ok t=0 ev=- pending=err_1 pk=-", v)
        else if s.dead ∨ !c.st.started then
          (s, "ok t=0 ev=- pk=-", "-")
        else
          -- an op blocked in RecvMsg/Header returns now: report its result as pending=
          let pend := if s.skip then (if s.blockedOp = "hdr" then " pending=nohdr" else " pending=err_1") else ""
          let (inner, line, _) := S_retry.step { s.inner with blocked := false } fs impl
          let (st', _, evs, _) := c.st.step 64 .cancel
          let (ps', pe) := pkEvents c.st st' evs s.ps
          let (mon, v) := match ipk with | some e => monitorPk s.mon e true | none => (s.mon, "-")
          ({ s with inner := inner, ps := ps', mon := mon, skip := false }, line ++ pend ++ " pk=" ++ showPEvs pe, v)
      else if s.skip ∨ s.blockedNew then (s, "skipped", "-")
      else if op = "new" then
        -- the first pick decides whether there will be a stream at all
        let (pe, rest, n', out) := pickLoop s.ps.script s.ps.nextId
        match out with
        | .hangs =>
          let (mon, v) := match ipk with | some e => monitorPk s.mon e false | none => (s.mon, "-")
          ({ s with ps := { s.ps with script := rest, nextId := n' }, blockedNew := true, mon := mon },
           "blocked t=- ev=- pk=" ++ showPEvs pe, v)
        | .dropped code =>
          let (mon, v) := match ipk with | some e => monitorPk s.mon e true | none => (s.mon, "-")
          ({ s with ps := { s.ps with script := rest, nextId := n' }, dead := true, mon := mon },
           s!"err {dropStatus code} t=0 ev=- pk=" ++ showPEvs pe, v)
        | _ =>
          let (inner, line, _) := S_retry.step s.inner fs impl
          let mb : Int := match fs with | [_, b] => if b = "d" then 262144 else (b.toInt?.getD 262144) | _ => 262144
          let st0 := { c.st with maxBuf := mb }
          let (st', res, evs, _) := st0.step 64 .new
          let (ps', pe2) := pkEvents st0 st' evs s.ps
          let failed := res != .ok
          let (mon, v) := match ipk with | some e => monitorPk s.mon e failed | none => (s.mon, "-")
          ({ s with inner := inner, ps := ps', mon := mon, dead := failed }, line ++ " pk=" ++ showPEvs pe2, v)
      else if s.dead ∨ !c.st.started then (s, "no-stream pk=-", "-")
      else
        let aop : Option AppOp := match fs with
          | ["send", n] => n.toNat?.map .send
          | ["close"] => some .close
          | ["recv"] => some .recv
          | ["hdr"] => some .header
          | _ => none
        match aop with
        | none => (s, "bad-op", "-")
        | some aop =>
          let (inner, line, _) := S_retry.step s.inner fs impl
          let (st', res, evs, _) := c.st.step 64 aop
          let (ps', pe) := pkEvents c.st st' evs s.ps
          let ended := st'.cs.finished
          let iword := ifs.headD ""
          let (mon, v) := match ipk with | some e => monitorPk s.mon e (ended && iword != "blocked") | none => (s.mon, "-")
          let v := if v.startsWith "VIOL" then v
                   else if iword == "blocked" && res != .blocked && (match ipk with | some e => e.any (fun x => x matches .pick _ .nosc || x matches .pick _ .notready) | none => false)
                     then "VIOL a blocked pick was not woken by the picker update"
                   else v
          ({ s with inner := inner, ps := ps', mon := mon, skip := res = .blocked, blockedOp := op }, line ++ " pk=" ++ showPEvs pe, v)
  | _ => (s, "bad-op", "-")

def run : IO Unit := Driver.run ({} : PS) step

end GrpcModel.Driver.S_pickdone
