import GrpcModel.Model.LoopyIO
/-! component `loopyord` (C02): the real loopy writer, op by op; monitor = `Loopy.C02.mstep` (byte order, completeness,
END_STREAM placement, nothing after the end) evaluated on the frames decoded from the implementation's conn. The payload of
every DATA frame is recognised by content: it must hash to the next `len` bytes of the stream's application byte stream. -/
namespace GrpcModel.Driver.Loopyord
open GrpcModel.Driver GrpcModel.Loopy GrpcModel.Loopy.IO

/-- position bookkeeping within one step: bytes already attributed to a stream by earlier DATA frames of the same step -/
def resolve (m : C02.Mon) (extra : List (Nat × Nat)) (id len : Nat) (hash : String) : Option (Nat × List (Nat × Nat)) :=
  let x := m.str id
  if x.wild ∨ x.phase ≠ .open then some (0, extra) else
  let pos := match extra.lookup id with | some p => p | none => x.sent
  if hex8 (hashRange id pos len) = hash then some (pos, (id, pos + len) :: extra) else none

/-- completeness, judged on the writer's state after the step: a stream whose queue is empty has sent everything that was
written, including the END_STREAM that was asked for -/
def drained (m : C02.Mon) (impl : Impl) : Option String :=
  impl.streams.findSome? fun st =>
    let x := m.str st.id
    if x.wild ∨ x.phase ≠ .open ∨ st.nitems ≠ 0 then none
    else if x.sent ≠ x.written then some s!"stream {st.id}: queue is empty but {x.written - x.sent} written bytes were never sent"
    else if x.esAt.isSome ∧ !x.esSent then some s!"stream {st.id}: queue is empty but END_STREAM was never sent"
    else none

def monitor (m : C02.Mon) (_ : St) (op : Op) (impl : Impl) : C02.Mon × String :=
  if op.outside then (m, "-") else
  let m0 := { m.pre op [] with justTrailers := none }
  -- clientHeaders opens the stream iff a HEADERS frame for it was written: look at the raw frames
  let hasH := impl.frames.any fun f => match f, op with
    | .headers i _ _ _, .clientHeaders id _ _ => i == id
    | _, _ => false
  let mpre := match op with
    | .clientHeaders id _ _ => if hasH then { C02.openStream m id with justTrailers := none } else m0
    | _ => m0
  match toOutsS (resolve mpre) [] impl.frames with
  | (_, some e) => (m, "VIOL " ++ e)
  | (outs, none) =>
    match C02.mstep m op outs with
    | (m1, some e) => (m1, "VIOL " ++ e)
    | (m1, none) =>
      match drained m1 impl with
      | some e => (m1, "VIOL " ++ e)
      | none => (m1, "ok")

def run : IO Unit :=
  Driver.run ({ st := init .client, mon := C02.Mon.init } : DState C02.Mon) (mkStep C02.Mon.init monitor)

end GrpcModel.Driver.Loopyord
