import GrpcModel.Driver.Loop
import GrpcModel.Model.Status
/-!
component `s_status` (C10), one real RPC per op (see harness/synct/c_status_test.go):

    rpc <path> <kind> <code> <msghex> <details> <usertrailer>
    → `ok` | `err <code> <msghex> <details>`

The model output is `endToEnd` printed the same way; the verdict is the C10 predicate evaluated
on what the real client observed.
-/
namespace GrpcModel.Driver.S_status
open GrpcModel.Driver GrpcModel.Status GrpcModel.Headers
open GrpcModel.Base64 (Bytes)

def parseDetails (s : String) : Option (List AnyPB) :=
  if s = "-" then some [] else
  (s.splitOn ",").mapM fun p =>
    match p.splitOn "." with
    | [u, v] => do
      let u ← unhex u
      let v ← unhex v
      pure ⟨u, v⟩
    | _ => none

def showDetails (ds : List AnyPB) : String :=
  if ds.isEmpty then "-" else ",".intercalate (ds.map fun d => hex d.typeUrl ++ "." ++ hex d.value)

def parseUT (s : String) : Option MD :=
  if s = "-" then some [] else do
    let vs ← (s.splitOn ",").mapM fun v => if v = "~" then some [] else unhex v
    pure [(hDetailsBin, vs)]

structure Op where
  path : String
  kind : String
  st : Status
  ut : MD
  utGiven : Bool

def parseOp (fs : List String) : Option Op :=
  match fs with
  | ["rpc", path, kind, code, msg, det, ut] => do
    let c ← code.toNat?
    let m ← unhex msg
    let d ← parseDetails det
    let u ← parseUT ut
    if c ≥ 4294967296 then none
    if !(["u", "ub", "bx", "b0", "bh", "b1", "b2"].contains path) then none
    if !(["st", "gs", "plain"].contains kind) then none
    pure ⟨path, kind, ⟨c, m, d⟩, u, ut ≠ "-"⟩
  | _ => none

def handlerRet (o : Op) : HandlerRet :=
  if o.kind = "plain" then .plain o.st.msg
  else if o.kind = "st" ∧ o.st.code = 0 then .nil    -- status.Err() of an OK status is nil
  else .status o.st

/-- Was a HEADERS frame sent before the trailers? -/
def headerSent (o : Op) : Bool :=
  match o.path with
  | "u" => match handlerRet o with
           | .nil => true          -- the unary reply goes out first
           | _ => false
  | "bx" => false
  | "b0" => false
  | _ => true

def asciiStr (b : Bytes) : String := String.ofList (b.map fun x => Char.ofNat x.toNat)

def showStatus (s : Status) : String :=
  if s.code = 0 then "ok" else s!"err {s.code} {hex s.msg} {showDetails s.details}"

def showEnd (e : ClientEnd) : String :=
  match e with
  | .status s => showStatus s
  | .malformedStatus range v =>
    let txt := "transport: malformed grpc-status: strconv.ParseInt: parsing \"" ++ asciiStr v ++ "\": " ++
      (if range then "value out of range" else "invalid syntax")
    s!"err 2 {hex (asciiBytes txt)} -"
  | .mismatch _ _ => "*"          -- message embeds a protobuf text rendering (deliberately unstable)
  | .nonGrpc => "*"
  | .headerError _ => "*"

def cardinality : String :=
  "err 13 " ++ hex (asciiBytes "cardinality violation: received no response message from non-server-streaming RPC") ++ " -"

def model (o : Op) : String :=
  let e := endToEnd (headerSent o) (asciiBytes "proto") (handlerRet o) o.ut
  -- stream.go csAttempt.recvMsg: a unary call that ends OK without a reply is an INTERNAL error
  if o.path = "u" ∧ !(headerSent o) ∧ e.isNil then cardinality else showEnd e

/-- C10 evaluated on the implementation's answer. -/
def monitor (o : Op) (impl : String) : String :=
  let exp : Status := appStatus (handlerRet o)
  let expMsg := StatusMsg.sanitize exp.msg
  let nilRet := match handlerRet o with
    | .nil => true
    | _ => false
  if exp.code ≠ 0 ∧ impl = "ok" then "VIOL non-OK status became a nil error"
  else if o.utGiven then "ok"     -- handler set grpc-status-details-bin itself: only the clause above applies
  else if nilRet then (if impl = "ok" then "ok" else "VIOL handler returned nil but the client saw " ++ impl)
  else if exp.code = 0 then "-"   -- non-nil error carrying an OK status: not covered by the statement
  else match impl.splitOn " " with
    | ["err", c, m, d] =>
      if c ≠ toString exp.code then
        s!"VIOL code changed: sent {exp.code} got {c}" ++ (if exp.code ≥ 2147483648 then " (sent code >= 2^31)" else "")
      else if m ≠ hex expMsg then s!"VIOL message changed: want {hex expMsg} got {m}"
      else if d ≠ showDetails exp.details then
        if !(exp.details.all fun a => StatusMsg.validUtf8 a.typeUrl) then "-"  -- not a well-formed Any (type_url is a proto3 string)
        else "VIOL details changed: want " ++ showDetails exp.details ++ " got " ++ d ++
          (if !StatusMsg.validUtf8 exp.msg then " (message is not valid UTF-8)" else "")
      else "ok"
    | _ => "VIOL unexpected client result " ++ impl

def mismatchPrefix : String := "err 13 " ++ hex (asciiBytes "grpc-status-details-bin mismatch: ")

/-- For the one outcome whose text the model cannot predict byte for byte (it embeds protobuf's
    text rendering) the comparison is on code + message prefix + no details. -/
def modelVs (o : Op) (impl : String) : String :=
  let m := model o
  if m = "*" then
    (if impl.startsWith mismatchPrefix ∧ impl.endsWith " -" then impl else mismatchPrefix ++ "… -")
  else m

def step : Step Unit := fun _ fs impl =>
  match parseOp fs with
  | none => ((), "bad-op", "-")
  | some o => ((), modelVs o impl, monitor o impl)

def run : IO Unit := Driver.run () step

end GrpcModel.Driver.S_status
