import Std.Data.HashSet
import GrpcModel.Driver.Loop
import GrpcModel.Model.StreamQuota
/-!
component `s_quota` (C13, tie T2): the real http2Client against a scripted raw-frame server,
one external event per op, then `synctest.Wait()`.

Model side of an op: the op's external rules (what the reader goroutine / the test does, in order)
are interleaved in EVERY possible way with the steps the NewStream callers can take on their own
(`tryNew`, `wake`, `retry`, `failDrain`, `gracefulClose`), using nothing but
`GrpcModel.StreamQuota.step`, until nothing is enabled. That gives the set of quiescent outcomes
of all schedules. The implementation's line must be one of them (which waiter a token wakes is the
Go runtime's choice); the driver continues from that one. If it is none of them the first outcome
is printed and the check reports the divergence.

The monitor looks only at the implementation's line: wire events seen by the peer, which callers
returned / are still parked, and the transport's ledger fields.
-/
namespace GrpcModel.Driver.S_quota
open GrpcModel.Driver GrpcModel.StreamQuota

deriving instance Hashable for Ev
deriving instance Hashable for Rule

/-! ### exploration of all schedules to quiescence -/

structure Node where
  s : State
  pend : List (List Rule) -- remaining external rules of this op: one list per external thread (program order inside a thread)
  evs : List Ev           -- wire events so far (reverse order)
deriving DecidableEq, Hashable

def callerRules (s : State) (i : Nat) (c : Caller) : List Rule :=
  match c.phase with
  | .fresh => [.tryNew i]
  | .blocked g =>
    (if g < s.gen ∨ s.token then [Rule.wake i] else []) ++ (if s.goAwayClosed then [Rule.failDrain i] else [])
  | .woken => [.retry i]
  | .admitted _ true => [.gracefulClose i]
  | _ => []

def enabledInternal (s : State) : List Rule :=
  (s.callers.zipIdx.map fun (c, i) => callerRules s i c).flatten

/-- A caller parked on a CLOSED channel wakes without touching shared state (the rule only changes its
own phase, which nobody else reads), so that step commutes with every other rule and may be scheduled
immediately before the caller's `retry` without losing any outcome: the two are taken together. -/
def fire (s : State) (r : Rule) : State × List Ev :=
  match r with
  | .wake i =>
    match s.callers[i]? with
    | some c =>
      match c.phase with
      | .blocked g =>
        if g < s.gen then
          let (s1, e1) := step s r
          let (s2, e2) := step s1 (.retry i)
          (s2, e1 ++ e2)
        else step s r
      | _ => step s r
    | none => step s r
  | _ => step s r

def succs (n : Node) : List Node :=
  let int := (enabledInternal n.s).map fun r =>
    let (s', e) := fire n.s r
    { n with s := s', evs := e.reverse ++ n.evs }
  let ext := (List.range n.pend.length).filterMap fun k =>
    match n.pend[k]? with
    | some (r :: rest) =>
      let (s', e) := step n.s r
      some { s := s', pend := (n.pend.set k rest).filter (!·.isEmpty), evs := e.reverse ++ n.evs }
    | _ => none
  ext ++ int

/-- depth-first search with a visited set; `fuel` only bounds the loop for the termination checker -/
def explore (fuel : Nat) (work : List Node) (seen : Std.HashSet Node) (out : List Node) : List Node :=
  match fuel, work with
  | 0, _ => out.reverse
  | _, [] => out.reverse
  | fuel + 1, n :: work =>
    if seen.contains n then explore fuel work seen out
    else
      let seen := seen.insert n
      match succs n with
      | [] => explore fuel work seen (n :: out)
      | ss => explore fuel (ss ++ work) seen out

def outcomes (s : State) (pend : List (List Rule)) : List Node :=
  explore 2000000 [{ s := s, pend := pend.filter (!·.isEmpty), evs := [] }] {} []

/-! ### driver state -/

structure Mon where
  lastId : Nat := 0
  openP : List Nat := []        -- peer's view: HEADERS seen, not closed
  halfP : List Nat := []        -- END_STREAM seen from the client
  maxAdv : Nat := 4294967295    -- latest advertised MAX_CONCURRENT_STREAMS
  dead : Bool := false          -- the peer has sent GOAWAY, or the client was closed

structure DS where
  started : Bool := false
  terminal : Bool := false      -- model no longer predicts (closing transport)
  s : State := init0
  now : Nat := 0
  deadline : List (Option Nat) := []
  ctxWhy : List String := []    -- per caller: why its ctx ended
  reported : List Bool := []
  mon : Mon := {}
  prevGA : Nat := 0             -- `t.prevGoAwayID`

/-- `handleGoAway` returns a connection error (and, since `reader` returns on it, the transport closes):
a non-zero even last-stream-id, or a GOAWAY after the first whose id exceeds the previous one's. -/
def goAwayConnErr (d : DS) (fs : List String) : Bool :=
  match fs with
  | ["goaway", last] => match last.toNat? with
    | some l => (l > 0 && l % 2 == 0) || (d.s.goAwayClosed && l > d.prevGA)
    | none => false
  | _ => false

def kv (fs : List String) (k : String) : Option String :=
  fs.findSome? fun f => if f.startsWith (k ++ "=") then some (f.drop (k.length + 1)).toString else none

def showList (l : List Nat) : String := showNatList l

def evStr (e : Ev) : String :=
  match e with
  | .hdr id => s!"H{id}"
  | .rst id c => s!"R{id}:{c}"
  | .endStream id => s!"D{id}"

/-- render an outcome as the harness prints it -/
def render (d : DS) (n : Node) : String :=
  let s := n.s
  let evs := n.evs.reverse
  let ev := if evs.isEmpty then "-" else ",".intercalate (evs.map evStr)
  let idx := s.callers.zipIdx
  let fresh (i : Nat) : Bool := !(d.reported.getD i false)
  let ok := idx.filterMap fun (c, i) => match c.phase with
    | .admitted _ _ => if fresh i then some i else none
    | _ => none
  let err := idx.filterMap fun (c, i) => match c.phase with
    | .failed w => if fresh i then
        some (s!"{i}:" ++ (match w with | .hdrsize => "hdrsize" | .drain => "drain" | .ctx => d.ctxWhy.getD i "canceled"))
      else none
    | _ => none
  let blk := idx.filterMap fun (c, i) => if isParked c.phase || c.phase == .stuck then some i else none
  let errS := if err.isEmpty then "-" else ",".intercalate err
  s!"ev={ev} ok={showList ok} err={errS} blk={showList blk} q={s.quota} w={s.waiting} m={s.maxC} t={if s.token then 1 else 0} n={s.nextID} a={s.openS.length} d={if s.draining then 1 else 0}"

/-- mark every caller that has returned as reported -/
def markReported (_d : DS) (s : State) : List Bool :=
  s.callers.map fun c => match c.phase with
    | .admitted _ _ => true
    | .failed _ => true
    | _ => false

def parkedIdx (s : State) : List Nat :=
  s.callers.zipIdx.filterMap fun (c, i) => if isParked c.phase || c.phase == .stuck then some i else none

def streamOf (s : State) (sid : Nat) : Option Stream := s.openS.find? (·.id == sid)

/-- external rules of an op (program order), plus the updated driver bookkeeping -/
def external1 (d : DS) (fs : List String) : Option (DS × List Rule) :=
  let s := d.s
  match fs with
  | "new" :: k :: rest =>
    match k.toNat? with
    | none => none
    | some k =>
      let hsz := if kv rest "sz" == some "B" then 5000 else 300
      let dl := (kv rest "dl").bind String.toNat? |>.map (· + d.now)
      some ({ d with deadline := d.deadline ++ List.replicate k dl, ctxWhy := d.ctxWhy ++ List.replicate k "canceled" },
            List.replicate k (.call hsz))
  | ["settings", "none"] => some (d, [])
  | ["settings", n] => n.toNat?.map fun n => (d, [.settings n])
  | ["settings2", _, b] => b.toNat?.map fun n => (d, [.settings n])
  | ["hls", n] => n.toNat?.map fun n => (d, [.hls n])
  | ["srvend", id] => id.toNat?.map fun id =>
      match streamOf s id with
      | some st => (d, [.closeStream id (if st.half then none else some 0)])
      | none => (d, [])
  | ["srvrst", id, _] => id.toNat?.map fun id => (d, [.closeStream id none])
  | ["cclose", id] => id.toNat?.map fun id => (d, [.closeStream id (some 8)])
  | ["chalf", id] => id.toNat?.map fun id => (d, [.halfClose id])
  | ["cancelb", j] => j.toNat?.map fun j =>
      let p := parkedIdx s
      if p.isEmpty then (d, []) else
        let c := p.getD (j % p.length) 0
        ({ d with ctxWhy := d.ctxWhy.set c "canceled" }, [.abandon c])
  | ["sleep", ms] => ms.toNat?.map fun ms =>
      let now := d.now + ms
      let exp := (parkedIdx s).filter fun c => match d.deadline.getD c none with
        | some t => t ≤ now
        | none => false
      ({ d with now := now, ctxWhy := exp.foldl (fun w c => w.set c "deadline") d.ctxWhy }, exp.map .abandon)
  | ["goaway", last] => last.toNat?.map fun last =>
      ({ d with prevGA := last }, .goAway :: ((s.openS.filter (·.id > last)).map fun st => Rule.closeStream st.id none))
  | _ => none

/-- `burst a:b:c …`: the peer's frames (srvend/srvrst/settings/hls, written back to back: the reader
goroutine handles them in order) and the test goroutine's own actions (cclose, new, in order) are two
unordered threads. -/
def external (d : DS) (fs : List String) : Option (DS × List (List Rule)) :=
  match fs with
  | "burst" :: subs =>
    let go := subs.foldl (fun (acc : Option (DS × List Rule × List Rule)) sub =>
      match acc with
      | none => none
      | some (d, peer, loc) =>
        let parts := sub.splitOn ":"
        -- a sub-op aimed at a stream id the peer has not seen yet is skipped (by the harness too)
        let skip := match parts with
          | [k, id] => (k == "srvend" || k == "cclose") && (id.toNat?.getD 0) ≥ d.s.nextID
          | [k, id, _] => k == "srvrst" && (id.toNat?.getD 0) ≥ d.s.nextID
          | _ => false
        if skip then some (d, peer, loc) else
        match external1 d parts with
        | none => none
        | some (d', rs) =>
          match parts.head? with
          | some "cclose" => some (d', peer, loc ++ rs)
          | some "new" => some (d', peer, loc ++ rs)
          | some "srvend" => some (d', peer ++ rs, loc)
          | some "srvrst" => some (d', peer ++ rs, loc)
          | some "settings" => some (d', peer ++ rs, loc)
          | some "hls" => some (d', peer ++ rs, loc)
          | _ => none) (some (d, [], []))
    go.map fun (d, peer, loc) => (d, [peer, loc])
  | _ => (external1 d fs).map fun (d, rs) => (d, [rs])

/-! ### monitor (C13 on the implementation's line) -/

structure Impl where
  ev : List String
  ok : List Nat
  err : List String
  blk : List Nat
  q : Int
  w : Nat
  m : Nat
  t : Nat
  n : Nat
  a : Int
  d : Nat

def parseImpl (line : String) : Option Impl := do
  let fs := fields line
  let g (k : String) : Option String := kv fs k
  let lst (x : String) : List String := if x == "-" then [] else x.splitOn ","
  let ev ← g "ev"
  let ok ← (← g "ok") |> natList
  let err ← g "err"
  let blk ← (← g "blk") |> natList
  let q ← (← g "q").toInt?
  let w ← (← g "w").toNat?
  let m ← (← g "m").toNat?
  let t ← (← g "t").toNat?
  let n ← (← g "n").toNat?
  let a ← (← g "a").toInt?
  let dd ← (← g "d").toNat?
  pure { ev := lst ev, ok := ok, err := lst err, blk := blk, q := q, w := w, m := m, t := t, n := n, a := a, d := dd }

/-- process the wire events in order: ids odd and strictly increasing; open count ≤ latest max at every HEADERS -/
def monEvents (m : Mon) : List String → Mon × Option String
  | [] => (m, none)
  | e :: rest =>
    if e.startsWith "H" then
      match (e.drop 1).toString.toNat? with
      | none => (m, some s!"VIOL unparsable event {e}")
      | some id =>
        if id % 2 != 1 then (m, some s!"VIOL stream id {id} is not odd")
        else if id ≤ m.lastId then (m, some s!"VIOL stream id {id} does not exceed the previous id {m.lastId}")
        else if m.dead then (m, some s!"VIOL stream {id} opened after GOAWAY/Close")
        else
          let m := { m with lastId := id, openP := m.openP ++ [id] }
          if m.openP.length > m.maxAdv then
            (m, some s!"VIOL {m.openP.length} streams open at HEADERS {id} but the latest MAX_CONCURRENT_STREAMS is {m.maxAdv}")
          else monEvents m rest
    else if e.startsWith "R" then
      match ((e.drop 1).toString.splitOn ":").head?.bind String.toNat? with
      | some id => monEvents { m with openP := m.openP.filter (· != id) } rest
      | none => (m, some s!"VIOL unparsable event {e}")
    else if e.startsWith "D" then
      match (e.drop 1).toString.toNat? with
      | some id => monEvents { m with halfP := id :: m.halfP } rest
      | none => (m, some s!"VIOL unparsable event {e}")
    else monEvents m rest

def monitor (m : Mon) (fs : List String) (line : String) : Mon × String :=
  match parseImpl line with
  | none => (m, "-")   -- `not-started`, `bad-op`, PANIC/CRASH (judged by the framework): nothing to evaluate
  | some im =>
    -- what the peer itself did in this op
    let m := match fs with
      | "start" :: n :: _ => { m with maxAdv := n.toNat?.getD 4294967295 }
      | ["settings", n] => (match n.toNat? with | some n => { m with maxAdv := n } | none => m)
      | ["settings2", _, b] => (match b.toNat? with | some n => { m with maxAdv := n } | none => m)
      | ["srvrst", id, _] => { m with openP := m.openP.filter (some · != id.toNat?) }
      | ["srvend", id] =>
        -- END_STREAM from the server closes the stream if the client had half-closed; otherwise the
        -- client's RST_STREAM (which must precede any new HEADERS) does
        if m.halfP.any (some · == id.toNat?) then { m with openP := m.openP.filter (some · != id.toNat?) } else m
      | "burst" :: subs => subs.foldl (fun m sub =>
          match sub.splitOn ":" with
          -- a stream admitted before the client handles a lowering SETTINGS of the same burst is legitimate
          | ["settings", n] => (match n.toNat? with | some n => { m with maxAdv := max m.maxAdv n } | none => m)
          | ["srvrst", id, _] => { m with openP := m.openP.filter (some · != id.toNat?) }
          | ["srvend", id] =>
            if m.halfP.any (some · == id.toNat?) then { m with openP := m.openP.filter (some · != id.toNat?) } else m
          | _ => m) m   -- (ids above the last HEADERS seen are not in openP: nothing to remove; the harness skips them)
      | "goaway" :: _ => { m with dead := true }
      | ["close"] => { m with dead := true }
      | _ => m
    let nH := (im.ev.filter (·.startsWith "H")).length
    let (m, v) := monEvents m im.ev
    let m := match fs with
      | "burst" :: subs =>
        (match (subs.filterMap fun (sub : String) => match sub.splitOn ":" with | ["settings", n] => n.toNat? | _ => none).getLast? with
         | some n => { m with maxAdv := n }
         | none => m)
      | _ => m
    match v with
    | some v => (m, v)
    | none =>
      if nH != im.ok.length then (m, s!"VIOL {im.ok.length} NewStream calls succeeded but the peer saw {nH} HEADERS")
      else if m.dead then
        if !im.blk.isEmpty then (m, s!"VIOL callers {showList im.blk} still parked after GOAWAY/Close") else (m, "ok")
      else if im.d != 0 then (m, "ok")
      else if im.q != (im.m : Int) - (m.openP.length : Int) then
        (m, s!"VIOL streamQuota ledger: quota {im.q} but max {im.m} and {m.openP.length} streams open")
      else if !im.blk.isEmpty && m.openP.length < m.maxAdv then
        (m, s!"VIOL starved: callers {showList im.blk} parked although only {m.openP.length} of {m.maxAdv} streams are open")
      else (m, "ok")

/-! ### step -/

def step (d : DS) (fs : List String) (impl : String) : DS × String × String :=
  let (mon, verdict) := monitor d.mon fs impl
  let d := { d with mon := mon }
  match fs with
  | "start" :: n :: rest =>
    if d.started then (d, "bad-op", verdict) else
    let hl := (kv rest "hl").bind String.toNat?
    let s := initAfterPreface n.toNat? hl
    let s := match (kv rest "maxid").bind String.toNat? with
      | some k => { s with maxSID := k }
      | none => s
    let d := { d with started := true, s := s }
    (d, render d { s := s, pend := [], evs := [] }, verdict)
  | _ =>
    if !d.started then (d, "not-started", verdict)
    else if d.terminal then (d, "*", verdict)
    else if fs == ["close"] || goAwayConnErr d fs then ({ d with terminal := true }, "*", verdict)
    else
      match external d fs with
      | none => (d, "bad-op", verdict)
      | some (d, pend) =>
        let s0 := d.s
        let outs := outcomes s0 pend
        let lines := outs.map fun n => (n, render d n)
        let pick := match lines.find? (fun p => p.2 == impl) with
          | some p => some p
          | none => lines.head?
        -- A starvation verdict on a line that IS an outcome of the model is the modelled defect: by
        -- `no_waiter_while_quota_free_partial` the model starves only after a woken waiter failed the
        -- header-list-size check (F19). Starvation the model cannot reproduce is reported as it is.
        let verdict :=
          if verdict.startsWith "VIOL starved" && lines.any (fun p => p.2 == impl) then
            verdict ++ " [the model reproduces it: a woken waiter failed checkForHeaderListSize and dropped the wake-up token]"
          else verdict
        match pick with
        | none => (d, "no-outcome", verdict)
        | some (n, line) =>
          let s := n.s
          -- once the transport is draining without a usable GOAWAY signal, or draining with no
          -- stream left (loopy then closes the connection), the model stops predicting
          let term := s.draining && (!s.goAwayClosed || s.openS.isEmpty)
          let d := { d with s := s, reported := markReported d s, terminal := term }
          -- GOAWAY with no stream left: the transport closes itself, which races with the callers
          (d, if s.draining && s.goAwayClosed && s.openS.isEmpty then "*" else line, verdict)

def run : IO Unit := Driver.run ({} : DS) step

end GrpcModel.Driver.S_quota
