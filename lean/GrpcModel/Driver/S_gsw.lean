import GrpcModel.Driver.Loop
import GrpcModel.Model.GracefulSwitch
/-! component `s_gsw` (C33): the real `gracefulswitch.Balancer`, stub builders/children, recording ClientConn.

    switch <name> <script>            script: - | st:<S> | nsc | nil
    ucc <name|-> <buildscript> <script>    script: - | st:<S> | nsc | err
    reserr | exitidle | close
    nscb <child>   the child calls NewSubConn from its own goroutine and the parent ClientConn holds the call
    nsce <sc>      the parent lets the held call that is creating SubConn <sc> return
    st <child> <S> | nsc <child> | scst <sc> <S> | uscs <sc> <S> | scsd <sc> | rn <child> | ua <child> <sc>

  answer: `r=<ok|closed|bad|childerr|switcherr> ev=<events>`; events in call order except that the
  calls made while closing a policy (x<id>, sd<sc>) come last (the old current is closed by a goroutine)
  and the SubConns of one policy are shut down in sorted order (Go map). -/
namespace GrpcModel.Driver.S_gsw
open GrpcModel.Driver GrpcModel.GracefulSwitch
open GrpcModel.LbConnState (ConnState)

def parseScript (s : String) : Option Script :=
  if s = "-" then some .nothing else if s = "nsc" then some .nsc else if s = "nil" then some .retNil
  else if s = "err" then some .retErr
  else match s.splitOn ":" with
    | ["st", x] => (ConnState.parse x).map Script.st
    | _ => none

def parseOp (fs : List String) : Option Op :=
  match fs with
  | ["switch", n, sc] => do
    let sc ← parseScript sc
    if sc = .retErr then none else pure (.switchTo (← n.toNat?) sc)
  | ["ucc", n, b, sc] => do
    let name ← if n = "-" then some none else n.toNat?.map some
    let b ← parseScript b
    let sc ← parseScript sc
    if b = .retErr ∨ sc = .retNil then none else pure (.ucc name b sc)
  | ["reserr"] => some .resErr
  | ["exitidle"] => some .exitIdle
  | ["close"] => some .close
  | ["st", c, x] => do pure (.st (← c.toNat?) (← ConnState.parse x))
  | ["nsc", c] => do pure (.nsc (← c.toNat?))
  | ["nscb", c] => do pure (.nscb (← c.toNat?))
  | ["nsce", sc] => do pure (.nsce (← sc.toNat?))
  | ["scst", sc, x] => do pure (.scst (← sc.toNat?) (← ConnState.parse x))
  | ["uscs", sc, x] => do pure (.uscs (← sc.toNat?) (← ConnState.parse x))
  | ["scsd", sc] => do pure (.scsd (← sc.toNat?))
  | ["rn", c] => do pure (.rn (← c.toNat?))
  | ["ua", c, sc] => do pure (.ua (← c.toNat?) (← sc.toNat?))
  | _ => none

def showEv : Ev → String
  | .push o b => if b.picker = 0 ∧ o ≠ 0 then s!"push:?:{b.state.letter}:0"
                 else if o = 0 then s!"push:0:{b.state.letter}:pe"
                 else s!"push:{o}:{b.state.letter}:{b.picker}"
  | .build i => s!"b{i}" | .closeChild i => s!"x{i}" | .sd sc => s!"sd{sc}"
  | .newSc sc o => s!"nsc{sc}:{o}" | .nscErr i => s!"nscerr{i}" | .ucc i => s!"ucc{i}"
  | .nscHeld sc o => s!"held{sc}:{o}"
  | .resErr i => s!"re{i}" | .exitIdle i => s!"ei{i}"
  | .scListen i sc x => s!"scl{i}:{sc}:{x.letter}" | .uscs i sc x => s!"uscs{i}:{sc}:{x.letter}"
  | .resolveNow => "rn" | .updAddr sc => s!"ua{sc}"

def isCloseEv : Ev → Bool
  | .closeChild _ => true | .sd _ => true | _ => false

def insertNat (a : Nat) : List Nat → List Nat
  | [] => [a]
  | b :: t => if a ≤ b then a :: b :: t else b :: insertNat a t

/-- sort every maximal run of `sd` events -/
def sortSdRuns : List Ev → List Nat → List Ev
  | [], run => run.map Ev.sd
  | .sd sc :: t, run => sortSdRuns t (insertNat sc run)
  | e :: t, run => run.map Ev.sd ++ e :: sortSdRuns t []

def canon (evs : List Ev) : List Ev :=
  evs.filter (!isCloseEv ·) ++ sortSdRuns (evs.filter isCloseEv) []

def showRes : Res → String
  | .ok => "ok" | .closed => "closed" | .bad => "bad" | .childErr => "childerr" | .switchErr => "switcherr"

def showEvs (evs : List Ev) : String :=
  if evs.isEmpty then "-" else ",".intercalate (evs.map showEv)

/-! parsing the implementation's events -/

def natAfter (s : String) (pre : String) : Option Nat :=
  if s.startsWith pre then (s.drop pre.length).toString.toNat? else none

def parseEv (cur : Nat) (s : String) : Option Ev :=
  match s.splitOn ":" with
  | ["push", o, x, pk] => do
    let x ← ConnState.parse x
    if o = "?" then (if pk = "0" then some (.push cur ⟨x, 0⟩) else none)
    else if pk = "pe" then (if o = "0" then some (.push 0 ⟨x, 0⟩) else none)
    else pure (.push (← o.toNat?) ⟨x, ← pk.toNat?⟩)
  | [a, b, c] =>
    if a.startsWith "scl" then do pure (.scListen (← natAfter a "scl") (← b.toNat?) (← ConnState.parse c))
    else if a.startsWith "uscs" then do pure (.uscs (← natAfter a "uscs") (← b.toNat?) (← ConnState.parse c))
    else none
  | [a, b] =>
    if a.startsWith "nsc" then do pure (.newSc (← natAfter a "nsc") (← b.toNat?))
    else if a.startsWith "held" then do pure (.nscHeld (← natAfter a "held") (← b.toNat?))
    else none
  | [a] =>
    if a = "rn" then some .resolveNow
    else if a.startsWith "nscerr" then (natAfter a "nscerr").map Ev.nscErr
    else if a.startsWith "ucc" then (natAfter a "ucc").map Ev.ucc
    else if a.startsWith "sd" then (natAfter a "sd").map Ev.sd
    else if a.startsWith "re" then (natAfter a "re").map Ev.resErr
    else if a.startsWith "ei" then (natAfter a "ei").map Ev.exitIdle
    else if a.startsWith "ua" then (natAfter a "ua").map Ev.updAddr
    else if a.startsWith "b" then (natAfter a "b").map Ev.build
    else if a.startsWith "x" then (natAfter a "x").map Ev.closeChild
    else none
  | _ => none

def parseImpl (cur : Nat) (impl : String) : Option (String × List Ev) :=
  match fields impl with
  | [r, e] =>
    if r.startsWith "r=" ∧ e.startsWith "ev=" then
      let es := (e.drop 3).toString
      let l := if es = "-" then [] else es.splitOn ","
      (l.mapM (parseEv cur)).map fun evs => ((r.drop 2).toString, evs)
    else none
  | _ => none

structure DSt where
  s : St := {}
  /-- last state the IMPLEMENTATION gave to the channel -/
  implPushed : Option (Nat × BState) := none

def lastPush (evs : List Ev) (old : Option (Nat × BState)) : Option (Nat × BState) :=
  evs.foldl (fun acc e => match e with | .push o b => some (o, b) | _ => acc) old

/-- C33 on one answer of the implementation; `s` / `s'` are the balancer's roles before / after. -/
def monitor (d : DSt) (s' : St) (op : Op) (impl : String) : Option (Nat × BState) × String :=
  let cur := match s'.current with | some c => c.id | none => 0
  match parseImpl cur impl with
  | none => (d.implPushed, "VIOL unparsable answer")
  | some (_, evs) =>
    let pushed := lastPush evs d.implPushed
    let swapRule : Option String := match op with
      | .st c x =>
        if !(known d.s c) then none else
        let want := canon (specReport d.s c x)
        if evs = want then none
        else if shouldSwap d.s c x then some s!"VIOL swap rule: the new policy must become current and the old one be closed here (want {showEvs want})"
        else if evs.any isCloseEv then some "VIOL swap rule: the old policy was closed although it is READY and the new one only CONNECTING"
        else some s!"VIOL swap rule: wrong update to the channel (want {showEvs want})"
      | _ => none
    let v := match swapRule with
      | some m => m
      | none =>
      if !(pushesFromCurrent s' evs) then
        "VIOL a state update reached the channel from a policy that is not the current one (closed, superseded or still pending)"
      else if !(retiredClosed d.s s' evs) then "VIOL a policy was dropped without being closed, or a SubConn it created was not shut down"
      else if !(gracefulOk s' pushed) then "VIOL the channel does not have the latest state of the policy in use"
      else match op with
        | .nsce sc =>
          if lateSubConnOk d.s sc evs then "ok"
          else "VIOL a NewSubConn call returned after its policy was closed or superseded: the SubConn must be shut down and not handed to the policy"
        | .switchTo _ _ =>
          -- repeated switch: a replaced pending policy is closed on the spot
          match d.s.pending with
          | some p => if d.s.closed ∨ evs.contains (.closeChild p.id) then "ok" else "VIOL the replaced pending policy was not closed"
          | none => "ok"
        | _ => "ok"
    (pushed, v)

def step (d : DSt) (fs : List String) (impl : String) : DSt × String × String :=
  match parseOp fs with
  | none => (d, "bad-op", "-")
  | some op =>
    -- ops naming a child / SubConn that was never created are rejected by the harness
    let okIds : Bool := match op with
      | .st c _ => known d.s c | .nsc c => known d.s c | .rn c => known d.s c
      | .nscb c => known d.s c | .nsce sc => d.s.inflight.any (·.1 = sc)
      | .ua c sc => known d.s c && decide (1 ≤ sc ∧ sc ≤ d.s.scSerial)
      | .scst sc _ => decide (1 ≤ sc ∧ sc ≤ d.s.scSerial) | .uscs sc _ => decide (1 ≤ sc ∧ sc ≤ d.s.scSerial)
      | .scsd sc => decide (1 ≤ sc ∧ sc ≤ d.s.scSerial)
      | _ => true
    if !okIds then (d, "bad-op", "-") else
    let (s', evs, r) := GracefulSwitch.step d.s op
    let mo := s!"r={showRes r} ev={showEvs (canon evs)}"
    let (pushed, v) := monitor d s' op impl
    ({ s := s', implPushed := pushed }, mo, v)

def run : IO Unit := Driver.run ({} : DSt) step

end GrpcModel.Driver.S_gsw
