import GrpcModel.Driver.Loop
import GrpcModel.Model.Deadline
/-!
component `s_deadline` (C22): see harness/synct/c_deadline_test.go for the ops.

Model: the RPC goroutine of `Model/Deadline.lean` driven into the scenario's parking place, then
`ctxFire`; grpc-timeout through the C07 model; the server stream's context (`Srv`).
Monitor, on the IMPLEMENTATION's answers (knowing only the ops):
  * a cancel / an expired deadline makes the RPC return in that very op, at exactly the instant of
    the event, with CANCELLED (1) resp. DEADLINE_EXCEEDED (4);
  * the handler's context deadline exists iff the client set one and is never earlier than the client's;
  * the handler's context is done (Canceled or DeadlineExceeded) at the instant the client gave up.
-/
namespace GrpcModel.Driver.S_deadline
open GrpcModel.Driver GrpcModel.Deadline

structure Mon where
  now : Nat := 0
  started : Bool := false          -- rpc op seen
  deadline : Option Nat := none    -- client deadline (absolute)
  fired : Option (Nat × Nat) := none   -- (instant, expected code) of the first context event
  retSeen : Bool := false
  hSeen : Bool := false
  xSeen : Bool := false

structure St where
  scenario : Option String := none
  rpc : Option GrpcModel.Deadline.St := none
  now : Nat := 0
  deadline : Option Nat := none
  returned : Bool := false
  srv : Option Srv := none
  pending : List String := []      -- server events not yet reported
  race : Bool := false             -- the pending `x` event's error is a same-instant race
  mon : Mon := {}

def scenarios : List String := ["pick", "squota", "wquota", "window", "header", "recv"]

def pref : Nat → Bool := fun _ => false

/-- Events that drive a fresh RPC into the scenario's parking place. -/
def setup (sc : String) : GrpcModel.Deadline.St × List Ev :=
  match sc with
  | "pick" => (GrpcModel.Deadline.St.init false false 1, [])
  | "squota" => (GrpcModel.Deadline.St.init false false 0, [.pickerReady])
  | "header" => (GrpcModel.Deadline.St.init false false 1, [.pickerReady])
  | "recv" => (GrpcModel.Deadline.St.init false false 1, [.pickerReady, .headers])
  | "wquota" => (GrpcModel.Deadline.St.init true false 1, [.pickerReady, .appSend 200005, .replenish 65535, .appSend 6])
  | _ => (GrpcModel.Deadline.St.init true false 1, [.pickerReady, .headers, .appSend 200005, .replenish 65535, .appRecv])

def showPos : PC → String
  | .parked .pick => "at:pick"
  | .parked .newStream => "at:newstream"
  | .parked .wquota => "at:wquota"
  | .parked .header => "at:header"
  | .parked .recv => "at:recv"
  | .app => "at:app"
  | .returned c => s!"ret:{c}"

def showErr : CtxErr → String
  | .deadlineExceeded => "DeadlineExceeded"
  | .canceled => "Canceled"

/-- The context fires at instant `t`: run the model, emit client and server events. -/
def fire (st : St) (t : Nat) (e : CtxErr) : St × String :=
  match st.rpc with
  | none => (st, "-")
  | some r =>
    if st.returned then (st, "-") else
    let r1 := GrpcModel.Deadline.step false r (.ctxFire e)
    -- a streaming application whose SendMsg failed goes on to RecvMsg for the status
    let r2 := match r1.pc with
      | .app => GrpcModel.Deadline.run pref 0 r1 (List.replicate (r1.buf.length) .appRecv)
      | _ => r1
    let out := match r2.pc with
      | .returned c => s!"ret@{t}:{c}"
      | _ => "-"
    -- server side: the client's closeStream sent RST_STREAM; the server's own deadline may expire at the same instant
    let (srv', pend, race) := match st.srv with
      | none => (none, st.pending, false)
      | some sv =>
        let sv0 := { sv with now := t }
        let racing := sv0.deadline == some t
        let sv1 := sstep sv0 .rst
        (some sv1, st.pending ++ [s!"x@{t}:{match sv1.err with | some x => showErr x | none => "none"}"], racing)
    ({ st with rpc := some r2, returned := (match r2.pc with | .returned _ => true | _ => false), srv := srv',
               pending := pend, race := race }, out)

def words (s : String) : List String := (s.splitOn " ").filter (· ≠ "")

/-- `k@t:v` → (k, t, v) -/
def parseEv (w : String) : Option (String × Nat × String) :=
  match w.splitOn "@" with
  | [k, rest] => match rest.splitOn ":" with
    | [t, v] => t.toNat?.map fun t => (k, t, v)
    | _ => none
  | _ => none

/-- Monitor for client-side answers of `adv` / `cancel`. -/
def clientVerdict (m : Mon) (impl : String) : Mon × String :=
  let evs := (words impl).filterMap parseEv
  let ret := evs.find? fun (k, _, _) => k == "ret"
  match m.fired, m.retSeen, ret with
  | some (t, c), false, some (_, t', v) =>
    let m' := { m with retSeen := true }
    if v.toNat? != some c then (m', s!"VIOL terminal code {v}, expected {c}")
    else if t' != t then (m', s!"VIOL RPC returned at {t'}, the context was done at {t}")
    else (m', "ok")
  | some (t, c), false, none => (m, s!"VIOL RPC still blocked at {m.now}: context done at {t}, expected code {c}")
  | _, _, some (_, _, _) => ({ m with retSeen := true }, "ok")
  | _, _, none => (m, "ok")

/-- Monitor for `srv` answers. -/
def serverVerdict (m : Mon) (impl : String) : Mon × String :=
  let evs := (words impl).filterMap parseEv
  let h := evs.find? fun (k, _, _) => k == "h"
  let x := evs.find? fun (k, _, _) => k == "x"
  let m1 := { m with hSeen := m.hSeen || h.isSome, xSeen := m.xSeen || x.isSome }
  let vh := match h with
    | some (_, _, v) =>
      match m.deadline, v.toNat? with
      | some d, some sd => if sd < d then s!"VIOL handler deadline {sd} earlier than the client's {d}" else "ok"
      | some d, none => s!"VIOL handler has no deadline, the client's is {d}"
      | none, some sd => s!"VIOL handler deadline {sd} but the client set none"
      | none, none => "ok"
    | none => "ok"
  let vx := match x with
    | some (_, t, v) =>
      match m.fired with
      | some (tf, _) =>
        if v != "Canceled" && v != "DeadlineExceeded" then s!"VIOL handler ctx.Err() = {v}"
        else if t != tf then s!"VIOL handler context done at {t}, the client gave up at {tf}"
        else "ok"
      | none => s!"VIOL handler context done at {t} although the client did not cancel and no deadline passed"
    | none =>
      if m1.hSeen && !m1.xSeen && m.fired.isSome then "VIOL handler context not cancelled after the client gave up" else "ok"
  (m1, if vh.startsWith "VIOL" then vh else vx)

def step : Step St := fun st fs impl =>
  match st.scenario, fs with
  | none, ["start", sc] =>
    if scenarios.contains sc then ({ st with scenario := some sc }, "ok", "-") else (st, "bad-op", "-")
  | none, _ => (st, "bad-op", "-")
  | some sc, _ =>
    match fs with
    | ["rpc", a] =>
      match a.toNat?, st.rpc with
      | some to, none =>
        let (r0, evs) := setup sc
        let r := GrpcModel.Deadline.run pref 0 r0 evs
        let dl := if to > 0 then some (st.now + to) else none
        -- handler start: its context deadline is arrival + decodeTimeout(grpc-timeout)
        let (srv, pend) :=
          if r.created then
            let sd : Option Nat := match dl with
              | some d => match timeoutHeader st.now d with
                | .ok h => serverDeadline st.now h
                | .error _ => none
              | none => none
            (some ({ now := st.now, deadline := sd } : Srv),
             [s!"h@{st.now}:{match sd with | some x => toString x | none => "none"}"])
          else (none, [])
        ({ st with rpc := some r, deadline := dl, srv := srv, pending := pend,
                   mon := { st.mon with started := true, deadline := dl } }, showPos r.pc, "-")
      | _, _ => (st, "bad-op", "-")
    | ["cancel"] =>
      if st.rpc.isNone then (st, "bad-op", "-") else
      let (st', out) := fire st st.now .canceled
      let m := st.mon
      let m1 := if m.fired.isNone && !m.retSeen then { m with fired := some (m.now, 1) } else m
      let (m2, v) := clientVerdict m1 impl
      ({ st' with mon := m2 }, out, v)
    | ["adv", a] =>
      match a.toNat? with
      | none => (st, "bad-op", "-")
      | some d =>
        let now' := st.now + d
        let (st', out) := match st.deadline with
          | some dl => if dl ≤ now' && !st.returned && st.rpc.isSome then fire st dl .deadlineExceeded else (st, "-")
          | none => (st, "-")
        let m := { st.mon with now := st.mon.now + d }
        let m1 := match m.deadline with
          | some dl => if dl ≤ m.now && m.fired.isNone && !m.retSeen then { m with fired := some (dl, 4) } else m
          | none => m
        let (m2, v) := if m.started then clientVerdict m1 impl else (m1, "-")
        ({ st' with now := now', mon := m2 }, out, v)
    | ["srv"] =>
      let out := if st.pending.isEmpty then "-" else " ".intercalate st.pending
      let (m2, v) := serverVerdict st.mon impl
      ({ st with pending := [], race := false, mon := m2 }, if st.race then "*" else out, v)
    | _ => (st, "bad-op", "-")

def run : IO Unit := Driver.run ({} : St) step

end GrpcModel.Driver.S_deadline
