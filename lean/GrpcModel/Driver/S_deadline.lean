import GrpcModel.Driver.Loop
import GrpcModel.Model.Deadline
/-!
component `s_deadline` (C22): see harness/synct/c_deadline_test.go for the ops.

Model: the RPC goroutine of `Model/Deadline.lean` driven into the scenario's parking place, then
`ctxFire`; grpc-timeout through the C07 model; the server stream's context (`Srv`).
Monitor, on the IMPLEMENTATION's answers (knowing only the ops):
  * a cancel / an expired deadline makes the RPC return in that very op, at exactly the instant of
    the event, with CANCELLED (1) resp. DEADLINE_EXCEEDED (4);
  * the handler's context deadline exists iff the client set one and is never earlier than the client's;
  * the handler's context is done (Canceled or DeadlineExceeded) at the instant the client gave up.
-/
namespace GrpcModel.Driver.S_deadline
open GrpcModel.Driver GrpcModel.Deadline

structure Mon where
  now : Nat := 0
  pending : String := ""           -- the call the implementation said is parked: "rpc" | "send" | "recv" | ""
  clientStreams : Bool := true     -- desc.ClientStreams of the stream made by `new`
  started : Bool := false          -- rpc op seen
  deadline : Option Nat := none    -- client deadline (absolute)
  fired : Option (Nat × Nat) := none   -- (instant, expected code) of the first context event
  retSeen : Bool := false
  hSeen : Bool := false
  xSeen : Bool := false

structure St where
  scenario : Option String := none
  rpc : Option GrpcModel.Deadline.St := none
  now : Nat := 0
  deadline : Option Nat := none
  returned : Bool := false
  srv : Option Srv := none
  pending : List String := []      -- server events not yet reported
  race : Bool := false             -- the pending `x` event's error is a same-instant race
  win : Nat := 65535               -- (scenario app) what is left of the stream's flow-control window
  queued : Nat := 0                -- (scenario app) bytes accepted by SendMsg that loopy could not write yet
  clientStreams : Bool := true     -- (scenario app) desc.ClientStreams
  mon : Mon := {}

def scenarios : List String := ["pick", "squota", "wquota", "window", "header", "recv", "app", "recvbody"]

def pref : Nat → Bool := fun _ => false

/-- Events that drive a fresh RPC into the scenario's parking place. -/
def setup (sc : String) : GrpcModel.Deadline.St × List Ev :=
  match sc with
  | "pick" => (GrpcModel.Deadline.St.init false false 1, [])
  | "squota" => (GrpcModel.Deadline.St.init false false 0, [.pickerReady])
  | "header" => (GrpcModel.Deadline.St.init false false 1, [.pickerReady])
  | "recv" => (GrpcModel.Deadline.St.init false false 1, [.pickerReady, .headers])
  | "recvbody" => (GrpcModel.Deadline.St.init false false 1, [.pickerReady, .headers, .partialMsg])
  | "wquota" => (GrpcModel.Deadline.St.init true false 1, [.pickerReady, .appSend 200005, .replenish 65535, .appSend 6])
  | _ => (GrpcModel.Deadline.St.init true false 1, [.pickerReady, .headers, .appSend 200005, .replenish 65535, .appRecv])

def showPos (pc : PC) (midMsg : Bool := false) : String :=
  match pc with
  | .parked .pick => "at:pick"
  | .parked .newStream => "at:newstream"
  | .parked .wquota => "at:wquota"
  | .parked .header => "at:header"
  | .parked .recv => if midMsg then "at:recvbody" else "at:recv"
  | .app => "at:app"
  | .returned c => s!"ret:{c}"

def showErr : CtxErr → String
  | .deadlineExceeded => "DeadlineExceeded"
  | .canceled => "Canceled"

/-- `csAttempt.sendMsg` on a transport error (errStreamDone): io.EOF for a client-streaming RPC, nil for a
    non-client-streaming one ("the generated code requires it"); the status comes from RecvMsg. -/
def deadSend (clientStreams : Bool) : String := if clientStreams then "eof" else "ok"

/-- The context fires at instant `t`: run the model, emit client and server events. -/
def fire (st : St) (t : Nat) (e : CtxErr) : St × String :=
  match st.rpc with
  | none => (st, "-")
  | some r =>
    if st.returned then (st, "-") else
    let r1 := GrpcModel.Deadline.step false r (.ctxFire e)
    let isApp := st.scenario == some "app"
    -- (scenarios wquota/window) the harness' application goes on to RecvMsg for the status when SendMsg failed
    let r2 := match r1.pc with
      | .app => if isApp then r1 else GrpcModel.Deadline.run pref 0 r1 (List.replicate (r1.buf.length) .appRecv)
      | _ => r1
    let out := match r.pc, r2.pc with
      | _, .returned c => s!"ret@{t}:{c}"
      | .parked .wquota, .app => if isApp then s!"snd@{t}:{deadSend st.clientStreams}" else "-"
      | _, _ => "-"
    -- server side: the client's closeStream sent RST_STREAM; the server's own deadline may expire at the same instant
    let (srv', pend, race) := match (if r2.rstSent && !r.rstSent then st.srv else none) with
      | none => (st.srv, st.pending, false)
      | some sv =>
        let sv0 := { sv with now := t }
        let racing := sv0.deadline == some t
        let sv1 := sstep sv0 .rst
        (some sv1, st.pending ++ [s!"x@{t}:{match sv1.err with | some x => showErr x | none => "none"}"], racing)
    ({ st with rpc := some r2, returned := (match r2.pc with | .returned _ => true | _ => false), srv := srv',
               pending := pend, race := race }, out)

def words (s : String) : List String := (s.splitOn " ").filter (· ≠ "")

/-- `k@t:v` → (k, t, v) -/
def parseEv (w : String) : Option (String × Nat × String) :=
  match w.splitOn "@" with
  | [k, rest] => match rest.splitOn ":" with
    | [t, v] => t.toNat?.map fun t => (k, t, v)
    | _ => none
  | _ => none

/-- Monitor for client-side answers of `adv` / `cancel`: the parked call (if any) must come back in
    the op in which the context is done, at that instant: a parked RPC / RecvMsg with the context's
    code, a parked SendMsg with io.EOF. -/
def clientVerdict (m : Mon) (impl : String) : Mon × String :=
  let evs := (words impl).filterMap parseEv
  let ret := evs.find? fun (k, _, _) => k == "ret"
  let snd := evs.find? fun (k, _, _) => k == "snd"
  let m0 := if ret.isSome || snd.isSome then { m with pending := "" } else m
  match m.fired, m.retSeen, m.pending with
  | some (t, _), false, "send" =>
    match snd with
    | some (_, t', v) =>
      if v != deadSend m.clientStreams then (m0, s!"VIOL parked SendMsg returned {v}, expected {deadSend m.clientStreams}")
      else if t' != t then (m0, s!"VIOL SendMsg returned at {t'}, the context was done at {t}")
      else (m0, "ok")
    | none => (m0, s!"VIOL SendMsg still blocked at {m.now}: context done at {t}")
  | some (t, c), false, "" => if ret.isSome then ({ m0 with retSeen := true }, "ok") else (m0, "ok")
  | some (t, c), false, _ =>
    match ret with
    | some (_, t', v) =>
      let m' := { m0 with retSeen := true }
      if v.toNat? != some c then (m', s!"VIOL terminal code {v}, expected {c}")
      else if t' != t then (m', s!"VIOL RPC returned at {t'}, the context was done at {t}")
      else (m', "ok")
    | none => (m0, s!"VIOL RPC still blocked at {m.now}: context done at {t}, expected code {c}")
  | _, _, _ => (if ret.isSome then { m0 with retSeen := true } else m0, "ok")

/-- Monitor for `send` / `recv` answers of an application-driven stream. -/
def callVerdict (m : Mon) (kind : String) (impl : String) : Mon × String :=
  if impl.startsWith "at:" then
    match m.fired with
    | some (t, _) => ({ m with pending := kind }, s!"VIOL {kind} parked at {m.now} although the context was done at {t}")
    | none => ({ m with pending := kind }, "ok")
  else
    let evs := (words impl).filterMap parseEv
    let ret := evs.find? fun (k, _, _) => k == "ret"
    let snd := evs.find? fun (k, _, _) => k == "snd"
    let m' := if ret.isSome then { m with retSeen := true } else m
    match m.fired, kind with
    | some (_, c), "recv" =>
      match ret with
      | some (_, _, v) => if v.toNat? != some c then (m', s!"VIOL terminal code {v}, expected {c}") else (m', "ok")
      | none => (m', "VIOL RecvMsg after the context was done did not return its status")
    | some _, "send" =>
      match snd with
      | some (_, _, v) => if v != deadSend m.clientStreams then (m', s!"VIOL SendMsg after the context was done returned {v}, expected {deadSend m.clientStreams}") else (m', "ok")
      | none => (m', "ok")
    | _, _ => (m', "ok")

/-- Monitor for `srv` answers. -/
def serverVerdict (m : Mon) (impl : String) : Mon × String :=
  let evs := (words impl).filterMap parseEv
  let h := evs.find? fun (k, _, _) => k == "h"
  let x := evs.find? fun (k, _, _) => k == "x"
  let m1 := { m with hSeen := m.hSeen || h.isSome, xSeen := m.xSeen || x.isSome }
  let vh := match h with
    | some (_, _, v) =>
      match m.deadline, v.toNat? with
      | some d, some sd => if sd < d then s!"VIOL handler deadline {sd} earlier than the client's {d}" else "ok"
      | some d, none => s!"VIOL handler has no deadline, the client's is {d}"
      | none, some sd => s!"VIOL handler deadline {sd} but the client set none"
      | none, none => "ok"
    | none => "ok"
  let vx := match x with
    | some (_, t, v) =>
      match m.fired with
      | some (tf, _) =>
        if v != "Canceled" && v != "DeadlineExceeded" then s!"VIOL handler ctx.Err() = {v}"
        else if t != tf then s!"VIOL handler context done at {t}, the client gave up at {tf}"
        else "ok"
      | none => s!"VIOL handler context done at {t} although the client did not cancel and no deadline passed"
    | none =>
      if m1.hSeen && !m1.xSeen && m.fired.isSome then "VIOL handler context not cancelled after the client gave up" else "ok"
  (m1, if vh.startsWith "VIOL" then vh else vx)

def step : Step St := fun st fs impl =>
  match st.scenario, fs with
  | none, ["start", sc] =>
    if scenarios.contains sc then ({ st with scenario := some sc }, "ok", "-") else (st, "bad-op", "-")
  | none, _ => (st, "bad-op", "-")
  | some sc, _ =>
    match fs with
    | ["rpc", a] =>
      match (if sc == "app" then none else a.toNat?), st.rpc with
      | some to, none =>
        let (r0, evs) := setup sc
        let r := GrpcModel.Deadline.run pref 0 r0 evs
        let dl := if to > 0 then some (st.now + to) else none
        -- handler start: its context deadline is arrival + decodeTimeout(grpc-timeout)
        let (srv, pend) :=
          if r.created && sc != "recvbody" then
            let sd : Option Nat := match dl with
              | some d => match timeoutHeader st.now d with
                | .ok h => serverDeadline st.now h
                | .error _ => none
              | none => none
            (some ({ now := st.now, deadline := sd } : Srv),
             [s!"h@{st.now}:{match sd with | some x => toString x | none => "none"}"])
          else (none, [])
        ({ st with rpc := some r, deadline := dl, srv := srv, pending := pend,
                   mon := { st.mon with started := true, deadline := dl, pending := "rpc" } }, showPos r.pc r.midMsg, "-")
      | _, _ => (st, "bad-op", "-")
    | ["new", c, ss, h, a] =>
      let bit (x : String) := x == "0" || x == "1"
      match (if sc == "app" && bit c && bit ss && bit h then a.toNat? else none), st.rpc with
      | some to, none =>
        let r0 := GrpcModel.Deadline.St.init true false 1 1 (ss == "1")
        let r := GrpcModel.Deadline.run pref 0 r0 ([.pickerReady] ++ (if h == "1" then [.headers] else []))
        let dl := if to > 0 then some (st.now + to) else none
        let sd : Option Nat := match dl with
          | some d => match timeoutHeader st.now d with
            | .ok hd => serverDeadline st.now hd
            | .error _ => none
          | none => none
        ({ st with rpc := some r, deadline := dl, srv := some ({ now := st.now, deadline := sd } : Srv),
                   pending := [s!"h@{st.now}:{match sd with | some x => toString x | none => "none"}"],
                   clientStreams := c == "1",
                   mon := { st.mon with started := true, deadline := dl, clientStreams := c == "1" } }, "ok", "-")
      | _, _ => (st, "bad-op", "-")
    | ["send", a] =>
      match a.toNat?, st.rpc with
      | some n, some r =>
        if sc != "app" || r.pc != .app then (st, "bad-op", "-") else
        let sz := n + 5
        let r1 := GrpcModel.Deadline.step false r (.appSend sz)
        let (m2, v) := callVerdict st.mon "send" impl
        if r.sdone then ({ st with mon := m2 }, s!"snd@{st.now}:{deadSend st.clientStreams}", v)
        else match r1.pc with
          | .app =>
            -- loopy writes what the stream's window allows and returns that much write quota
            let q := st.queued + sz
            let w := min q st.win
            let r2 := GrpcModel.Deadline.step false r1 (.replenish w)
            ({ st with rpc := some r2, queued := q - w, win := st.win - w, mon := m2 }, s!"snd@{st.now}:ok", v)
          | _ => ({ st with rpc := some r1, mon := m2 }, showPos r1.pc, v)
      | _, _ => (st, "bad-op", "-")
    | ["recv"] =>
      match st.rpc with
      | some r =>
        if sc != "app" || r.pc != .app then (st, "bad-op", "-") else
        let r1 := GrpcModel.Deadline.step false r .appRecv
        let (m2, v) := callVerdict st.mon "recv" impl
        let out := match r1.pc with
          | .returned c => s!"ret@{st.now}:{c}"
          | pc => showPos pc
        ({ st with rpc := some r1, returned := (match r1.pc with | .returned _ => true | _ => false), mon := m2 }, out, v)
      | none => (st, "bad-op", "-")
    | ["cancel"] =>
      if st.rpc.isNone then (st, "bad-op", "-") else
      let (st', out) := fire st st.now .canceled
      let m := st.mon
      let m1 := if m.fired.isNone && !m.retSeen then { m with fired := some (m.now, 1) } else m
      let (m2, v) := clientVerdict m1 impl
      ({ st' with mon := m2 }, out, v)
    | ["adv", a] =>
      match a.toNat? with
      | none => (st, "bad-op", "-")
      | some d =>
        let now' := st.now + d
        let (st', out) := match st.deadline with
          | some dl => if dl ≤ now' && !st.returned && st.rpc.isSome then fire st dl .deadlineExceeded else (st, "-")
          | none => (st, "-")
        let m := { st.mon with now := st.mon.now + d }
        let m1 := match m.deadline with
          | some dl => if dl ≤ m.now && m.fired.isNone && !m.retSeen then { m with fired := some (dl, 4) } else m
          | none => m
        let (m2, v) := if m.started then clientVerdict m1 impl else (m1, "-")
        ({ st' with now := now', mon := m2 }, out, v)
    | ["srv"] =>
      let out := if st.pending.isEmpty then "-" else " ".intercalate st.pending
      let (m2, v) := serverVerdict st.mon impl
      ({ st with pending := [], race := false, mon := m2 }, if st.race then "*" else out, v)
    | _ => (st, "bad-op", "-")

def run : IO Unit := Driver.run ({} : St) step

end GrpcModel.Driver.S_deadline
