import GrpcModel.Driver.Loop
import GrpcModel.Model.Keepalive
/-!
component `s_kaclient` (C15, client half): see harness/synct/c_kaclient_test.go for the ops.

Model output = the events (`p@t`, `c@t`) the keepalive automaton produces for the op.
Monitor (on the IMPLEMENTATION's events, using only the op history for lastRead / applicability):
  * healthy: the transport is never closed at an instant `t ≤ lastRead + Time`;
  * dead peer: while keepalive is applicable the transport is closed no later than
    `deadBound = max(lastRead + Time, applicableSince) + Timeout`.  After a *late wake* (model ghost)
    the unchanged code needs up to `min(Time, Timeout)` more: that is reported as
    `VIOL late-wake …` (known finding) and everything beyond it as a plain violation.
-/
namespace GrpcModel.Driver.S_kaclient
open GrpcModel.Driver GrpcModel.Keepalive

/-- What the monitor knows: derived from the ops (inputs) and the implementation's answers only. -/
structure Mon where
  now : Nat := 0
  lastRead : Nat := 0
  streams : Nat := 0
  appSince : Nat := 0
  closed : Bool := false

structure St where
  cfg : Option Cfg := none
  ka : KA := KA.init ⟨1, 1, true⟩
  mon : Mon := {}

def showOuts (os : List Out) : String :=
  if os.isEmpty then "-" else
  " ".intercalate (os.map fun
    | .ping t => s!"p@{t}"
    | .close t => s!"c@{t}")

/-- `c@<t>` in an implementation answer. -/
def implClose (impl : String) : Option Nat :=
  (impl.splitOn " ").findSome? fun w =>
    if w.startsWith "c@" then (w.drop 2).toString.toNat? else none

def fuelFor (c : Cfg) (d : Nat) : Nat := 2 * (d / (min c.time c.timeout)) + 8

/-- The property predicates on one implementation answer. `m` is the monitor state at the END of
    the op (time already advanced), `late` the model's late-wake ghost. -/
def verdict (c : Cfg) (m : Mon) (late : Bool) (impl : String) : String :=
  let app := c.permit || decide (0 < m.streams)
  let b := deadBound c m.lastRead m.appSince
  let sl := if late then min c.time c.timeout else 0
  match implClose impl with
  | some t =>
    if t ≤ m.lastRead + c.time then s!"VIOL closed at {t} although a frame was read at {m.lastRead} (within Time)"
    else if app && decide (t > b + sl) then s!"VIOL dead peer closed at {t}, later than bound {b}"
    else if app && decide (t > b) then s!"VIOL late-wake: dead peer closed at {t}, bound {b}, within the extra min(Time,Timeout)"
    else "ok"
  | none =>
    if app && decide (m.now ≥ b + sl) then s!"VIOL dead peer not closed at {m.now}, bound {b}" ++ (if late then " (+late-wake slack)" else "")
    else "ok"

def readKinds : List String := ["ack", "ping", "settings", "wupd"]

def step : Step St := fun st fs impl =>
  match st.cfg, fs with
  | none, ["start", a, b, p] =>
    match a.toNat?, b.toNat?, p with
    | some t, some to, "0" | some t, some to, "1" =>
      if t = 0 || to = 0 then (st, "bad-op", "-") else
      let c : Cfg := ⟨t, to, p == "1"⟩
      ({ cfg := some c, ka := KA.init c, mon := {} }, "ok", "-")
    | _, _, _ => (st, "bad-op", "-")
  | none, _ => (st, "bad-op", "-")
  | some c, _ =>
    if fs.head? == some "start" then (st, "bad-op", "-") else
    let m := st.mon
    -- the op as events of the automaton + the monitor's bookkeeping (inputs only)
    let ev : Option (List Ev × Mon) :=
      match fs with
      | ["adv", d] => match d.toNat? with
        | some d => some ((schedule fire c st.ka d (fuelFor c d)).getD [], { m with now := m.now + d })
        | none => none
      | ["read", k] => if readKinds.contains k then some ([Ev.read], { m with lastRead := m.now }) else none
      | ["open"] => some ([Ev.openS], { m with streams := m.streams + 1, appSince := if m.streams = 0 && !c.permit then m.now else m.appSince })
      | ["done"] => if m.streams = 0 then none else some ([Ev.doneS], { m with streams := m.streams - 1 })
      | ["burst", k] => match k.toNat? with
        | some n =>
          if n < 1 || n > 8 || toString n != k then none else
          -- the peer's PING is read, n streams are registered while loopy is busy, then loopy runs their initStreams
          some ([Ev.read] ++ List.replicate n Ev.regS ++ List.replicate n Ev.initS,
                { m with lastRead := m.now, streams := m.streams + n,
                         appSince := if m.streams = 0 && !c.permit then m.now else m.appSince })
        | none => none
      | _ => none
    match ev with
    | none => (st, if st.ka.closed then "closed" else "bad-op", "-")
    | some (es, m') =>
      let (ka', outs) := Keepalive.run c st.ka es
      let v := if m.closed then "-" else verdict c m' st.ka.lateWake impl
      let m'' := { m' with closed := m.closed || (implClose impl).isSome }
      ({ st with ka := ka', mon := m'' }, if st.ka.closed then "closed" else if es.isEmpty then "model-out-of-fuel" else showOuts outs, v)

def run : IO Unit := Driver.run ({} : St) step

end GrpcModel.Driver.S_kaclient
