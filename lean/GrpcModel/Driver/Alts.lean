import GrpcModel.Driver.Loop
import GrpcModel.Model.Alts
/-!
component `alts` (C52, T1) — ops as in harness/cmd/impl/c_alts.go.  The model does not know
ciphertext VALUES, only identities, so once a tampered byte lands in a framing position the
model cannot predict the real parser any more (`desync`): from then on outputs are `*` and only
the monitor (delivered bytes are a prefix of the written bytes) judges.
-/
namespace GrpcModel.Driver.Alts
open GrpcModel.Driver GrpcModel.Alts GrpcModel.Generated

structure D where
  r : R
  wire : List Cell            -- written, not yet delivered
  limit : Nat                 -- payloadLengthLimit
  maxRec : Nat                -- max(4 KiB, negotiated)
  desync : Bool
  -- monitor state (fed by implementation outputs only, plus the op lines)
  written : List UInt8
  delivered : List UInt8
  tampered : Bool
  failed : Bool

def dinit : D := ⟨R.init [] 18446744073709551616, [], 0, 0, false, [], [], false, false⟩

/-- the harness's LCG -/
def lcg (n : Nat) (seed : Nat) : List UInt8 :=
  let rec go (k : Nat) (x : Nat) (acc : List UInt8) : List UInt8 :=
    match k with
    | 0 => acc.reverse
    | k + 1 =>
      let x' := (x * 1103515245 + 12345) % 2147483648
      go k x' (UInt8.ofNat (x' / 65536 % 256) :: acc)
  go n seed []

def rle (v : List Nat) : String :=
  if v.isEmpty then "-" else
  let rec go (l : List Nat) (cur : Nat) (cnt : Nat) (acc : List String) : List String :=
    match l with
    | [] => (s!"{cur}x{cnt}" :: acc).reverse
    | x :: xs => if x = cur then go xs cur (cnt + 1) acc else go xs x 1 (s!"{cur}x{cnt}" :: acc)
  match v with
  | [] => "-"
  | x :: xs => ",".intercalate (go xs x 1 [])

/-- complete records at the head of the undelivered wire, by their (known) length fields -/
def splitRecords (fuel : Nat) (w : List Cell) : List (List Cell) × List Cell :=
  match fuel with
  | 0 => ([], w)
  | fuel + 1 =>
    match le32val? (w.take 4) with
    | none => ([], w)
    | some l =>
      if w.length < 4 ∨ l > 2097152 ∨ w.length < 4 + l then ([], w)
      else
        let (rs, rest) := splitRecords fuel (w.drop (4 + l))
        (w.take (4 + l) :: rs, rest)

def tamperCell (c : Cell) (x : Nat) : Cell :=
  match c with
  | .known v => .junk (v ^^^ x)
  | .ct _ _ => .junk 256          -- value unknown, certainly not the original
  | .junk v => .junk (if v < 256 then v ^^^ x else 256)

def showErr : RErr → String
  | .tooLong => "tooLong" | .shortType => "shortType" | .badType => "badType" | .auth => "auth"
  | .counter => "counter" | .desync => "desync"

def isPrefix (a b : List UInt8) : Bool := a.length ≤ b.length && b.take a.length == a

/-- C52 on the implementation's answer to a Read. -/
def monitorRead (d : D) (impl : String) : D × String :=
  match impl.splitOn " " with
  | ["data", h] =>
    match unhex h with
    | none => (d, "VIOL unparsable data")
    | some bs =>
      let del := d.delivered ++ bs
      let d := { d with delivered := del }
      if isPrefix del d.written then (d, "ok") else (d, "VIOL Read returned bytes that are not the next written bytes")
  | ["block"] =>
    -- everything delivered untouched and nothing left to read ⇒ all written bytes must have come out
    if !d.tampered ∧ d.wire.isEmpty ∧ !d.failed ∧ d.delivered.length < d.written.length ∧ d.r.pending.isEmpty ∧ d.r.buf.isEmpty
    then (d, "VIOL peer blocks although every record was delivered intact")
    else (d, "ok")
  | "fail" :: _ =>
    let d' := { d with failed := true }
    if !d.tampered then (d', "VIOL Read failed on an untampered stream") else (d', "ok")
  | _ => (d, "VIOL " ++ impl)

def step : Step D := fun d fs impl =>
  match fs with
  | ["new", n] =>
    match n.toNat? with
    | none => (d, "bad-op", "-")
    | some neg => ({ dinit with limit := payloadLimit neg, maxRec := max altsRecordDefaultLength neg }, "ok", "-")
  | ["write", n, seed] =>
    match n.toNat?, seed.toNat? with
    | some n, some seed =>
      let data := lcg n seed
      let cs := chunks d.limit data.length data
      let k0 := d.r.sent.length
      let d := { d with r := { d.r with sent := d.r.sent ++ cs }, wire := d.wire ++ cellsFrom k0 cs,
                        written := d.written ++ data }
      let lens := cs.map fun c => (recordCells 0 c).length
      -- monitor: frame sizes reported by the implementation respect the limit and carry all bytes
      let v :=
        match (impl.splitOn " ").filterMap (fun w => if w.startsWith "frames=" then some (w.drop 7).toString else none) with
        | [fr] =>
          let sizes := if fr = "-" then [] else (fr.splitOn ",").filterMap fun p =>
            match p.splitOn "x" with
            | [a, b] => do let a ← a.toNat?; let b ← b.toNat?; pure (a, b)
            | _ => none
          if sizes.any (fun p => p.1 > d.maxRec) then "VIOL a record exceeds the frame size limit"
          else if (sizes.foldl (fun acc p => acc + (p.1 - 24) * p.2) 0) ≠ n then "VIOL records do not carry exactly the written bytes"
          else "ok"
        | _ => "VIOL " ++ impl
      (d, s!"n={n} frames={rle lens}", v)
    | _, _ => (d, "bad-op", "-")
  | ["deliver", k] =>
    match k.toNat? with
    | none => (d, "bad-op", "-")
    | some k =>
      let d := { d with r := feed d.r (d.wire.take k), wire := d.wire.drop k }
      (d, s!"ok wire={d.wire.length}", "-")
  | ["tamper", off, x] =>
    match off.toNat?, x.toNat? with
    | some off, some x =>
      if off ≥ d.wire.length then (d, "none", "-")
      else ({ d with wire := d.wire.set off (tamperCell (d.wire.getD off default) x), tampered := true }, "ok", "-")
    | _, _ => (d, "bad-op", "-")
  | ["dropbytes", off, l] =>
    match off.toNat?, l.toNat? with
    | some off, some l =>
      if off + l > d.wire.length then (d, "none", "-")
      else ({ d with wire := d.wire.take off ++ d.wire.drop (off + l), tampered := true }, "ok", "-")
    | _, _ => (d, "bad-op", "-")
  | ["duprec"] =>
    match (splitRecords 1 d.wire).1 with
    | [a] => ({ d with wire := a ++ d.wire, tampered := true }, "ok", "-")
    | _ => (d, "none", "-")
  | ["swaprec"] =>
    match splitRecords 2 d.wire with
    | ([a, b], rest) => ({ d with wire := b ++ a ++ rest, tampered := true }, "ok", "-")
    | _ => (d, "none", "-")
  | ["read", n] =>
    match n.toNat? with
    | none => (d, "bad-op", "-")
    | some n =>
      let (d, v) := monitorRead d impl
      if d.desync then (d, "*", v)
      else
        let (r', o) := GrpcModel.Alts.read d.r n
        match o with
        | .data bs => ({ d with r := r' }, "data " ++ hex bs, v)
        | .block => ({ d with r := r' }, "block", v)
        | .fail .desync => ({ d with r := r', desync := true }, "*", v)
        | .fail e => ({ d with r := r', desync := true }, "fail " ++ showErr e, v)
  | ["ctr", h, ovf, times] =>
    match unhex h, ovf.toNat?, times.toNat? with
    | some bs, some ovf, some times =>
      let bytes := (bs.map (·.toNat)) ++ List.replicate (altsCounterLen - bs.length) 0
      let rec go (k : Nat) (b : List Nat) : List Nat × Bool :=
        match k with
        | 0 => (b, false)
        | k + 1 => match incBytes b ovf with
          | (b', true) => (b', true)
          | (b', false) => go k b'
      let (b', inv) := go times bytes
      let m := if inv then "invalid" else "ok " ++ hex (b'.map UInt8.ofNat)
      -- monitor: the carried part counts up by exactly `times` unless it would wrap
      let v0 := leVal bytes ovf
      let v :=
        if v0 + times ≥ 256 ^ ovf then (if impl = "invalid" then "ok" else "VIOL counter wrapped without becoming invalid")
        else match impl.splitOn " " with
          | ["ok", hx] => match unhex hx with
            | some out => if leVal (out.map (·.toNat)) ovf = v0 + times ∧ (out.map (·.toNat)).drop ovf = bytes.drop ovf then "ok"
                          else "VIOL counter value wrong after Inc"
            | none => "VIOL unparsable"
          | _ => "VIOL counter invalid before it would wrap"
      (d, m, v)
    | _, _, _ => (d, "bad-op", "-")
  | _ => (d, "bad-op", "-")

def run : IO Unit := Driver.run dinit step

end GrpcModel.Driver.Alts
