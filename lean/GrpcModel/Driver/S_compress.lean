import GrpcModel.Driver.Loop
import GrpcModel.Model.Compression
/-!
component `s_compress` (C27); op syntax and output format: harness/synct/c_compress_test.go

  e2e  <reg> <use> <cleg> <cdc> <accept> <scp> <sdc> <setsend> <reqs> <resps>
  rawc <reg> <scp> <sdc> <setsend> <enc> <acc> <frames> <resps>
  raws <reg> <use> <cleg> <cdc> <accept> <reqs> <renc> <rframes>
-/
namespace GrpcModel.Driver.S_compress
open GrpcModel.Driver GrpcModel.Compression

def opt (s : String) : Option String := if s = "-" then none else some s
/-- `~` stands for a space (op fields are space separated) -/
def tilde (s : String) : String := s.replace "~" " "
def plusList (s : String) : List String := if s = "-" then [] else (tilde s).splitOn "+"

def parseMsg (s : String) : Option Bytes := if s = "e" then some [] else unhex s

def parseMsgs (s : String) : Option (List Bytes) :=
  if s = "-" then some [] else (s.splitOn ",").mapM parseMsg

def parseFrame (s : String) : Option Frame :=
  match s.splitOn ":" with
  | [fl, d] => do
    let n ← fl.toNat?
    let b ← parseMsg d
    pure ⟨n, b⟩
  | _ => none

def parseFrames (s : String) : Option (List Frame) :=
  if s = "-" then some [] else (s.splitOn ",").mapM parseFrame

def hexRaw (bs : Bytes) : String :=
  if bs.isEmpty then "e" else
  String.ofList (bs.flatMap fun b => [hexChar (b.toNat / 16), hexChar (b.toNat % 16)])

def showMsgs (l : List Bytes) : String := if l.isEmpty then "-" else ",".intercalate (l.map hexRaw)
def showFrames (l : List Frame) : String :=
  if l.isEmpty then "-" else ",".intercalate (l.map fun f => s!"{f.flag}:{hexRaw f.data}")

def showCode : Code → String
  | .ok => "OK" | .internal => "INTERNAL" | .unimplemented => "UNIMPLEMENTED" | .invalidArgument => "INVALID_ARGUMENT"

def codeNum : Code → String
  | .ok => "0" | .internal => "13" | .unimplemented => "12" | .invalidArgument => "3"

def showHdrVal : Option String → String
  | none => "-" | some "" => "\"\"" | some v => v

def showReqHdr : Option ReqHdr → String
  | none => "-/-"
  | some h => showHdrVal h.enc ++ "/" ++ showHdrVal h.acc

def showSetSend : Option SetSendRes → String
  | none => "-" | some .ok => "ok" | some .notreg => "notreg" | some .notadv => "notadv" | some .late => "err"

def showRespHdr : Option (Option String) → String
  | none => "none" | some e => showHdrVal e

def showSrvResult : SrvResult → String
  | .norun => "norun" | .ok => "ok" | .err c => showCode c

def showSrv (sv : SrvSide) : String :=
  s!"srv={showSrvResult sv.result} sgot={showMsgs sv.got} setsend={showSetSend sv.setsend}"

def noSrv : SrvSide := ⟨.norun, [], none, none, [], .ok⟩

def showE2E (r : E2E) : String :=
  let sv := r.srv.getD noSrv
  s!"open={showCode r.opened} reqhdr={showReqHdr r.reqHdr} reqs={showFrames r.reqs} {showSrv sv} " ++
  s!"resphdr={showRespHdr sv.respHdr} resps={showFrames sv.resps} " ++
  s!"cli={match r.cli with | some c => showCode c | none => "-"} cgot={showMsgs r.cgot}"

structure Op where
  kind : String
  reg : List String
  client : Client
  server : Server
  setsend : Option String
  reqs : List Bytes          -- e2e / raws: request messages
  resps : List Bytes         -- e2e / rawc: response messages
  hdr : ReqHdr               -- rawc: request headers
  frames : List Frame        -- rawc: request frames ; raws: response frames
  renc : Option String       -- raws: response grpc-encoding

def mkClient (use cleg cdc accept : String) : Client :=
  { use := opt use, legacyComp := opt cleg, legacyDecomp := opt cdc,
    accept := if accept = "nil" then none else some (plusList accept) }

def parseOp : List String → Option Op
  | ["e2e", reg, use, cleg, cdc, accept, scp, sdc, setsend, reqs, resps] => do
    let rq ← parseMsgs reqs
    let rs ← parseMsgs resps
    pure { kind := "e2e", reg := plusList reg, client := mkClient use cleg cdc accept,
           server := ⟨opt scp, opt sdc⟩, setsend := opt setsend, reqs := rq, resps := rs,
           hdr := ⟨none, none⟩, frames := [], renc := none }
  | ["rawc", reg, scp, sdc, setsend, enc, acc, frames, resps] => do
    let fs ← parseFrames frames
    let rs ← parseMsgs resps
    pure { kind := "rawc", reg := plusList reg, client := mkClient "-" "-" "-" "nil",
           server := ⟨opt scp, opt sdc⟩, setsend := opt setsend, reqs := [], resps := rs,
           hdr := ⟨opt enc, (opt acc).map tilde⟩, frames := fs, renc := none }
  | ["raws", reg, use, cleg, cdc, accept, reqs, renc, rframes] => do
    let rq ← parseMsgs reqs
    let fs ← parseFrames rframes
    pure { kind := "raws", reg := plusList reg, client := mkClient use cleg cdc accept,
           server := ⟨none, none⟩, setsend := none, reqs := rq, resps := [],
           hdr := ⟨none, none⟩, frames := fs, renc := opt renc }
  | _ => none

def model (o : Op) : String :=
  if o.kind = "e2e" then showE2E (e2e toy o.reg o.client o.server o.setsend o.reqs o.resps)
  else if o.kind = "rawc" then
    let sv := serverSide toy o.reg o.server o.setsend o.hdr o.frames o.resps
    s!"{showSrv sv} resphdr={showRespHdr sv.respHdr} resps={showFrames sv.resps} status={codeNum sv.status}"
  else
    match clientOpen o.reg o.client with
    | .error e => s!"open={showCode e} reqhdr=-/- reqs=- cli=- cgot=-"
    | .ok cs =>
      let (code, got) := clientSide toy o.reg o.client cs.accepted (some o.renc) o.frames .ok
      s!"open=OK reqhdr={showReqHdr (some cs.hdr)} reqs={showFrames (o.reqs.map (cs.send toy))} " ++
      s!"cli={showCode code} cgot={showMsgs got}"

/-! ### the property's predicates, evaluated on what the implementation put on the wire / delivered -/

def field (fs : List String) (k : String) : Option String :=
  (fs.find? (·.startsWith (k ++ "="))).map fun s => (s.drop (k.length + 1)).toString

def hdrVal (s : String) : Option String := if s = "-" ∨ s = "none" then none else if s = "\"\"" then some "" else some s

/-- clause 1: per message, flag vs. the stream's grpc-encoding. `payloads` = the uncompressed messages
    (known for a real sender). Reading (F12): an EMPTY message is sent with flag 0 on any stream. -/
def checkFlags (who : String) (enc : Option String) (payloads : List Bytes) (frames : List Frame) : Option String :=
  let compressed := nonIdentity (enc.getD "")
  let rec go : List Bytes → List Frame → Option String
    | p :: ps, f :: fs =>
      if f.flag = 1 ∧ !compressed then
        some s!"VIOL {who} message has the compressed flag set but the stream's grpc-encoding is identity/absent"
      else if f.flag = 0 ∧ compressed ∧ !p.isEmpty then
        some s!"VIOL {who} non-empty message sent with flag 0 on a stream whose grpc-encoding is a compressor"
      else if f.flag > 1 then some s!"VIOL {who} message with flag {f.flag}"
      else go ps fs
    | _, _ => none
  go payloads frames

/-- what a receiver must hand to the application for a frame it accepts -/
def decodeSpec (enc : Option String) (f : Frame) : Option Bytes :=
  if f.flag = 0 then some f.data
  else if f.flag = 1 ∧ nonIdentity (enc.getD "") then toy.decomp (enc.getD "") f.data
  else none

/-- clause 4: everything delivered is the decoding (by the compressor the header names) of the
    corresponding frame, in order -/
def checkDelivered (who : String) (enc : Option String) (frames : List Frame) (got : List Bytes) : Option String :=
  let rec go : List Frame → List Bytes → Option String
    | _, [] => none
    | [], _ :: _ => some s!"VIOL {who} delivered a message that was never on the wire"
    | f :: fs, g :: gs =>
      if decodeSpec enc f = some g then go fs gs
      else some s!"VIOL {who} delivered data that is not the decoding of the frame by the grpc-encoding compressor"
  go frames got

def supports (reg : List String) (legacyDecomp : Option String) (name : String) : Bool :=
  reg.contains name || legacyDecomp == some name

/-- does the client's AcceptCompressors option (if any) allow this response encoding -/
def clientAccepts (o : Op) (name : String) : Bool :=
  match o.client.accept with
  | none => true
  | some names => match acceptedConfig o.reg [] names with
    | .ok al => acceptedAllows al name
    | .error _ => true

def firstSome : List (Option String) → String
  | [] => "ok"
  | some v :: _ => v
  | none :: r => firstSome r

def monitor (o : Op) (impl : String) : String :=
  let fs := fields impl
  let get (k : String) := (field fs k).getD "?"
  if o.kind = "e2e" ∨ o.kind = "rawc" ∨ o.kind = "raws" then
    -- request direction
    let reqEnc : Option String :=
      if o.kind = "rawc" then o.hdr.enc else hdrVal (((get "reqhdr").splitOn "/").headD "-")
    let reqAcc : Option String :=
      if o.kind = "rawc" then o.hdr.acc else
        match (get "reqhdr").splitOn "/" with | [_, a] => hdrVal a | _ => none
    let reqFrames : List Frame :=
      if o.kind = "rawc" then o.frames else (parseFrames (get "reqs")).getD []
    let respEnc : Option String := if o.kind = "raws" then o.renc else hdrVal (get "resphdr")
    let respFrames : List Frame :=
      if o.kind = "raws" then o.frames else (parseFrames (get "resps")).getD []
    let sgot := (parseMsgs (get "sgot")).getD []
    let cgot := (parseMsgs (get "cgot")).getD []
    let srv := get "srv"
    let cli := if o.kind = "rawc" then
        (match get "status" with | "0" => "OK" | "12" => "UNIMPLEMENTED" | "13" => "INTERNAL" | x => x)
      else get "cli"
    let opened := if o.kind = "rawc" then "OK" else get "open"
    firstSome [
      -- clause 1 (real senders only)
      (if o.kind ≠ "rawc" then checkFlags "client" reqEnc o.reqs reqFrames else none),
      (if o.kind ≠ "raws" then checkFlags "server" respEnc o.resps respFrames else none),
      -- clause 2: the server compresses only with what the client advertised or used
      (if o.kind ≠ "raws" ∧ respFrames.any (·.flag = 1) ∧ nonIdentity (respEnc.getD "") then
        let name := respEnc.getD ""
        if (advertisedList (reqAcc.getD "")).contains name ∨ reqEnc = some name then none
        else some s!"VIOL server compressed the response with {name} which the client neither advertised nor used"
       else none),
      -- clause 3a: unsupported request encoding -> UNIMPLEMENTED, handler not run
      (if o.kind ≠ "raws" ∧ opened = "OK" ∧ nonIdentity (reqEnc.getD "")
            ∧ !supports o.reg o.server.legacyDecomp (reqEnc.getD "") then
        if srv = "norun" ∧ cli = "UNIMPLEMENTED" then none
        else some "VIOL request with an unsupported grpc-encoding did not fail with UNIMPLEMENTED before the handler"
       else none),
      -- clause 3b: a compressed response frame in an encoding the client cannot decode -> INTERNAL
      (if o.kind ≠ "rawc" ∧ opened = "OK" ∧ respFrames.any (·.flag = 1) ∧ nonIdentity (respEnc.getD "")
            ∧ !supports o.reg o.client.legacyDecomp (respEnc.getD "") then
        if cli = "INTERNAL" then none
        else some "VIOL compressed response in an unsupported grpc-encoding did not fail the RPC with INTERNAL"
       else none),
      -- clause 4
      (if o.kind ≠ "raws" then checkDelivered "server" reqEnc reqFrames sgot else none),
      (if o.kind ≠ "rawc" then checkDelivered "client" respEnc respFrames cgot else none),
      -- round trips (e2e, both peers real): a request stream in an encoding the server supports is
      -- accepted and decoded; a response in an encoding the client supports and accepts succeeds
      (if o.kind = "e2e" ∧ opened = "OK" ∧ (checkFlags "client" reqEnc o.reqs reqFrames).isNone
            ∧ (!nonIdentity (reqEnc.getD "") || supports o.reg o.server.legacyDecomp (reqEnc.getD ""))
            ∧ srv ≠ "ok" then
        some s!"VIOL server failed ({srv}) on a request stream whose encoding it supports"
       else none),
      (if o.kind = "e2e" ∧ srv = "ok" ∧ cli ≠ "OK" ∧ (checkFlags "server" respEnc o.resps respFrames).isNone
            ∧ (!nonIdentity (respEnc.getD "") || supports o.reg o.client.legacyDecomp (respEnc.getD ""))
            ∧ clientAccepts o (respEnc.getD "") then
        some s!"VIOL client failed ({cli}) on a response whose encoding it supports and accepts"
       else none),
      -- end to end: a successful RPC delivered exactly what was sent
      (if o.kind = "e2e" ∧ srv = "ok" ∧ sgot ≠ o.reqs then some "VIOL handler completed but did not receive exactly the request messages" else none),
      (if o.kind = "e2e" ∧ cli = "OK" ∧ cgot ≠ o.resps then some "VIOL RPC succeeded but the client did not receive exactly the response messages" else none)
    ]
  else "-"

def step : Step Unit := fun _ fs impl =>
  match parseOp fs with
  | none => ((), "bad-op", "-")
  | some o => ((), model o, monitor o impl)

def run : IO Unit := Driver.run () step

end GrpcModel.Driver.S_compress
