import GrpcModel.Driver.Loop
import GrpcModel.Driver.Backoff
import GrpcModel.Model.Backoff
/-! component `s_backoff` (C20, pacing): a real ClientConn with a scripted dialer under virtual time.

  `new|newlb <base> <mult bits> <jitter bits> <max> <minCT>` | `newdef` | `mode fail|ok|hang` | `connect`
  | `sleep <ns>` | `resetbo` | `kill` | `addrs <k>` (newlb only: SubConn.UpdateAddresses([address k]))

Every answer is the list of events that became visible (`t:bo:i:d t:dial t:fail t:ok`) and the channel
state. The durations `d` the real strategy returned are read from the implementation's answer
(they are random); everything else (when and with which index the strategy is asked, when the
dialer is called, the channel state) is predicted by the model and compared. The monitor evaluates
`paced` and `idxOk` on the implementation's whole event log and the C20 band on every `d`. -/
namespace GrpcModel.Driver.S_backoff
open GrpcModel.Driver GrpcModel.Backoff GrpcModel.Generated

structure St where
  sim : Sim := {}
  cfg : Option Config := none
  log : List Obs := []        -- the IMPLEMENTATION's observable trace so far (chronological)
  lastD : Int := 0            -- the implementation's most recent backoff answer
  created : Bool := false

def showEv : SimEv → String
  | .bo t i d => s!"{t}:bo:{i}:{d}"
  | .dial t => s!"{t}:dial"
  | .fail t => s!"{t}:fail"
  | .ok t => s!"{t}:ok"
  | .missing => "MODEL-EXPECTED-ANOTHER-BACKOFF-CALL"

def render (evs : List SimEv) (s : Sim) : String :=
  " ".intercalate (evs.map showEv ++ [s!"st={if s.started then s.chanState else "IDLE"}"])

/-- The `d`s of the `t:bo:i:d` events of an implementation line. -/
def oracleOf (impl : String) : List Int :=
  (impl.splitOn " ").filterMap fun tok =>
    match tok.splitOn ":" with
    | [_, "bo", _, d] => d.toInt?
    | _ => none

/-- Implementation events → observations (needs the last backoff answer for `fail`). -/
def obsOf (lastD : Int) : List String → List Obs × Int × List (Nat × Int)
  | [] => ([], lastD, [])
  | tok :: rest =>
    match tok.splitOn ":" with
    | [_, "bo", i, d] =>
      let dd := d.toInt?.getD 0
      let (o, l, b) := obsOf dd rest
      (.ask (i.toNat?.getD 0) :: o, l, ((i.toNat?.getD 0), dd) :: b)
    | [t, "dial"] => let (o, l, b) := obsOf lastD rest; (.dial (t.toInt?.getD 0) :: o, l, b)
    | [t, "fail"] => let (o, l, b) := obsOf lastD rest; (.fail (t.toInt?.getD 0) lastD :: o, l, b)
    | [_, "ok"] => let (o, l, b) := obsOf lastD rest; (.ok :: o, l, b)
    | _ => obsOf lastD rest

def defaultCfg : Config :=
  { base := 1000000000, mult := (8 : Rat) / 5, jitter := (1 : Rat) / 5, maxDelay := 120000000000 }

def modelStep (st : St) (fs : List String) (impl : String) : St × String :=
  let oracle := oracleOf impl
  let s := st.sim
  if !st.created && fs.head? ≠ some "new" && fs.head? ≠ some "newlb" && fs.head? ≠ some "newdef" then (st, "nochan") else
  match fs with
  | [nw, b, m, j, x, ct] =>
    -- `new`: pick_first; `newlb`: the harness's one-subchannel policy (same observable behaviour, and it
    -- can call SubConn.UpdateAddresses)
    if nw ≠ "new" ∧ nw ≠ "newlb" then (st, "bad-op") else
    match Backoff.parseCfg b m j x, ct.toInt? with
    | some c, some minCT => ({ st with sim := { minCT := minCT }, cfg := some c, created := true }, "st=IDLE")
    | _, _ => (st, "bad-op")
  | ["newdef"] => ({ st with sim := { minCT := backoffMinConnectTimeout }, cfg := none, created := true }, "st=IDLE")
  | ["mode", m] =>
    let md := if m = "ok" then Mode.ok else if m = "hang" then Mode.hang else Mode.fail
    let s' := { s with mode := md }
    ({ st with sim := s' }, render [] s')
  | ["connect"] =>
    if s.ac.phase = .idle then
      match oracle with
      | d :: _ =>
        let (s', evs) := ({ s with started := true }).attempt d
        ({ st with sim := s' }, render evs s')
      | [] => (st, render [.missing] s)
    else (st, render [] s)
  | ["sleep", n] =>
    match n.toInt? with
    | some dt =>
      let (s', evs) := s.advance (s.now + dt) oracle (2 * oracle.length + 4)
      ({ st with sim := s' }, render evs s')
    | none => (st, "bad-op")
  | ["resetbo"] =>
    let wasBackoff := match s.ac.phase with | .backoff _ _ => true | _ => false
    let s1 := { s with ac := (acStep s.ac (.resetBackoff s.now)).1 }
    if wasBackoff then
      match oracle with
      | d :: _ =>
        let (s', evs) := s1.attempt d
        ({ st with sim := s' }, render evs s')
      | [] => ({ st with sim := s1 }, render [.missing] s1)
    else ({ st with sim := s1 }, render [] s1)
  | ["addrs", k] =>
    match k.toNat? with
    | some k =>
      let (s', evs) := s.updateAddrs k oracle.head?
      ({ st with sim := s' }, render evs s')
    | none => (st, "bad-op")
  | ["kill"] =>
    let s' := { s with ac := (acStep s.ac (.connLost s.now)).1 }
    ({ st with sim := s' }, render [] s')
  | _ => (st, "bad-op")

def step : Step St := fun st fs impl =>
  let (st1, out) := modelStep st fs impl
  -- monitor on the implementation's own events
  let toks := impl.splitOn " "
  let pre : List Obs := if fs = ["resetbo"] then [.reset] else []
  let (obs, lastD, bos) := obsOf st.lastD toks
  let log := st.log ++ pre ++ obs
  let cfg := st1.cfg.getD defaultCfg
  let bandV := bos.foldl (fun acc (i, d) =>
    if acc ≠ "ok" then acc
    else if i = 0 then (if d = cfg.base then "ok" else s!"VIOL Backoff(0) = {d} is not the base delay")
    else judge cfg i d) "ok"
  let verdict :=
    if fs.head? = some "new" ∨ fs.head? = some "newlb" ∨ fs.head? = some "newdef" ∨ !st1.created then "-"
    else if bandV ≠ "ok" then bandV
    else if !paced log then "VIOL a connection attempt started before the backoff of the preceding failure had elapsed (no reset in between)"
    else if !idxOk 0 log then "VIOL the backoff index is not the number of failures since the last success/reset"
    else "ok"
  ({ st1 with log := log, lastD := lastD }, out, verdict)

def run : IO Unit := Driver.run {} step

end GrpcModel.Driver.S_backoff
