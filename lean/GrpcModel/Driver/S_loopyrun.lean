import GrpcModel.Model.LoopyIO
/-! component `s_loopyrun` (C03, tie T2): the REAL `loopyWriter.run()` goroutine inside a synctest bubble. One op = one control
item put into the real controlBuffer; the implementation's answer is everything written until `run()` blocks again plus the
writer's state at that point. The model's answer is the big step "`handle(item)`, then `processData()` until it reports isEmpty"
(the body of `run()`), computed with the ordinary `step`.

Header fields are restricted to `:status: 200` (spec `0.0`) in this component: it is encoded as one byte from the HPACK static
table, so the block length of any header block is its number of fields, whenever it is written.

Monitor: `C03.stateOk` on the writer's state at quiescence, and the idle condition: `run()` goes idle only when nothing can be sent —
`sendQuota = 0` or the active list is empty. -/
namespace GrpcModel.Driver.S_loopyrun
open GrpcModel.Driver GrpcModel.Loopy GrpcModel.Loopy.IO

structure RState where
  st : St
  /-- header block length of the trailers queued for a stream -/
  trHb : List (Nat × Nat)

def fieldsHb (spec : String) : Nat := (listOf spec).length

/-- `processData()` until it reports isEmpty (or `run()` returns). -/
def settleTicks (hbOf : Nat → Nat) : Nat → St → List Out → St × List Out × Ret
  | 0, s, acc => (s, acc, .ok)
  | fuel + 1, s, acc =>
    let hb := match s.active with | id :: _ => hbOf id | [] => 0
    let r := step s (.tick hb)
    match r.ret with
    | .tick true => (r.st, acc ++ r.outs, .ok)
    | .tick false => settleTicks hbOf fuel r.st (acc ++ r.outs)
    | e => (r.st, acc ++ r.outs, e)

def bigStep (rs : RState) (op : Op) : Res :=
  let r := step rs.st op
  match r.ret with
  | .err _ | .closed => r
  | ret =>
    let hbOf := fun id => (rs.trHb.lookup id).getD 0
    let (s', outs, ret') := settleTicks hbOf 1000000 r.st r.outs
    ⟨s', outs, match ret' with | .ok => ret | e => e⟩

def insertAll (a : Nat) : List Nat → List (List Nat)
  | [] => [[a]]
  | b :: t => (a :: b :: t) :: (insertAll a t).map (b :: ·)

def perms : List Nat → List (List Nat)
  | [] => [[]]
  | a :: t => (perms t).flatMap (insertAll a)

def showBig (r : Res) : String :=
  match r.ret with
  | .closed => "closed"
  | ret =>
    let hbs := r.outs.filterMap fun o => match o with | .headers _ _ fr => some fr.sum | _ => none
    let hb := match hbs.getLast? with | some x => toString x | none => "-"
    s!"{showRet ret} F={joinOr (r.outs.flatMap showFrame)} C={joinOr (r.outs.flatMap showCb)} {showState r.st} HB={hb}"

def stateOfNum (n : Nat) : Option SState :=
  if n = stateNum .active then some .active
  else if n = stateNum .empty then some .empty
  else if n = stateNum .waiting then some .waiting
  else none

def viewOf (impl : Impl) : Option C03.View := do
  let ss ← impl.streams.mapM fun st => do
    let state ← stateOfNum st.state
    pure ({ id := st.id, state := state, quota := (impl.w : Int) - st.bytesOut, nitems := st.nitems,
            headData := st.headKind == 1, headLen := if st.headKind == 1 then st.headH + st.headD else 0 } : C03.SV)
  pure { closed := false, sendQuota := impl.q, active := impl.active, streams := ss }

def monitor (impl : Impl) : String :=
  if impl.ret = "closed" ∨ !impl.ok then "-" else
  match viewOf impl with
  | none => "VIOL unknown stream state in the writer's state dump"
  | some v =>
    if !C03.stateOk v then "VIOL writer state at quiescence is not well-formed: a stream with data and stream quota is not on the active list"
    else if impl.ret.startsWith "e:" then "ok"
    else if v.sendQuota ≠ 0 ∧ v.active ≠ [] then "VIOL run() went idle although a stream with data and quota is on the active list and sendQuota > 0"
    else "ok"

def step' : Step RState := fun rs fs implLine =>
  match fs with
  | ["side", sd] =>
    let side := if sd = "s" then Side.server else Side.client
    let s := init side
    ({ st := s, trHb := [] }, s!"ok F=- C=- {showState s} HB=-", "-")
  | _ =>
    let impl := parseImpl implLine
    -- header block lengths come from the op itself in this component
    let hbOp := match fs with
      | ["ch", _, f, _] => fieldsHb f
      | ["sh", _, _, f, _, _] => fieldsHb f
      | ["ea", _, _, f] => fieldsHb f
      | _ => 0
    let impl1 := { impl with hb := some hbOp }
    match fs with
    | ["tick"] | ["unk"] => (rs, "bad-op", "-")
    | _ =>
    match parseOp rs.st fs impl1 with
    | none => (rs, "bad-op", "-")
    | some op =>
      let trHb := match op with
        | .serverHeaders id true hb _ _ =>
          -- recorded only when `serverHeaderHandler` queues the trailers behind pending data
          if !rs.st.closed ∧ id ∈ rs.st.keys ∧ (rs.st.str id).state ≠ .empty ∧ !op.outside then rs.trHb ++ [(id, hb)] else rs.trHb
        | _ => rs.trHb
      let rs1 := { rs with trHb := trHb }
      -- applySettings' map iteration order: take the one (if any) that reproduces the implementation's answer
      let cands : List Op := match op with
        | .settings ss _ =>
          let w := rs.st.keys.filter (isWaiting rs.st)
          -- first guess: the order in which the woken streams first wrote something in the implementation's answer
          let seen := (impl.frames.filterMap fun f => match f with | .data id _ _ _ => some id | _ => none).eraseDups
          let guess := (seen.filter (w.contains ·)) ++ (w.filter (!seen.contains ·))
          -- woken streams that wrote nothing: those the implementation has parked again (state waiting) were visited while there was
          -- still connection quota, i.e. early; those still on the list were not reached
          let parked := w.filter fun id => !seen.contains id ∧
            (impl.streams.any fun st => st.id == id ∧ st.state == stateNum .waiting)
          let unreached := w.filter fun id => !seen.contains id ∧ !parked.contains id
          -- … in the order in which they still sit on the implementation's list
          let unreached := (impl.active.filter (unreached.contains ·)) ++ (unreached.filter (!impl.active.contains ·))
          let guess2 := parked ++ (seen.filter (w.contains ·)) ++ unreached
          Op.settings ss guess2 :: Op.settings ss guess :: (if w.length ≤ 5 then (perms w).map (Op.settings ss ·) else [op])
        | _ => [op]
      let results := cands.map fun o => bigStep rs1 o
      let r := match results.find? (fun r => showBig r == implLine) with
        | some r => r
        | none => results.headD (bigStep rs1 op)
      ({ st := r.st, trHb := trHb }, showBig r, monitor impl)

def run : IO Unit := Driver.run ({ st := init .client, trHb := [] } : RState) step'

end GrpcModel.Driver.S_loopyrun
