import GrpcModel.Driver.Loop
import GrpcModel.Model.Unbounded
/-! component `unbounded` (C31, tie T1 on the real `buffer.Unbounded[int]`):
    `put <v>` → `ok` | `closed` ; `load` → `-` ; `close` → `-` ;
    `recv` (non-blocking receive on `Get()`) → `got <v>` | `eos` | `empty`.
    The verdict is `Unbounded.Mon.step` (the predicate of theorem `unbounded_monitor_ok`)
    evaluated on the implementation's outputs. -/
namespace GrpcModel.Driver.Unbounded
open GrpcModel.Driver GrpcModel.Unbounded

def parseOp : List String → Option (Op Nat)
  | ["put", v] => v.toNat?.map Op.put
  | ["load"] => some .load
  | ["close"] => some .close
  | ["recv"] => some .recv
  | _ => none

def showOut : Out Nat → String
  | .ok => "ok"
  | .rejected => "closed"
  | .got v => s!"got {v}"
  | .eos => "eos"
  | .none => "-"
  | .panic => "PANIC"

def parseOut (o : Op Nat) (s : String) : Option (Out Nat) :=
  match o, s.splitOn " " with
  | .put _, ["ok"] => some .ok
  | .put _, ["closed"] => some .rejected
  | .load, ["-"] => some .none
  | .close, ["-"] => some .none
  | .recv, ["got", v] => v.toNat?.map Out.got
  | .recv, ["eos"] => some .eos
  | .recv, ["empty"] => some .none
  | _, "PANIC" :: _ => some .panic
  | _, _ => none

def showVerdict : Verdict → String
  | .ok => "ok"
  | .na => "-"
  | .viol c => "VIOL " ++ violText c

def step : Step (St Nat × Mon Nat) := fun (s, m) fs impl =>
  match parseOp fs with
  | none => ((s, m), "bad-op", "-")
  | some o =>
    let r := GrpcModel.Unbounded.step s o
    let mo := match o, r.2 with
      | .recv, .none => "empty"
      | _, out => showOut out
    match parseOut o impl with
    | none => ((r.1, m), mo, "VIOL unparsable implementation output")
    | some io =>
      let q := Mon.step m o io
      ((r.1, q.1), mo, showVerdict q.2)

def run : IO Unit := Driver.run (GrpcModel.Unbounded.init, Mon.init) step

end GrpcModel.Driver.Unbounded
