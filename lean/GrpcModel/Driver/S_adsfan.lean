import GrpcModel.Driver.Loop
import GrpcModel.Model.AdsFan
/-! component `s_adsfan` (C42, T2) — ops as in harness/synct/c_adsfan_test.go. -/
namespace GrpcModel.Driver.S_adsfan
open GrpcModel.Driver GrpcModel.AdsFan

structure D where
  cfg : Option Nat := none
  s : St := {}

def sortStrs (l : List String) : List String := l.foldl (fun acc x => ins x acc) []
where ins (x : String) : List String → List String
  | [] => [x]
  | y :: ys => if x ≤ y then x :: y :: ys else y :: ins x ys

def sortById (l : List Watcher) : List Watcher := l.foldl (fun acc x => ins x acc) []
where ins (x : Watcher) : List Watcher → List Watcher
  | [] => [x]
  | y :: ys => if x.id ≤ y.id then x :: y :: ys else y :: ins x ys

def showTok : Tok → String
  | .resp v => s!"r{v}"
  | .cached v => s!"c{v}"

def render (s : St) : String :=
  let pend := (sortById (s.ws.filter (!·.pend.isEmpty))).map fun w => s!"{w.id}:{"+".intercalate (w.pend.map showTok)}"
  let cbs := sortStrs (s.log.map fun (p : Nat × Nat) => s!"{p.1}:v{p.2}")
  let p := if pend.isEmpty then "-" else ",".intercalate pend
  let b := if cbs.isEmpty then "-" else ",".intercalate cbs
  s!"recv={recvEntered s} pend={p} cb={b}"

def fieldOf (impl key : String) : Option String :=
  (impl.splitOn " ").findSome? fun w =>
    if w.startsWith (key ++ "=") then some (w.drop (key.length + 1)).toString else none

/-- C42's flow-control clause on the IMPLEMENTATION's answer alone: while some watcher still holds the `done`
of response `v`, the reader must not have entered `Recv` for the response after `v` (the v-th entry of `Recv`
is the one that returns response `v`). -/
def monitor (impl : String) : String :=
  match (fieldOf impl "recv") >>= String.toNat?, fieldOf impl "pend" with
  | some recv, some pend =>
    if pend = "-" then "ok" else
    let toks := (pend.splitOn ",").flatMap fun e => match e.splitOn ":" with
      | [w, ts] => (ts.splitOn "+").map fun t => (w, t)
      | _ => []
    match toks.find? (fun (p : String × String) => p.2.startsWith "r" && (match (p.2.drop 1).toString.toNat? with | some v => decide (recv > v) | none => true)) with
    | some (w, t) => s!"VIOL the next response was read (Recv entered {recv} times) while watcher {w} has not finished processing response {(t.drop 1).toString}"
    | none => "ok"
  | _, _ => if impl.startsWith "PANIC" ∨ impl.startsWith "CRASH" ∨ impl ∈ ["bad-op", "busy", "nowatch", "nopend", "nocfg"] then "-" else "VIOL unparsable: " ++ impl

def parseRes (t : String) : Option (List (Nat × String)) :=
  if t = "-" then some [] else
  (t.splitOn ",").mapM fun it => match it.splitOn "." with
    | [a, n] => a.toNat?.map fun a => (a, n)
    | _ => none

def step : Step D := fun d fs impl =>
  let verdict := monitor impl
  match fs with
  | ["cfg", k] =>
    match d.cfg, k.toNat? with
    | none, some k => if k ≤ 3 then ({ d with cfg := some k }, render d.s, verdict) else (d, "bad-op", "-")
    | _, _ => (d, "bad-op", "-")
  | _ =>
    match d.cfg with
    | none => (d, "nocfg", "-")
    | some k =>
      match fs with
      | ["watch", a, n, id, b] =>
        match a.toNat?, id.toNat? with
        | some a, some id =>
          if a > k ∨ (b ≠ "b" ∧ b ≠ "n") then (d, "bad-op", "-")
          else if d.s.ws.any (·.id = id) then (d, "busy", "-")
          else
            let s := AdsFan.step d.s (.watch a n id (b = "b"))
            ({ d with s := s }, render s, verdict)
        | _, _ => (d, "bad-op", "-")
      | ["respond", rs] =>
        match parseRes rs with
        | some rs => let s := AdsFan.step d.s (.respond rs); ({ d with s := s }, render s, verdict)
        | none => (d, "bad-op", "-")
      | ["done", id] =>
        match id.toNat? with
        | some id =>
          match d.s.ws.find? (·.id = id) with
          | none => (d, "nowatch", "-")
          | some w =>
            if w.pend.isEmpty then (d, "nopend", "-")
            else let s := AdsFan.step d.s (.done id); ({ d with s := s }, render s, verdict)
        | none => (d, "bad-op", "-")
      | _ => (d, "bad-op", "-")

def run : IO Unit := Driver.run {} step

end GrpcModel.Driver.S_adsfan
