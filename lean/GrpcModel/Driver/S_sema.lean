import GrpcModel.Driver.Loop
import GrpcModel.Model.Semaphore
/-!
component `s_sema` (C25, tie T3). Ops: `new <N>`, `step a`, `step r<i>` (see harness/synct/c_sema_test.go).
A harness step runs a goroutine from its yield point (before an atomic access of `n`) to its next
yield point, to its return, or until it blocks in a channel operation; goroutines woken by it run
too. The driver maps that to the rules of `GrpcModel.Semaphore.apply` (every state change goes
through `apply`) and predicts label / n / tokens / acquirer status / held.
-/
namespace GrpcModel.Driver.S_sema
open GrpcModel.Driver GrpcModel.Semaphore

structure DS where
  st : Option St
  atYield : List String     -- releaser threads parked at release:0
deriving Repr

def showA (s : St) : String :=
  match s.apc with | .idle => "idle" | .atAdd => "acquire:0" | .parked => "blocked"

def showSt (first : String) (s : St) : String :=
  s!"{first} n={s.n} chan={s.c} a={showA s} held={s.h}"

/-- after any step: goroutines that can run without passing a yield do run (a pending send, then
    the parked acquirer's receive) -/
def drain (s : St) : St :=
  let s1 := match apply s .rSend with | some t => t | none => s
  match apply s1 .aRecv with | some t => t | none => s1

def parseImpl (impl : String) : Option (String × Int × Nat × String × Nat) :=
  match fields impl with
  | [first, n, c, a, h] =>
    let v (x : String) := ((x.splitOn "=").getD 1 "")
    match (v n).toInt?, (v c).toNat?, (v h).toNat? with
    | some n, some c, some h => some (first, n, c, v a, h)
    | _, _, _ => none
  | _ => none

/-- C25 (semaphore clauses) on the implementation's quiescent state -/
def monitor (cap : Nat) (impl : String) : String :=
  match parseImpl impl with
  | none => "VIOL unparsable answer"
  | some (_, n, c, a, held) =>
    let parked := a == "blocked"
    if held > cap then s!"VIOL {held} handlers hold a slot but the quota is {cap}"
    else if parked ∧ held < cap then "VIOL lost release: the acquirer is blocked although a slot is free and no wake-up is pending"
    else if !parked ∧ c ≠ 0 then "VIOL stale wake-up token in the channel while nobody waits"
    else if quiescentOK cap n c parked held then "ok"
    else s!"VIOL counter out of step: n={n} cap={cap} held={held} parked={parked} chan={c}"

def step : Step DS := fun d fs impl =>
  match fs with
  | ["new", n] =>
    match n.toNat? with
    | some cap => ({ st := some (init cap), atYield := [] }, showSt "done" (init cap), monitor cap impl)
    | none => (d, "bad-op", "-")
  | ["step", t] =>
    match d.st with
    | none => (d, "bad-op", "-")
    | some s =>
      if t = "a" then
        match s.apc with
        | .idle => match apply s .aCall with
          | some s1 => ({ d with st := some s1 }, showSt "acquire:0" s1, monitor s.cap impl)
          | none => (d, "model-stuck", "-")
        | .atAdd => match apply s .aAdd with
          | some s1 =>
            let s2 := drain s1
            ({ d with st := some s2 }, showSt (if s2.apc = .parked then "blocked" else "done") s2, monitor s.cap impl)
          | none => (d, "model-stuck", "-")
        | .parked => (d, showSt "blocked" s, monitor s.cap impl)
      else if d.atYield.contains t then
        match apply s .rAdd with
        | some s1 =>
          let s2 := drain s1
          let first := if s2.s > 0 then "blocked" else "done"
          ({ st := some s2, atYield := d.atYield.erase t }, showSt first s2, monitor s.cap impl)
        | none => (d, "model-stuck", "-")
      else
        match apply s .rCall with
        | some s1 => ({ st := some s1, atYield := t :: d.atYield }, showSt "release:0" s1, monitor s.cap impl)
        | none => (d, "illegal-release-without-holder", "-")
  | _ => (d, "bad-op", "-")

def run : IO Unit := Driver.run { st := none, atYield := [] } step

end GrpcModel.Driver.S_sema
