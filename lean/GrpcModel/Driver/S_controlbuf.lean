import GrpcModel.Driver.Loop
import GrpcModel.Model.ControlBuf
/-! component `s_controlbuf` (C16, tie T2 on the real `transport.controlBuffer`; op language in
`harness/synct/c_controlbuf_test.go`).

Op-level: an op is applied, then everything that can move moves (every reader's `thr2`, the parked
consumer's `wake` + next `get`), exactly as the bubble runs to quiescence. Individual interleavings
of a reader's load (`thr1`) and wait (`thr2`) with puts/gets are NOT driven here — they are covered
by the theorems (`released_when_below_or_closed` etc.) only.

Verdict: `ControlBuf.Mon` (theorem `C16.monitor_ok`) on the IMPLEMENTATION's result of the op, on
the consumer goroutine's result if it returned during the op, and `Mon.readers` on the
implementation's set of readers still blocked. -/
namespace GrpcModel.Driver.S_controlbuf
open GrpcModel GrpcModel.Driver GrpcModel.ControlBuf

structure DSt where
  s       : St
  m       : Mon
  items   : List (Nat × Item)
  consOut : Bool            -- a consumer goroutine is outstanding (model)
  started : Bool
  others  : List (Nat × St × Mon) := []   -- further control buffers of the same process (b<k> ops)

def dinit : DSt := { s := init 2, m := Mon.init 2, items := [], consOut := false, started := false }

/-- buffer k ≥ 1 (created on first use with the primary's limit) -/
def getOther (d : DSt) (k : Nat) : St × Mon := (d.others.lookup k).getD (init d.s.limit, Mon.init d.s.limit)

def setOther (d : DSt) (k : Nat) (v : St × Mon) : DSt :=
  { d with others := (k, v) :: d.others.filter (·.1 ≠ k) }

def dedup : List Nat → List Nat
  | [] => []
  | x :: t => if t.contains x then dedup t else x :: dedup t

def insertNat (x : Nat) : List Nat → List Nat
  | [] => [x]
  | y :: t => if x ≤ y then x :: y :: t else y :: insertNat x t

/-- every reader tries its wait once -/
def settleReaders (s : St) : St :=
  (dedup (s.readers.map (·.1))).foldl (fun s r => (step s (.thr2 r)).1) s

/-- the consumer goroutine, if outstanding and parked: select, then loop into get(true) again.
    Returns the state and the consumer's result if it returned. -/
def settleConsumer : Nat → St → St × Option Out
  | 0, s => (s, none)
  | n + 1, s =>
    if !s.parked then (s, none) else
    let r := step s .wake
    match r.2 with
    | .woke =>
      let q := step r.1 (.get true)
      match q.2 with
      | .parkedNow => settleConsumer n q.1
      | out => (q.1, some out)
    | .doneErr => (r.1, some .doneErr)
    | _ => (s, none)

def showIds (l : List Nat) : String := if l.isEmpty then "-" else ",".intercalate (l.map toString)

def showCons : Option Out → Bool → String
  | some (.got it), _ => s!"got_{it.id}"
  | some .getErr, _ => "err"
  | some .doneErr, _ => "doneerr"
  | some _, _ => "?"
  | none, true => "parked"
  | none, false => "-"

def parseIds (s : String) : Option (List Nat) :=
  if s = "-" then some [] else (s.splitOn ",").mapM String.toNat?

structure ImplOut where
  res     : String
  blocked : List Nat
  cons    : String
  foreign : List Nat := []

def parseImpl (s : String) : Option ImplOut :=
  let core (r b c : String) (fg : List Nat) : Option ImplOut :=
    if b.startsWith "blocked=" && c.startsWith "cons=" then do
      let bl ← parseIds (b.drop 8).toString
      pure { res := r, blocked := bl, cons := (c.drop 5).toString, foreign := fg }
    else none
  match s.splitOn " " with
  | [r, b, c] => core r b c []
  | [r, b, c, f] =>
    if f.startsWith "foreign=" then (parseIds (f.drop 8).toString) >>= core r b c else none
  | _ => none

def lookupItem (d : DSt) (id : Nat) : Item := (d.items.lookup id).getD ⟨id, false, false⟩

/-- the implementation's answer to a get, as a model `Out` -/
def parseGot (d : DSt) (s : String) : Option Out :=
  if s.startsWith "got_" then (s.drop 4).toString.toNat?.map fun id => .got (lookupItem d id)
  else if s = "none" then some .getNone
  else if s = "err" then some .getErr
  else if s = "doneerr" then some .doneErr
  else if s = "parked" then some .parkedNow
  else none

def foreignV (io : ImplOut) : Verdict := if io.foreign.isEmpty then .ok else .viol 13

def verdictStr : List Verdict → String
  | [] => "ok"
  | .viol c :: _ => "VIOL " ++ violText c
  | _ :: t => verdictStr t

def step' : Step DSt := fun d fs impl =>
  let io? := parseImpl impl
  let io := io?.getD { res := "?", blocked := [], cons := "-" }
  -- apply the op to the model, settle, print
  let apply (d : DSt) (o : Option Op) (resOf : Out → String) (implOut : Option Out) (isGetb : Bool) :
      DSt × String × String :=
    let r := match o with
      | some o => step d.s o
      | none => (d.s, Out.none)
    let consNow : Option Out := if isGetb then (match r.2 with | .parkedNow => none | out => some out) else none
    let consOut := d.consOut || isGetb
    let s1 := settleReaders r.1
    let (s2, c2) := if isGetb && consNow.isSome then (s1, consNow) else settleConsumer 8 s1
    let s3 := settleReaders s2
    let consOut' := consOut && c2.isNone
    let blockedM := (dedup ((s3.readers.filter fun p => readerBlocked s3 p.1).map (·.1))).foldl (fun acc x => insertNat x acc) []
    let mo := s!"{if isGetb then "-" else resOf r.2} blocked={showIds blockedM} cons={showCons c2 consOut}"
    -- monitor on the implementation's observations
    let (m1, v1) := match o, implOut with
      | some o, some out => if isGetb then (d.m, Verdict.na) else d.m.step o out
      | _, _ => (d.m, Verdict.na)
    let (m2, v2) := match parseGot d io.cons with
      | some out => if io.cons = "parked" || io.cons = "-" then (m1, Verdict.na) else m1.step (.get true) out
      | none => (m1, Verdict.na)
    let v3 := m2.readers (!io.blocked.isEmpty)
    let v := if impl.startsWith "PANIC" || impl.startsWith "CRASH" then "VIOL " ++ violText 9
      else if io?.isNone then "VIOL unparsable implementation output" else verdictStr [foreignV io, v1, v2, v3]
    ({ d with s := s3, m := m2, consOut := consOut' }, mo, v)
  match fs with
  | ["limit", n] =>
    match n.toNat? with
    | some l => ({ s := init l, m := Mon.init l, items := [], consOut := false, started := true, others := [] }, "- blocked=- cons=-", "-")
    | none => (d, "bad-op", "-")
  | ["put", k, n] =>
    match n.toNat? with
    | none => (d, "bad-op", "-")
    | some id =>
      let it : Item := ⟨id, k = "t", k = "h"⟩
      let d := { d with items := (id, it) :: d.items }
      let implOut : Option Out := if io.res = "ok" then some .putOk else if io.res = "err" then some .putErr else none
      apply d (some (.put it)) (fun o => match o with | .putOk => "ok" | .putErr => "err" | _ => "?") implOut false
  | ["get"] =>
    apply d (some (.get false))
      (fun o => match o with | .got it => s!"got_{it.id}" | .getNone => "none" | .getErr => "err" | .busy => "busy" | _ => "?")
      (parseGot d io.res) false
  | ["getb"] =>
    if d.consOut then apply d none (fun _ => "busy") none false |> fun (a, b, c) => (a, b.replace "- blocked" "busy blocked", c)
    else apply d (some (.get true)) (fun _ => "-") none true
  | ["thr", n] =>
    match n.toNat? with
    | none => (d, "bad-op", "-")
    | some r => apply d (some (.thr1 r)) (fun _ => "-") none false
  | ["finish"] =>
    let implOut : Option Out :=
      if io.res.startsWith "orph=" then (parseIds (io.res.drop 5).toString).map .orphaned else none
    apply d (some .finish)
      (fun o => match o with | .orphaned ids => "orph=" ++ showIds ids | .none => "orph=-" | _ => "?") implOut false
  | ["done"] => apply d (some .closeDone) (fun _ => "-") (some .none) false
  | "finishrace" :: its =>
    /- finish() held inside its orphan sweep while the items run. In the model finish is atomic (it is
       one critical section in the code), so the items linearize after it. For the monitor the
       implementation's answers decide the linearization: an item the implementation ACCEPTED / served
       happened before the close (so it must then be orphaned / accounted for by this very finish), a
       rejected one after it. -/
    let parseIt (s : String) : Option (Op × Option Item) :=
      if s = "g" then some (.get false, none) else
      match s.toList with
      | 'p' :: k :: r => (String.ofList r).toNat?.map fun id =>
          let it : Item := ⟨id, k = 't', k = 'h'⟩
          (.put it, some it)
      | _ => none
    match its.mapM parseIt with
    | none => (d, "bad-op", "-")
    | some ops =>
      let d := { d with items := (ops.filterMap fun p => p.2.map fun it => (it.id, it)) ++ d.items }
      let resOfOut : Out → String := fun o => match o with
        | .putOk => "ok" | .putErr => "err" | .got it => s!"got_{it.id}" | .getNone => "none" | .getErr => "err"
        | .busy => "busy" | _ => "?"
      -- model: finish, then the items
      let r0 := step d.s .finish
      let orphM := match r0.2 with | .orphaned ids => showIds ids | _ => "-"
      let (sM, outsM) := ops.foldl (fun (acc : St × List String) p =>
          let r := step acc.1 p.1
          (r.1, acc.2 ++ [resOfOut r.2])) (r0.1, [])
      let s1 := settleReaders sM
      let (s2, c2) := settleConsumer 8 s1
      let s3 := settleReaders s2
      let consOut' := d.consOut && c2.isNone
      let blockedM := (dedup ((s3.readers.filter fun p => readerBlocked s3 p.1).map (·.1))).foldl (fun acc x => insertNat x acc) []
      let resM := if outsM.isEmpty then "-" else ",".intercalate outsM
      let mo := s!"orph={orphM}/{resM} blocked={showIds blockedM} cons={showCons c2 d.consOut}"
      -- monitor on the implementation's observations
      let (orphI, resI) : Option (List Nat) × List String :=
        match io.res.splitOn "/" with
        | [a, b] => (if a.startsWith "orph=" then parseIds (a.drop 5).toString else none, if b = "-" then [] else b.splitOn ",")
        | _ => (none, [])
      let implOuts : List (Op × Option Out) := (ops.zip resI).map fun (p, r) =>
        (p.1, match p.1 with
          | .put _ => if r = "ok" then some Out.putOk else if r = "err" then some Out.putErr else none
          | _ => parseGot d r)
      let served (o : Option Out) : Bool := match o with
        | some .putOk => true | some (.got _) => true | some .getNone => true | _ => false
      let before := implOuts.filter fun p => served p.2
      let after := implOuts.filter fun p => !served p.2
      let feed (acc : Mon × List Verdict) (p : Op × Option Out) : Mon × List Verdict :=
        match p.2 with
        | some out => let r := acc.1.step p.1 out; (r.1, acc.2 ++ [r.2])
        | none => (acc.1, acc.2 ++ [Verdict.viol 12])
      let (m0, vs0) := before.foldl feed (d.m, [])
      let (m1, vs1) := match orphI with
        | some ids => let r := m0.step .finish (.orphaned ids); (r.1, [r.2])
        | none => (m0, [Verdict.viol 12])
      let (m2, vs2) := after.foldl feed (m1, [])
      let (m3, v3) := match parseGot d io.cons with
        | some out => if io.cons = "parked" || io.cons = "-" then (m2, Verdict.na) else m2.step (.get true) out
        | none => (m2, Verdict.na)
      let v4 := m3.readers (!io.blocked.isEmpty)
      let v := if impl.startsWith "PANIC" || impl.startsWith "CRASH" then "VIOL " ++ violText 9
        else if io?.isNone || resI.length ≠ ops.length then "VIOL unparsable implementation output"
        else verdictStr (foreignV io :: vs0 ++ vs1 ++ vs2 ++ [v3, v4])
      ({ d with s := s3, m := m3, consOut := consOut' }, mo, v)
  | "finishcb" :: its =>
    /- finish() of the primary buffer while, from inside its onOrphaned callbacks, items are applied to
       OTHER control buffers of the process. Buffers are independent in the model (each has its own
       `St`), so: primary `finish`, and every item on its own buffer in order. -/
    let parseIt (s : String) : Option (Nat × Op × Option Item) :=
      match s.splitOn ":" with
      | [b, it] =>
        match b.toList with
        | 'b' :: r => do
          let k ← (String.ofList r).toNat?
          if it = "g" then pure (k, .get false, none) else
          match it.toList with
          | 'p' :: kd :: rr => do
            let id ← (String.ofList rr).toNat?
            let item : Item := ⟨id, kd = 't', kd = 'h'⟩
            pure (k, .put item, some item)
          | _ => none
        | _ => none
      | _ => none
    match its.mapM parseIt with
    | none => (d, "bad-op", "-")
    | some ops =>
      let d := { d with items := (ops.filterMap fun (p : Nat × Op × Option Item) => p.2.2.map fun (it : Item) => (it.id, it)) ++ d.items }
      let resOfOut : Out → String := fun o => match o with
        | .putOk => "ok" | .putErr => "err" | .got it => s!"got_{it.id}" | .getNone => "none" | .getErr => "err"
        | .busy => "busy" | _ => "?"
      let (orphI, resI) : Option (List Nat) × List String :=
        match io.res.splitOn "/" with
        | [a, b] => (if a.startsWith "orph=" then parseIds (a.drop 5).toString else none, if b = "-" then [] else b.splitOn ",")
        | _ => (none, [])
      -- primary
      let r0 := step d.s .finish
      let orphM := match r0.2 with | .orphaned ids => showIds ids | _ => "-"
      let s1 := settleReaders r0.1
      let (s2, c2) := settleConsumer 8 s1
      let s3 := settleReaders s2
      let consOut' := d.consOut && c2.isNone
      let blockedM := (dedup ((s3.readers.filter fun p => readerBlocked s3 p.1).map (·.1))).foldl (fun acc x => insertNat x acc) []
      let (m1, v1) := match orphI with
        | some ids => d.m.step .finish (.orphaned ids)
        | none => (d.m, Verdict.viol 12)
      let (m2, v2) := match parseGot d io.cons with
        | some out => if io.cons = "parked" || io.cons = "-" then (m1, Verdict.na) else m1.step (.get true) out
        | none => (m1, Verdict.na)
      let v3 := m2.readers (!io.blocked.isEmpty)
      let d := { d with s := s3, m := m2, consOut := consOut' }
      -- the items, each on its own buffer: model and monitor
      let (d, outsM, vs) := (ops.zip (resI ++ List.replicate ops.length "?")).foldl
        (fun (acc : DSt × List String × List Verdict) (p : (Nat × Op × Option Item) × String) =>
          let (k, o, _) := p.1
          let (sk, mk) := getOther acc.1 k
          let r := step sk o
          let implOut : Option Out := match o with
            | .put _ => if p.2 = "ok" then some Out.putOk else if p.2 = "err" then some Out.putErr else none
            | _ => parseGot acc.1 p.2
          let (mk', v) := match implOut with
            | some out => mk.step o out
            | none => (mk, Verdict.viol 12)
          (setOther acc.1 k (r.1, mk'), acc.2.1 ++ [resOfOut r.2], acc.2.2 ++ [v])) (d, [], [])
      let resM := if outsM.isEmpty then "-" else ",".intercalate outsM
      let mo := s!"orph={orphM}/{resM} blocked={showIds blockedM} cons={showCons c2 (d.consOut || c2.isSome)}"
      let v := if impl.startsWith "PANIC" || impl.startsWith "CRASH" then "VIOL " ++ violText 9
        else if io?.isNone || resI.length ≠ ops.length then "VIOL unparsable implementation output"
        else verdictStr (foreignV io :: v1 :: vs ++ [v2, v3])
      (d, mo, v)
  | b :: rest =>
    /- `b<k> put|get|finish`: an op on control buffer k ≥ 1 -/
    match b.toList with
    | 'b' :: r =>
      match (String.ofList r).toNat? with
      | none => (d, "bad-op", "-")
      | some k =>
        let (sk, mk) := getOther d k
        let go (d : DSt) (o : Op) (resOf : Out → String) (implOut : Option Out) : DSt × String × String :=
          let r := step sk o
          let blockedM := (dedup ((d.s.readers.filter fun p => readerBlocked d.s p.1).map (·.1))).foldl (fun acc x => insertNat x acc) []
          let mo := s!"{resOf r.2} blocked={showIds blockedM} cons={showCons none d.consOut}"
          let (mk', v1) := match implOut with
            | some out => mk.step o out
            | none => (mk, Verdict.viol 12)
          let v := if impl.startsWith "PANIC" || impl.startsWith "CRASH" then "VIOL " ++ violText 9
            else if io?.isNone then "VIOL unparsable implementation output" else verdictStr [foreignV io, v1]
          (setOther d k (r.1, mk'), mo, v)
        match rest with
        | ["put", kd, n] =>
          match n.toNat? with
          | none => (d, "bad-op", "-")
          | some id =>
            let it : Item := ⟨id, kd = "t", kd = "h"⟩
            let d := { d with items := (id, it) :: d.items }
            go d (.put it) (fun o => match o with | .putOk => "ok" | .putErr => "err" | _ => "?")
              (if io.res = "ok" then some .putOk else if io.res = "err" then some .putErr else none)
        | ["get"] =>
          go d (.get false)
            (fun o => match o with | .got it => s!"got_{it.id}" | .getNone => "none" | .getErr => "err" | _ => "?")
            (parseGot d io.res)
        | ["finish"] =>
          go d .finish (fun o => match o with | .orphaned ids => "orph=" ++ showIds ids | .none => "orph=-" | _ => "?")
            (if io.res.startsWith "orph=" then (parseIds (io.res.drop 5).toString).map .orphaned else none)
        | _ => (d, "bad-op", "-")
    | _ => (d, "bad-op", "-")
  | _ => (d, "bad-op", "-")

def run : IO Unit := Driver.run dinit step'

end GrpcModel.Driver.S_controlbuf
