import GrpcModel.Driver.Loop
import GrpcModel.Model.Dns
/-! component `dnstarget` (C56, T1): `parse <hex target> <hex default>` | `fmt <hex addr>`.
`netip.ParseAddr`'s verdict is read from the implementation's answer (`ip=`): it is a parameter
of the model (trusted standard library), everything else is computed by the model. -/
namespace GrpcModel.Driver.Dnstarget
open GrpcModel.Driver GrpcModel.Dns

def ipField (impl : String) : Option Nat :=
  match (impl.splitOn " ").head? with
  | some w => if w.startsWith "ip=" then (w.drop 3).toString.toNat? else none
  | none => none

def showErr : PErr → String
  | .missingAddr => "missing" | .endsWithColon => "colon" | .invalid => "invalid"

def has (bs : List UInt8) (c : UInt8) : Bool := bs.contains c

/-- C56's parsing clauses evaluated on the implementation's answer, independently of the model's
    control flow: accepted forms, default port, trailing colon, brackets stripped. -/
def monitorParse (t d : List UInt8) (ip : Nat) (impl : String) : String :=
  let ans := (impl.splitOn " ").drop 1
  let plain := !has t colon && !has t lbr && !has t rbr && !has d colon && !has d lbr && !has d rbr
  if t = [] then (if ans = ["err", "missing"] then "ok" else "VIOL empty target accepted")
  else if ip ≠ 0 then
    (if ans = ["ok", hex t, hex d] then "ok" else "VIOL IP literal must get the default port")
  else if plain then
    (if ans = ["ok", hex t, hex d] then "ok" else "VIOL bare host must get the default port")
  else if t.getLast? = some colon ∧ ans.head? = some "ok" then "VIOL trailing colon accepted"
  else "ok"

def step : Step Unit := fun _ fs impl =>
  match fs with
  | ["parse", ht, hd] =>
    match unhex ht, unhex hd, ipField impl with
    | some t, some d, some ip =>
      let m := match parseTarget (ip != 0) t d with
        | .ok (h, p) => s!"ip={ip} ok {hex h} {hex p}"
        | .error e => s!"ip={ip} err {showErr e}"
      ((), m, monitorParse t d ip impl)
    | _, _, _ => ((), "bad-op", "-")
  | ["fmt", ha] =>
    match unhex ha, ipField impl with
    | some a, some ip =>
      let m := match formatIP ip a with
        | some r => s!"ip={ip} ok {hex r}"
        | none => s!"ip={ip} err"
      let v := if ip = 6 ∧ impl ≠ s!"ip=6 ok {hex (lbr :: a ++ [rbr])}" then "VIOL IPv6 address not bracketed"
               else if ip = 4 ∧ impl ≠ s!"ip=4 ok {hex a}" then "VIOL IPv4 address changed" else "ok"
      ((), m, v)
    | _, _ => ((), "bad-op", "-")
  | _ => ((), "bad-op", "-")

def run : IO Unit := Driver.run () step

end GrpcModel.Driver.Dnstarget
