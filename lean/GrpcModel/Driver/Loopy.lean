import GrpcModel.Model.LoopyIO
/-! component `loopy` (C01): the real loopy writer, op by op; monitor = the peer's flow-control ledger
(`Loopy.C01.mstep`) evaluated on the frames decoded from the implementation's conn. -/
namespace GrpcModel.Driver.Loopy
open GrpcModel.Driver GrpcModel.Loopy GrpcModel.Loopy.IO

def monitor (p : C01.Peer) (_ : St) (op : Op) (impl : Impl) : C01.Peer × String :=
  match toOuts (fun _ _ _ => some 0) impl.frames with
  | (_, some e) => (p, "VIOL " ++ e)
  | (outs, none) =>
    match C01.mstep p op outs with
    | (p1, some e) => (p1, "VIOL " ++ e)
    | (p1, none) => (p1, "ok")

def run : IO Unit :=
  Driver.run ({ st := init .client, mon := C01.Peer.init } : DState C01.Peer) (mkStep C01.Peer.init monitor)

end GrpcModel.Driver.Loopy
