import GrpcModel.Driver.Loop
import GrpcModel.Model.MemPool
/-! component `mempool` (C53): the real buffer pools with identity tracking.

    pool bin e… | dirtybin e… | tiered s… | simple | dirtysimple | nop      → ok
    get n        → `new <len> <cap> zero=<b>` | `reused <h> <len> <cap> zero=<b>`  (h = the get that last handed this buffer out)
    dirty h | put h | putcap h c                                              → ok
    handles are numbered by `get` ops. The model cannot predict sync.Pool (answer `*`): the monitor
    checks the contract and that the answer is one of the model's outcomes, then follows it.
-/
namespace GrpcModel.Driver.Mempool
open GrpcModel.Driver GrpcModel.MemPool

structure H where
  buf : Buf
  out : Bool
deriving Repr

structure St where
  pool : Pool := newNop
  hs : List H := []      -- by handle number

def nums (l : List String) : Option (List Nat) := l.mapM String.toNat?

def isZeroing (p : Pool) : Bool := p.fallback.zeroing

def parseGet (impl : String) : Option (Option Nat × Nat × Nat × Bool) :=
  let z (s : String) : Option Bool := if s = "zero=true" then some true else if s = "zero=false" then some false else none
  match impl.splitOn " " with
  | ["new", l, c, zs] => do pure (none, ← l.toNat?, ← c.toNat?, ← z zs)
  | ["reused", h, l, c, zs] => do pure (some (← h.toNat?), ← l.toNat?, ← c.toNat?, ← z zs)
  | _ => none

def setH (hs : List H) (i : Nat) (h : H) : List H := hs.set i h

def step (st : St) (fs : List String) (impl : String) : St × String × String :=
  match fs with
  | "pool" :: kind :: args => match nums args with
    | some a =>
      let p := if kind = "bin" then some (newBinary a true) else if kind = "dirtybin" then some (newBinary a false)
        else if kind = "tiered" then some (newTiered a) else if kind = "simple" then some (newSimple true)
        else if kind = "dirtysimple" then some (newSimple false) else if kind = "nop" then some newNop else none
      match p with
      | some p => ({ pool := p, hs := [] }, "ok", "-")
      | none => (st, "bad-op", "-")
    | none => (st, "bad-op", "-")
  | ["get", n] => match n.toNat? with
    | none => (st, "bad-op", "-")
    | some n =>
      let outs := getOutcomes st.pool n
      match parseGet impl with
      | none => (st, "*", "VIOL unparsable answer " ++ impl)
      | some (src, l, c, z) =>
        -- the contract, on the implementation's answer
        let contract := if l ≠ n then "VIOL Get(n) returned a buffer whose length is not n"
          else if c < n then "VIOL Get(n) returned a buffer with capacity below n"
          else if isZeroing st.pool && !z then "VIOL a zeroing pool handed out a buffer that is not all zeros"
          else "ok"
        match src with
        | none =>
          match outs.find? (fun o => !o.1.reused) with
          | some (g, p') =>
            let v := if contract != "ok" then contract
              else if c ≠ g.buf.cap then s!"VIOL fresh buffer has capacity {c}, the tier gives {g.buf.cap}"
              else if !z then "VIOL freshly allocated buffer is not zero"
              else "ok"
            ({ pool := p', hs := st.hs ++ [⟨{ g.buf with cap := c, zero := z }, true⟩] }, "*", v)
          | none => (st, "*", "VIOL no outcome")
        | some h0 =>
          match st.hs[h0]? with
          | none => (st, "*", "VIOL unknown buffer")
          | some h =>
            if h.out then ({ st with hs := st.hs ++ [⟨h.buf, true⟩] }, "*", "VIOL the pool handed out a buffer that is still in use (handed out twice)")
            else match outs.find? (fun o => o.1.reused && o.1.buf.id == h.buf.id) with
              | none => ({ st with hs := st.hs ++ [⟨h.buf, true⟩] }, "*", "VIOL the pool handed out a buffer that the model does not hold in the sub-pool chosen for this size")
              | some (g, p') =>
                let v := if contract != "ok" then contract
                  else if c ≠ g.buf.cap then s!"VIOL reused buffer changed capacity {g.buf.cap} -> {c}"
                  else if z ≠ g.buf.zero then "VIOL reused buffer content: zeroed/dirty state is not what the pool kind prescribes"
                  else "ok"
                ({ pool := p', hs := st.hs ++ [⟨{ g.buf with zero := z }, true⟩] }, "*", v)
  | ["dirty", h] => match h.toNat? >>= (st.hs[·]?) , h.toNat? with
    | some x, some i =>
      if !x.out then (st, "bad-op", "-")
      else ({ st with hs := setH st.hs i { x with buf := { x.buf with zero := x.buf.cap == 0 } } }, "ok", "-")
    | _, _ => (st, "bad-op", "-")
  | ["put", h] => match h.toNat? >>= (st.hs[·]?), h.toNat? with
    | some x, some i =>
      if !x.out then (st, "bad-op", "-")
      else ({ pool := put st.pool x.buf, hs := setH st.hs i { x with out := false } }, "ok", "-")
    | _, _ => (st, "bad-op", "-")
  | ["putcap", h, c] => match h.toNat? >>= (st.hs[·]?), h.toNat?, c.toNat? with
    | some x, some i, some c =>
      if !x.out then (st, "bad-op", "-")
      else
        let b := { x.buf with cap := min c x.buf.cap, zero := x.buf.zero || min c x.buf.cap == 0 }
        ({ pool := put st.pool b, hs := setH st.hs i ⟨b, false⟩ }, "ok", "-")
    | _, _, _ => (st, "bad-op", "-")
  | _ => (st, "bad-op", "-")

def run : IO Unit := Driver.run ({} : St) step

end GrpcModel.Driver.Mempool
