import GrpcModel.Driver.Loop
import GrpcModel.Model.Priority
/-!
component `s_priority` (C39, tie T2).  Ops and output format: see harness/synct/c_priority_test.go.
The monitors evaluate the property on the IMPLEMENTATION's snapshot (childInUse, priorities, per
child started / state / picker / init timer) and on the pickers it sent to the parent:
  P1 the child in use is the first usable one (READY, IDLE, CONNECTING within its init timeout), else
     the last; everything above it is started and failed or timed out, everything below it is stopped
  P2 a started child has only failed / timed-out children above it
  P3 below a READY child nothing is started
  P4 the state last sent to the parent is the state (connectivity + picker) of the child in use
  P5 an init timer is armed only for a started child that has not failed since it was last READY/IDLE
  P6 a child keeps its init timer for its whole initial connection timeout unless it reports READY/IDLE/TF or is restarted
-/
namespace GrpcModel.Driver.S_priority
open GrpcModel.Driver GrpcModel.Priority

def joinOr (l : List String) (sep : String) : String := if l.isEmpty then "-" else sep.intercalate l

def showPk : Pk → String
  | .nosc => "nosc"
  | .allrm => "allrm"
  | .stub k => s!"p{k}"

def showTyp (t : Nat) : String := if t = 0 then "A" else "B"

def showChild (c : Child) : String :=
  s!"{c.name}:{showTyp c.typ}:{if c.started then 1 else 0}:{c.st.conn}:{showPk c.st.pk}:{if c.reportedTF then 1 else 0}:{if c.timer.isSome then 1 else 0}"

def evName : Ev → Nat | .build n _ => n | .ucc n => n | .close n => n

def showEv : Ev → String
  | .build n t => s!"B:{n}:{showTyp t}"
  | .ucc n => s!"U:{n}"
  | .close n => s!"C:{n}"

def insEv (e : Ev) : List Ev → List Ev
  | [] => [e]
  | x :: xs => if evName e < evName x then e :: x :: xs else x :: insEv e xs
def sortEvs (l : List Ev) : List Ev := l.foldl (fun acc e => insEv e acc) []

def render (s : St) : String :=
  let use := match s.inUse with | none => "-" | some n => toString n
  s!"use={use} pr={joinOr (s.prios.map toString) ","} ch={joinOr (s.children.map showChild) ","}"
    ++ s!" up={joinOr (s.ups.map fun p => s!"{p.conn}/{showPk p.pk}") ";"} ev={joinOr ((sortEvs s.evs).map showEv) ";"} pend={s.pending.length}"

/-! ### parsing -/

def valOf (tok : String) : String := "=".intercalate ((tok.splitOn "=").drop 1)

def parsePk (s : String) : Option Pk :=
  if s = "nosc" then some .nosc else if s = "allrm" then some .allrm
  else if s.startsWith "p" then ((s.drop 1).toString.toNat?).map Pk.stub else none

def parseChild (s : String) : Option Child :=
  match s.splitOn ":" with
  | [n, t, st, conn, pk, rtf, tm] => do
    pure { name := ← n.toNat?, typ := if t = "A" then 0 else 1, started := st = "1", st := ⟨← conn.toNat?, ← parsePk pk⟩,
           reportedTF := rtf = "1", timer := if tm = "1" then some 0 else none }
  | _ => none

def parseUp (s : String) : Option PState :=
  match s.splitOn "/" with
  | [c, p] => do pure ⟨← c.toNat?, ← parsePk p⟩
  | _ => none

def parseList {α} (f : String → Option α) (sep s : String) : Option (List α) :=
  if s = "-" then some [] else (s.splitOn sep).mapM f

structure PLine where
  use : Option Nat
  prios : List Nat
  children : List Child
  ups : List PState
  uccs : List Nat     -- children that were sent UpdateClientConnState during the op
deriving Repr

def parseLine (l : String) : Option PLine :=
  match l.splitOn " " with
  | [u, pr, ch, up, ev, _] => do
    let use := if valOf u = "-" then none else (valOf u).toNat?
    pure { use := use, prios := ← parseList String.toNat? "," (valOf pr), children := ← parseList parseChild "," (valOf ch),
           ups := ← parseList parseUp ";" (valOf up), uccs := ((valOf ev).splitOn ";").filterMap fun e =>
             match e.splitOn ":" with | ["U", n] => n.toNat? | _ => none }
  | _ => none

/-! ### monitors -/

def failedOrTimedOut (c : Child) : Bool := c.started && (c.st.conn = 3 || (c.st.conn = 1 && c.timer.isNone))

def childOf (p : PLine) (n : Nat) : Option Child := p.children.find? (·.name = n)

def monitor (p : PLine) (lastUp : Option PState) : Option String :=
  -- P5: the init timer is armed only before a failure / for started children
  match p.children.find? (fun c => c.timer.isSome && (c.reportedTF || !c.started)) with
  | some c => some s!"child {c.name} has its init timer armed although it {if c.started then "reported TRANSIENT_FAILURE since it was last READY/IDLE" else "is not started"}"
  | none =>
  if p.prios.isEmpty then
    (if p.use.isSome then some "a child is in use although there are no priorities"
     else match lastUp with
       | some ⟨3, .allrm⟩ => none
       | none => none
       | some u => some s!"no priorities but the parent was last sent {u.conn}/{showPk u.pk}")
  else
  let cs := p.prios.filterMap (childOf p)
  if cs.length ≠ p.prios.length then some "a priority has no child" else
  match p.use with
  | none => some "no child in use although there are priorities"
  | some u =>
    match cs.findIdx? (·.name = u) with
    | none => some s!"child in use {u} is not in the priority list"
    | some k =>
      let above := cs.take k
      let below := cs.drop (k + 1)
      match cs[k]? with
      | none => some "index"
      | some c =>
        if !c.started then some s!"child in use {u} is not started"
        else if !(usable c) && !below.isEmpty then
          some s!"child in use {u} is neither READY, IDLE nor within its init timeout and is not the lowest priority"
        else match above.find? (fun a => usable a || !a.started) with
        | some a => some s!"priority {a.name} is above the child in use {u} but is usable or not started (state {a.st.conn}, timer {a.timer.isSome})"
        | none =>
        match below.find? (·.started) with
        | some b =>
          (if c.st.conn = 2 then some s!"priority {b.name} is still started below READY child {u}"
           else some s!"priority {b.name} is started below the child in use {u}")
        | none =>
        -- P2 in its own words
        match (List.range cs.length).findSome? (fun j =>
            match cs[j]? with
            | some cj => if cj.started then ((cs.take j).find? fun a => !(failedOrTimedOut a) && a.st.conn ≤ 3).map fun a => (cj.name, a.name) else none
            | none => none) with
        | some (j, a) => some s!"priority {j} is started although higher priority {a} has neither failed nor timed out"
        | none =>
        match lastUp with
        | none => some "nothing was ever sent to the parent"
        | some up => if up = c.st then none
                     else some s!"parent was last sent {up.conn}/{showPk up.pk} but child in use {u} has {c.st.conn}/{showPk c.st.pk}"

/-! ### model step -/

structure DSt where
  s : St := {}
  lastUp : Option PState := none   -- last state the IMPLEMENTATION sent to the parent
  hold : Bool := false
  prevCh : List Child := []        -- the implementation's children after the previous op
  armed : List (Nat × Int) := []   -- per child: a time at or before which its current init timer was armed (observed)
deriving Repr

/-- P6: a started child that did not report in this op and was not (re)sent its config loses its init
    timer only once the timer's deadline has passed: it stays usable for its whole initial
    connection timeout.  `armed` is a lower bound of the arming time observed on the implementation. -/
def monTimer (prev : List Child) (armed : List (Nat × Int)) (now : Int) (reporting : Option Nat) (p : PLine) : Option String :=
  p.children.findSome? fun c =>
    match prev.find? (·.name = c.name), armed.find? (·.1 = c.name) with
    | some c0, some (_, t0) =>
      if c0.timer.isSome && c0.started && c.started && c.timer.isNone && reporting != some c.name
          && !p.uccs.contains c.name && decide (now < t0 + initTimeout) then
        some s!"child {c.name} lost its init timer at {now} although it was armed at or after {t0} (timeout {initTimeout} ms), did not report and was not restarted: it is still within its initial connection timeout"
      else none
    | _, _ => none

def updArmed (prev : List Child) (armed : List (Nat × Int)) (opStart : Int) (p : PLine) : List (Nat × Int) :=
  p.children.filterMap fun c =>
    if c.timer.isSome then
      match prev.find? (·.name = c.name), armed.find? (·.1 = c.name) with
      | some c0, some a => if c0.timer.isSome then some a else some (c.name, opStart)
      | _, _ => some (c.name, opStart)
    else none

def parseKid (s : String) : Option (Nat × Nat) :=
  match s.splitOn ":" with
  | [n, t] => do
    let n ← n.toNat?
    if t = "A" then some (n, 0) else if t = "B" then some (n, 1) else none
  | _ => none

def mstep (hold : Bool) (s : St) (fs : List String) : St × Option String :=
  match fs with
  | ["cfg", pr, kids] =>
    match parseList String.toNat? "," pr, parseList parseKid "," kids with
    | some pr, some kids => (GrpcModel.Priority.step s (.update pr kids), none)
    | _, _ => (s, some "bad-op")
  | ["child", n, c] =>
    match n.toNat?, c.toNat? with
    | some n, some c =>
      if c > 3 then (s, some "bad-op") else
      match childReport (clearOut s) n c with
      | some s' => (s', none)
      | none => (s, some "nochild")
    | _, _ => (s, some "bad-op")
  | ["sleep", d] =>
    match d.toNat? with
    | some d => (sleepTo hold (4 * (s.children.length + s.sbs.length) + 8) (clearOut s) (s.now + d), none)
    | none => (s, some "bad-op")
  | ["hold", _] => (clearOut s, none)
  | ["release"] => if s.pending.isEmpty then (s, some "noparked") else (GrpcModel.Priority.step s .runcb, none)
  | _ => (s, some "bad-op")

def step : Step DSt := fun d fs impl =>
  let (s', err) := mstep d.hold d.s fs
  let hold := match fs with | ["hold", b] => b = "1" | _ => d.hold
  match err with
  | some e => ({ d with s := s', hold := hold }, e, "-")
  | none =>
    match parseLine impl with
    | none => ({ d with s := s', hold := hold }, render s', "-")
    | some p =>
      let lastUp := match p.ups.getLast? with | some u => some u | none => d.lastUp
      let reporting := match fs with | ["child", n, _] => n.toNat? | _ => none
      let v := match monitor p lastUp <|> monTimer d.prevCh d.armed s'.now reporting p with | some m => "VIOL " ++ m | none => "ok"
      ({ s := s', lastUp := lastUp, hold := hold, prevCh := p.children, armed := updArmed d.prevCh d.armed d.s.now p }, render s', v)

def run : IO Unit := Driver.run ({} : DSt) step

end GrpcModel.Driver.S_priority
