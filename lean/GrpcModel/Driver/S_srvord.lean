import GrpcModel.Model.LoopyIO
/-! component `s_srvord` (C02, tie T2): a REAL `http2Server` over `net.Pipe` in a synctest bubble (see
`harness/synct/c_srvord_test.go`). There is no model answer to compare (`*`): the goroutines of the transport are scheduled by the
Go runtime. The monitor is the C02 spec automaton (`Loopy.C02`) fed from the application's side — a stream is opened by the peer's
HEADERS, a message counts as written when `ServerStream.Write` has returned nil, trailers are requested when `WriteStatus` has
returned nil — and from the wire: the frames the server wrote, DATA payloads recognised by content.

RST_STREAM at this level: the control items are not visible, so an RST_STREAM is accepted on a stream that is still open on the
wire (it ends it), and directly after the stream's trailers (the RST_STREAM(NO_ERROR) of the same close, RFC 7540 §8.1); an
RST_STREAM on a stream that has already ended on the wire is a violation ("no frame for a stream follows its RST_STREAM or trailers"). -/
namespace GrpcModel.Driver.S_srvord
open GrpcModel.Driver GrpcModel.Loopy GrpcModel.Loopy.IO

structure Ans where
  ret : String := ""
  frames : List WFrame := []
  wok : List (Nat × Nat × Nat) := []
  sok : List Nat := []
  ok : Bool := false

def triples (s : String) : List (Nat × Nat × Nat) :=
  (listOf s).filterMap fun p => match p.splitOn ":" with
    | [a, b, c] => do pure (← a.toNat?, ← b.toNat?, ← c.toNat?)
    | _ => none

def parseAns (line : String) : Ans := Id.run do
  match fields line with
  | [] => return {}
  | ret :: rest =>
    let mut r : Ans := { ret := ret }
    let mut saw := false
    for f in rest do
      let (k, v) := kv f
      if k = "F" then
        r := { r with frames := (listOf v).map parseFrame }
        saw := true
      else if k = "WOK" then r := { r with wok := triples v }
      else if k = "SOK" then r := { r with sok := (listOf v).filterMap String.toNat? }
    return { r with ok := saw }

def applyPre (m : C02.Mon) (op : Op) : C02.Mon := { m.pre op [] with justTrailers := none }

/-- frames of one step, judged in wire order -/
def judge (m : C02.Mon) (extra : List (Nat × Nat)) : List WFrame → C02.Mon × Option String
  | [] => (m, none)
  | .data id len es h :: t =>
    let x := m.str id
    let pos := match extra.lookup id with | some p => p | none => x.sent
    let known := x.wild ∨ x.phase ≠ .open
    if !known ∧ hex8 (hashRange id pos len) ≠ h then
      (m, some s!"DATA payload on stream {id} is not the next {len} bytes the application wrote")
    else
      match m.frame (.tick 0) (.data id (if known then 0 else pos) len es) with
      | (m1, some e) => (m1, some e)
      | (m1, none) => judge m1 ((id, pos + len) :: extra) t
  | .headers id es _ _ :: t =>
    match m.frame (.tick 0) (.headers id es []) with
    | (m1, some e) => (m1, some e)
    | (m1, none) => judge m1 extra t
  | .cont _ _ _ :: t => judge m extra t
  | .rst id code :: t =>
    let x := m.str id
    if x.wild then judge { m with justTrailers := none } extra t
    else if m.justTrailers = some id then judge { m with justTrailers := none } extra t
    else if x.phase = .open then judge ({ m with justTrailers := none }.set id { x with phase := .closed }) extra t
    else (m, some s!"RST_STREAM({code}) on stream {id} after the stream had ended on the wire (trailers / RST_STREAM already sent)")
  | .other _ :: t => judge m extra t

def step' : Step C02.Mon := fun m fs implLine =>
  let a := parseAns implLine
  if !a.ok then (m, "*", "-") else
  -- the op itself
  let m1 := match fs with
    | ["open", id, _, _] => applyPre m (.register id.toNat!)
    | ["prst", id, _] => (applyPre m (.cleanup id.toNat! false 0)).post (.cleanup id.toNat! false 0)
    | _ => m
  -- application calls that completed: messages accepted, then trailers requested
  let m2 := a.wok.foldl (fun m (id, _, len) => applyPre m (.data id 5 (len - 5) false)) m1
  let m3 := a.sok.foldl (fun m id => applyPre m (.serverHeaders id true 0 false 0)) m2
  match judge { m3 with justTrailers := none } [] a.frames with
  | (m4, some e) => (m4, "*", "VIOL " ++ e)
  | (m4, none) => (m4, "*", "ok")

def run : IO Unit := Driver.run C02.Mon.init step'

end GrpcModel.Driver.S_srvord
