import GrpcModel.Driver.Loop
import GrpcModel.Model.WRRRandom
import GrpcModel.Model.EDF
/-! component `wrrrandom` (C38). Ops: see harness/cmd/impl/c_wrrrandom.go. -/
namespace GrpcModel.Driver.WRRRandom
open GrpcModel.Driver GrpcModel.WRRRandom GrpcModel.EDF

structure PK where
  ready : Bool
  max : Option Nat
  rpms : List Nat
  names : List String

structure St where
  rw : Option RW := none
  rwW : List Nat := []
  edf : Option (EDFState Float) := none
  edfW : List Nat := []
  edfCounts : Array Nat := #[]
  pk : Option PK := none
  dropSt : DropState := {}
  balMax : Option Nat := none     -- the balancer's requestCountMax (none before the first cluster config)
  count : Nat := 0            -- model's numRequests
  nextId : Nat := 0
  open_ : List (Nat × Bool) := []   -- admitted RPCs not yet finished; flag: its Done releases the request counter
  -- monitor's own ledger, fed by the implementation's answers
  inflight : Nat := 0

def kv (s key : String) : Option String :=
  (s.splitOn " ").findSome? fun p => match p.splitOn "=" with
    | [k, v] => if k = key then some v else none
    | _ => none

def allEq : List Nat → Bool
  | [] => true
  | w :: ws => ws.all (· == w)

/-- enumerate the whole random source of a WRR: per-item counts -/
def enumCounts (rw : RW) (n range : Nat) : Array Nat := Id.run do
  let mut counts := Array.replicate n 0
  for r in [0:range] do
    match rw.pick r with
    | some i => counts := counts.modify i (· + 1)
    | none => pure ()
  return counts

def enumDrops (d : RW) (range : Nat) : Nat := Id.run do
  let mut k := 0
  for r in [0:range] do
    if dropOf d r then k := k + 1
  return k

/-- C38 for the random selector: over the whole random source item i is returned exactly w_i
    times out of Σw (all weights equal: once each out of n). -/
def monEnum (ws : List Nat) (impl : String) : String :=
  if ws.isEmpty then (if impl = "nil" then "ok" else "VIOL Next on an empty WRR is not nil") else
  match kv impl "range" >>= String.toNat?, kv impl "counts" >>= natList with
  | some range, some counts =>
    if allEq ws then
      if range = ws.length && counts = ws.map (fun _ => 1) then "ok"
      else "VIOL equal weights: items are not returned with probability 1/n each"
    else if range ≠ ws.sum then s!"VIOL random range {range} is not the total weight {ws.sum}"
    else if counts = ws then "ok"
    else match (List.zip counts ws).find? (fun (c, w) => w = 0 && c ≠ 0) with
      | some _ => "VIOL a zero-weight item is returned although not all weights are equal"
      | none => "VIOL item i is not returned for exactly w_i values of the random source"
  | _, _ => "VIOL unparsable answer " ++ impl

def monRnext (ws : List Nat) (r : Nat) (impl : String) : String :=
  if ws.isEmpty then (if impl = "nil" then "ok" else "VIOL Next on an empty WRR is not nil") else
  match impl.splitOn " " with
  | ["item", iS, nS] =>
    match iS.toNat?, (kv nS "n") >>= natList with
    | some i, some [n] =>
      if i ≥ ws.length then "VIOL item index out of range"
      else if allEq ws then (if n = ws.length && i = r then "ok" else "VIOL equal weights: not uniform over the items")
      else if n ≠ ws.sum then s!"VIOL random range {n} is not the total weight {ws.sum}"
      else if ws.getD i 0 = 0 then "VIOL a zero-weight item is returned although not all weights are equal"
      else
        let lo := (ws.take i).sum
        if lo ≤ r && r < lo + ws.getD i 0 then "ok" else "VIOL returned item does not own this value of the random source"
    | _, _ => "VIOL unparsable answer " ++ impl
  | _ => "VIOL unparsable answer " ++ impl

/-- EDF: counts proportional to weights in every observed prefix, exact after whole cycles. -/
def monEdf (ws : List Nat) (counts : Array Nat) : String :=
  let n := ws.length
  let total := counts.foldl (· + ·) 0
  let W := ws.sum
  let idx := List.range n
  let bad := idx.find? fun i => idx.any fun j =>
    -- c_i/w_i - c_j/w_j ≤ 1/w_i + 1/w_j
    counts[i]! * ws.getD j 0 > counts[j]! * ws.getD i 0 + ws.getD i 0 + ws.getD j 0
  match bad with
  | some i => s!"VIOL EDF counts are not in proportion to the weights (item {i})"
  | none =>
    if W > 0 && total % W = 0 then
      let m := total / W
      if idx.all fun i => counts[i]! = m * ws.getD i 0 then "ok"
      else "VIOL after a whole number of cycles (Σw picks) item i was not returned exactly w_i times per cycle"
    else "ok"

def edfRun (s : EDFState Float) : Nat → List Nat → EDFState Float × List Nat
  | 0, acc => (s, acc.reverse)
  | k + 1, acc =>
    match s.next with
    | (s', some i) => edfRun s' k (i :: acc)
    | (s', none) => (s', acc.reverse)

def showRes (r : PickResult) (id : Nat) : String :=
  match r with
  | .dropped _ => "drop"
  | .cbDropped => "cb"
  | .childErr => "childerr"
  | .ok => s!"ok {id}"

def step : Step St := fun s fs impl =>
  match fs with
  | ["rw", wsS] =>
    match natList wsS with
    | some ws => ({ s with rw := some (RW.ofWeights ws), rwW := ws }, "ok", "-")
    | none => (s, "bad-op", "-")
  | ["rnext", rS] =>
    match s.rw, rS.toNat? with
    | some rw, some r =>
      match rw.range with
      | some n =>
        let r := if n = 0 then r else r % n     -- the harness reduces a dictated value into the asked range
        match rw.pick r with
        | some i => (s, s!"item {i} n={n}", monRnext s.rwW r impl)
        | none => (s, "nil", monRnext s.rwW r impl)
      | none => (s, "nil", monRnext s.rwW r impl)
    | none, _ => (s, "no-wrr", "-")
    | _, _ => (s, "bad-op", "-")
  | ["renum", wsS] =>
    match natList wsS with
    | some ws =>
      let rw := RW.ofWeights ws
      match rw.range with
      | none => (s, "nil", monEnum ws impl)
      | some n => (s, s!"range={n} counts={showNatList (enumCounts rw ws.length n).toList}", monEnum ws impl)
    | none => (s, "bad-op", "-")
  | ["edf", wsS] =>
    match natList wsS with
    | some ws => ({ s with edf := some (EDFState.ofWeights ws), edfW := ws, edfCounts := Array.replicate ws.length 0 }, "ok", "-")
    | none => (s, "bad-op", "-")
  | ["enext", kS] =>
    match s.edf, kS.toNat? with
    | some e, some k =>
      if s.edfW.isEmpty then (s, "nil", if impl = "nil" then "ok" else "VIOL Next on an empty EDF is not nil") else
      let (e', is) := edfRun e k []
      -- the monitor counts what the IMPLEMENTATION returned
      let counts := match natList impl with
        | some l => l.foldl (fun c i => if i < c.size then c.modify i (· + 1) else c) s.edfCounts
        | none => s.edfCounts
      let verdict := match natList impl with
        | some l => if l.length ≠ k then "VIOL wrong number of items" else if l.any (· ≥ s.edfW.length) then "VIOL item index out of range" else monEdf s.edfW counts
        | none => "VIOL unparsable answer " ++ impl
      ({ s with edf := some e', edfCounts := counts }, showNatList is, verdict)
    | none, _ => (s, "no-wrr", "-")
    | _, _ => (s, "bad-op", "-")
  | ["gcd", aS, bS] =>
    match aS.toNat?, bS.toNat? with
    | some a, some b =>
      let v := match impl.toNat? with
        | some g => if g = Nat.gcd a b then "ok" else "VIOL not the greatest common divisor"
        | none => "VIOL unparsable answer"
      (s, toString (gcd32 a b), v)
    | _, _ => (s, "bad-op", "-")
  | ["rpm", nS, dS] =>
    match nS.toNat?, dS.toNat? with
    | some num, some den =>
      if den = 0 then (s, "bad-op", "-") else
      let v := match impl.toNat? with
        | some rpm =>
          if den = 100 || den = 10000 || den = 1000000 then
            (if rpm * den = (min num den) * 1000000 then "ok" else "VIOL requests-per-million is not the fraction numerator/denominator capped at 100%")
          else (if rpm = min (num * 1000000 / den) 1000000 then "ok" else "VIOL requests-per-million is not floor(numerator*1e6/denominator) capped at 1e6")
        | none => "VIOL unparsable answer"
      (s, toString (dropRequestsPerMillion num den), v)
    | _, _ => (s, "bad-op", "-")
  | ["denum", rS] =>
    match rS.toNat? with
    | some rpm =>
      let d := newDropper rpm
      match d.range with
      | none => (s, "nil", "-")
      | some n =>
        let v :=
          if rpm > 1000000 then "-" else
          match kv impl "range" >>= String.toNat?, kv impl "drops" >>= String.toNat? with
          | some range, some drops =>
            if range > 0 && drops * 1000000 = rpm * range then "ok"
            else s!"VIOL dropper drops {drops} of {range} values of the random source, not {rpm} per million"
          | _, _ => "VIOL unparsable answer " ++ impl
        (s, s!"range={n} drops={enumDrops d n}", v)
    | none => (s, "bad-op", "-")
  | ["pk", rdy, maxS, rpmS] =>
    match natList rpmS with
    | some rpms =>
      let max := if maxS = "-" then none else maxS.toNat?
      ({ s with pk := some { ready := rdy = "1", max := max, rpms := rpms,
                             names := (List.range rpms.length).map fun i => s!"c{i}" } }, "ok", "-")
    | none => (s, "bad-op", "-")
  | ["cfgupd", rdy, maxS, dsS] =>
    let parsed : Option (List (String × Nat × Nat)) :=
      if dsS = "-" then some [] else
      (dsS.splitOn ",").mapM fun p => match p.splitOn ":" with
        | [c, n, d] => do pure (c, (← n.toNat?), (← d.toNat?))
        | _ => none
    match parsed with
    | some ovs =>
      if ovs.any (fun (_, _, d) => d = 0) then (s, "bad-op", "-") else
      let ds' := handleDrops s.dropSt ovs
      -- updatePicker: drops changed, or (first config) the request counter / max_requests changed
      let max := if maxS = "-" then 1024 else (maxS.toNat?).getD 1024
      let changed := decide (s.dropSt.cats ≠ ds'.cats) || s.balMax != some max
      ({ s with dropSt := ds', balMax := some max,
                pk := some { ready := rdy = "1", max := some max, rpms := ds'.cats.map (·.rpm), names := ds'.cats.map (·.category) } },
       s!"ok changed={changed}", "-")
    | none => (s, "bad-op", "-")
  | ["pick", okS, rsS] =>
    match s.pk, natList rsS with
    | some pk, some rs =>
      let childOK := okS = "1"
      let drops := pk.rpms.map newDropper
      -- the harness reduces each dictated value into the range the dropper asks for
      let rs0 := rs ++ List.replicate (drops.length - rs.length) 0     -- a missing dictated value counts as 0
      let rs := (List.zip rs0 (drops.map fun d => (d.range).getD 1)).map fun (r, b) => if b = 0 then r else r % b
      let (res, c') := pick pk.ready drops rs pk.max childOK s.count
      -- bounds the code asks the random source for: one per consulted dropper
      let consulted := if !pk.ready then 0 else match res with
        | .dropped k => k + 1
        | _ => drops.length
      let bounds := (drops.take consulted).filterMap RW.range
      let lsS := match res with
        | .dropped k => s!"[{pk.names.getD k "?"}]"
        | .cbDropped => "[]"
        | _ => "-"
      let out := s!"{showRes res s.nextId} n={c'} bounds={showNatList bounds} ls={lsS}"
      let s1 := match res with
        | .ok => { s with count := c', nextId := s.nextId + 1, open_ := (s.nextId, pk.max.isSome) :: s.open_ }
        | _ => { s with count := c' }
      -- monitor, on the implementation's answer
      let implRes := (impl.splitOn " ").headD ""
      let implN := kv impl "n" >>= String.toNat?
      let implBounds := (kv impl "bounds" >>= natList).getD []
      -- closed form: dropper k fires iff r_k * 1e6 < rpm_k * bound_k
      -- judged with the bounds the IMPLEMENTATION asked for (a dictated value is reduced into that range)
      let fires := (List.zip (List.zip pk.rpms rs0) implBounds).map fun ((rpm, r), b) =>
        decide ((if b = 0 then r else r % b) * 1000000 < rpm * b)
      let wantBounds := (pk.rpms.map fun rpm => 1000000 / Nat.gcd rpm 1000000).take implBounds.length
      let expectDrop : Option Nat := if pk.ready then fires.findIdx? id else none
      let admittedNow := implRes = "ok"
      let infl := if admittedNow && pk.max.isSome then s.inflight + 1 else s.inflight
      let verdict :=
        if implRes = "drop" && !pk.ready then "VIOL RPC dropped by category while the child policy is not READY"
        else if pk.rpms.any (· > 1000000) then "-"
        else if implBounds ≠ wantBounds then "VIOL a category's dropper does not draw from the random range of its configured rate (10^6/gcd(rate,10^6))"
        else if implRes = "drop" && expectDrop.isNone then "VIOL RPC dropped although no category's fraction covers its random value"
        else if implRes ≠ "drop" && expectDrop.isSome then "VIOL RPC not dropped although a category's fraction covers its random value"
        else if implRes = "drop" && kv impl "ls" ≠ expectDrop.map (fun k => s!"[{pk.names.getD k "?"}]") then "VIOL drop attributed to the wrong category"
        else match pk.max with
          | some max =>
            if implRes = "ok" && s.inflight ≥ max then s!"VIOL admitted an RPC with {s.inflight} already in flight, max_requests {max}"
            else if implRes = "cb" && s.inflight < max then "VIOL circuit breaking dropped an RPC below max_requests"
            else if implN ≠ some infl then s!"VIOL in-flight count is not (admitted - finished) = {infl}"
            else "ok"
          | none => if implRes = "cb" then "VIOL circuit breaking drop without a request counter" else "ok"
      ({ s1 with inflight := infl }, out, verdict)
    | none, _ => (s, "no-picker", "-")
    | _, _ => (s, "bad-op", "-")
  | ["done", idS] =>
    match idS.toNat? with
    | some id =>
      match s.open_.find? (·.1 == id) with
      | some (_, counted) =>
        let c' := if counted then endRequest s.count else s.count
        let infl := if counted then s.inflight - 1 else s.inflight
        let verdict := match kv impl "n" >>= String.toNat? with
          | some n => if n = infl then "ok" else s!"VIOL in-flight count is not (admitted - finished) = {infl}"
          | none => "VIOL unparsable answer " ++ impl
        ({ s with count := c', open_ := s.open_.filter (·.1 != id), inflight := infl }, s!"n={c'}", verdict)
      | none => (s, "no-such-rpc", "-")
    | none => (s, "bad-op", "-")
  | _ => (s, "bad-op", "-")

def run : IO Unit := Driver.run {} step

end GrpcModel.Driver.WRRRandom
