/-
Model of
  internal/backoff/backoff.go : Exponential.Backoff
  clientconn.go               : addrConn.resetTransportAndUnlock (backoff timer, backoffIdx),
                                addrConn.resetConnectBackoff
Durations are Int nanoseconds (time.Duration = int64). The float64 arithmetic of `Backoff` is
modelled over ℚ (core `Rat`): the model is the *real-number* reading of the Go expression, with the
random draw `r ∈ [0,1)` as an explicit argument. The float→int64 conversion at the end is a
parameter; the code (since /repo commit 8a2d107, which repaired finding F1) performs `satConv`:
`if backoff >= math.MaxInt64 { return math.MaxInt64 }` (the float constant is 2^63), then truncation.
Before that commit an out-of-range float was converted directly (MinInt64 on amd64).
-/
import GrpcModel.Generated.Backoff
namespace GrpcModel.Backoff

abbrev maxInt64 : Int := 9223372036854775807
abbrev minInt64 : Int := -9223372036854775808
/-- 2^63 as a rational. -/
abbrev two63 : Rat := 9223372036854775808

/-- `grpcbackoff.Config` with the two float64 fields as the exact rationals they denote. -/
structure Config where
  base : Int
  mult : Rat
  jitter : Rat
  maxDelay : Int
deriving Repr

/-- Go: `if backoff >= math.MaxInt64 { return math.MaxInt64 }; return time.Duration(backoff)` on a
    non-negative value — which is also the property's conversion: truncate, saturate at MaxInt64. -/
def satConv (x : Rat) : Int := if two63 ≤ x then maxInt64 else x.floor

/-- Go: `for backoff < max && retries > 0 { backoff *= Multiplier; retries-- }`. -/
def grow (mult max : Rat) : Nat → Rat → Rat
  | 0, b => b
  | n + 1, b => if b < max then grow mult max n (b * mult) else b

/-- Go: `if backoff > max { backoff = max }`. -/
def clampMax (b max : Rat) : Rat := if b > max then max else b

/-- The value before jitter: `min(base·mult^retries, max)` as computed by the loop and the clamp. -/
def core (c : Config) (retries : Nat) : Rat :=
  clampMax (grow c.mult c.maxDelay retries c.base) c.maxDelay

/-- `Exponential.Backoff(retries)` with random draw `r` (`rand.Float64()`), conversion `conv`.
    `retries` is a Go `int`; a negative count skips the loop (`retries > 0` is false). -/
def backoffWith (conv : Rat → Int) (c : Config) (retries : Int) (r : Rat) : Int :=
  if retries = 0 then c.base else
  let b := core c retries.toNat * (1 + c.jitter * (r * 2 - 1))
  if b < 0 then 0 else conv b

/-- `Exponential.Backoff` as the code computes it (saturating conversion). -/
def backoffSat := backoffWith satConv

/-- The property's reference value `min(base·mult^n, maxDelay)`. -/
def target (c : Config) (n : Nat) : Rat := min (c.base * c.mult ^ n) c.maxDelay

/-- The band hypotheses of the statement. -/
def bandHyp (c : Config) : Bool :=
  decide (0 ≤ c.base) && decide (0 ≤ c.maxDelay) && decide (1 ≤ c.mult) && decide (0 ≤ c.jitter) && decide (c.jitter ≤ 1)

/-! ### Monitor for one observed `Backoff` result

The implementation computes in float64; the statement's band is over the reals. The monitor
evaluates the band with the *rigorous* float64 error bound of the Go expression: with
u = 2^-53, `float64(base)`, each of the ≤ n multiplications, `float64(max)`, the product with the
jitter factor and the three operations of `1 + Jitter*(r*2-1)` (r*2 and r*2-1 are exact) each
contribute a relative error ≤ u, so the float result lies within `(n+16)·2^-52·(1+j)·m` of the real
one (n·u ≪ 1); truncation to whole ns is monotone. Non-negativity and the value for retries = 0
are exact (no tolerance). -/

/-- Relative float64 slack for `n` loop iterations. -/
def floatEps (n : Nat) : Rat := ((n : Int) + 16 : Int) / (4503599627370496 : Int)

def absRat (x : Rat) : Rat := if x < 0 then -x else x

/-- `float64(x)` for an int64 `x` (round to nearest, ties to even), as an integer. -/
def roundF64 (x : Int) : Int :=
  let a := x.natAbs
  if a < 9007199254740992 then x else
  let k := Nat.log2 a + 1 - 53
  let q := a / 2 ^ k
  let rem := a % 2 ^ k
  let half := 2 ^ (k - 1)
  let q' := if rem > half || (rem == half && q % 2 == 1) then q + 1 else q
  let r : Int := Int.ofNat (q' * 2 ^ k)
  if x < 0 then -r else r

/-- Could the float value handed to `time.Duration(·)` reach 2^63 for some draw? (Only then could a
    missing saturation — finding F1, repaired by 8a2d107 — make the conversion go out of range; used
    to word the verdict.) The loop is evaluated both on the exact delays
    and on their float64 roundings (`float64(MaxInt64-1) = 2^63 = float64(MaxInt64)` changes the
    loop's exit), with the float slack on top. -/
def mayOverflow (c : Config) (n : Nat) : Bool :=
  let c' : Config := { c with base := roundF64 c.base, maxDelay := roundF64 c.maxDelay }
  let m := if absRat (core c n) < absRat (core c' n) then absRat (core c' n) else absRat (core c n)
  decide (two63 ≤ m * (1 + absRat c.jitter) * (1 + floatEps n))

/-- Verdict on an observed duration `d` for `Backoff(retries)`, retries ≠ 0. -/
def judge (c : Config) (retries : Int) (d : Int) : String :=
  let n := retries.toNat
  if d < 0 then
    if mayOverflow c n then s!"VIOL negative duration {d}: the float result can reach 2^63 and is converted without saturating"
    else s!"VIOL negative duration {d}"
  else if retries < 0 then "ok"
  else if bandHyp c then
    let m := core c n   -- = target c n = min(base·mult^n, max) under bandHyp (theorem C20.grow_is_min); the loop stops early
    let slack := floatEps n * (1 + c.jitter) * m
    let loQ := (1 - c.jitter) * m - slack
    let lo := if loQ < 0 then 0 else satConv loQ
    let hi := satConv ((1 + c.jitter) * m + slack)
    if d < lo then s!"VIOL backoff {d} below (1-jitter)*min(base*mult^n,max) = {lo}"
    else if hi < d then s!"VIOL backoff {d} above (1+jitter)*min(base*mult^n,max) = {hi}"
    else "ok"
  else "ok"

/-- Is the float computation exact (so that the model predicts the value)? jitter = 0, integer
    multiplier ≥ 1, 0 ≤ base, 0 ≤ max < 2^53: every intermediate below 2^53 is an integer, and an
    intermediate ≥ 2^53 > max is clamped to max. -/
def exactCase (c : Config) : Bool :=
  decide (c.jitter = 0) && decide (c.mult.den = 1) && decide (1 ≤ c.mult) && decide (0 ≤ c.base)
    && decide (0 ≤ c.maxDelay) && decide (c.maxDelay < 9007199254740992) && decide (c.base < 9007199254740992)

/-! ### addrConn pacing (clientconn.go)

One subchannel. Time is explicit (virtual nanoseconds carried by the events). The backoff
strategy is an argument: `connect now bo` carries the duration `dopts.bs.Backoff(backoffIdx)`
returned for this attempt (the pacing logic does not look inside the strategy). -/

inductive Phase
  | idle                                       -- no attempt in progress, not connected
  | connecting (backoffFor : Int)              -- tryAllAddrs running; `backoffFor` was computed at its start
  | backoff (until_ : Int) (backoffFor : Int)  -- TRANSIENT_FAILURE, `time.NewTimer(backoffFor)` armed
  | ready
deriving DecidableEq, Repr

structure AC where
  idx : Nat := 0            -- addrConn.backoffIdx
  phase : Phase := .idle
deriving DecidableEq, Repr

/-- What is observable of the pacing layer. -/
inductive Obs
  | ask (idx : Nat)          -- `ac.dopts.bs.Backoff(ac.backoffIdx)` was called
  | dial (t : Int)           -- a connection attempt started at t
  | fail (t b : Int)         -- the attempt failed at t; `b` = the backoff computed for this attempt
  | ok                       -- the attempt succeeded
  | reset                    -- ResetConnectBackoff
deriving DecidableEq, Repr

/-- External events. -/
inductive In
  | connect (now bo : Int)   -- Connect() on an idle subchannel at `now`; the strategy returns `bo`
  | dialFailed (now : Int)   -- tryAllAddrs returned an error at `now`
  | dialOk (now : Int)       -- tryAllAddrs returned nil
  | timer (now : Int)        -- the runtime looks at the backoff timer at `now` (fires iff now ≥ until)
  | resetBackoff (now : Int) -- ClientConn.ResetConnectBackoff
  | connLost (now : Int)     -- READY transport closed
  | updateAddrs (now bo : Int)  -- SubConn.UpdateAddresses with a list that differs from the current one and
                                -- does not contain the connected address; `bo` = the strategy's answer
                                -- should a new attempt start
deriving Repr

def In.time : In → Int
  | .connect t _ | .dialFailed t | .dialOk t | .timer t | .resetBackoff t | .connLost t | .updateAddrs t _ => t

/-- `resetTransportAndUnlock` / `resetConnectBackoff` as a transition system. -/
def acStep (s : AC) : In → AC × List Obs
  | .connect now bo =>
    match s.phase with
    | .idle => ({ s with phase := .connecting bo }, [.ask s.idx, .dial now])
    | _ => (s, [])
  | .dialFailed now =>
    match s.phase with
    | .connecting bo => ({ s with phase := .backoff (now + bo) bo }, [.fail now bo])
    | _ => (s, [])
  | .dialOk _ =>
    match s.phase with
    | .connecting _ => ({ idx := 0, phase := .ready }, [.ok])        -- "Success; reset backoff."
    | _ => (s, [])
  | .timer now =>
    match s.phase with
    | .backoff u _ => if u ≤ now then ({ idx := s.idx + 1, phase := .idle }, []) else (s, [])  -- `case <-timer.C: backoffIdx++`
    | _ => (s, [])
  | .resetBackoff _ =>
    match s.phase with
    | .backoff _ _ => ({ idx := 0, phase := .idle }, [.reset])     -- `case <-b:` (no increment)
    | _ => ({ s with idx := 0 }, [.reset])
  | .connLost _ =>
    match s.phase with
    | .ready => ({ s with phase := .idle }, [])
    | _ => (s, [])
  | .updateAddrs now bo =>
    -- addrConn.updateAddrs: "We were not connecting, so do nothing but update the addresses" in
    -- SHUTDOWN / TRANSIENT_FAILURE / IDLE — in particular a running backoff is NOT cut short; while
    -- CONNECTING, or READY on an address no longer listed, the current iteration is cancelled and a
    -- new attempt starts at once (`go ac.resetTransportAndUnlock()`), asking the strategy again.
    match s.phase with
    | .idle => (s, [])
    | .backoff _ _ => (s, [])
    | .connecting _ => ({ s with phase := .connecting bo }, [.ask s.idx, .dial now])
    | .ready => ({ s with phase := .connecting bo }, [.ask s.idx, .dial now])

/-- The observable trace of an event sequence. -/
def trace (s : AC) : List In → List Obs
  | [] => []
  | i :: is => (acStep s i).2 ++ trace (acStep s i).1 is

def final (s : AC) : List In → AC
  | [] => s
  | i :: is => final (acStep s i).1 is

/-- Event times never go backwards, starting from `t0`. -/
def Mono (t0 : Int) : List In → Prop
  | [] => True
  | i :: is => t0 ≤ i.time ∧ Mono i.time is

/-! #### The property's predicates on an observable trace (also the monitor) -/

/-- Until the next reset, no attempt starts before `u`. -/
def notBefore (u : Int) : List Obs → Bool
  | [] => true
  | .reset :: _ => true
  | .dial t :: rest => decide (u ≤ t) && notBefore u rest
  | _ :: rest => notBefore u rest

/-- "A subchannel whose connection attempt failed waits at least that backoff before trying
    again unless the backoff is explicitly reset." -/
def paced : List Obs → Bool
  | [] => true
  | .fail t b :: rest => notBefore (t + b) rest && paced rest
  | _ :: rest => paced rest

/-- "The backoff index is the number of failures since the last success or reset" (hence it
    resets after a successful connection). `c` = failures counted so far. -/
def idxOk (c : Nat) : List Obs → Bool
  | [] => true
  | .ask i :: rest => decide (i = c) && idxOk c rest
  | .fail _ _ :: rest => idxOk (c + 1) rest
  | .ok :: rest => idxOk 0 rest
  | .reset :: rest => idxOk 0 rest
  | .dial _ :: rest => idxOk c rest

/-- `dialDuration`: `minConnectTimeout`, raised to `backoffFor` when that is larger. -/
def dialDuration (minCT backoffFor : Int) : Int := if minCT < backoffFor then backoffFor else minCT

/-! #### Environment used by the correspondence run: scripted dialer + pick_first + clock -/

inductive Mode | fail | ok | hang
deriving DecidableEq, Repr

structure Sim where
  minCT : Int := 0
  ac : AC := {}
  now : Int := 0
  mode : Mode := .fail
  sticky : Bool := false           -- pick_first stays TRANSIENT_FAILURE until READY
  started : Bool := false          -- channel left IDLE at least once (Connect called)
  hangUntil : Option Int := none   -- in-flight hanging dial: its connect deadline
  addr : Nat := 0                  -- which address list the subchannel currently holds
deriving Repr

/-- What the harness prints. -/
inductive SimEv
  | bo (t : Int) (idx : Nat) (d : Int) | dial (t : Int) | fail (t : Int) | ok (t : Int) | missing
deriving Repr

/-- The LB policy calls Connect() on the idle subchannel; `d` is what the strategy returned. -/
def Sim.attempt (s : Sim) (d : Int) : Sim × List SimEv :=
  let idx := s.ac.idx
  let ac1 := (acStep s.ac (.connect s.now d)).1
  match s.mode with
  | .fail =>
    ({ s with ac := (acStep ac1 (.dialFailed s.now)).1, sticky := true }, [.bo s.now idx d, .dial s.now, .fail s.now])
  | .ok =>
    ({ s with ac := (acStep ac1 (.dialOk s.now)).1, sticky := false }, [.bo s.now idx d, .dial s.now, .ok s.now])
  | .hang =>
    ({ s with ac := ac1, hangUntil := some (s.now + dialDuration s.minCT d) }, [.bo s.now idx d, .dial s.now])

/-- The LB policy calls SubConn.UpdateAddresses([addr k]); `d` = the strategy's answer if a new
    attempt starts. An identical list returns early (`equalAddressesIgnoringBalAttributes`). -/
def Sim.updateAddrs (s : Sim) (k : Nat) (d : Option Int) : Sim × List SimEv :=
  if k = s.addr then (s, []) else
  let s := { s with addr := k }
  match s.ac.phase with
  | .idle => (s, [])
  | .backoff _ _ => (s, [])
  | _ =>
    match d with
    | none => (s, [.missing])
    | some d =>
      let idx := s.ac.idx
      let ac1 := (acStep s.ac (.updateAddrs s.now d)).1
      -- the cancelled attempt is abandoned (no failure is recorded); the new one runs per dialer mode
      let s := { s with ac := ac1, hangUntil := none, sticky := if s.ac.phase = Phase.ready then false else s.sticky }
      match s.mode with
      | .fail => ({ s with ac := (acStep ac1 (.dialFailed s.now)).1, sticky := true }, [.bo s.now idx d, .dial s.now, .fail s.now])
      | .ok => ({ s with ac := (acStep ac1 (.dialOk s.now)).1, sticky := false }, [.bo s.now idx d, .dial s.now, .ok s.now])
      | .hang => ({ s with hangUntil := some (s.now + dialDuration s.minCT d) }, [.bo s.now idx d, .dial s.now])

/-- Let virtual time run to `target`; `oracle` = the strategy's answers, in call order. -/
def Sim.advance (s : Sim) (target : Int) (oracle : List Int) : Nat → Sim × List SimEv
  | 0 => ({ s with now := target }, [])
  | fuel + 1 =>
    match s.ac.phase, s.hangUntil with
    | .connecting _, some h =>
      if h ≤ target then
        let s1 := { s with now := h, ac := (acStep s.ac (.dialFailed h)).1, sticky := true, hangUntil := none }
        let (s2, evs) := Sim.advance s1 target oracle fuel
        (s2, .fail h :: evs)
      else ({ s with now := target }, [])
    | .backoff u _, _ =>
      if u ≤ target then
        let now := if s.now ≤ u then u else s.now
        let s1 := { s with now := now, ac := (acStep s.ac (.timer now)).1 }
        match oracle with
        | [] => ({ s1 with now := target }, [.missing])
        | d :: rest =>
          let (s2, e2) := s1.attempt d
          let (s3, e3) := Sim.advance s2 target rest fuel
          (s3, e2 ++ e3)
      else ({ s with now := target }, [])
    | _, _ => ({ s with now := target }, [])

def Sim.chanState (s : Sim) : String :=
  match s.ac.phase with
  | .ready => "READY"
  | .idle => "IDLE"
  | .connecting _ => if s.sticky then "TRANSIENT_FAILURE" else "CONNECTING"
  | .backoff _ _ => "TRANSIENT_FAILURE"

end GrpcModel.Backoff
