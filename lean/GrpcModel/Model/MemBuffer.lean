/-
Model of
  mem/buffers.go       : buffer{refs,data,rootBuf,origData,pool}, NewBuffer, Copy, Ref, Free, Len,
                         ReadOnlyData, Slice, split/SplitUnsafe, read/ReadUnsafe, emptyBuffer, SliceBuffer
  mem/buffer_slice.go  : BufferSlice.Len/Materialize/MaterializeToBuffer/Reader, Reader.Read/ReadByte/
                         Discard/Peek/Close/Remaining, ReadAll (generic io.Reader path, data < 32 KiB)
driven with a TRACKING pool (harness): Get(n) always allocates a fresh zeroed array of capacity
`capOf n`, Put poisons the array; both are logged.

Heap: `objs[i]` are the `*buffer` structs (index = identity; the Go code recycles structs through a
sync.Pool, which is unobservable without use-after-free), `mems[i]` the byte arrays handed out by the
pool. GHOST fields (not in the Go code, used by the theorems and the monitor): `Obj.own` = references
handed out to the client or to a Reader and not yet freed; `Obj.kids` = live views of a root.
An operation the Go code answers with a panic is `none` (printed `err`); the model then leaves the
state unchanged and the case ends (the Go state may be torn after a panic).
-/
import GrpcModel.Generated.MemBuffer
namespace GrpcModel.MemBuffer

abbrev Bytes := List UInt8

structure Obj where
  refs : Nat          -- buffer.refs; 0 = freed (rootBuf = nil)
  off : Nat           -- buffer.data = mem[off : off+len], capacity to the end of mem
  len : Nat
  root : Nat          -- rootBuf (own index for a root buffer)
  mem : Nat           -- root only: origData
  own : Nat           -- ghost
  kids : List Nat     -- ghost (root only)
  puts : Nat := 0     -- ghost (root only): how often pool.Put(origData) ran for this root
deriving Repr, DecidableEq

structure Mem where
  bytes : Bytes       -- whole backing array (length = capacity)
  puts : Nat          -- how often the pool got it back
deriving Repr, DecidableEq

/-- a Go `mem.Buffer` interface value -/
inductive Val
  | buf (id : Nat)                  -- *buffer
  | sl (arr : Bytes) (len : Nat)    -- SliceBuffer: arr = the slice up to its capacity
  | empty                           -- emptyBuffer{}
  | nil                             -- nil interface (returned by read when everything was consumed)
deriving Repr, DecidableEq

inductive Ev
  | get (mem n : Nat)
  | put (mem : Nat)
deriving Repr, DecidableEq

/-- mem.Reader -/
structure Rd where
  data : List Val
  len : Nat
  idx : Nat
deriving Repr

structure St where
  thresh : Nat := GrpcModel.Generated.bufferPoolingThreshold
  objs : List Obj := []
  mems : List Mem := []
  slots : List (Nat × Val) := []
  readers : List (Nat × Rd) := []
  dead : Bool := false   -- an op panicked: the Go state may be torn, the case is over

/-- capacity the tracking pool gives a buffer of length n -/
def capOf (n : Nat) : Nat := n + n % 3

/-- test data: byte i of pattern `seed` -/
def pat (seed n : Nat) : Bytes := (List.range n).map fun i => UInt8.ofNat ((seed * 31 + i * 7 + 3) % 256)

def setObj (st : St) (i : Nat) (o : Obj) : St := { st with objs := st.objs.set i o }

/-- `IsBelowBufferPoolingThreshold` -/
def below (st : St) (size : Nat) : Bool := size ≤ st.thresh

/-! ### primitives of the reference-counting core -/

/-- `b.Ref()`: `if b.refs.Add(1) <= 1 { panic }` -/
def acquire (st : St) (i : Nat) : Option St :=
  match st.objs[i]? with
  | some o => if o.refs = 0 then none else some (setObj st i { o with refs := o.refs + 1, own := o.own + 1 })
  | none => none

/-- pool.Get(n) of the tracking pool: fresh zeroed array; then the caller writes `content` at the front -/
def poolGet (st : St) (n : Nat) (content : Bytes) : St × Nat × Ev :=
  let arr := content ++ List.replicate (capOf n - content.length) 0
  ({ st with mems := st.mems ++ [⟨arr, 0⟩] }, st.mems.length, .get st.mems.length n)

def poolPut (st : St) (m : Nat) : St × Ev :=
  match st.mems[m]? with
  | some x => ({ st with mems := st.mems.set m { x with puts := x.puts + 1 } }, .put m)
  | none => (st, .put m)

/-- `NewBuffer(data, pool)` for data = mems[m][:n] with a non-nil pool -/
def newBuffer (st : St) (m n : Nat) : St × Val :=
  match st.mems[m]? with
  | none => (st, .nil)
  | some x =>
    if below st x.bytes.length then (st, .sl x.bytes n)
    else
      let id := st.objs.length
      ({ st with objs := st.objs ++ [⟨1, 0, n, id, m, 1, [], 0⟩] }, .buf id)

/-- a new view (Slice / split): `rootBuf.Ref()` resp. `rootBuf.refs.Add(1) <= 1 → panic`, then a
    fresh struct with refs = 1 -/
def newView (st : St) (b off len : Nat) : Option (St × Nat) :=
  match st.objs[b]? with
  | none => none
  | some o =>
    if o.refs = 0 then none else
    match st.objs[o.root]? with
    | none => none
    | some r =>
      if r.refs = 0 then none else
      let id := st.objs.length
      let st1 := setObj st o.root { r with refs := r.refs + 1, kids := id :: r.kids }
      some ({ st1 with objs := st1.objs ++ [⟨1, off, len, o.root, 0, 1, [], 0⟩] }, id)

/-- `b.Free()` -/
def release (st : St) (i : Nat) : Option (St × List Ev) :=
  match st.objs[i]? with
  | none => none
  | some o =>
    if o.refs = 0 then none           -- "Cannot free freed buffer"
    else if o.own = 0 then none       -- ghost discipline: freeing a reference nobody handed out
    else if o.refs > 1 then some (setObj st i { o with refs := o.refs - 1, own := o.own - 1 }, [])
    else if o.root = i then
      -- the root's last reference: pool.Put(origData)
      let r := poolPut (setObj st i { o with refs := 0, own := o.own - 1, kids := [], puts := o.puts + 1 }) o.mem
      some (r.1, [r.2])
    else
      let st1 := setObj st i { o with refs := 0, own := o.own - 1, kids := [] }
      match st1.objs[o.root]? with
      | none => none
      | some r =>
        if r.refs = 0 then none
        else if r.refs > 1 then
          some (setObj st1 o.root { r with refs := r.refs - 1, kids := r.kids.erase i }, [])
        else
          let p := poolPut (setObj st1 o.root { r with refs := 0, kids := [], puts := r.puts + 1 }) r.mem
          some (p.1, [p.2])

def narrow (st : St) (i off len : Nat) : St :=
  match st.objs[i]? with
  | some o => setObj st i { o with off := off, len := len }
  | none => st

/-! ### reading -/

def memBytes (st : St) (m : Nat) : Bytes := (st.mems[m]?.map (·.bytes)).getD []

/-- the array a *buffer's data slice can reach: from its offset to the end of the root's memory -/
def objArr (st : St) (o : Obj) : Bytes :=
  match st.objs[o.root]? with
  | some r => (memBytes st r.mem).drop o.off
  | none => []

/-- `ReadOnlyData()`; none = panic (freed) -/
def dataOf (st : St) : Val → Option Bytes
  | .buf i => match st.objs[i]? with
    | some o => if o.refs = 0 then none else some ((objArr st o).take o.len)
    | none => none
  | .sl arr n => some (arr.take n)
  | .empty => some []
  | .nil => none

def lenOf (st : St) (v : Val) : Option Nat := (dataOf st v).map (·.length)

def refVal (st : St) : Val → Option St
  | .buf i => acquire st i
  | .nil => none
  | _ => some st

def freeVal (st : St) : Val → Option (St × List Ev)
  | .buf i => release st i
  | .nil => none
  | _ => some (st, [])

/-- `Slice(start, end)` -/
def sliceVal (st : St) (v : Val) (s e : Nat) : Option (St × Val) :=
  match v with
  | .buf i => match st.objs[i]? with
    | none => none
    | some o =>
      if o.refs = 0 then none
      else if !(s ≤ e && e ≤ (objArr st o).length) then none      -- b.data[start:end] bounds (capacity!)
      else if e - s = 0 then some (st, .empty)
      else if e - s = o.len then (acquire st i).map (·, .buf i)    -- `len(data) == len(b.data)`: b.Ref(); return b
      else (newView st i (o.off + s) (e - s)).map fun r => (r.1, .buf r.2)
  | .sl arr n => if s ≤ e && e ≤ arr.length then some (st, .sl (arr.drop s) (e - s)) else none
  | .empty => if s = 0 && e = 0 then some (st, .empty) else none
  | .nil => none

/-- `SplitUnsafe(buf, n)` → (left, right); left is `buf` itself -/
def splitVal (st : St) (v : Val) (n : Nat) : Option (St × Val × Val) :=
  match v with
  | .buf i => match st.objs[i]? with
    | none => none
    | some o =>
      if o.refs = 0 || n > o.len then none
      else (newView st i (o.off + n) (o.len - n)).map fun r => (narrow r.1 i o.off n, .buf i, .buf r.2)
  | .sl arr len => if n ≤ len then some (st, .sl arr n, .sl (arr.drop n) (len - n)) else none
  | .empty => some (st, .empty, .empty)
  | .nil => none

/-- `ReadUnsafe(dst, buf)` with len(dst) = n → (copied bytes, rest) -/
def readVal (st : St) (v : Val) (n : Nat) : Option (St × Bytes × Val × List Ev) :=
  match v with
  | .buf i => match st.objs[i]? with
    | none => none
    | some o =>
      if o.refs = 0 then none else
      let d := (objArr st o).take o.len
      let c := min n o.len
      if c = o.len then (release st i).map fun r => (r.1, d.take c, .nil, r.2)
      else some (narrow st i (o.off + c) (o.len - c), d.take c, .buf i, [])
  | .sl arr len =>
    let c := min n len
    if c = len then some (st, arr.take c, .nil, []) else some (st, arr.take c, .sl (arr.drop c) (len - c), [])
  | .empty => some (st, [], .empty, [])
  | .nil => none

/-- `Copy(data, pool)` -/
def copyVal (st : St) (data : Bytes) : St × Val × List Ev :=
  if below st data.length then (st, .sl data data.length, [])
  else
    let g := poolGet st data.length data
    let r := newBuffer g.1 g.2.1 data.length
    (r.1, r.2, [g.2.2])

def refAll (st : St) : List Val → Option St
  | [] => some st
  | v :: t => (refVal st v).bind (refAll · t)

def freeAll (st : St) : List Val → Option (St × List Ev)
  | [] => some (st, [])
  | v :: t => (freeVal st v).bind fun r => (freeAll r.1 t).map fun q => (q.1, r.2 ++ q.2)

def lenAll (st : St) (vs : List Val) : Option Nat := (vs.mapM (lenOf st)).map (·.sum)

def dataAll (st : St) (vs : List Val) : Option Bytes := (vs.mapM (dataOf st)).map (·.flatten)

/-- `MaterializeToBuffer(pool)` -/
def matToBuf (st : St) (vs : List Val) : Option (St × Val × List Ev) :=
  match vs with
  | [v] => (refVal st v).map (·, v, [])
  | _ => match dataAll st vs with
    | none => none
    | some d =>
      if d.length = 0 then some (st, .empty, [])
      else
        let g := poolGet st d.length d
        let r := newBuffer g.1 g.2.1 d.length
        some (r.1, r.2, [g.2.2])

/-! ### Reader -/

/-- `freeFirstBufferIfEmpty` -/
def freeFirstIfEmpty (st : St) (r : Rd) : Option (St × Rd × List Ev × Bool) :=
  match r.data with
  | [] => some (st, r, [], false)
  | v :: t => match lenOf st v with
    | none => none
    | some l =>
      if r.idx ≠ l then some (st, r, [], false)
      else (freeVal st v).map fun q => (q.1, { r with data := t, idx := 0 }, q.2, true)

/-- `Reader.Read(buf)` with len(buf) = n, loop bounded by fuel -/
def rdRead : Nat → St → Rd → Nat → Bytes → List Ev → Option (St × Rd × Bytes × List Ev)
  | 0, st, r, _, acc, evs => some (st, r, acc, evs)
  | fuel + 1, st, r, n, acc, evs =>
    if n = 0 || r.len = 0 then some (st, r, acc, evs) else
    match r.data with
    | [] => none                     -- r.data[0] index out of range
    | v :: _ => match dataOf st v with
      | none => none
      | some d =>
        if r.idx > d.length then none else      -- data[r.bufferIdx:] out of range
        let chunk := (d.drop r.idx).take n
        let r1 := { r with len := r.len - chunk.length, idx := r.idx + chunk.length }
        match freeFirstIfEmpty st r1 with
        | none => none
        | some (st2, r2, e2, _) => rdRead fuel st2 r2 (n - chunk.length) (acc ++ chunk) (evs ++ e2)

/-- `Reader.Discard(n)` → (discarded, ok) -/
def rdDiscard : Nat → St → Rd → Nat → List Ev → Option (St × Rd × Nat × List Ev)
  | 0, st, r, n, evs => some (st, r, n, evs)
  | fuel + 1, st, r, n, evs =>
    if n = 0 || r.len = 0 then some (st, r, n, evs) else
    match r.data with
    | [] => none
    | v :: t => match dataOf st v with
      | none => none
      | some d =>
        let cur := min n (d.length - r.idx)
        let r1 := { r with len := r.len - cur, idx := r.idx + cur }
        if r1.idx ≥ d.length then
          match freeVal st v with
          | none => none
          | some q => rdDiscard fuel q.1 { r1 with data := t, idx := 0 } (n - cur) (evs ++ q.2)
        else rdDiscard fuel st r1 (n - cur) evs

/-- `Reader.Peek(n, nil)` → the bytes, none = "insufficient bytes" -/
def rdPeek (st : St) (r : Rd) (n : Nat) : Option (Option Bytes) :=
  match dataAll st r.data with
  | none => none
  | some d => let avail := d.drop r.idx
              if n ≤ avail.length then some (some (avail.take n)) else some none

/-- `Reader.ReadByte()`: skip exhausted buffers, read one byte, free the buffer if that was its last -/
def rdSkip : Nat → St → Rd → List Ev → Option (St × Rd × List Ev)
  | 0, st, r, evs => some (st, r, evs)
  | fuel + 1, st, r, evs => match freeFirstIfEmpty st r with
    | none => none
    | some (st2, r2, e2, again) => if again then rdSkip fuel st2 r2 (evs ++ e2) else some (st2, r2, evs ++ e2)

def rdByte (st : St) (r : Rd) : Option (St × Rd × Option UInt8 × List Ev) :=
  if r.len = 0 then some (st, r, none, []) else
  match rdSkip (r.data.length + 1) st r [] with
  | none => none
  | some (st1, r1, e1) => match r1.data with
    | [] => none
    | v :: _ => match dataOf st1 v with
      | none => none
      | some d => match d[r1.idx]? with
        | none => none
        | some b =>
          let r2 := { r1 with len := r1.len - 1, idx := r1.idx + 1 }
          (freeFirstIfEmpty st1 r2).map fun q => (q.1, q.2.1, some b, e1 ++ q.2.2.1)

/-- `ReadAll(r, pool)` through the generic io.Reader loop, for a mem.Reader holding fewer than
    `readAllBufSize` bytes: one Get(32 KiB); nothing read → Put it back, result empty; otherwise one
    buffer over the used prefix. -/
def readAll (st : St) (r : Rd) : Option (St × Rd × Option Val × List Ev) :=
  if r.len ≥ GrpcModel.Generated.readAllBufSize then none else
  let g := poolGet st GrpcModel.Generated.readAllBufSize []
  match rdRead (r.data.length + 1) g.1 r (capOf GrpcModel.Generated.readAllBufSize) [] [] with
  | none => none
  | some (st1, r1, bytes, evs) =>
    if bytes.length = 0 then
      let p := poolPut st1 g.2.1
      some (p.1, r1, none, g.2.2 :: evs ++ [p.2])
    else
      -- the bytes were read straight into the pool's array
      let m := g.2.1
      let st2 := match st1.mems[m]? with
        | some x => { st1 with mems := st1.mems.set m { x with bytes := bytes ++ x.bytes.drop bytes.length } }
        | none => st1
      let nb := newBuffer st2 m bytes.length
      some (nb.1, r1, some nb.2, g.2.2 :: evs)

/-! ## every history of operations, as a relation (used by the theorems)

`Step st st'`: one exported operation (on arbitrary arguments) or pure bookkeeping (slots, readers,
threshold: anything that leaves the heap of buffer structs and the memories alone) takes `st` to `st'`. The driver's
`exec` is built from exactly these functions. -/
inductive Step : St → St → Prop
  | frame {st st' : St} : st'.objs = st.objs → st'.mems = st.mems → Step st st'
  | newbuf (st : St) (n : Nat) (c : Bytes) (k : Nat) : Step st (newBuffer (poolGet st n c).1 (poolGet st n c).2.1 k).1
  | copy (st : St) (data : Bytes) : Step st (copyVal st data).1
  | ref {st st' : St} {v : Val} : refVal st v = some st' → Step st st'
  | free {st st' : St} {v : Val} {evs : List Ev} : freeVal st v = some (st', evs) → Step st st'
  | slice {st st' : St} {v v' : Val} {s e : Nat} : sliceVal st v s e = some (st', v') → Step st st'
  | split {st st' : St} {v l r : Val} {n : Nat} : splitVal st v n = some (st', l, r) → Step st st'
  | read {st st' : St} {v rest : Val} {n : Nat} {b : Bytes} {evs : List Ev} :
      readVal st v n = some (st', b, rest, evs) → Step st st'
  | mattobuf {st st' : St} {vs : List Val} {v : Val} {evs : List Ev} : matToBuf st vs = some (st', v, evs) → Step st st'
  | reader {st st' : St} {vs : List Val} : refAll st vs = some st' → Step st st'
  | close {st st' : St} {vs : List Val} {evs : List Ev} : freeAll st vs = some (st', evs) → Step st st'
  | rread {fuel : Nat} {st st' : St} {r r' : Rd} {n : Nat} {acc b : Bytes} {evs evs' : List Ev} :
      rdRead fuel st r n acc evs = some (st', r', b, evs') → Step st st'
  | rdiscard {fuel : Nat} {st st' : St} {r r' : Rd} {n n' : Nat} {evs evs' : List Ev} :
      rdDiscard fuel st r n evs = some (st', r', n', evs') → Step st st'
  | rbyte {st st' : St} {r r' : Rd} {b : Option UInt8} {evs : List Ev} : rdByte st r = some (st', r', b, evs) → Step st st'
  | readall {st st' : St} {r r' : Rd} {v : Option Val} {evs : List Ev} : readAll st r = some (st', r', v, evs) → Step st st'

/-- states reachable from the empty heap by any number of operations -/
inductive Reach : St → Prop
  | init : Reach {}
  | step {st st' : St} : Reach st → Step st st' → Reach st'

end GrpcModel.MemBuffer
