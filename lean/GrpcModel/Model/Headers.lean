/-
Model of the metadata <-> HTTP/2 header-field mapping of grpc-go:
  internal/transport/http_util.go   : isReservedHeader, isWhitelistedHeader, binHdrSuffix,
                                      encodeMetadataHeader, decodeMetadataHeader
  internal/transport/http2_server.go: appendHeaderFieldsFromMD
Header names and values are byte lists (Go strings). A `metadata.MD` (Go map[string][]string)
is an association list; Go's map iteration order is unspecified, the model iterates in list
order (callers canonicalise by key where order could be observed).
The reserved / whitelisted tables are regenerated from the Go source (tie T4).
-/
import GrpcModel.Generated.MdWire
import GrpcModel.Prim.Base64
namespace GrpcModel.Headers
open GrpcModel.Base64 (Bytes)
open GrpcModel.Generated

/-- ASCII string literal → bytes (all table entries are ASCII). -/
def asciiBytes (s : String) : Bytes := s.toList.map fun c => UInt8.ofNat c.toNat

def reservedTable : List Bytes := mdwReservedHeaders.map asciiBytes
def whitelistTable : List Bytes := mdwWhitelistedHeaders.map asciiBytes

/-- `isReservedHeader`: names starting with ':' and the switch table. -/
def isReservedHeader (hdr : Bytes) : Bool :=
  (match hdr with
   | c :: _ => c == 58
   | [] => false) || reservedTable.contains hdr

/-- `isWhitelistedHeader`. -/
def isWhitelistedHeader (hdr : Bytes) : Bool := whitelistTable.contains hdr

/-- `binHdrSuffix = "-bin"`. -/
def binHdrSuffix : Bytes := [45, 98, 105, 110]

/-- `strings.HasSuffix`. -/
def hasSuffix (s suf : Bytes) : Bool := suf.length ≤ s.length && s.drop (s.length - suf.length) == suf

def isBinKey (k : Bytes) : Bool := hasSuffix k binHdrSuffix

/-- `encodeMetadataHeader`. -/
def encodeMetadataHeader (k v : Bytes) : Bytes :=
  if isBinKey k then Base64.encodeBinHeader v else v

/-- `decodeMetadataHeader` (`none` = the base64 error). -/
def decodeMetadataHeader (k v : Bytes) : Option Bytes :=
  if isBinKey k then Base64.decodeBinHeader v else some v

abbrev MD := List (Bytes × List Bytes)
abbrev Field := Bytes × Bytes

/-- `appendHeaderFieldsFromMD`: reserved keys are skipped, every value becomes one field. -/
def fieldsFromMD (md : MD) : List Field :=
  md.flatMap fun kv => if isReservedHeader kv.1 then [] else kv.2.map fun v => (kv.1, encodeMetadataHeader kv.1 v)

def appendHeaderFieldsFromMD (hf : List Field) (md : MD) : List Field := hf ++ fieldsFromMD md

/-- `mdata[k] = append(mdata[k], v)` on the association list (first occurrence order of keys). -/
def mdAppend (md : MD) (k v : Bytes) : MD :=
  match md with
  | [] => [(k, [v])]
  | (k', vs) :: rest => if k' = k then (k', vs ++ [v]) :: rest else (k', vs) :: mdAppend rest k v

/-- `mdata[k]` (nil when absent). -/
def mdGet (md : MD) (k : Bytes) : List Bytes :=
  match md with
  | [] => []
  | (k', vs) :: rest => if k' = k then vs else mdGet rest k

/-- `delete(md, k)`. -/
def mdDelete (md : MD) (k : Bytes) : MD := md.filter fun kv => kv.1 ≠ k

end GrpcModel.Headers
