/-
Model of internal/binarylog/method_logger.go :
  metadataKeyOmit, mdToMetadataProto, TruncatingMethodLogger.truncateMetadata,
  TruncatingMethodLogger.truncateMessage, TruncatingMethodLogger.Build (payload part).

Keys and values are byte strings (`List UInt8`; a Go string is an arbitrary byte sequence).
A `metadata.MD` (Go map) is given as the list of its (key, values) groups IN THE ORDER THE
`for k, vv := range md` LOOP VISITS THEM: Go randomises that order, so every theorem is
stated for all orders (all lists) and the tie treats the order as an unknown of the run.
Sizes are `Nat`; the Go code computes `uint64(len(k)) + uint64(len(v))`, which cannot wrap for
slices that exist (each length < 2^63).
-/
import GrpcModel.Generated.Binlog
namespace GrpcModel.Binlog
open GrpcModel.Generated

abbrev Bytes := List UInt8

/-- bytes of an ASCII string literal (all literals of `metadataKeyOmit` are ASCII). -/
def asciiBytes (s : String) : Bytes := s.toList.map fun c => UInt8.ofNat c.toNat

/-- `binlogpb.MetadataEntry{Key, Value}` -/
structure Entry where
  key : Bytes
  value : Bytes
deriving DecidableEq, Repr, Inhabited

/-- `"grpc-trace-bin"` -/
def traceBin : Bytes := asciiBytes "grpc-trace-bin"
/-- `"grpc-"` -/
def grpcPrefix : Bytes := asciiBytes "grpc-"

/-- `env_config.go: maxUInt = ^uint64(0)` -/
def maxUInt : Nat := 18446744073709551615

/-- All string literals in the `case` clauses of `metadataKeyOmit` (T4-regenerated), as bytes.
    The first clause (→ true) lists the omitted keys, the second (→ false) is "grpc-trace-bin". -/
def omitCases : List Bytes := metadataKeyOmitCases.map asciiBytes

/-- Go:
    ```
    switch key {
    case "lb-token", ":path", ":authority", "content-encoding", "content-type", "user-agent", "te": return true
    case "grpc-trace-bin": return false
    }
    return strings.HasPrefix(key, "grpc-")
    ```
    (Go rejects duplicate case constants at compile time, so testing the second clause first is
    the same function.) -/
def metadataKeyOmit (key : Bytes) : Bool :=
  if key = traceBin then false
  else if omitCases.contains key then true
  else grpcPrefix.isPrefixOf key

/-- A metadata.MD in iteration order. -/
abbrev MD := List (Bytes × List Bytes)

/-- `mdToMetadataProto`: for k, vv in range md: skip omitted keys; one entry per value. -/
def mdToMetadataProto (md : MD) : List Entry :=
  md.flatMap fun (k, vv) => if metadataKeyOmit k then [] else vv.map fun v => ⟨k, v⟩

/-- `uint64(len(entry.GetKey())) + uint64(len(entry.GetValue()))` -/
def entryLen (e : Entry) : Nat := e.key.length + e.value.length

/-- The `for ; index < len(mdPb.Entry); index++` loop of `truncateMetadata`: the final `index`,
    as a count of entries passed over, starting with `bytesLimit` bytes left.
    `continue` on grpc-trace-bin, `break` on the first entry larger than what is left. -/
def truncIndex (bytesLimit : Nat) : List Entry → Nat
  | [] => 0
  | e :: es =>
    if e.key = traceBin then truncIndex bytesLimit es + 1
    else if entryLen e > bytesLimit then 0
    else truncIndex (bytesLimit - entryLen e) es + 1

/-- Entries that count towards the header limit: everything but grpc-trace-bin
    (`entry.Key == "grpc-trace-bin"` in the Go code is `!(counted e)`). -/
def counted (e : Entry) : Bool := e.key != traceBin

/-- `truncateMetadata` (as of /repo commit 6e01388): (mdPb.Entry afterwards, truncated).
    After the loop the entries in front of `index` are kept, and so are the grpc-trace-bin entries
    behind it (`kept = append(kept, entry)`); truncated = fewer entries than before.
    (Before 6e01388 the code was `mdPb.Entry = mdPb.Entry[:index]; truncated = index < len`, which
    lost a grpc-trace-bin entry behind the first over-limit entry: finding F7.) -/
def truncateMetadata (headerMaxLen : Nat) (es : List Entry) : List Entry × Bool :=
  if headerMaxLen = maxUInt then (es, false)
  else
    let index := truncIndex headerMaxLen es
    let kept := es.take index ++ (es.drop index).filter (fun e => !(counted e))
    (kept, decide (kept.length < es.length))

/-- `truncateMessage`: (msgPb.Data afterwards, truncated). -/
def truncateMessage (messageMaxLen : Nat) (data : Bytes) : Bytes × Bool :=
  if messageMaxLen = maxUInt then (data, false)
  else if messageMaxLen ≥ data.length then (data, false)
  else (data.take messageMaxLen, true)

/-- What `Build` does to the payload, by kind of log entry. -/
inductive Payload
  | clientHeader (md : MD)
  | serverHeader (md : MD)
  | trailer (md : MD)          -- ServerTrailer: converted, NOT truncated by Build
  | message (data : Bytes)     -- ClientMessage / ServerMessage with a []byte message

inductive Built
  | mdata (es : List Entry) (truncated : Bool)
  | msg (length : Nat) (data : Bytes) (truncated : Bool)
deriving DecidableEq, Repr

/-- `TruncatingMethodLogger.Build` (payload and PayloadTruncated only). `Message.Length` is the
    untruncated length (`uint32(len(data))`, modelled for lengths < 2^32). -/
def build (h m : Nat) : Payload → Built
  | .clientHeader md => let r := truncateMetadata h (mdToMetadataProto md); .mdata r.1 r.2
  | .serverHeader md => let r := truncateMetadata h (mdToMetadataProto md); .mdata r.1 r.2
  | .trailer md => .mdata (mdToMetadataProto md) false
  | .message data => let r := truncateMessage m data; .msg data.length r.1 r.2

/-! ## The property (C55) as an executable predicate on an observed result -/

/-- Bytes of a list of entries that count towards the limit. -/
def csize : List Entry → Nat
  | [] => 0
  | e :: es => (if counted e then entryLen e else 0) + csize es

/-- Keep every grpc-trace-bin entry and the first `k` counted entries, in order. -/
def keepFirst : Nat → List Entry → List Entry
  | _, [] => []
  | k, e :: es =>
    if counted e then
      match k with
      | 0 => keepFirst 0 es
      | k + 1 => e :: keepFirst k es
    else e :: keepFirst k es

/-- Verdict on one truncation: `inp` the loggable entries in order, `out`/`flag` what was logged.
    The statement, clause by clause: the counted (non-trace-bin) entries that are logged are the
    longest in-order prefix of the counted loggable entries whose sizes fit; every grpc-trace-bin
    entry is logged; nothing else changes; truncated ⇔ something was dropped. -/
inductive MetaVerdict
  | ok
  | notPrefix          -- logged counted entries are not an in-order prefix of the loggable ones
  | overLimit          -- kept counted bytes exceed the limit
  | notLongest         -- the first dropped counted entry would still fit
  | flagWrong          -- truncated ≠ (something was dropped)
  | traceBinAtCut      -- output is a prefix of the input that stops AT a grpc-trace-bin entry
  | traceBinDropped    -- output is the longest fitting prefix of the input, but a grpc-trace-bin
                       -- entry behind the first over-limit entry is gone (F7, the code before 6e01388)
  | notInOrder         -- anything else: entries reordered, duplicated, invented or lost
deriving DecidableEq, Repr

/-- does the first counted entry that was NOT logged still fit behind what was logged? -/
def nextFits (h : Nat) (inp out : List Entry) : Bool :=
  match (inp.filter counted).drop (out.filter counted).length with
  | [] => false
  | nxt :: _ => decide (csize out + entryLen nxt ≤ h)

/-- classification of an output that is a proper prefix of the input but not the expected list -/
def prefixShapeVerdict (inp out : List Entry) (flag : Bool) : MetaVerdict :=
  match inp.drop out.length with
  | [] => .notInOrder
  | nxt :: _ => if counted nxt then (if flag then .traceBinDropped else .flagWrong) else .traceBinAtCut

def metaVerdict (h : Nat) (inp out : List Entry) (flag : Bool) : MetaVerdict :=
  if (out.filter counted).isPrefixOf (inp.filter counted) = false then .notPrefix
  else if csize out > h then .overLimit
  else if nextFits h inp out = true then .notLongest
  else if out = keepFirst (out.filter counted).length inp then
    (if flag = (out != inp) then .ok else .flagWrong)
  else if out.isPrefixOf inp = true then prefixShapeVerdict inp out flag
  else .notInOrder

/-- The statement of C55 for one metadata entry, as a proposition (`metaVerdict … = .ok` decides
    it: `GrpcProofs.C55.metaVerdict_ok_iff`): the counted (non-trace-bin) entries logged are an
    in-order prefix of the counted loggable entries, they fit, the next one would not fit, the
    logged list is exactly "all grpc-trace-bin entries + those counted entries" in the original
    order, and truncated ⇔ something was dropped. -/
def Holds (h : Nat) (inp out : List Entry) (flag : Bool) : Prop :=
  out.filter counted <+: inp.filter counted ∧ csize out ≤ h ∧
  (∀ nxt rest, (inp.filter counted).drop (out.filter counted).length = nxt :: rest →
      h < csize out + entryLen nxt) ∧
  out = keepFirst (out.filter counted).length inp ∧ (flag = true ↔ out ≠ inp)

def MetaVerdict.text : MetaVerdict → String
  | .ok => "ok"
  | .notPrefix => "VIOL logged metadata is not an in-order prefix of the loggable entries"
  | .overLimit => "VIOL kept entries exceed the header limit"
  | .notLongest => "VIOL an entry that still fits was dropped (not the longest fitting prefix)"
  | .flagWrong => "VIOL truncated flag does not say whether something was dropped"
  | .traceBinAtCut => "VIOL grpc-trace-bin is the first dropped entry (counted towards the limit or not kept)"
  | .traceBinDropped => "VIOL grpc-trace-bin behind the first over-limit entry is dropped (always-kept clause)"
  | .notInOrder => "VIOL logged metadata is not the loggable entries in order minus over-limit entries"

/-- Verdict on one message truncation. -/
def msgVerdict (m : Nat) (data out : Bytes) (flag : Bool) : String :=
  if !(out.isPrefixOf data) then "VIOL logged message is not a prefix of the payload"
  else if out.length > m then "VIOL logged message exceeds the message limit"
  else if out.length < data.length ∧ out.length < m then "VIOL message cut below the limit"
  else if flag != decide (out.length < data.length) then "VIOL truncated flag does not say whether bytes were dropped"
  else "ok"

/-- The statement's list of headers that must never be logged:
    grpc-* other than grpc-trace-bin, :path, :authority, content-type, user-agent, te, lb-token. -/
def mustOmit (key : Bytes) : Bool :=
  [asciiBytes ":path", asciiBytes ":authority", asciiBytes "content-type", asciiBytes "user-agent",
   asciiBytes "te", asciiBytes "lb-token"].contains key
  || (grpcPrefix.isPrefixOf key && key != traceBin)

end GrpcModel.Binlog
