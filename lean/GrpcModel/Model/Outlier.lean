/-
Model of internal/xds/balancer/outlierdetection
  balancer.go        : UpdateClientConnState (endpoint add/remove, onNoopConfig, onIntervalConfig),
                       intervalTimerAlgorithm, endpointsWithAtLeastRequestVolume, meanAndStdDev,
                       successRateAlgorithm, failurePercentageAlgorithm, ejectEndpoint, unejectEndpoint,
                       NewSubConn, handleSubConnUpdate, handleChildStateUpdate, handleLBConfigUpdate,
                       wrappedPicker / incrementCounter
  callcounter.go     : clear, swap
  subconn_wrapper.go : eject / uneject, handleEjection / handleUnejection, RegisterHealthListener,
                       updateSubConnHealthState, clearHealthListener
as it is (after the repairs 7e59030 / da1d093 / 239aef5: removing an ejected endpoint decrements
numEndpointsEjected, the max_ejection_percent check is the integer comparison
ejected*100 >= percent*endpoints, an endpoint that is already ejected is skipped by both loops; the
failure-percentage comparison is still done in binary64).

Times are Int milliseconds of a virtual clock.  Everything that runs on the `run` goroutine is
folded into the operation that caused it (state at quiescence).  The two sources of
nondeterminism of the real code — Go map iteration order of `b.endpoints` and `rand.Int32N(100)`
— are explicit arguments (`order`, `draws`).

Assumptions (not modelled): fewer than 2^32 calls per endpoint and interval (uint32 buckets),
base_ejection_time·multiplier < 2^63 ns, one address per endpoint.
The success-rate criterion `successRate < mean − stddev·(factor/1000)` is evaluated EXACTLY
over ℚ (compared through squares, no square root); the real code evaluates it in binary64.
-/
namespace GrpcModel.Outlier

/-! ## binary64 arithmetic on non-negative values (round to nearest, ties to even) -/

/-- the value `m · 2^e` -/
structure F64 where
  m : Nat
  e : Int
deriving Repr, DecidableEq

/-- the binary64 nearest to `p/q` (`q > 0`; results in the normal range only). -/
def rne (p q : Nat) : F64 :=
  if p = 0 then ⟨0, 0⟩ else
  -- p/q ∈ (2^(lp-lq-1), 2^(lp-lq+1));  after scaling by 2^k0 the quotient is in (2^52, 2^54)
  let k0 : Int := 53 - (Nat.log2 p : Int) + (Nat.log2 q : Int)
  let num0 := if k0 ≥ 0 then p * 2 ^ k0.toNat else p
  let den0 := if k0 ≥ 0 then q else q * 2 ^ (-k0).toNat
  -- make the integer quotient have exactly 53 bits
  let big := num0 / den0 ≥ 2 ^ 53
  let den := if big then den0 * 2 else den0
  let k := if big then k0 - 1 else k0
  let m0 := num0 / den
  let r := num0 % den
  let m := if 2 * r > den ∨ (2 * r = den ∧ m0 % 2 = 1) then m0 + 1 else m0
  ⟨m, -k⟩

/-- `fl(x · k)` for a natural number `k` that is itself a binary64. -/
def F64.mulNat (x : F64) (k : Nat) : F64 :=
  if x.e ≥ 0 then rne (x.m * k * 2 ^ x.e.toNat) 1 else rne (x.m * k) (2 ^ (-x.e).toNat)

def F64.geNat (x : F64) (k : Nat) : Bool :=
  if x.e ≥ 0 then decide (k ≤ x.m * 2 ^ x.e.toNat) else decide (k * 2 ^ (-x.e).toNat ≤ x.m)

def F64.gtNat (x : F64) (k : Nat) : Bool :=
  if x.e ≥ 0 then decide (k < x.m * 2 ^ x.e.toNat) else decide (k * 2 ^ (-x.e).toNat < x.m)

/-- Go: `float64(a)/float64(b)*100 >= float64(c)`  (a/0 is +Inf for a > 0 and NaN for a = 0). -/
def pctGE (a b c : Nat) : Bool :=
  if b = 0 then decide (0 < a) else ((rne a b).mulNat 100).geNat c

/-- Go: `(float64(a)/float64(b))*100 > float64(c)`. -/
def pctGT (a b c : Nat) : Bool :=
  if b = 0 then decide (0 < a) else ((rne a b).mulNat 100).gtNat c

/-! ## configuration and state -/

inductive AlgK | sr | fp
deriving DecidableEq, Repr

/-- `SuccessRateEjection` (param = stdevFactor) / `FailurePercentageEjection` (param = threshold). -/
structure Alg where
  param : Nat
  enf : Nat
  minHosts : Nat
  vol : Nat
deriving Repr, DecidableEq

structure Cfg where
  interval : Int
  base : Int
  maxEj : Int
  maxPct : Nat
  sr : Option Alg
  fp : Option Alg
deriving Repr, DecidableEq

def Cfg.noop (c : Cfg) : Bool := c.sr.isNone && c.fp.isNone

/-- `endpointInfo` (+ the identity `gen` of the Go object, so that stale `scw.endpointInfo`
    pointers can be told from the current entry of the same address). -/
structure Ep where
  id : Nat
  gen : Nat
  actS : Nat
  actF : Nat
  inS : Nat
  inF : Nat
  ej : Option Int      -- latestEjectionTimestamp (none = zero time)
  mult : Int           -- ejectionTimeMultiplier
  sws : List Nat       -- serials of the subConnWrappers
deriving Repr, DecidableEq

/-- One `subConnWrapper`, the fake SubConn under it and what the child has seen of it. -/
structure Scw where
  serial : Nat
  addr : Nat
  ep : Option Nat          -- gen of the endpointInfo it points to
  ejected : Bool
  hl : Bool                -- a health listener of the child is registered (scw.healthListener ≠ nil)
  latestHealth : Nat       -- latestHealthState (initially CONNECTING = 1)
  raw : Option Nat         -- last raw connectivity state delivered to the child
  last : Option Nat        -- last health state delivered to the child's CURRENT health listener
  dead : Bool
deriving Repr, DecidableEq

structure St where
  cfg : Option Cfg := none
  now : Int := 0
  timerStart : Option Int := none
  timer : Option Int := none       -- due time of b.intervalTimer
  nEj : Int := 0                   -- numEndpointsEjected
  eps : List Ep := []              -- sorted by id
  nextGen : Nat := 0
  scws : List Scw := []            -- ascending serial
  nextSerial : Nat := 1
  childPicker : Bool := false      -- b.childState.Picker ≠ nil
  childConn : Nat := 0
  recentNoop : Bool := false       -- b.recentPickerNoop
  upNoop : Option Bool := none     -- no-op bit of the picker last sent to the parent
  chState : Nat := 2               -- what the stub child reports
  quiet : Bool := false            -- the stub child does not push a picker from UpdateClientConnState
deriving Repr

def init : St := {}

inductive Ev
  | eject (k : AlgK) (id : Nat)
  | umax (k : AlgK)
  | uenf (k : AlgK)
deriving DecidableEq, Repr

/-- an `ejectionUpdate` put on scUpdateCh: (serial, isEjected) -/
abbrev Cmd := Nat × Bool

/-! ## call counter -/

def Ep.rv (e : Ep) : Nat := e.inS + e.inF

/-- `callCounter.swap` -/
def Ep.swap (e : Ep) : Ep := { e with inS := e.actS, inF := e.actF, actS := 0, actF := 0 }

/-- `callCounter.clear` -/
def Ep.clear (e : Ep) : Ep := { e with inS := 0, inF := 0, actS := 0, actF := 0 }

def Ep.ejected (e : Ep) : Bool := e.ej.isSome

/-- the number of endpoints of the current set that are ejected -/
def trueCount (eps : List Ep) : Nat := (eps.filter Ep.ejected).length

def findEp (eps : List Ep) (id : Nat) : Option Ep := eps.find? (·.id = id)

/-! ## the ejection criteria -/

/-- `endpointsWithAtLeastRequestVolume` -/
def considered (eps : List Ep) (vol : Nat) : List Ep := eps.filter (fun e => decide (vol ≤ e.rv))

def rate (e : Ep) : Rat := (e.inS : Rat) / (e.rv : Rat)

def mean (l : List Ep) : Rat := (l.map rate).sum / (l.length : Rat)

def variance (l : List Ep) : Rat :=
  (l.map fun e => (rate e - mean l) * (rate e - mean l)).sum / (l.length : Rat)

/-- `successRate < mean − stddev·(factor/1000)` for `stddev = √variance`, decided exactly:
    with `d = mean − rate` and `t = factor/1000 ≥ 0` it is `0 < d ∧ variance·t² < d²`. -/
def belowMean (l : List Ep) (factor : Nat) (e : Ep) : Bool :=
  let d := mean l - rate e
  let t : Rat := (factor : Rat) / 1000
  decide (0 < d) && decide (variance l * (t * t) < d * d)

/-- success-rate algorithm: is `e` (of `eps`) an outlier?  A considered endpoint without calls
    (possible only for request_volume 0) makes every comparison false (NaN) in the real code. -/
def srOut (eps : List Ep) (a : Alg) (e : Ep) : Bool :=
  let c := considered eps a.vol
  decide (a.vol ≤ e.rv) && decide (a.minHosts ≤ c.length) && c.all (fun x => decide (0 < x.rv)) && belowMean c a.param e

/-- failure-percentage algorithm: the binary64 comparison `numFailures/rv*100 > threshold`. -/
def fpOut (eps : List Ep) (a : Alg) (e : Ep) : Bool :=
  decide (a.vol ≤ e.rv) && decide (a.minHosts ≤ (considered eps a.vol).length) && decide (0 < e.rv) && pctGT e.inF e.rv a.param

def isOut (k : AlgK) (eps : List Ep) (a : Alg) (e : Ep) : Bool :=
  match k with
  | .sr => srOut eps a e
  | .fp => fpOut eps a e

/-- The property's reading of "has at least the configured request volume and fails the
    success-rate or failure-percentage criterion", decided exactly: enough calls, enough hosts
    with enough calls, and `rate < mean − stddev·factor/1000` resp. `failures/calls·100 ≥ threshold`
    (A50 says "greater than", config.go "greater than or equal"; the weaker reading is used). -/
def justified (k : AlgK) (eps : List Ep) (a : Alg) (e : Ep) : Bool :=
  let c := considered eps a.vol
  decide (a.vol ≤ e.rv) && decide (a.minHosts ≤ c.length) && decide (0 < e.rv) &&
  match k with
  | .sr => belowMean c a.param e
  | .fp => decide (a.param * e.rv ≤ e.inF * 100)

/-! ## the two algorithm loops -/

structure Loop where
  eps : List Ep
  nEj : Int
  draws : List Nat
  evs : List Ev := []
  cmds : List Cmd := []
deriving Repr

/-- `ejectEndpoint` (the endpoint is looked up by id; `ts` is b.timerStartTime). -/
def ejectEp (ts : Int) (id : Nat) (l : Loop) : Loop :=
  match findEp l.eps id with
  | none => l
  | some e =>
    { l with
      nEj := l.nEj + 1
      eps := l.eps.map fun x => if x.id = id then { x with ej := some ts, mult := x.mult + 1 } else x
      cmds := l.cmds ++ e.sws.map fun s => (s, true) }

/-- one iteration of `for _, epInfo := range endpointsToConsider` of either algorithm; `out`
    says which endpoints (by id) are in endpointsToConsider and satisfy the criterion. -/
def algStep (k : AlgK) (a : Alg) (maxPct : Nat) (ts : Int) (out : Nat → Bool) (l : Loop) (id : Nat) : Loop :=
  if !out id then l
  else if ((findEp l.eps id).map Ep.ejected).getD false then l      -- already ejected: `continue`
  else if decide ((maxPct : Int) * (l.eps.length : Int) ≤ l.nEj * 100) then { l with evs := l.evs ++ [Ev.umax k] }
  else
    let d := l.draws.headD 0
    let l := { l with draws := l.draws.tail }
    if d % 100 < a.enf then
      let l := ejectEp ts id l
      { l with evs := l.evs ++ [Ev.eject k id] }
    else { l with evs := l.evs ++ [Ev.uenf k] }

/-- which ids the loop of algorithm `k` acts upon, computed before the loop -/
def outSet (k : AlgK) (eps : List Ep) (a : Alg) (id : Nat) : Bool :=
  match findEp eps id with
  | none => false
  | some e => isOut k eps a e

def runAlg (k : AlgK) (a : Alg) (maxPct : Nat) (ts : Int) (order : List Nat) (l : Loop) : Loop :=
  order.foldl (algStep k a maxPct ts (outSet k l.eps a)) l

/-! ## un-ejection -/

/-- `min(base·multiplier, max(base, maxEjectionTime))` -/
def ejectionTime (c : Cfg) (mult : Int) : Int := min (c.base * mult) (max c.base c.maxEj)

/-- the last loop of intervalTimerAlgorithm, for one endpoint; true = un-ejected -/
def unejStep (c : Cfg) (now : Int) (e : Ep) : Ep × Bool :=
  match e.ej with
  | none => if e.mult > 0 then ({ e with mult := e.mult - 1 }, false) else (e, false)
  | some ts => if now > ts + ejectionTime c e.mult then ({ e with ej := none }, true) else (e, false)

def unejPass (c : Cfg) (now : Int) (eps : List Ep) : List Ep × Int × List Cmd :=
  let r := eps.map (unejStep c now)
  (r.map (·.1), ((r.filter (·.2)).length : Int), (r.filter (·.2)).flatMap fun p => p.1.sws.map fun s => (s, false))

/-! ## sub-connection layer (what the `run` goroutine does with the queue) -/

def updScw (scws : List Scw) (serial : Nat) (f : Scw → Scw) : List Scw :=
  scws.map fun w => if w.serial = serial then f w else w

def findScw (scws : List Scw) (serial : Nat) : Option Scw := scws.find? (·.serial = serial)

/-- a delivery to the child: (serial, health?, state) -/
abbrev Dl := Nat × Bool × Nat

/-- `handleEjection` / `handleUnejection` -/
def applyCmd (acc : List Scw × List Dl) (c : Cmd) : List Scw × List Dl :=
  let (scws, dl) := acc
  match findScw scws c.1 with
  | none => acc
  | some w =>
    if c.2 then
      (updScw scws c.1 fun w => { w with ejected := true, last := if w.hl then some 3 else w.last },
       if w.hl then dl ++ [(c.1, true, 3)] else dl)
    else
      (updScw scws c.1 fun w => { w with ejected := false, last := if w.hl then some w.latestHealth else w.last },
       if w.hl then dl ++ [(c.1, true, w.latestHealth)] else dl)

def applyCmds (scws : List Scw) (cmds : List Cmd) : List Scw × List Dl := cmds.foldl applyCmd (scws, [])

/-! ## operations -/

structure FireRec where
  t : Int
  evs : List Ev
  nEj : Int
  ts : Option Int
  eps : List Ep
deriving Repr

structure Out where
  fires : List FireRec := []
  dl : List Dl := []
  ups : List (Nat × Bool) := []
  err : Option String := none
deriving Repr

/-- `intervalTimerAlgorithm` at time `s.now`. -/
def fireCore (c : Cfg) (s : St) (orderSr orderFp : List Nat) (draws : List Nat) : St × List Ev × List Cmd :=
  let ts := s.now
  let eps1 := s.eps.map Ep.swap
  let l0 : Loop := { eps := eps1, nEj := s.nEj, draws := draws }
  let l1 := match c.sr with
    | some a => runAlg .sr a c.maxPct ts orderSr l0
    | none => l0
  let l2 := match c.fp with
    | some a => runAlg .fp a c.maxPct ts orderFp l1
    | none => l1
  let (eps3, k, ucmds) := unejPass c s.now l2.eps
  ({ s with timerStart := some ts, eps := eps3, nEj := l2.nEj - k, timer := some (s.now + c.interval) }, l2.evs, l2.cmds ++ ucmds)

def fire (s : St) (orderSr orderFp draws : List Nat) : St × FireRec × List Dl :=
  match s.cfg with
  | none => (s, { t := s.now, evs := [], nEj := s.nEj, ts := s.timerStart, eps := s.eps }, [])
  | some c =>
    let (s1, evs, cmds) := fireCore c s orderSr orderFp draws
    let (scws, dl) := applyCmds s1.scws cmds
    ({ s1 with scws := scws }, { t := s.now, evs := evs, nEj := s1.nEj, ts := s1.timerStart, eps := s1.eps }, dl)

/-- insert keeping ids ascending -/
def insertEp (e : Ep) : List Ep → List Ep
  | [] => [e]
  | x :: xs => if e.id < x.id then e :: x :: xs else x :: insertEp e xs

def newEp (id gen : Nat) : Ep := { id := id, gen := gen, actS := 0, actF := 0, inS := 0, inF := 0, ej := none, mult := 0, sws := [] }

/-- the endpoint bookkeeping of UpdateClientConnState: add unknown ids (the others are dropped by
    the filter in `updateCore`) -/
def addEps (ids : List Nat) (eps : List Ep) (gen : Nat) : List Ep × Nat :=
  ids.foldl (fun (acc : List Ep × Nat) id =>
    if (findEp acc.1 id).isSome then acc else (insertEp (newEp id acc.2) acc.1, acc.2 + 1)) (eps, gen)

/-- `onNoopConfig` -/
def onNoop (eps : List Ep) : List Ep × Int × List Cmd :=
  (eps.map fun e => { e with ej := none, mult := 0 },
   (trueCount eps : Int),
   (eps.filter Ep.ejected).flatMap fun e => e.sws.map fun s => (s, false))

/-- the part of UpdateClientConnState that runs under b.mu -/
def updateCore (s : St) (c : Cfg) (ids : List Nat) : St × List Cmd :=
  let (eps1, gen) := addEps ids s.eps s.nextGen
  let eps2 := eps1.filter fun e => ids.contains e.id
  -- a removed endpoint that is ejected no longer counts
  let nEj := s.nEj - (trueCount (eps1.filter fun e => !ids.contains e.id) : Int)
  if c.noop then
    let (eps3, k, cmds) := onNoop eps2
    ({ s with cfg := some c, eps := eps3, nextGen := gen, nEj := nEj - k, timerStart := none, timer := none }, cmds)
  else
    match s.timerStart with
    | none =>
      ({ s with cfg := some c, eps := eps2.map Ep.clear, nextGen := gen, nEj := nEj, timerStart := some s.now, timer := some (s.now + c.interval) }, [])
    | some t0 =>
      ({ s with cfg := some c, eps := eps2, nextGen := gen, nEj := nEj, timer := some (s.now + max 0 (c.interval - (s.now - t0))) }, [])

/-- `NewSubConn` by the child for address `id` (+ the queued ejection update). -/
def newScw (s : St) (id : Nat) : St :=
  let serial := s.nextSerial
  let e := findEp s.eps id
  let w : Scw := { serial := serial, addr := id, ep := e.map (·.gen), ejected := (e.map Ep.ejected).getD false,
                   hl := false, latestHealth := 1, raw := none, last := none, dead := false }
  { s with nextSerial := serial + 1, scws := s.scws ++ [w],
           eps := s.eps.map fun x => if x.id = id then { x with sws := x.sws ++ [serial] } else x }

/-- the child shuts a sub-connection down; the SHUTDOWN update reaches the child and
    `removeSubConnFromEndpointMapEntry` runs. -/
def shutScw (s : St) (serial : Nat) : St × List Dl :=
  match findScw s.scws serial with
  | none => (s, [])
  | some w =>
    if w.dead then (s, []) else
    ({ s with scws := updScw s.scws serial fun w => { w with dead := true, hl := false, last := none, raw := some 4 },
              eps := s.eps.map fun x => if x.id = w.addr ∧ some x.gen = w.ep then { x with sws := x.sws.filter (· ≠ serial) } else x },
     [(serial, false, 4)])

/-- the stub child's UpdateClientConnState: shut down sub-connections of removed addresses, create
    one for every address without a live one. -/
def childUpdate (s : St) (ids : List Nat) : St × List Dl :=
  let (s1, dl) := (s.scws.filter fun w => !w.dead && !ids.contains w.addr).foldl
    (fun (acc : St × List Dl) w => let (s', d) := shutScw acc.1 w.serial; (s', acc.2 ++ d)) (s, [])
  let s2 := ids.foldl (fun (acc : St) id =>
    if acc.scws.any (fun w => !w.dead && w.addr = id) then acc else newScw acc id) s1
  (s2, dl)

/-- UpdateClientConnState + the child's reaction + handleLBConfigUpdate. New sub-connections are
    created before the SHUTDOWN updates of the old ones are delivered. -/
def update (s : St) (c : Cfg) (ids : List Nat) : St × Out :=
  let (s1, cmds) := updateCore s c ids
  let (scws, dl1) := applyCmds s1.scws cmds
  let s2 := { s1 with scws := scws }
  let (s3, dl2) := childUpdate s2 ids
  let pushed := !s3.quiet
  let s4 := if pushed then { s3 with childPicker := true, childConn := s3.chState } else s3
  let send := (s4.childPicker && (c.noop != s4.recentNoop)) || pushed
  let s5 := if send then { s4 with recentNoop := c.noop, upNoop := some c.noop } else s4
  (s5, { dl := dl1 ++ dl2, ups := if send then [(s5.childConn, c.noop)] else [] })

/-- picks through the parent's picker + Done callbacks -/
def calls (s : St) (serial ns nf : Nat) : St × Out :=
  match s.upNoop with
  | none => (s, { err := some "nopicker" })
  | some noop =>
    if ns + nf = 0 then (s, {}) else
    match findScw s.scws serial with
    | none => (s, { err := some "nopick" })
    | some w =>
      if w.dead then (s, { err := some "nopick" }) else
      if noop then (s, {}) else
      ({ s with eps := s.eps.map fun x =>
          if x.id = w.addr ∧ some x.gen = w.ep then { x with actS := x.actS + ns, actF := x.actF + nf } else x }, {})

/-- raw connectivity update of the underlying SubConn (states 0..3) -/
def scUpdate (s : St) (serial st : Nat) : St × Out :=
  match findScw s.scws serial with
  | none => (s, { err := some "dead" })
  | some w =>
    if w.dead then (s, { err := some "dead" }) else
    ({ s with scws := updScw s.scws serial fun w => { w with raw := some st, hl := decide (st = 2), last := none } },
     { dl := [(serial, false, st)] })

/-- health update of the underlying SubConn -/
def healthUpdate (s : St) (serial st : Nat) : St × Out :=
  match findScw s.scws serial with
  | none => (s, { err := some "dead" })
  | some w =>
    if w.dead then (s, { err := some "dead" }) else
    if !w.hl then (s, {}) else
    ({ s with scws := updScw s.scws serial fun w =>
         if w.ejected then { w with latestHealth := st } else { w with latestHealth := st, last := some st } },
     { dl := if w.ejected then [] else [(serial, true, st)] })

def childNewSc (s : St) (id : Nat) : St × Out :=
  if s.cfg.isNone then (s, { err := some "nochild" }) else (newScw s id, {})

def childRmSc (s : St) (serial : Nat) : St × Out :=
  if s.cfg.isNone then (s, { err := some "nochild" }) else
  let (s', dl) := shutScw s serial
  (s', { dl := dl })

/-- the child pushes a picker (handleChildStateUpdate outside UpdateClientConnState) -/
def childState (s : St) (st : Nat) : St × Out :=
  match s.cfg with
  | none => (s, { err := some "nochild" })
  | some c =>
    ({ s with chState := st, childPicker := true, childConn := st, recentNoop := c.noop, upNoop := some c.noop },
     { ups := [(st, c.noop)] })

/-! ## histories -/

/-- One event of a history.  `advance` lets time pass without a timer firing; `fire` is one run of
    intervalTimerAlgorithm (by the timer or called directly) with an arbitrary map iteration
    order for each algorithm and arbitrary random draws. -/
inductive Op
  | update (c : Cfg) (ids : List Nat)
  | calls (serial ns nf : Nat)
  | sc (serial st : Nat)
  | health (serial st : Nat)
  | newsc (id : Nat)
  | rmsc (serial : Nat)
  | childstate (st : Nat)
  | quiet (b : Bool)
  | advance (d : Nat)
  | fire (orderSr orderFp draws : List Nat)
deriving Repr

def step (s : St) : Op → St
  | .update c ids => (update s c ids).1
  | .calls a b c => (calls s a b c).1
  | .sc a b => (scUpdate s a b).1
  | .health a b => (healthUpdate s a b).1
  | .newsc a => (childNewSc s a).1
  | .rmsc a => (childRmSc s a).1
  | .childstate a => (childState s a).1
  | .quiet b => { s with quiet := b }
  | .advance d => { s with now := s.now + d }
  | .fire a b c => (fire s a b c).1

def run (ops : List Op) : St := ops.foldl step init

end GrpcModel.Outlier
