/-
Model of
  internal/transport/http2_client.go : (*http2Client).keepalive  (timer loop, dormancy, kpDormancyCond)
                                       reader: `atomic.StoreInt64(&t.lastRead, now)` per frame
                                       NewStream/initStream: `if t.kpDormant { t.kpDormancyCond.Signal() }`
  internal/transport/http2_server.go : (*http2Server).keepalive  (kpTimer case only; idle/age timers are infinite)
                                       (*http2Server).handlePing (pingStrikes, lastPingAt, resetPingStrikes)
                                       setResetPingStrikes (onWrite of headers / trailers, onEachWrite of data)

Timed automata over an explicit virtual clock: every instant is a `Nat` (nanoseconds since the
transport was created).  Durations `Time`, `Timeout`, `MinTime` are `Nat` ≥ 1 (the code replaces 0
by a default before the loop starts; negative durations are outside the modelled domain).

The fields marked *ghost* are history variables used only by the theorems and by the monitor; no
transition reads them to decide behaviour.
-/
import GrpcModel.Generated.Keepalive
namespace GrpcModel.Keepalive
open GrpcModel.Generated

/-- kp.Time, kp.Timeout, kp.PermitWithoutStream (client).  For the server loop `permit = true`
    (the server loop has no dormancy block). -/
structure Cfg where
  time : Nat
  timeout : Nat
  permit : Bool
deriving Repr, DecidableEq

/-- What the outside can see. -/
inductive Out
  | ping (t : Nat)    -- a keepalive PING was put on the wire at instant t
  | close (t : Nat)   -- the transport was closed by keepalive at instant t
deriving Repr, DecidableEq

/-- Local variables of the keepalive goroutine plus the transport fields it shares. -/
structure KA where
  now : Nat
  /-- `t.lastRead` (written by the reader goroutine on every frame). -/
  lastRead : Nat
  /-- `prevNano` -/
  prevNano : Nat
  /-- `outstandingPing` -/
  outstanding : Bool
  /-- `timeoutLeft` (never negative in the code: `timeoutLeft -= min(Time, timeoutLeft)`). -/
  timeoutLeft : Nat
  /-- absolute instant at which `timer` fires (meaningful while not dormant and not closed). -/
  timerAt : Nat
  /-- `t.kpDormant` (goroutine parked in `kpDormancyCond.Wait()`). -/
  dormant : Bool
  /-- `len(t.activeStreams)` -/
  streams : Nat
  /-- streams registered in `activeStreams` (NewStream's `checkForStreamQuota`, caller goroutine) whose
      `initStream` callback loopy has not run yet (their HEADERS are still queued in the controlBuf). -/
  pendingInit : Nat := 0
  closed : Bool
  /-- ghost: the instant since which keepalive has been applicable (last 0→1 stream transition;
      always 0 with PermitWithoutStream, which makes it applicable from the start). -/
  appSince : Nat
  /-- ghost: the goroutine was woken from dormancy while `lastRead > prevNano` (a frame had been
      read while it was parked) and nothing has been read since. -/
  lateWake : Bool
  /-- ghost: instant of the last PING sent. -/
  pingAt : Nat
deriving Repr, DecidableEq

/-- State right after `go t.keepalive()`: `prevNano = now`, `timer = NewTimer(Time)`; the server
    preface is read at the same virtual instant. -/
def KA.init (c : Cfg) : KA :=
  { now := 0, lastRead := 0, prevNano := 0, outstanding := false, timeoutLeft := 0, timerAt := c.time,
    dormant := false, streams := 0, pendingInit := 0, closed := false, appSince := 0, lateWake := false, pingAt := 0 }

/-- keepalive is applicable: a stream is open or PermitWithoutStream. -/
def KA.applicable (c : Cfg) (s : KA) : Bool := c.permit || decide (0 < s.streams)

/-- The writer has caught up: every registered stream's HEADERS (and `initStream`) went through loopy. -/
def KA.caughtUp (s : KA) : Bool := decide (s.pendingInit = 0)

/-- The tail of the `case <-timer.C` body after the dormancy block:
    `if !outstandingPing { controlBuf.put(p); timeoutLeft = Timeout; outstandingPing = true }`
    `sleepDuration := min(Time, timeoutLeft); timeoutLeft -= sleepDuration; timer.Reset(sleepDuration)`. -/
def sendAndSleep (c : Cfg) (s : KA) : KA × List Out :=
  let tl := if s.outstanding then s.timeoutLeft else c.timeout
  let outs := if s.outstanding then [] else [Out.ping s.now]
  let sleep := min c.time tl
  ({ s with outstanding := true, timeoutLeft := tl - sleep, timerAt := s.now + sleep, dormant := false,
            pingAt := if s.outstanding then s.pingAt else s.now }, outs)

/-- One expiry of `timer` (the `case <-timer.C` body of the client loop), at instant `s.now`. -/
def fire (c : Cfg) (s : KA) : KA × List Out :=
  if s.lastRead > s.prevNano then
    -- outstandingPing = false; timer.Reset(lastRead + Time - now)  (≤ 0 fires at once); prevNano = lastRead
    ({ s with outstanding := false, timerAt := max s.now (s.lastRead + c.time), prevNano := s.lastRead }, [])
  else if s.outstanding && s.timeoutLeft == 0 then
    ({ s with closed := true }, [Out.close s.now])
  else if s.streams < 1 && !c.permit then
    -- outstandingPing = false; t.kpDormant = true; t.kpDormancyCond.Wait()
    ({ s with outstanding := false, dormant := true }, [])
  else sendAndSleep c s

/-- The `case <-kpTimer.C` body of the SERVER loop, ported separately (no dormancy block). -/
def serverFire (c : Cfg) (s : KA) : KA × List Out :=
  if s.lastRead > s.prevNano then
    ({ s with outstanding := false, timerAt := max s.now (s.lastRead + c.time), prevNano := s.lastRead }, [])
  else if s.outstanding && s.timeoutLeft == 0 then
    ({ s with closed := true }, [Out.close s.now])
  else sendAndSleep c s

/-- Events of the timed automaton. -/
inductive Ev
  | delay (d : Nat)   -- time passes
  | fire              -- the timer expires (urgent: time cannot pass `timerAt`)
  | read              -- the reader goroutine got a frame: lastRead = now
  | openS             -- NewStream registered a stream and loopy ran its initStream (= regS; initS)
  | doneS             -- a stream left activeStreams
  | regS              -- NewStream's checkForStreamQuota: the stream is in activeStreams, HEADERS queued
  | initS             -- loopy dequeues a HEADERS item: `initStream` → `if t.kpDormant { Signal() }`
deriving Repr, DecidableEq

/-- Which events may happen in a state (timed-automaton guard / invariant). -/
def Ev.ok (s : KA) : Ev → Bool
  | .delay d => s.closed || s.dormant || decide (s.now + d ≤ s.timerAt)
  | .fire => !s.closed && !s.dormant && decide (s.now = s.timerAt)
  | .read => true
  | .openS => true
  | .doneS => decide (s.pendingInit < s.streams)   -- only streams whose HEADERS went out are closed in this model
  | .regS => true
  | .initS => decide (0 < s.pendingInit)

/-- One event; `fireF` is the timer-expiry body (`fire` for the client loop, `serverFire` for the server loop). -/
def stepG (fireF : Cfg → KA → KA × List Out) (c : Cfg) (s : KA) : Ev → KA × List Out
  | .delay d => ({ s with now := s.now + d }, [])
  | .fire => if s.closed then (s, []) else fireF c s
  | .read => if s.closed then (s, []) else ({ s with lastRead := s.now, lateWake := false }, [])
  | .openS =>
    if s.closed then (s, []) else
    let s1 := { s with streams := s.streams + 1, appSince := if s.streams = 0 && !c.permit then s.now else s.appSince }
    if s.dormant then
      -- Wait() returns: kpDormant = false; outstandingPing was cleared before parking, so a ping is sent
      sendAndSleep c { s1 with lateWake := decide (s.lastRead > s.prevNano), appSince := if !c.permit then s.now else s.appSince }
    else (s1, [])
  | .doneS => if s.closed then (s, []) else ({ s with streams := s.streams - 1 }, [])
  | .regS =>
    if s.closed then (s, []) else
    ({ s with streams := s.streams + 1, pendingInit := s.pendingInit + 1,
              appSince := if s.streams = 0 && !c.permit then s.now else s.appSince }, [])
  | .initS =>
    if s.closed then (s, []) else
    let s1 := { s with pendingInit := s.pendingInit - 1 }
    if s.dormant then
      -- every initStream signals a dormant loop, however many streams are already registered
      sendAndSleep c { s1 with lateWake := decide (s.lastRead > s.prevNano), appSince := if !c.permit then s.now else s.appSince }
    else (s1, [])

/-- The client automaton. -/
def step (c : Cfg) (s : KA) (e : Ev) : KA × List Out := stepG fire c s e

/-- The server automaton (same events; `openS`/`doneS` are irrelevant to it). -/
def sstep (c : Cfg) (s : KA) (e : Ev) : KA × List Out := stepG serverFire c s e

/-- Run a list of events, collecting outputs. -/
def runG (fireF : Cfg → KA → KA × List Out) (c : Cfg) : KA → List Ev → KA × List Out
  | s, [] => (s, [])
  | s, e :: es =>
    let r1 := stepG fireF c s e
    let r2 := runG fireF c r1.1 es
    (r2.1, r1.2 ++ r2.2)

/-- Client runs. -/
def run (c : Cfg) (s : KA) (es : List Ev) : KA × List Out := runG fire c s es

/-- A run in which every event is enabled when it happens. -/
def Valid (c : Cfg) : KA → List Ev → Bool
  | _, [] => true
  | s, e :: es => e.ok s && Valid c (step c s e).1 es

/-- Big step used by the driver: let `d` nanoseconds pass, firing the timer whenever it is due.
    Returns the urgent schedule (list of events) that was executed. `fuel` bounds the number of
    expiries (the driver supplies enough; running out is reported, never silently truncated). -/
def schedule (fireF : Cfg → KA → KA × List Out) (c : Cfg) (s : KA) (d : Nat) : Nat → Option (List Ev)
  | 0 => none
  | fuel + 1 =>
    if s.closed || s.dormant || decide (s.now + d < s.timerAt) then some [Ev.delay d]
    else
      let w := s.timerAt - s.now
      let s1 := { s with now := s.now + w }
      match schedule fireF c (stepG fireF c s1 .fire).1 (d - w) fuel with
      | none => none
      | some es => some (Ev.delay w :: Ev.fire :: es)

/-! ### The property's predicates (used by the theorems and, on the implementation's outputs, by the monitor) -/

/-- "the later of (last received byte + Time) and the moment keepalive became applicable", plus Timeout. -/
def deadBound (c : Cfg) (lastRead appSince : Nat) : Nat := max (lastRead + c.time) appSince + c.timeout

/-- What the unchanged code adds to `deadBound` after a late wake (see C15 finding). -/
def slack (c : Cfg) (s : KA) : Nat := if s.lateWake then min c.time c.timeout else 0

/-! ### Server ping-strike ledger (`handlePing`) -/

/-- kep.MinTime, kep.PermitWithoutStream -/
structure Policy where
  minTime : Nat
  permit : Bool
deriving Repr, DecidableEq

structure Ledger where
  now : Nat
  /-- `t.lastPingAt`; `none` = the zero `time.Time` (no ping yet; it is > 2h before any real instant). -/
  lastPingAt : Option Nat
  /-- `t.pingStrikes` -/
  strikes : Nat
  /-- `t.resetPingStrikes` (set by loopy after writing headers/data, consumed by handlePing's CAS) -/
  resetFlag : Bool
  /-- `len(t.activeStreams)` -/
  ns : Nat
  /-- a GOAWAY(ENHANCE_YOUR_CALM, "too_many_pings") has been queued -/
  goaway : Bool
deriving Repr, DecidableEq

def Ledger.init : Ledger := { now := 0, lastPingAt := none, strikes := 0, resetFlag := false, ns := 0, goaway := false }

/-- The spacing the policy demands before the next ping, in the current state. -/
def required (p : Policy) (s : Ledger) : Nat :=
  if s.ns < 1 && !p.permit then defaultPingTimeout else p.minTime

/-- `t.lastPingAt.Add(required).After(now)` -/
def tooEarly (p : Policy) (s : Ledger) : Bool :=
  match s.lastPingAt with
  | none => false
  | some l => decide (l + required p s > s.now)

/-- `handlePing` for a non-ack PING (the deferred `t.lastPingAt = now` included). -/
def handlePing (p : Policy) (s : Ledger) : Ledger :=
  if s.resetFlag then { s with resetFlag := false, strikes := 0, lastPingAt := some s.now }
  else
    let st := if tooEarly p s then s.strikes + 1 else s.strikes
    { s with strikes := st, lastPingAt := some s.now, goaway := s.goaway || decide (st > maxPingStrikes) }

inductive LEv
  | delay (d : Nat)
  | ping        -- client PING (non-ack) arrives
  | write       -- the server wrote headers, data or trailers (setResetPingStrikes)
  | openS
  | doneS
deriving Repr, DecidableEq

def lstep (p : Policy) (s : Ledger) : LEv → Ledger
  | .delay d => { s with now := s.now + d }
  | .ping => handlePing p s
  | .write => { s with resetFlag := true }
  | .openS => { s with ns := s.ns + 1 }
  | .doneS => { s with ns := s.ns - 1 }

def lrun (p : Policy) : Ledger → List LEv → Ledger
  | s, [] => s
  | s, e :: es => lrun p (lstep p s e) es

end GrpcModel.Keepalive
