import GrpcModel.Generated.Loopy
/-!
# Model of the HTTP/2 loopy writer  (C01, C02, C03)

Line-for-line functional port of `internal/transport/controlbuf.go`:
`loopyWriter.handle` and its handlers, `processData`, `updateStreamAfterWrite`, `applySettings`,
`preprocessData`, `cleanupStreamHandler`, `writeHeader`.  One `step` = one `handle(item)` call or one
`processData()` call (`Op.tick`) of `loopyWriter.run`.

Representation choices (all of them named here so that the reader can check them against the Go code):

* `estdStreams map[uint32]*outStream` is `keys : List Nat` (the key set) + `str : Nat → OutStream`
  (the value for a key).  `activeStreams` (a linked list of `*outStream`) is the list of stream ids,
  head first.  `deleteSelf` of a stream is `filter (· ≠ id)` (the same under `Nodup`, proved in `Wf`).
* A registration of an id that is currently established (`estdStreams[id] = str` overwriting a live
  entry while the old `*outStream` may still sit on `activeStreams`) is NOT modelled: the step answers
  `Out.unmodelled` and the correspondence never generates it.  The real transports never do it: the client
  allocates ids from `nextID += 2` under the controlbuf lock, the server rejects non-increasing ids in
  `operateHeaders`.
* `sendQuota` is `uint32`: `+=` wraps modulo 2^32 (modelled), `-=` never underflows (size ≤ sendQuota).
  `bytesOutStanding` is a Go `int` (64 bit) and is `Int` here (no wrap-around modelled: it would need
  more than 2^31 WINDOW_UPDATEs of maximal size on one stream).
* A `dataFrame` is `Item.data off h d es`: `h`/`d` are the REMAINING lengths of `dataItem.h` and of the
  `mem.Reader` over `dataItem.data` (Go slices/readers are (offset, length) views; only the lengths drive
  the writer).  `off` is a ghost label: the absolute offset, in the stream's application byte stream (the
  concatenation of all `h ++ data` enqueued for the stream since it was established), of the first
  remaining byte.  It is what lets C02 talk about byte identity.
* Items addressing stream id 0 or ids ≥ 2^31 (`Op.outside`; the Framer refuses to write them) are not modelled either.
* The HPACK-encoded header block length (`l.hBuf.Len()` after encoding) is an input (`hb`) of every op that
  can write a header block: HPACK itself is not modelled.
* `ssGoAwayHandler` (`http2Client/http2Server.outgoingGoAwayHandler`) is the writer's environment: its
  results `(draining, err)` are inputs of `Op.goAway`, the GOAWAY frame it writes is an output.
-/
namespace GrpcModel.Loopy

/-- `http2MaxFrameLen` (http_util.go), regenerated from source (T4). -/
def maxFrameLen : Nat := Generated.http2MaxFrameLen
/-- `defaultWindowSize` (defaults.go), regenerated from source (T4). -/
def defaultWindow : Nat := Generated.defaultWindowSize

inductive Side | client | server
deriving DecidableEq, Repr

/-- `outStreamState` (controlbuf.go). -/
inductive SState | active | empty | waiting
deriving DecidableEq, Repr

/-- An entry of `outStream.itl`: a `*dataFrame` or a `*serverHeaders` with `endStream` (trailers; only those are
ever enqueued, see `serverHeaderHandler`), carrying its `cleanup` item's `rst`/`rstCode`. -/
inductive Item
  | data (off h d : Nat) (es : Bool)
  | trailers (rst : Bool) (code : Nat)
deriving DecidableEq, Repr

/-- `outStream`. `wr` (ghost) = bytes enqueued so far; `repl` = Σ `wq.replenish` calls. -/
structure OutStream where
  state : SState := .empty
  items : List Item := []
  bytesOut : Int := 0
  wr : Nat := 0
  repl : Nat := 0
deriving Repr

/-- `loopyWriter`. `closed` = a handler returned an error, i.e. `run()` has returned. -/
structure St where
  side : Side
  sendQuota : Nat
  oiws : Nat
  keys : List Nat
  str : Nat → OutStream
  active : List Nat
  draining : Bool
  closed : Bool

inductive Cb | initStream | onWrite | orphaned | cleanupOnWrite | onEachWrite
deriving DecidableEq, Repr

/-- What one step makes observable: frames handed to the framer, and callbacks invoked, in program order. -/
inductive Out
  | data (id off size : Nat) (es : Bool)
  /-- one header block: HEADERS (first fragment) followed by CONTINUATIONs -/
  | headers (id : Nat) (es : Bool) (frags : List Nat)
  | rst (id code : Nat)
  | settingsAck
  | settings (ss : List (Nat × Nat))
  | ping (ack : Bool) (data : String)
  | windowUpdate (id inc : Nat)
  | goAway (last code : Nat)
  | cb (k : Cb) (id : Nat)
  /-- `str.itl.peek().(*dataFrame)` on a list that is empty or headed by trailers: a run-time panic in Go -/
  | panic
  | unmodelled
deriving DecidableEq, Repr

inductive Err | closing | drainDone | goAwayIdle | eaClient | init | ga | unknown
deriving DecidableEq, Repr

inductive Ret
  | ok
  | err (e : Err)
  /-- `processData` returned `(isEmpty, nil)` -/
  | tick (isEmpty : Bool)
  | quota (n : Nat)
  | closed
deriving DecidableEq, Repr

/-- Control items (`handle`'s type switch) plus `tick` = one `processData()` call.
`hb` = HPACK block length oracle; `order` = Go's map iteration order over `estdStreams` in `applySettings`. -/
inductive Op
  | winUpdate (id inc : Nat)
  | outWinUpdate (id inc : Nat)
  | settings (ss : List (Nat × Nat)) (order : List Nat)
  | outSettings (ss : List (Nat × Nat))
  | register (id : Nat)
  | clientHeaders (id hb : Nat) (initErr : Bool)
  | serverHeaders (id : Nat) (es : Bool) (hb : Nat) (rst : Bool) (code : Nat)
  | data (id h d : Nat) (es : Bool)
  | cleanup (id : Nat) (rst : Bool) (code : Nat)
  | earlyAbort (id : Nat) (rst : Bool) (hb : Nat)
  | incomingGoAway
  | goAway (headsUp : Bool) (code : Nat) (retDraining retErr : Bool)
  | ping (ack : Bool) (data : String)
  | closeConn
  | outFlowReq
  | unknown
  | tick (hb : Nat)
deriving Repr

structure Res where
  st : St
  outs : List Out
  ret : Ret

/-- `newLoopyWriter`. -/
def init (side : Side) : St :=
  { side := side, sendQuota := defaultWindow, oiws := defaultWindow, keys := [], str := fun _ => {},
    active := [], draining := false, closed := false }

def St.setStr (s : St) (id : Nat) (x : OutStream) : St :=
  { s with str := fun i => if i = id then x else s.str i }

/-- `int(l.oiws) - str.bytesOutStanding` -/
def St.quota (s : St) (id : Nat) : Int := (s.oiws : Int) - (s.str id).bytesOut

/-- The fragment sizes produced by `writeHeader`'s loop for a header block of `L` bytes:
`size := hBuf.Len(); if size > http2MaxFrameLen { size = http2MaxFrameLen } else { endHeaders = true }`. -/
def headerFrags (m L : Nat) : List Nat :=
  if _h : 0 < m ∧ m < L then m :: headerFrags m (L - m) else [L]
termination_by L
decreasing_by omega

/-- `writeHeader`: `onWrite()` (when non-nil), then HEADERS + CONTINUATIONs. -/
def writeHeader (id : Nat) (es : Bool) (hb : Nat) (onWrite : Bool) : List Out :=
  (if onWrite then [Out.cb .onWrite id] else []) ++ [Out.headers id es (headerFrags maxFrameLen hb)]

/-- `delete(l.estdStreams, id)` + `str.deleteSelf()` (when the stream is established). -/
def removeStream (s : St) (id : Nat) : St :=
  if id ∈ s.keys then { s with keys := s.keys.filter (· ≠ id), active := s.active.filter (· ≠ id) } else s

/-- `cleanupStreamHandler`. -/
def cleanupStream (s : St) (id : Nat) (rst : Bool) (code : Nat) : Res :=
  let s1 := removeStream s id
  ⟨s1, Out.cb .cleanupOnWrite id :: (if rst then [Out.rst id code] else []),
   if s1.draining ∧ s1.keys = [] then .err .drainDone else .ok⟩

/-- `incomingWindowUpdateHandler`. -/
def incomingWindowUpdate (s : St) (id inc : Nat) : Res :=
  if id = 0 then ⟨{ s with sendQuota := (s.sendQuota + inc) % 2 ^ 32 }, [], .ok⟩
  else if id ∈ s.keys then
    let x := s.str id
    let x1 := { x with bytesOut := x.bytesOut - inc }
    if (s.oiws : Int) - x1.bytesOut > 0 ∧ x.state = .waiting then
      ⟨{ s.setStr id { x1 with state := .active } with active := s.active ++ [id] }, [], .ok⟩
    else ⟨s.setStr id x1, [], .ok⟩
  else ⟨s, [], .ok⟩

def isWaiting (s : St) (id : Nat) : Bool := (s.str id).state = .waiting

/-- The order in which `for _, stream := range l.estdStreams` visits the waiting streams: the oracle `order` when it
is a permutation of them, else key order. -/
def wakeOrder (s : St) (order : List Nat) : List Nat :=
  let w := s.keys.filter (isWaiting s)
  if order.isPerm w then order else w

/-- One `http2.SettingInitialWindowSize` entry of `applySettings`. -/
def applyIWS (s : St) (v : Nat) (order : List Nat) : St :=
  if s.oiws < v then
    let woken := wakeOrder s order
    { s with oiws := v, active := s.active ++ woken,
             str := fun i => if (s.str i).state = .waiting then { s.str i with state := .active } else s.str i }
  else { s with oiws := v }

/-- `applySettings` (SETTINGS_HEADER_TABLE_SIZE only touches the HPACK encoder, i.e. the `hb` oracle). -/
def applySettings (s : St) (ss : List (Nat × Nat)) (order : List Nat) : St :=
  ss.foldl (fun s kv => if kv.1 = 4 then applyIWS s kv.2 order else s) s

/-- `registerStreamHandler`. -/
def registerStream (s : St) (id : Nat) : Res :=
  if id ∈ s.keys then ⟨s, [.unmodelled], .ok⟩
  else ⟨{ s with keys := s.keys ++ [id] }.setStr id {}, [], .ok⟩

/-- `clientHeaderHandler`. -/
def clientHeader (s : St) (id hb : Nat) (initErr : Bool) : Res :=
  if s.draining then ⟨s, [.cb .orphaned id], .ok⟩
  else if initErr then ⟨s, [.cb .initStream id], .err .init⟩
  else if id ∈ s.keys then ⟨s, [.unmodelled], .ok⟩
  else ⟨{ s with keys := s.keys ++ [id] }.setStr id {}, .cb .initStream id :: writeHeader id false hb true, .ok⟩

/-- `serverHeaderHandler`. -/
def serverHeader (s : St) (id : Nat) (es : Bool) (hb : Nat) (rst : Bool) (code : Nat) : Res :=
  if id ∉ s.keys then ⟨s, [], .ok⟩
  else if !es then ⟨s, writeHeader id false hb true, .ok⟩
  else
    let x := s.str id
    if x.state ≠ .empty then ⟨s.setStr id { x with items := x.items ++ [.trailers rst code] }, [], .ok⟩
    else
      let r := cleanupStream s id rst code
      ⟨r.st, writeHeader id true hb true ++ r.outs, r.ret⟩

/-- `preprocessData`. -/
def preprocessData (s : St) (id h d : Nat) (es : Bool) : Res :=
  if id ∉ s.keys then ⟨s, [], .ok⟩
  else
    let x := s.str id
    let x1 := { x with items := x.items ++ [.data x.wr h d es], wr := x.wr + h + d }
    if x.state = .empty then
      ⟨{ s.setStr id { x1 with state := .active } with active := s.active ++ [id] }, [], .ok⟩
    else ⟨s.setStr id x1, [], .ok⟩

/-- `earlyAbortStreamHandler`. -/
def earlyAbort (s : St) (id : Nat) (rst : Bool) (hb : Nat) : Res :=
  if s.side = .client then ⟨s, [], .err .eaClient⟩
  else ⟨s, writeHeader id true hb false ++ (if rst then [Out.rst id 0] else []), .ok⟩

/-- `incomingGoAwayHandler`. -/
def incomingGoAway (s : St) : Res :=
  if s.side = .client then
    let s1 := { s with draining := true }
    if s1.keys = [] then ⟨s1, [], .err .goAwayIdle⟩ else ⟨s1, [], .ok⟩
  else ⟨s, [], .ok⟩

/-- `goAwayHandler` with the environment's `ssGoAwayHandler` results. -/
def goAway (s : St) (headsUp : Bool) (code : Nat) (retDraining retErr : Bool) : Res :=
  let fr := Out.goAway (if headsUp then 2 ^ 31 - 1 else 0) code
  if retErr then ⟨s, [fr], .err .ga⟩ else ⟨{ s with draining := retDraining }, [fr], .ok⟩

/-- `updateStreamAfterWrite`. -/
def updateStreamAfterWrite (s : St) (id hb : Nat) (outs : List Out) : Res :=
  let x := s.str id
  match x.items with
  | [] => ⟨s.setStr id { x with state := .empty }, outs, .tick false⟩
  | .trailers rst code :: _ =>
    let r := cleanupStream s id rst code
    ⟨r.st, outs ++ writeHeader id true hb true ++ r.outs, match r.ret with | .ok => .tick false | e => e⟩
  | .data .. :: _ =>
    if s.quota id ≤ 0 then ⟨s.setStr id { x with state := .waiting }, outs, .tick false⟩
    else ⟨{ s with active := s.active ++ [id] }, outs, .tick false⟩

/-- Second half of `processData`: `hSize` bytes of `dataItem.h` and `dSize` bytes of the reader go out in one DATA frame
(`str.wq.replenish(size)`, `onEachWrite`, `framer.writeData`, `bytesOutStanding += size`, `sendQuota -= size`,
`dataItem.h = dataItem.h[hSize:]`, `reader.Discard(dSize)`, dequeue when nothing remains), then `updateStreamAfterWrite`.
`s` is the state after the stream was taken off `activeStreams`; its head item is `Item.data off h d es` followed by `tl`. -/
def writeChunk (s : St) (id hb off h d : Nat) (es : Bool) (tl : List Item) (hSize dSize : Nat) : Res :=
  let x := s.str id
  let rem := h + d - hSize - dSize
  let size := hSize + dSize
  let items' := if rem = 0 then tl else .data (off + size) (h - hSize) (d - dSize) es :: tl
  let x' := { x with items := items', bytesOut := x.bytesOut + size, repl := x.repl + size }
  let s2 := { s with sendQuota := s.sendQuota - size }.setStr id x'
  updateStreamAfterWrite s2 id hb [.cb .onEachWrite id, .data id off size (es && rem == 0)]

/-- `processData`. -/
def processData (s : St) (hb : Nat) : Res :=
  if s.sendQuota = 0 then ⟨s, [], .tick true⟩ else
  match s.active with
  | [] => ⟨s, [], .tick true⟩
  | id :: rest =>
    let s1 := { s with active := rest }
    let x := s.str id
    match x.items with
    | [] => ⟨s1, [.panic], .tick false⟩
    | .trailers .. :: _ => ⟨s1, [.panic], .tick false⟩
    | .data off h d es :: tl =>
      let strQuota := s.quota id
      if strQuota ≤ 0 ∧ ¬ (h = 0 ∧ d = 0) then
        ⟨s1.setStr id { x with state := .waiting }, [], .tick false⟩
      else
        let maxSize := min (min maxFrameLen (max strQuota 0).toNat) s.sendQuota
        let hSize := min maxSize h
        let dSize := min (maxSize - hSize) d
        writeChunk s1 id hb off h d es tl hSize dSize

/-- `handle`'s type switch / `processData`. -/
def handleItem (s : St) : Op → Res
  | .winUpdate id inc => incomingWindowUpdate s id inc
  | .outWinUpdate id inc => ⟨s, [.windowUpdate id inc], .ok⟩
  | .settings ss order => ⟨applySettings s ss order, [.settingsAck], .ok⟩
  | .outSettings ss => ⟨s, [.settings ss], .ok⟩
  | .register id => registerStream s id
  | .clientHeaders id hb ie => clientHeader s id hb ie
  | .serverHeaders id es hb rst code => serverHeader s id es hb rst code
  | .data id h d es => preprocessData s id h d es
  | .cleanup id rst code => cleanupStream s id rst code
  | .earlyAbort id rst hb => earlyAbort s id rst hb
  | .incomingGoAway => incomingGoAway s
  | .goAway hu code rd re => goAway s hu code rd re
  | .ping ack data => ⟨s, [.ping ack data], .ok⟩
  | .closeConn => ⟨s, [], .err .closing⟩
  | .outFlowReq => ⟨s, [], .quota s.sendQuota⟩
  | .unknown => ⟨s, [], .err .unknown⟩
  | .tick hb => processData s hb

/-- Items the x/net/http2 Framer refuses to write (`errStreamID`: stream id 0 or ≥ 2^31 on HEADERS / RST_STREAM,
"illegal window increment value" on WINDOW_UPDATE). The transports never produce them (stream ids are 1 … 2^31−1); they
are outside the model like duplicate registrations. -/
def Op.outside : Op → Bool
  | .register id | .clientHeaders id _ _ | .serverHeaders id _ _ _ _ | .data id _ _ _ | .cleanup id _ _
  | .earlyAbort id _ _ => id = 0 ∨ 2 ^ 31 ≤ id
  | .outWinUpdate id inc => 2 ^ 31 ≤ id ∨ inc = 0 ∨ 2 ^ 31 ≤ inc
  | _ => false

/-- `handle` / `processData`, before error bookkeeping. -/
def handle (s : St) (o : Op) : Res :=
  if o.outside then ⟨s, [.unmodelled], .ok⟩ else handleItem s o

def Ret.isErr : Ret → Bool
  | .err _ => true
  | _ => false

/-- One iteration step of `run()`: nothing happens once `run` has returned; an error makes it return. -/
def step (s : St) (o : Op) : Res :=
  if s.closed then ⟨s, [], .closed⟩ else
  let r := handle s o
  if r.ret.isErr then { r with st := { r.st with closed := true } } else r

/-- The trace of a history: every op with what it made observable. -/
def runFrom (s : St) : List Op → St × List (Op × List Out)
  | [] => (s, [])
  | o :: os =>
    let r := step s o
    let t := runFrom r.st os
    (t.1, (o, r.outs) :: t.2)

def run (side : Side) (ops : List Op) : St × List (Op × List Out) := runFrom (init side) ops

def trace (side : Side) (ops : List Op) : List (Op × List Out) := (run side ops).2
def final (side : Side) (ops : List Op) : St := (run side ops).1

end GrpcModel.Loopy
