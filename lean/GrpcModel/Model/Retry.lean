/-
Model of the retry arithmetic and of the retry decision of grpc-go (gRFC A6):

  clientconn.go      : retryThrottler{max,thresh,ratio,tokens}, throttle, successfulRPC,
                       applyServiceConfigAndBalancer (construction of the throttler)
  service_config.go  : retryThrottling validation in parseServiceConfig,
                       isValidRetryPolicy, convertRetryPolicy
  stream.go          : csAttempt.shouldRetry (decision in source order, pushback parsing,
                       backoff with jitter, int64 conversions)

Numbers: the Go code computes in float64; the model computes in exact rationals (`Rat`, core
Lean).  Durations are `Int` nanoseconds; the two places where the Go code converts to int64
(`time.Millisecond * time.Duration(pushback)` and `time.Duration(int64(cur))`) are ported with
the saturation guards the code puts in front of them (and, behind the guards, with the raw
wrap-around / out-of-range behaviour: amd64 converts an out-of-range float to MinInt64).
The random jitter `rand.Float64()` is the explicit argument `r`.
-/
import GrpcModel.Generated.Retry
namespace GrpcModel.Retry
open GrpcModel.Generated

abbrev maxInt64 : Int := 9223372036854775807
abbrev minInt64 : Int := -9223372036854775808

/-- two's-complement wrap of an int64 multiplication result. -/
def wrap64 (x : Int) : Int := (x + 9223372036854775808) % 18446744073709551616 - 9223372036854775808

/-- Go `int64(f)` for a float64 `f` (amd64 CVTTSD2SQ): truncation toward zero, and the
    "integer indefinite" value MinInt64 when the truncated value does not fit. -/
def toInt64 (x : Rat) : Int :=
  let t : Int := if x < 0 then -((-x).floor) else x.floor
  if t > maxInt64 ∨ t < minInt64 then minInt64 else t

/-! ### retryThrottler -/

structure Throttler where
  tokens : Rat
  max : Rat
  thresh : Rat
  ratio : Rat
deriving Repr, DecidableEq

/-- `parseServiceConfig`: `mt <= 0 || mt > 1000` → error; `tr <= 0` → error. -/
def validThrottling (maxTokens ratio : Rat) : Bool :=
  !(maxTokens ≤ 0 || maxTokens > 1000) && !(ratio ≤ 0)

/-- `parseServiceConfig`: the retryThrottling range check runs before the
    `if rsc.MethodConfig == nil { return Config }` early return (since /repo e52eadc; before that
    commit a config without a `methodConfig` member skipped the check), so acceptance does not
    depend on whether the config has a `methodConfig` member. -/
def acceptsThrottling (_hasMethodConfig : Bool) (maxTokens ratio : Rat) : Bool :=
  validThrottling maxTokens ratio

/-- `applyServiceConfigAndBalancer`: tokens = max = MaxTokens, thresh = MaxTokens / 2. -/
def Throttler.new (maxTokens ratio : Rat) : Throttler :=
  { tokens := maxTokens, max := maxTokens, thresh := maxTokens / 2, ratio := ratio }

/-- `retryThrottler.throttle` on a non-nil receiver: `tokens--; if tokens < 0 {tokens = 0};
    return tokens <= thresh`. -/
def Throttler.throttle (t : Throttler) : Throttler × Bool :=
  let k := t.tokens - 1
  let k := if k < 0 then 0 else k
  ({ t with tokens := k }, decide (k ≤ t.thresh))

/-- `retryThrottler.successfulRPC`: `tokens += ratio; if tokens > max {tokens = max}`. -/
def Throttler.success (t : Throttler) : Throttler :=
  let k := t.tokens + t.ratio
  { t with tokens := if k > t.max then t.max else k }

/-- `throttle` / `successfulRPC` on the possibly nil `*retryThrottler` of a clientStream. -/
def throttleOpt : Option Throttler → Option Throttler × Bool
  | none => (none, false)
  | some t => let (t', b) := t.throttle; (some t', b)

def successOpt : Option Throttler → Option Throttler
  | none => none
  | some t => some t.success

/-! ### retry policy (service_config.go) -/

structure Policy where
  maxAttempts : Int
  initialBackoff : Int     -- ns
  maxBackoff : Int         -- ns
  multiplier : Rat
  codes : List Nat
deriving Repr, DecidableEq

/-- `WithMaxCallAttempts(n)`: `if n < 2 { n = defaultMaxCallAttempts }`. -/
def channelMax (n : Int) : Int := if n < 2 then (defaultMaxCallAttempts : Int) else n

/-- `isValidRetryPolicy` on the JSON values. -/
def validPolicy (maxAttempts initialBackoff maxBackoff : Int) (multiplier : Rat) (codes : List Nat) : Bool :=
  decide (maxAttempts > 1) && decide (initialBackoff > 0) && decide (maxBackoff > 0) &&
  decide (multiplier > 0) && decide (codes.length > 0)

/-- `convertRetryPolicy`: invalid → error; `MaxAttempts` capped by the channel limit. -/
def convertPolicy (chanMax : Int) (maxAttempts initialBackoff maxBackoff : Int) (multiplier : Rat)
    (codes : List Nat) : Option Policy :=
  if !validPolicy maxAttempts initialBackoff maxBackoff multiplier codes then none
  else some { maxAttempts := if maxAttempts < chanMax then maxAttempts else chanMax,
              initialBackoff, maxBackoff, multiplier, codes }

/-! ### pushback parsing (`strconv.Atoi` on the single header value) -/

def isDigit (b : UInt8) : Bool := 48 ≤ b && b ≤ 57

def digitsVal (ds : List UInt8) : Nat := ds.foldl (fun a b => a * 10 + (b.toNat - 48)) 0

/-! ### durations (internal/serviceconfig/duration.go : Duration.UnmarshalJSON) -/

/-- `strconv.ParseInt(s, 10, 64)`: optional sign, at least one ASCII digit, nothing else, in range. -/
def parseInt64 (s : List UInt8) : Option Int :=
  let (neg, ds) := match s with
    | 45 :: t => (true, t)
    | 43 :: t => (false, t)
    | _ => (false, s)
  if ds.isEmpty then none
  else if !ds.all isDigit then none
  else
    let n := digitsVal ds
    if neg then (if n > 9223372036854775808 then none else some (-(n : Int)))
    else (if n > 9223372036854775807 then none else some (n : Int))

/-- `strings.SplitN(s, ".", 3)`: at most three pieces, the last one unsplit. -/
def splitDot3 (s : List UInt8) : List (List UInt8) :=
  let (a, r) := s.span (· ≠ 46)
  match r with
  | [] => [a]
  | _ :: r1 =>
    let (b, r2) := r1.span (· ≠ 46)
    match r2 with
    | [] => [a, b]
    | _ :: r3 => [a, b, r3]

/-- the whole-seconds part: empty → (0, no digits); else `ParseInt`, at most 315 576 000 000. -/
def durSeconds (whole : List UInt8) : Option (Int × Bool) :=
  if whole.isEmpty then some (0, false) else
  match parseInt64 whole with
  | none => none
  | some v => if v > 315576000000 then none else some (v, true)

/-- the fractional part (present only when there was a '.'): at most 9 bytes through `ParseInt`,
    scaled to nanoseconds. -/
def durNanos (hasFrac : Bool) (frac : List UInt8) : Option (Int × Bool) :=
  if hasFrac ∧ !frac.isEmpty then
    (if frac.length > 9 then none else
      match parseInt64 frac with
      | none => none
      | some v => some (v * 10 ^ (9 - frac.length), true))
  else some (0, false)

/-- the final clamp to what `time.Duration` can hold. -/
def durClamp (sec ns : Int) : Int :=
  if sec > 9223372036 ∨ (sec = 9223372036 ∧ ns ≥ 854775807) then maxInt64
  else if sec < -9223372036 ∨ (sec = -9223372036 ∧ ns ≤ -854775808) then minInt64
  else sec * 1000000000 + ns

/-- `Duration.UnmarshalJSON` on the JSON string's content: `none` = error, else nanoseconds
    (clamped to int64 as the code does). -/
def parseDuration (s0 : List UInt8) : Option Int :=
  if s0.getLast? ≠ some 115 then none else          -- !HasSuffix(s, "s")
  let (neg, s) := match s0 with
    | 45 :: t => (true, t)
    | _ => (false, s0)
  let ss := splitDot3 s.dropLast
  if ss.length > 2 then none else
  match durSeconds (ss.headD []) with
  | none => none
  | some (sec, d1) =>
    match durNanos (ss.length = 2) ((ss.drop 1).headD []) with
    | none => none
    | some (ns, d2) =>
      if !(d1 || d2) then none else
      let sec := if neg then wrap64 (-sec) else sec
      let ns := if neg then -ns else ns
      some (durClamp sec ns)

/-- `strconv.Atoi` for a 64-bit `int`: optional sign, at least one ASCII digit, nothing else,
    and the value must fit int64. -/
def atoi (s : List UInt8) : Option Int :=
  let (neg, ds) := match s with
    | 45 :: t => (true, t)
    | 43 :: t => (false, t)
    | _ => (false, s)
  if ds.isEmpty then none
  else if !ds.all isDigit then none
  else
    let n := digitsVal ds
    if neg then (if n > 9223372036854775808 then none else some (-(n : Int)))
    else (if n > 9223372036854775807 then none else some (n : Int))

inductive Pushback
  | absent                -- no `grpc-retry-pushback-ms` in the trailer
  | ms (n : Int)          -- one value, a non-negative integer
  | abort                 -- one malformed or negative value, or several values
deriving Repr, DecidableEq

/-- The `sps := Trailer()["grpc-retry-pushback-ms"]` block of `shouldRetry`. -/
def parsePushback (sps : List (List UInt8)) : Pushback :=
  match sps with
  | [] => .absent
  | [v] => match atoi v with
    | none => .abort
    | some n => if n < 0 then .abort else .ms n
  | _ => .abort

/-! ### backoff -/

/-- `min(float64(InitialBackoff) * math.Pow(mult, k), float64(MaxBackoff))` over ℚ. -/
def backoffBase (p : Policy) (k : Nat) : Rat :=
  min ((p.initialBackoff : Rat) * p.multiplier ^ k) (p.maxBackoff : Rat)

/-- `cur *= 0.8 + 0.4*rand.Float64()`. -/
def jittered (base r : Rat) : Rat := base * (4 / 5 + 2 / 5 * r)

/-- `dur = time.Duration(math.MaxInt64); if cur < math.MaxInt64 { dur = time.Duration(int64(cur)) }`
    (the float64 constant math.MaxInt64 is 2^63): saturating since /repo 0ecebdc. -/
def backoffDur (p : Policy) (k : Nat) (r : Rat) : Int :=
  let cur := jittered (backoffBase p k) r
  if cur < 9223372036854775808 then toInt64 cur else maxInt64

/-- `dur = time.Duration(math.MaxInt64); if pushback <= math.MaxInt64/int(time.Millisecond)
    { dur = time.Millisecond * time.Duration(pushback) }`: saturating since /repo dab5ad1. -/
def pushbackDur (ms : Int) : Int :=
  if ms ≤ 9223372036854775807 / 1000000 then wrap64 (1000000 * ms) else maxInt64

/-! ### csAttempt.shouldRetry -/

/-- What `shouldRetry` reads from the failed attempt. -/
structure Attempt where
  drop : Bool                    -- a.drop
  hasStream : Bool               -- a.transportStream != nil
  allowTransparent : Bool        -- a.allowTransparentRetry
  unprocessed : Bool             -- transportStream.Unprocessed()
  trailersOnly : Bool            -- transportStream.TrailersOnly()
  pushback : List (List UInt8)   -- Trailer()["grpc-retry-pushback-ms"]
  code : Nat                     -- transportStream.Status().Code(), or status.Code(err) without a stream
deriving Repr, DecidableEq

/-- The retry bookkeeping of the clientStream. -/
structure CS where
  finished : Bool
  committed : Bool
  firstAttempt : Bool
  numRetries : Int
  sincePushback : Nat
  throttler : Option Throttler
deriving Repr, DecidableEq

inductive Decision
  | noRetry                                   -- (false, err)
  | transparent                               -- (true, nil)
  | exhausted                                 -- (false, "max retries exhausted …")
  | backoff (dur : Int) (fromPushback : Bool) -- timer armed with `dur`
deriving Repr, DecidableEq

/-- `csAttempt.shouldRetry` up to (and excluding) the timer wait, in source order. -/
def shouldRetry (disableRetry : Bool) (pol : Option Policy) (cs : CS) (a : Attempt) (r : Rat) : CS × Decision :=
  if cs.finished || cs.committed || a.drop then (cs, .noRetry)
  else if !a.hasStream && a.allowTransparent then (cs, .transparent)
  else if cs.firstAttempt && (a.hasStream && a.unprocessed) then (cs, .transparent)
  else if disableRetry then (cs, .noRetry)
  else if a.hasStream && !a.trailersOnly then (cs, .noRetry)
  else
    let pb := if a.hasStream then parsePushback a.pushback else .absent
    if pb = .abort then ({ cs with throttler := (throttleOpt cs.throttler).1 }, .noRetry)
    else match pol with
    | none => (cs, .noRetry)
    | some rp =>
      if !rp.codes.contains a.code then (cs, .noRetry)
      else
        let (thr, throttled) := throttleOpt cs.throttler
        let cs := { cs with throttler := thr }
        if throttled then (cs, .noRetry)
        else if cs.numRetries + 1 ≥ rp.maxAttempts then (cs, .exhausted)
        else match pb with
          | .ms n => ({ cs with sincePushback := 0 }, .backoff (pushbackDur n) true)
          | _ => ({ cs with sincePushback := cs.sincePushback + 1 },
                  .backoff (backoffDur rp cs.sincePushback r) false)

/-- The `select` after `time.NewTimer(dur)`: the timer fired (`numRetries++`, retry) — the
    other branch (context done) leaves the counters alone and returns the context error. -/
def timerFired (cs : CS) : CS := { cs with numRetries := cs.numRetries + 1 }

/-- `retryLocked` after a non-error `shouldRetry`: `cs.firstAttempt = false`. -/
def afterDecision (cs : CS) (d : Decision) : CS :=
  match d with
  | .transparent => { cs with firstAttempt := false }
  | .backoff _ _ => { timerFired cs with firstAttempt := false }
  | _ => cs

/-- A history of failed attempts of one RPC, each with its jitter draw; stops at the first
    attempt that is not retried. Returns the decisions taken. -/
def runAttempts (disableRetry : Bool) (pol : Option Policy) : CS → List (Attempt × Rat) → CS × List Decision
  | cs, [] => (cs, [])
  | cs, (a, r) :: rest =>
    let (cs', d) := shouldRetry disableRetry pol cs a r
    match d with
    | .noRetry | .exhausted => (cs', [d])
    | _ =>
      let (cs'', ds) := runAttempts disableRetry pol (afterDecision cs' d) rest
      (cs'', d :: ds)

/-- The property's `k` after a chronological history of decisions, starting from `k0`: the number
    of timed (non-transparent) retries since the last pushback. -/
def retriesSincePushback (k0 : Nat) : List Decision → Nat
  | [] => k0
  | .backoff _ true :: rest => retriesSincePushback 0 rest
  | .backoff _ false :: rest => retriesSincePushback (k0 + 1) rest
  | _ :: rest => retriesSincePushback k0 rest

/-- Operations on one channel's throttler, in the order the channel's mutex serialises them. -/
inductive ThrOp
  | failure      -- `throttle()` (from shouldRetry)
  | success      -- `successfulRPC()` (from clientStream.finish)
deriving Repr, DecidableEq

def Throttler.run (t : Throttler) : List ThrOp → Throttler
  | [] => t
  | .failure :: ops => Throttler.run t.throttle.1 ops
  | .success :: ops => Throttler.run t.success ops

/-- How far `shouldRetry` gets before the throttler is consulted (the statement's case split):
    `early` – finished/committed/dropped, transparent retry, retries disabled, or response
    headers were received (no token is touched); `abortPushback` – malformed / negative /
    multiple pushback (costs a token, no retry); `notRetryable` – no policy or the code is not
    in it (no token); `charged pb` – retryable code: a token is removed and the throttler
    decides. -/
inductive Stage
  | early
  | abortPushback
  | notRetryable
  | charged (pb : Pushback)
deriving Repr, DecidableEq

/-- the stages in which `shouldRetry` calls `throttle()` (a counted failure). -/
def Stage.charges : Stage → Bool
  | .abortPushback => true
  | .charged _ => true
  | _ => false

def stage (disableRetry : Bool) (pol : Option Policy) (cs : CS) (a : Attempt) : Stage :=
  if cs.finished || cs.committed || a.drop then .early
  else if !a.hasStream && a.allowTransparent then .early
  else if cs.firstAttempt && (a.hasStream && a.unprocessed) then .early
  else if disableRetry then .early
  else if a.hasStream && !a.trailersOnly then .early
  else
    let pb := if a.hasStream then parsePushback a.pushback else .absent
    if pb = .abort then .abortPushback
    else match pol with
    | none => .notRetryable
    | some rp => if !rp.codes.contains a.code then .notRetryable else .charged pb

end GrpcModel.Retry
