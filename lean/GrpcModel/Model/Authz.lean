/-
Model of authz/rbac_translator.go (translatePolicy, parseRules, parseRequest, parseHeaders, parsePeer,
getStringMatcher, getHeaderMatcher, unsupportedHeader) and of
authz/grpc_authz_server_interceptors.go (NewStatic, StaticInterceptor.UnaryInterceptor / StreamInterceptor).

The JSON decoding itself is not modelled: the SDK policy is the decoded `authorizationPolicy` struct
(the harness renders it to JSON and feeds the real `NewStatic`).  Audit logging options are not modelled.

`Spec` below is the reference reading of the SDK policy language (gRFC A43): what the property calls
"matches a deny rule / matches some allow rule"; it looks only at the rules as written.
-/
import GrpcModel.Model.RBAC
import GrpcModel.Generated.Authz
namespace GrpcModel.Authz
open GrpcModel.RBAC

structure Header where
  key : Str
  values : List Str
deriving DecidableEq, Repr

/-- `rule`: name, source.principals, request.paths, request.headers -/
structure Rule where
  name : Str
  principals : List Str
  paths : List Str
  headers : List Header
deriving DecidableEq, Repr

/-- `authorizationPolicy` (without audit_logging_options) -/
structure SDKPolicy where
  name : Str
  deny : List Rule
  allow : List Rule
deriving DecidableEq, Repr

def star : UInt8 := 42

/-- `getStringMatcher`. -/
def getStringMatcher (v : Str) : StrM :=
  if v = [star] then ⟨.regex .dotPlus, false⟩
  else if v.getLast? = some star then ⟨.pfx v.dropLast, false⟩
  else if v.head? = some star then ⟨.sfx v.tail, false⟩
  else ⟨.exact v, false⟩

/-- `getHeaderMatcher`. -/
def getHeaderMatcher (key v : Str) : HdrM :=
  if v = [star] then ⟨key, .regex .dotPlus, false⟩
  else if v.getLast? = some star then ⟨key, .pfx v.dropLast, false⟩
  else if v.head? = some star then ⟨key, .sfx v.tail, false⟩
  else ⟨key, .exact v, false⟩

/-- `parsePeer` / `parsePrincipalNames` / `principalOr`. -/
def parsePeer (principals : List Str) : Prin :=
  if principals.isEmpty then .any
  else .or (PrinList.ofList (principals.map fun p => .authenticated (some (getStringMatcher p))))

/-- `parsePaths`. -/
def parsePaths (paths : List Str) : List Perm := paths.map fun p => .urlPath (some (getStringMatcher p))

def strBytes (s : String) : Str := s.toUTF8.toList

/-- `unsupportedHeader` on the lower-cased, non-empty key. -/
def unsupportedHeader (key : Str) : Bool :=
  key.head? = some 58 || (strBytes "grpc-").isPrefixOf key
    || Generated.authzUnsupportedHeaders.any (fun e => strBytes e.1 == key && e.2 == "true")

/-- `parseHeaders`: `none` = error. -/
def parseHeaders : List Header → Option (List Perm)
  | [] => some []
  | h :: t =>
    if h.key.isEmpty then none
    else
      let k := lower h.key
      if unsupportedHeader k then none
      else if h.values.isEmpty then none
      else match parseHeaders t with
        | none => none
        | some rest => some (.or (PermList.ofList (h.values.map fun v => .header (getHeaderMatcher k v))) :: rest)

/-- `parseRequest`. -/
def parseRequest (paths : List Str) (headers : List Header) : Option Perm :=
  let a1 : List Perm := if paths.isEmpty then [] else [.or (PermList.ofList (parsePaths paths))]
  if headers.isEmpty then
    some (if a1.isEmpty then .any else .and (PermList.ofList a1))
  else match parseHeaders headers with
    | none => none
    | some hs => some (.and (PermList.ofList (a1 ++ [.and (PermList.ofList hs)])))

/-- Go map assignment `policies[name] = p` on an association list (entry order is immaterial: the engine only
    asks whether some policy matches). -/
def upsert (m : List (Str × Policy)) (k : Str) (v : Policy) : List (Str × Policy) :=
  (k, v) :: m.filter (fun e => e.1 != k)

/-- `parseRules`: the result is a map keyed by `prefix_ruleName`; a later rule with the same name
    overwrites the earlier one. -/
def parseRules (pfx : Str) : List Rule → List (Str × Policy) → Option (List (Str × Policy))
  | [], acc => some acc
  | rule :: t, acc =>
    if rule.name.isEmpty then none
    else match parseRequest rule.paths rule.headers with
      | none => none
      | some perm =>
        parseRules pfx t
          (upsert acc (pfx ++ 95 :: rule.name) ⟨.cons perm .nil, .cons (parsePeer rule.principals) .nil⟩)

/-- `translatePolicy`: `none` = rejected. Deny engine (if any deny rules) followed by the allow engine. -/
def translate (p : SDKPolicy) : Option Chain :=
  if p.name.isEmpty then none
  else if p.allow.isEmpty then none
  else
    match (if p.deny.isEmpty then some none else (parseRules p.name p.deny []).map some) with
    | none => none
    | some denyPols =>
      match parseRules p.name p.allow [] with
      | none => none
      | some allowPols =>
        let allowE : Engine := ⟨.allow, allowPols.map (·.2)⟩
        match denyPols with
        | none => some [allowE]
        | some dp => some [⟨.deny, dp.map (·.2)⟩, allowE]

/-- `NewStatic`: translatePolicy then NewChainEngine. -/
def newStatic (p : SDKPolicy) : Option Chain := (translate p).bind newChainEngine

/-- `StaticInterceptor.UnaryInterceptor`: allow = handler invoked; deny = PermissionDenied; internal = the
    engine's error passed through. -/
def intercept (c : Chain) (r : Request) : Decision := isAuthorized c r

/-! ### reference semantics of the SDK policy language -/
namespace Spec

/-- wildcard match of gRFC A43: "*" = any non-empty value, "p*" prefix, "*s" suffix, otherwise exact. -/
def glob (pat v : Str) : Bool :=
  if pat = [star] then (!v.isEmpty && !v.contains 10)
  else if pat.getLast? = some star then pat.dropLast.isPrefixOf v
  else if pat.head? = some star then pat.tail.isSuffixOf v
  else v == pat

/-- the authenticated identities of the peer: URI SANs, else DNS SANs, else the subject; no
    certificate = the empty identity. -/
def identities (r : Request) : List Str :=
  match r.certs with
  | [] => [[]]
  | c :: _ => if !c.uris.isEmpty then c.uris else if !c.dns.isEmpty then c.dns else [c.subject]

def principalMatches (r : Request) (pat : Str) : Bool := r.tls && (identities r).any (glob pat)

def headerMatches (r : Request) (h : Header) : Bool :=
  match valueFromMD r.headers (lower h.key) with
  | none => false
  | some v => h.values.any fun pat => glob pat v

/-- a rule matches when the peer is one of its principals (no principals = anyone), the method is one of
    its paths (no paths = any) and every listed header has one of its values. -/
def ruleMatches (r : Request) (rule : Rule) : Bool :=
  (rule.principals.isEmpty || rule.principals.any (principalMatches r))
  && (rule.paths.isEmpty || rule.paths.any (fun p => glob p r.path))
  && rule.headers.all (headerMatches r)

/-- "denied if it matches any deny rule and otherwise allowed exactly when it matches some allow rule" -/
def decision (p : SDKPolicy) (r : Request) : Decision :=
  if p.deny.any (ruleMatches r) then .deny
  else if p.allow.any (ruleMatches r) then .allow
  else .deny

/-- the rules a map keyed by rule name keeps: those whose name is not repeated by a later rule of the list -/
def lastWins : List Rule → List Rule
  | [] => []
  | r :: t => if t.any (fun r' => r'.name == r.name) then lastWins t else r :: lastWins t

end Spec

end GrpcModel.Authz
