/-
Model of metadata/metadata.go (public API):
  New, Pairs, MD.Len/Copy/Get/Set/Append/Delete, Join, NewIncomingContext, NewOutgoingContext,
  AppendToOutgoingContext, FromIncomingContext, ValueFromIncomingContext, FromOutgoingContext,
  ValueFromOutgoingContext, rawMD{md, added}, copyOf.

A key is the list of its byte codes (`List Nat`); the valid domain of metadata keys is ASCII, where
`strings.ToLower` is `lower` below and `strings.EqualFold a b` is `lower a = lower b`.
A Go `map[string][]string` is an association list with unique exact keys whose LIST ORDER IS THE
ORDER A `range` LOOP VISITS IT. Go randomises that order; the theorems (GrpcProofs/Properties/C28)
show that under `NoFoldCollision` no result depends on it. `nil` and empty `[]string` are both `[]`.
-/
namespace GrpcModel.MD

abbrev Key := List Nat
abbrev Val := String

/-- ASCII `unicode.ToLower` -/
def lowerC (n : Nat) : Nat := if 65 ≤ n ∧ n ≤ 90 then n + 32 else n
/-- `strings.ToLower` on an ASCII string -/
def lower (k : Key) : Key := k.map lowerC

/-- Go map `MD`, in iteration order. -/
abbrev MD := List (Key × List Val)

/-- `v, ok := md[k]` -/
def mget : MD → Key → Option (List Val)
  | [], _ => none
  | (k', v) :: t, k => if k' = k then some v else mget t k

/-- `md[k]` (nil when absent) -/
def mgetD (md : MD) (k : Key) : List Val := (mget md k).getD []

/-- `md[k] = v` -/
def mset : MD → Key → List Val → MD
  | [], k, v => [(k, v)]
  | (k', v') :: t, k, v => if k' = k then (k, v) :: t else (k', v') :: mset t k v

/-- `delete(md, k)` -/
def mdel (md : MD) (k : Key) : MD := md.filter fun e => !(e.1 == k)

/-- one step of `md[key] = append(md[key], val)` with `key := strings.ToLower(k)` -/
def addPair (md : MD) (p : Key × Val) : MD := mset md (lower p.1) (mgetD md (lower p.1) ++ [p.2])

/-- `New(m)`: `m` is the argument map in iteration order. -/
def new (m : List (Key × Val)) : MD := m.foldl addPair []

/-- `Pairs(kv...)` on an even-length argument list given as pairs (odd length panics). -/
def pairs (kv : List (Key × Val)) : MD := kv.foldl addPair []

def len (md : MD) : Nat := md.length

/-- `md.Copy()` (value level: every slice is `copyOf`) -/
def copy (md : MD) : MD := md.foldl (fun out e => mset out e.1 e.2) []

/-- `md.Get(k)` -/
def get (md : MD) (k : Key) : List Val := mgetD md (lower k)

/-- `md.Set(k, vals...)` -/
def set (md : MD) (k : Key) (vals : List Val) : MD :=
  if vals.isEmpty then md else mset md (lower k) vals

/-- `md.Append(k, vals...)` -/
def append (md : MD) (k : Key) (vals : List Val) : MD :=
  if vals.isEmpty then md else mset md (lower k) (mgetD md (lower k) ++ vals)

/-- `md.Delete(k)` -/
def delete (md : MD) (k : Key) : MD := mdel md (lower k)

/-- inner loop of `Join`: `out[k] = append(out[k], v...)` (keys are NOT lower-cased by Join) -/
def joinOne (out md : MD) : MD := md.foldl (fun out e => mset out e.1 (mgetD out e.1 ++ e.2)) out

/-- `Join(mds...)` -/
def join (mds : List MD) : MD := mds.foldl joinOne []

/-- `FromIncomingContext`'s loop: `out[strings.ToLower(k)] = copyOf(v)` -/
def fromIncoming (md : MD) : MD := md.foldl (fun out e => mset out (lower e.1) e.2) []

/-- first entry (in iteration order) whose key is EqualFold to `key` -/
def findFold : MD → Key → Option (List Val)
  | [], _ => none
  | (k', v) :: t, key => if lower k' = lower key then some v else findFold t key

/-- `ValueFromIncomingContext(ctx, key)` for a context that carries `md`:
    exact `md[key]` (key as given) first, else the first EqualFold match. -/
def valueFromIncoming (md : MD) (key : Key) : List Val :=
  match mget md key with
  | some v => v
  | none => (findFold md key).getD []

/-- `rawMD{md, added}`; `md = none` is the nil map of a context that only ever saw
    AppendToOutgoingContext. `added` holds one list per AppendToOutgoingContext call; only even
    lengths can be stored (odd panics), so each is a list of pairs. -/
structure RawMD where
  md : Option MD
  added : List (List (Key × Val))
deriving Repr, DecidableEq

/-- `NewOutgoingContext(ctx, md)` -/
def newOutgoing (md : MD) : RawMD := ⟨some md, []⟩

/-- `AppendToOutgoingContext(ctx, kv...)` on the context's rawMD (`none`: no outgoing MD yet). -/
def appendToOutgoing (raw : Option RawMD) (kv : List (Key × Val)) : RawMD :=
  let r := raw.getD ⟨none, []⟩
  ⟨r.md, r.added ++ [kv.map fun p => (lower p.1, p.2)]⟩

/-- `FromOutgoingContext` -/
def fromOutgoing (raw : RawMD) : MD :=
  raw.added.foldl (fun out kv => kv.foldl addPair out) (fromIncoming (raw.md.getD []))

/-- values of the pairs of the `added` lists whose key matches (`added[i] == key || EqualFold`) -/
def addedVals (added : List (List (Key × Val))) (key : Key) : List Val :=
  (added.flatten.filter fun p => lower p.1 = lower key).map (·.2)

/-- `ValueFromOutgoingContext(ctx, key)` -/
def valueFromOutgoing (raw : RawMD) (key : Key) : List Val :=
  let key := lower key
  let md := raw.md.getD []
  let matched := match mget md key with
    | some v => v
    | none => (findFold md key).getD []
  matched ++ addedVals raw.added key

/-! ## Specification vocabulary -/

/-- No two distinct keys of the map are equal up to case. -/
def NoFoldCollision (md : MD) : Prop := md.Pairwise fun a b => lower a.1 ≠ lower b.1

def noFoldCollision : MD → Bool
  | [] => true
  | e :: t => t.all (fun b => lower e.1 != lower b.1) && noFoldCollision t

/-- The multimap an MD denotes, at a lower-case key: the values of its entries whose key folds to it
    (concatenated in iteration order — a single entry under `NoFoldCollision`). -/
def foldLookup (md : MD) (k : Key) : List Val :=
  (md.filter fun e => lower e.1 = lower k).flatMap (·.2)

/-- Spec of the outgoing metadata at key `k`: base values, then appended values in call order. -/
def specOutgoing (raw : RawMD) (k : Key) : List Val :=
  foldLookup (raw.md.getD []) k ++ addedVals raw.added k

def isLower (k : Key) : Bool := lower k == k

end GrpcModel.MD
