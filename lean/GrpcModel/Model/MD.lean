/-
Model of metadata/metadata.go (public API):
  New, Pairs, MD.Len/Copy/Get/Set/Append/Delete, Join, NewIncomingContext, NewOutgoingContext,
  AppendToOutgoingContext, FromIncomingContext, ValueFromIncomingContext, FromOutgoingContext,
  ValueFromOutgoingContext, rawMD{md, added}, copyOf.

A key is the list of its byte codes (`List Nat`); the valid domain of metadata keys is ASCII, where
`strings.ToLower` is `lower` below and `strings.EqualFold a b` is `lower a = lower b`.
A Go `map[string][]string` is an association list with unique exact keys whose LIST ORDER IS THE
ORDER A `range` LOOP VISITS IT. Go randomises that order; the theorems (GrpcProofs/Properties/C28)
show that under `NoFoldCollision` no result depends on it. `nil` and empty `[]string` are both `[]`.
-/
namespace GrpcModel.MD

abbrev Key := List Nat
abbrev Val := String

/-- ASCII `unicode.ToLower` -/
def lowerC (n : Nat) : Nat := if 65 ≤ n ∧ n ≤ 90 then n + 32 else n
/-- `strings.ToLower` on an ASCII string -/
def lower (k : Key) : Key := k.map lowerC

/-- Go map `MD`, in iteration order. -/
abbrev MD := List (Key × List Val)

/-- `v, ok := md[k]` -/
def mget : MD → Key → Option (List Val)
  | [], _ => none
  | (k', v) :: t, k => if k' = k then some v else mget t k

/-- `md[k]` (nil when absent) -/
def mgetD (md : MD) (k : Key) : List Val := (mget md k).getD []

/-- `md[k] = v` -/
def mset : MD → Key → List Val → MD
  | [], k, v => [(k, v)]
  | (k', v') :: t, k, v => if k' = k then (k, v) :: t else (k', v') :: mset t k v

/-- `delete(md, k)` -/
def mdel (md : MD) (k : Key) : MD := md.filter fun e => !(e.1 == k)

/-- one step of `md[key] = append(md[key], val)` with `key := strings.ToLower(k)` -/
def addPair (md : MD) (p : Key × Val) : MD := mset md (lower p.1) (mgetD md (lower p.1) ++ [p.2])

/-- `New(m)`: `m` is the argument map in iteration order. -/
def mdNew (m : List (Key × Val)) : MD := m.foldl addPair []

/-- `Pairs(kv...)` on an even-length argument list given as pairs (odd length panics). -/
def mdPairs (kv : List (Key × Val)) : MD := kv.foldl addPair []

def mdLen (md : MD) : Nat := md.length

/-- `md.Copy()` (value level: every slice is `copyOf`) -/
def mdCopy (md : MD) : MD := md.foldl (fun out e => mset out e.1 e.2) []

/-- `md.Get(k)` -/
def mdGet (md : MD) (k : Key) : List Val := mgetD md (lower k)

/-- `md.Set(k, vals...)` -/
def mdSet (md : MD) (k : Key) (vals : List Val) : MD :=
  if vals.isEmpty then md else mset md (lower k) vals

/-- `md.Append(k, vals...)` -/
def mdAppend (md : MD) (k : Key) (vals : List Val) : MD :=
  if vals.isEmpty then md else mset md (lower k) (mgetD md (lower k) ++ vals)

/-- `md.Delete(k)` -/
def mdDelete (md : MD) (k : Key) : MD := mdel md (lower k)

/-- inner loop of `Join`: `out[k] = append(out[k], v...)` (keys are NOT lower-cased by Join) -/
def joinOne (out md : MD) : MD := md.foldl (fun out e => mset out e.1 (mgetD out e.1 ++ e.2)) out

/-- `Join(mds...)` -/
def mdJoin (mds : List MD) : MD := mds.foldl joinOne []

/-- `FromIncomingContext`'s loop: `out[strings.ToLower(k)] = copyOf(v)` -/
def fromIncoming (md : MD) : MD := md.foldl (fun out e => mset out (lower e.1) e.2) []

/-- first entry (in iteration order) whose key is EqualFold to `key` -/
def findFold : MD → Key → Option (List Val)
  | [], _ => none
  | (k', v) :: t, key => if lower k' = lower key then some v else findFold t key

/-- `if v, ok := md[key]; ok { … } else { for k, v := range md { if strings.EqualFold(k, key) {…} } }`:
    the exact entry first, else the first EqualFold match in iteration order. -/
def exactOrFold (md : MD) (key : Key) : List Val :=
  match mget md key with
  | some v => v
  | none => (findFold md key).getD []

/-- `ValueFromIncomingContext(ctx, key)` for a context that carries `md` (key as given). -/
def valueFromIncoming (md : MD) (key : Key) : List Val := exactOrFold md key

/-- `rawMD{md, added}`; `md = none` is the nil map of a context that only ever saw
    AppendToOutgoingContext. `added` holds one list per AppendToOutgoingContext call; only even
    lengths can be stored (odd panics), so each is a list of pairs. -/
structure RawMD where
  md : Option MD
  added : List (List (Key × Val))
deriving Repr, DecidableEq

/-- `NewOutgoingContext(ctx, md)` -/
def newOutgoing (md : MD) : RawMD := ⟨some md, []⟩

/-- `AppendToOutgoingContext(ctx, kv...)` on the context's rawMD (`none`: no outgoing MD yet). -/
def appendToOutgoing (raw : Option RawMD) (kv : List (Key × Val)) : RawMD :=
  let r := raw.getD ⟨none, []⟩
  ⟨r.md, r.added ++ [kv.map fun p => (lower p.1, p.2)]⟩

/-- `FromOutgoingContext` -/
def fromOutgoing (raw : RawMD) : MD :=
  raw.added.foldl (fun out kv => kv.foldl addPair out) (fromIncoming (raw.md.getD []))

/-- values of the pairs of the `added` lists whose key matches (`added[i] == key || EqualFold`) -/
def addedVals (added : List (List (Key × Val))) (key : Key) : List Val :=
  (added.flatten.filter fun p => lower p.1 = lower key).map (·.2)

/-- `ValueFromOutgoingContext(ctx, key)` -/
def valueFromOutgoing (raw : RawMD) (key : Key) : List Val :=
  let key := lower key
  exactOrFold (raw.md.getD []) key ++ addedVals raw.added key

/-! ## Specification vocabulary -/

/-- No two distinct keys of the map are equal up to case. -/
def NoFoldCollision (md : MD) : Prop := md.Pairwise fun a b => lower a.1 ≠ lower b.1

def noFoldCollision : MD → Bool
  | [] => true
  | e :: t => t.all (fun b => lower e.1 != lower b.1) && noFoldCollision t

/-- The multimap an MD denotes, at a lower-case key: the values of its entries whose key folds to it
    (concatenated in iteration order — a single entry under `NoFoldCollision`). -/
def foldLookup (md : MD) (k : Key) : List Val :=
  (md.filter fun e => lower e.1 = lower k).flatMap (·.2)

/-- Spec of the outgoing metadata at key `k`: base values, then appended values in call order. -/
def specOutgoing (raw : RawMD) (k : Key) : List Val :=
  foldLookup (raw.md.getD []) k ++ addedVals raw.added k

def isLower (k : Key) : Bool := lower k == k

/-- values of the pairs whose key folds to `k`, in order -/
def pairVals (kv : List (Key × Val)) (k : Key) : List Val :=
  (kv.filter fun p => lower p.1 = lower k).map (·.2)

/-- A history of outgoing-context calls. -/
inductive OutOp
  | newOut (md : MD)                    -- NewOutgoingContext(ctx, md)
  | appendOut (kv : List (Key × Val))   -- AppendToOutgoingContext(ctx, kv...)

def stepOut (raw : Option RawMD) : OutOp → Option RawMD
  | .newOut md => some (newOutgoing md)
  | .appendOut kv => some (appendToOutgoing raw kv)

/-- the rawMD a context carries after the calls `ops` (starting from a context without outgoing MD) -/
def runOut (ops : List OutOp) : Option RawMD := ops.foldl stepOut none

def stepSpec (f : Key → List Val) : OutOp → Key → List Val
  | .newOut md => foldLookup md
  | .appendOut kv => fun k => f k ++ pairVals kv k

/-- the multimap the history denotes: NewOutgoingContext resets to the MD's multimap, each
    AppendToOutgoingContext appends its pairs' values per (lower-cased) key in call order -/
def histSpec (ops : List OutOp) : Key → List Val := ops.foldl stepSpec (fun _ => [])

/-! ## The reference machine: map objects on a heap, immutable contexts that REFER to them

`NewIncomingContext`/`NewOutgoingContext` store the caller's map itself (documented: "md must not
be modified after calling this function"), so contexts hold object ids, and a later mutation of
that object is visible through the context — in Go and here. Slices are values: the API never
shares a `[]string` between two maps (that is what the harness' scribble probes check). -/

structure Ctx where
  inc : Option Nat
  out : Option (Option Nat × List (List (Key × Val)))
deriving Repr, DecidableEq

structure St where
  objs : List (Nat × MD) := []
  ctxs : List (Nat × Ctx) := []

inductive Op
  | lit (d : Nat) (md : MD)
  | new (d : Nat) (m : List (Key × Val))
  | pairs (d : Nat) (kv : List (Key × Val))
  | copy (d s : Nat)
  | join (d : Nat) (srcs : List Nat)
  | get (m : Nat) (k : Key)
  | set (m : Nat) (k : Key) (vs : List Val)
  | append (m : Nat) (k : Key) (vs : List Val)
  | delete (m : Nat) (k : Key)
  | len (m : Nat)
  | dump (m : Nat)
  | scribble (m : Nat)
  | bg (c : Nat)
  | newin (c p m : Nat)
  | newout (c p m : Nat)
  | appendout (c p : Nat) (kv : List (Key × Val))
  | fromin (d c : Nat)
  | fromout (d c : Nat)
  | valin (c : Nat) (k : Key)
  | valout (c : Nat) (k : Key)

inductive Out
  | ok | bad | absent
  | vals (l : List Val)
  | md (m : MD)
  | num (n : Nat)
deriving Repr, DecidableEq

def getObj (st : St) (i : Nat) : Option MD := st.objs.lookup i
def getCtx (st : St) (c : Nat) : Option Ctx := st.ctxs.lookup c

def putObjs : List (Nat × MD) → Nat → MD → List (Nat × MD)
  | [], i, md => [(i, md)]
  | (j, m) :: t, i, md => if j = i then (i, md) :: t else (j, m) :: putObjs t i md

def putObj (st : St) (i : Nat) (md : MD) : St := { st with objs := putObjs st.objs i md }

/-- the rawMD a context denotes in the current heap -/
def rawOf (st : St) (c : Ctx) : Option RawMD :=
  c.out.map fun o => ⟨o.1.bind (getObj st), o.2⟩

def incOf (st : St) (c : Ctx) : Option MD := c.inc.bind (getObj st)

/-- allocate object `d` (must be unused) -/
def create (st : St) (d : Nat) (md : MD) : St × Out :=
  match getObj st d with
  | some _ => (st, .bad)
  | none => (putObj st d md, .md md)

/-- mutate object `m` in place -/
def mutate (st : St) (m : Nat) (f : MD → MD) : St × Out :=
  match getObj st m with
  | none => (st, .bad)
  | some md => (putObj st m (f md), .ok)

def addCtx (st : St) (c : Nat) (x : Ctx) : St × Out :=
  match getCtx st c with
  | some _ => (st, .bad)
  | none => ({ st with ctxs := st.ctxs ++ [(c, x)] }, .ok)

def lowerKV (kv : List (Key × Val)) : List (Key × Val) := kv.map fun p => (lower p.1, p.2)

def step (st : St) : Op → St × Out
  | .lit d md => create st d md
  | .new d m => create st d (mdNew m)
  | .pairs d kv => create st d (mdPairs kv)
  | .copy d s => match getObj st s with
    | none => (st, .bad)
    | some md => create st d (mdCopy md)
  | .join d srcs => match srcs.mapM (getObj st) with
    | none => (st, .bad)
    | some mds => create st d (mdJoin mds)
  | .get m k => match getObj st m with
    | none => (st, .bad)
    | some md => (st, .vals (mdGet md k))
  | .set m k vs => mutate st m (fun md => mdSet md k vs)
  | .append m k vs => mutate st m (fun md => mdAppend md k vs)
  | .delete m k => mutate st m (fun md => mdDelete md k)
  | .len m => match getObj st m with
    | none => (st, .bad)
    | some md => (st, .num (mdLen md))
  | .dump m => match getObj st m with
    | none => (st, .bad)
    | some md => (st, .md md)
  | .scribble m => mutate st m (fun _ => [])
  | .bg c => addCtx st c ⟨none, none⟩
  | .newin c p m => match getCtx st p, getObj st m with
    | some pc, some _ => addCtx st c { pc with inc := some m }
    | _, _ => (st, .bad)
  | .newout c p m => match getCtx st p, getObj st m with
    | some pc, some _ => addCtx st c { pc with out := some (some m, []) }
    | _, _ => (st, .bad)
  | .appendout c p kv => match getCtx st p with
    | some pc =>
      let o := pc.out.getD (none, [])
      addCtx st c { pc with out := some (o.1, o.2 ++ [lowerKV kv]) }
    | none => (st, .bad)
  | .fromin d c => match getCtx st c with
    | none => (st, .bad)
    | some x => match incOf st x with
      | none => (st, .absent)
      | some md => create st d (fromIncoming md)
  | .fromout d c => match getCtx st c with
    | none => (st, .bad)
    | some x => match rawOf st x with
      | none => (st, .absent)
      | some raw => create st d (fromOutgoing raw)
  | .valin c k => match getCtx st c with
    | none => (st, .bad)
    | some x => (st, .vals ((incOf st x).elim [] (valueFromIncoming · k)))
  | .valout c k => match getCtx st c with
    | none => (st, .bad)
    | some x => (st, .vals ((rawOf st x).elim [] (valueFromOutgoing · k)))

end GrpcModel.MD
