/-
Model of internal/grpcsync/refcounted.go (RefCounted[T]) at the grain of individual accesses to the
`refCount atomic.Int32`: every Load / CompareAndSwap / Add is ONE rule.  Threads are anonymous
(counting abstraction): the state records how many goroutines sit at each program point, and for
the goroutines parked between the Load and the CompareAndSwap of TryIncrement the multiset of the
values they loaded.  Every theorem about this transition system therefore holds for ANY number of
concurrent TryIncrement / Increment / Decrement callers.

Program points (a goroutine is *at* a point when the access named there is its next action):

  TryIncrement   tL      : count := rc.refCount.Load()                (top of the `for` loop)
                 tC (c)  : rc.refCount.CompareAndSwap(c, c+1)          (loaded c > 0)
  Increment              : rc.refCount.Add(1)      (one access; `<= 1` → logger.Errorf)
  Decrement              : rc.refCount.Add(-1)     (v < 0 → logger.Errorf; v == 0 → point z)
                 z       : rc.onZero()             (called synchronously by the goroutine whose Add returned 0)

Ghost state (not in the Go code, used to state the contract and the theorems):
  held   – number of live references: +1 on NewRefCounted, successful TryIncrement, Increment;
           -1 on Decrement (while positive).
  dead   – the count has been 0 at some earlier moment.
  misuse – Increment was called although no live reference existed (the documented contract of
           Increment: "Call Increment only when there is a guarantee that an active reference is
           already present").  Decrementing more often than references exist is NOT excluded: the
           theorems hold for it.
The int32 range of the counter is the explicit guard on the rules that add or subtract.
-/
namespace GrpcModel.RefCounted

/-- math.MaxInt32 -/
def maxInt32 : Int := 2147483647
/-- math.MinInt32 -/
def minInt32 : Int := -2147483648

structure St where
  cnt    : Int        -- rc.refCount
  held   : Nat        -- ghost
  dead   : Bool       -- ghost
  misuse : Bool       -- ghost
  tL     : Nat        -- TryIncrement goroutines before the Load
  tC     : List Int   -- TryIncrement goroutines before the CAS, with the value each one loaded
  z      : Nat        -- Decrement goroutines whose Add returned 0, before rc.onZero()
  zeros  : Nat        -- onZero() calls so far
  trues  : Nat        -- TryIncrement calls that returned true
  falses : Nat        -- TryIncrement calls that returned false
  errs   : Nat        -- logger.Errorf calls ("already closed or dead" / "cannot be negative")
deriving Repr, DecidableEq, Inhabited

/-- NewRefCounted: `rc.refCount.Store(1)`, one live reference (the creator's). -/
def init : St :=
  { cnt := 1, held := 1, dead := false, misuse := false, tL := 0, tC := [], z := 0, zeros := 0,
    trues := 0, falses := 0, errs := 0 }

inductive Rule
  | tryStart              -- TryIncrement called                                   → tL
  | tryLoadDead           -- tL: Load() <= 0; return false
  | tryLoadLive           -- tL: Load() = c > 0                                    → tC c
  | casOk (c : Int)       -- tC c: CompareAndSwap(c, c+1) succeeds; return true
  | casFail (c : Int)     -- tC c: CompareAndSwap fails                            → tL
  | incr                  -- Increment: Add(1); result <= 1 → Errorf
  | decr                  -- Decrement: Add(-1); v < 0 → Errorf; v == 0            → z
  | onZero                -- z: rc.onZero()
deriving DecidableEq, Repr

/-- One atomic step; `none` when the rule is not enabled in `s`. -/
def apply (s : St) : Rule → Option St
  | .tryStart => some { s with tL := s.tL + 1 }
  | .tryLoadDead =>
    if s.tL > 0 ∧ s.cnt ≤ 0 then some { s with tL := s.tL - 1, falses := s.falses + 1 } else none
  | .tryLoadLive =>
    if s.tL > 0 ∧ ¬ s.cnt ≤ 0 then some { s with tL := s.tL - 1, tC := s.cnt :: s.tC } else none
  | .casOk c =>
    if c ∈ s.tC ∧ s.cnt = c ∧ s.cnt < maxInt32 then
      some { s with tC := s.tC.erase c, cnt := s.cnt + 1, held := s.held + 1, trues := s.trues + 1 }
    else none
  | .casFail c =>
    if c ∈ s.tC ∧ s.cnt ≠ c then some { s with tC := s.tC.erase c, tL := s.tL + 1 } else none
  | .incr =>
    if s.cnt < maxInt32 then
      some { s with cnt := s.cnt + 1, held := s.held + 1, misuse := s.misuse || s.held == 0,
                    errs := if s.cnt + 1 ≤ 1 then s.errs + 1 else s.errs }
    else none
  | .decr =>
    if minInt32 < s.cnt then
      some { s with cnt := s.cnt - 1, held := s.held - 1, dead := s.dead || s.cnt - 1 == 0,
                    z := if s.cnt - 1 = 0 then s.z + 1 else s.z,
                    errs := if s.cnt - 1 < 0 then s.errs + 1 else s.errs }
    else none
  | .onZero => if s.z > 0 then some { s with z := s.z - 1, zeros := s.zeros + 1 } else none

/-- run a schedule; rules that are not enabled are skipped -/
def run (s : St) : List Rule → St
  | [] => s
  | r :: rs => match apply s r with
    | some t => run t rs
    | none => run s rs

/-- Reachable states: any schedule, any number of goroutines. -/
inductive Reach : St → Prop
  | init : Reach init
  | step {s t : St} (r : Rule) : Reach s → apply s r = some t → Reach t

end GrpcModel.RefCounted
