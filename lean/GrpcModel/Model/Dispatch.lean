/-
Model of
  server.go : Server.handleStream (path parsing, registry lookup, unknown-service handler,
              handleMalformedMethodName), Server.register (how the per-service method table is built)
Paths and names are byte lists (Go strings; `strings.CutPrefix`, `strings.LastIndex` and map
lookups are byte-wise).
-/
namespace GrpcModel.Dispatch

abbrev Bytes := List UInt8
abbrev slash : UInt8 := 47

/-- `pos := strings.LastIndex(sm, "/")`; `(sm[:pos], sm[pos+1:])`, `none` when there is no slash. -/
def splitLastSlash : Bytes → Option (Bytes × Bytes)
  | [] => none
  | b :: rest =>
    match splitLastSlash rest with
    | some (s, m) => some (b :: s, m)
    | none => if b = slash then some ([], rest) else none

/-- `sm, found := strings.CutPrefix(stream.Method(), "/")` then the split on the last slash.
    `none` = `handleMalformedMethodName`. -/
def parse : Bytes → Option (Bytes × Bytes)
  | b :: sm => if b = slash then splitLastSlash sm else none
  | [] => none

/-- A `ServiceDesc` as far as dispatch is concerned. -/
structure Service where
  name : Bytes
  methods : List Bytes      -- sd.Methods[i].MethodName
  streams : List Bytes      -- sd.Streams[i].StreamName
deriving Repr, DecidableEq

/-- Which registered handler: index into `Methods` (unary) or `Streams`. -/
inductive Entry
  | method (i : Nat)
  | stream (i : Nat)
deriving Repr, DecidableEq

/-- Index of the LAST element equal to `m` (a Go map insert in slice order: later wins). -/
def lastIndexOf (m : Bytes) : List Bytes → Option Nat
  | [] => none
  | x :: xs =>
    match lastIndexOf m xs with
    | some i => some (i + 1)
    | none => if x = m then some 0 else none

/-- `info.streams[method]` after `register`: Streams are inserted first, then Methods (which
    overwrite a stream of the same name). -/
def lookupMethod (svc : Service) (m : Bytes) : Option Entry :=
  match lastIndexOf m svc.methods with
  | some i => some (.method i)
  | none =>
    match lastIndexOf m svc.streams with
    | some i => some (.stream i)
    | none => none

/-- `s.services[service]` (registration rejects duplicate names, so the first match is the only one). -/
def findService (reg : List Service) (s : Bytes) : Option (Nat × Service) :=
  go reg 0
where
  go : List Service → Nat → Option (Nat × Service)
    | [], _ => none
    | x :: xs, i => if x.name = s then some (i, x) else go xs (i + 1)

inductive Outcome
  | malformed                         -- UNIMPLEMENTED "malformed method name", no handler
  | run (svc : Nat) (e : Entry)       -- processRPC with the registered StreamDesc
  | unknownHandler                    -- processRPC with opts.unknownStreamDesc
  | unimplService                     -- UNIMPLEMENTED "unknown service"
  | unimplMethod                      -- UNIMPLEMENTED "unknown method ... for service"
deriving Repr, DecidableEq

/-- `handleStream` from the method string on. `unk` = an UnknownServiceHandler is installed. -/
def dispatch (reg : List Service) (unk : Bool) (path : Bytes) : Outcome :=
  match parse path with
  | none => .malformed
  | some (s, m) =>
    match findService reg s with
    | some (i, svc) =>
      match lookupMethod svc m with
      | some e => .run i e
      | none => if unk then .unknownHandler else .unimplMethod
    | none => if unk then .unknownHandler else .unimplService

/-- The well-formed paths of the property: `"/" ++ service ++ "/" ++ method` (the method part
    without a slash; either part may be empty). -/
def wellFormed (path : Bytes) : Prop := ∃ s m, path = slash :: (s ++ slash :: m)

/-- Does an outcome invoke application code? -/
def Outcome.reachesHandler : Outcome → Bool
  | .run _ _ => true
  | .unknownHandler => true
  | _ => false

/-- The name under which a table entry was registered. -/
def entryName (svc : Service) : Entry → Option Bytes
  | .method i => svc.methods[i]?
  | .stream i => svc.streams[i]?

/-- `Server.register` rejects (log.Fatal) a second service with the same name. -/
def NoDupNames (reg : List Service) : Prop := (reg.map (·.name)).Nodup

/-- x/net/http2 (`httpguts.ValidHeaderFieldValue`): a header value with a control byte other than
    TAB is rejected by the framer (stream error PROTOCOL_ERROR) before gRPC sees the request. -/
def validFieldValue (v : Bytes) : Bool := v.all fun b => (b ≥ 32 && b ≠ 127) || b = 9

end GrpcModel.Dispatch
