/-
Model of the gRPC length-prefixed message framing in rpc_util.go:

  compress, msgHeader                         (sender)
  parser.recvMsg, checkRecvPayload, decompress, recvAndDecompress,
  gzipDecompressor.doWithMaxSize               (receiver)

Byte strings are `List UInt8`; the byte stream handed to the parser is the flat list of unread
bytes (the `streamReader` contract — `ReadMessageHeader` fills 5 bytes, `Read(n)` returns exactly
n bytes or an error — is C05's subject; how the stream was cut into DATA frames is invisible here).
The (de)compressor is a PARAMETER of the model (`Decomp`): gzip itself is not modelled.
Constants `compressionNone/Made`, `msgHeaderLen` are regenerated from the Go source (T4).
-/
import GrpcModel.Generated.Framing
namespace GrpcModel.Framing
open GrpcModel.Generated

abbrev Bytes := List UInt8

/-- What the caller of `recv` can observe as failure. `eof` = io.EOF (clean end of stream),
    `unexpectedEOF` = io.ErrUnexpectedEOF, the others are status codes. -/
inductive Err | eof | unexpectedEOF | resourceExhausted | internal | unimplemented
deriving DecidableEq, Repr

/-- `maxInt` (service_config.go) on a 64-bit platform. -/
abbrev maxInt : Nat := 9223372036854775807
/-- `math.MaxInt64` -/
abbrev maxInt64 : Nat := 9223372036854775807

/-- `binary.BigEndian.PutUint32(hdr[1:], uint32(n))` — note the silent truncation of `uint32(…)`. -/
def be32 (n : Nat) : Bytes :=
  [UInt8.ofNat (n / 16777216 % 256), UInt8.ofNat (n / 65536 % 256), UInt8.ofNat (n / 256 % 256), UInt8.ofNat (n % 256)]

/-- `binary.BigEndian.Uint32(b)` on (at least) four bytes. -/
def u32 : Bytes → Nat
  | a :: b :: c :: d :: _ => a.toNat * 16777216 + b.toNat * 65536 + c.toNat * 256 + d.toNat
  | _ => 0   -- not reachable: only applied to `header[1:]` of a full 5-byte header

/-! ### sender -/

/-- `compress(in, cp, compressor, pool)`: `none` = no compressor configured (both nil). Result:
    (compressed bytes or nil, payloadFormat). A zero-length message is never compressed. -/
def compress (comp : Option (Bytes → Bytes)) (data : Bytes) : Bytes × Nat :=
  match comp with
  | none => ([], compressionNone)
  | some f => if data.length = 0 then ([], compressionNone) else (f data, compressionMade)

/-- `msgHeader(data, compData, pf)`: 5-byte header and the payload that follows it. -/
def msgHeader (data compData : Bytes) (pf : Nat) : Bytes × Bytes :=
  if pf = compressionMade then (UInt8.ofNat pf :: be32 compData.length, compData)
  else (UInt8.ofNat pf :: be32 data.length, data)

/-- What one `SendMsg` puts on the wire: header followed by payload. -/
def frame (comp : Option (Bytes → Bytes)) (data : Bytes) : Bytes :=
  let c := compress comp data
  let h := msgHeader data c.1 c.2
  h.1 ++ h.2

/-! ### receiver -/

/-- `parser.recvMsg(maxReceiveMessageSize)`: result and the unread rest of the stream.
    The scripted/transport reader: `ReadMessageHeader` on an exhausted stream is io.EOF, on a
    partial header io.ErrUnexpectedEOF; `Read(0)` succeeds with no data; `Read(n)` that cannot be
    satisfied is io.EOF (nothing read, turned into ErrUnexpectedEOF by recvMsg) or ErrUnexpectedEOF. -/
def recvMsg (limit : Nat) (stream : Bytes) : Except Err (Nat × Bytes) × Bytes :=
  if stream.length = 0 then (.error .eof, [])
  else if stream.length < msgHeaderLen then (.error .unexpectedEOF, [])
  else
    let header := stream.take msgHeaderLen
    let rest := stream.drop msgHeaderLen
    let pf := (header.headD 0).toNat
    let length := u32 (header.drop msgPayloadLen)
    if length > maxInt then (.error .resourceExhausted, rest)
    else if length > limit then (.error .resourceExhausted, rest)
    else if rest.length < length then (.error .unexpectedEOF, [])
    else (.ok (pf, rest.take length), rest.drop length)

/-- The `grpc-encoding` the peer announced, as far as `checkRecvPayload` looks at it. -/
inductive RecvCompress | empty | identity | named
deriving DecidableEq, Repr

/-- `checkRecvPayload(pf, recvCompress, haveCompressor, isServer)`: `none` = nil status. -/
def checkRecvPayload (pf : Nat) (rc : RecvCompress) (haveCompressor isServer : Bool) : Option Err :=
  if pf = compressionNone then none
  else if pf = compressionMade then
    if rc = .empty ∨ rc = .identity then some .internal
    else if !haveCompressor then (if isServer then some .unimplemented else some .internal)
    else none
  else some .internal

/-- An abstract streaming decompressor applied to a payload:
    `none`             — `Decompress(r)` / `gzip.NewReader(r)` / `Do` fails before yielding anything;
    `some (data, bad)` — the reader yields `data` and then ends with io.EOF (`bad = false`) or with an
                         error (`bad = true`, e.g. a checksum mismatch or a truncated stream). -/
abbrev Decomp := Bytes → Option (Bytes × Bool)

/-- Which branch of `decompress` runs: no decompressor at all, the legacy `Decompressor` that is the
    built-in `*gzipDecompressor`, any other legacy `Decompressor` (`dc.Do`), or an
    `encoding.Compressor`. (`dc` takes precedence over `compressor`.) -/
inductive Path | none | legacyGzip | legacyCustom | newApi
deriving DecidableEq, Repr

/-- `io.ReadAll(io.LimitReader(z, limit+1))` (only when `limit < math.MaxInt64`): the bytes that are
    materialised, and whether the reader's terminal error was reached (it is not when the limit cut
    the read short). -/
def limitedRead (limit : Nat) (data : Bytes) (bad : Bool) : Bytes × Bool :=
  if limit < maxInt64 then
    let got := data.take (limit + 1)
    (got, bad && decide (data.length ≤ limit))
  else (data, bad)

/-- `decompress(compressor, d, dc, maxReceiveMessageSize, pool)`: result and the number of
    decompressed bytes that were materialised in memory. -/
def decompress (path : Path) (dec : Decomp) (limit : Nat) (d : Bytes) : Except Err Bytes × Nat :=
  match path with
  | .none => (.error .internal, 0)
  | .legacyCustom =>
    -- `dc.Do(r)`: the third-party decompressor returns everything it produces
    match dec d with
    | none => (.error .internal, 0)
    | some (data, bad) =>
      if bad then (.error .internal, data.length)
      else if data.length > limit then (.error .resourceExhausted, data.length)
      else (.ok data, data.length)
  | .legacyGzip | .newApi =>
    match dec d with
    | none => (.error .internal, 0)
    | some (data, bad) =>
      let r := limitedRead limit data bad
      if r.2 then (.error .internal, r.1.length)
      else if r.1.length > limit then (.error .resourceExhausted, r.1.length)
      else (.ok r.1, r.1.length)

/-- Receiver configuration. -/
structure Cfg where
  limit : Nat
  path : Path
  rc : RecvCompress
  isServer : Bool
deriving Repr

/-- One `recvAndDecompress` call. -/
structure Out where
  res : Except Err Bytes
  rest : Bytes
  /-- decompressed bytes materialised by this call -/
  mat : Nat

def recvAndDecompress (cfg : Cfg) (dec : Decomp) (stream : Bytes) : Out :=
  match recvMsg cfg.limit stream with
  | (.error e, rest) => ⟨.error e, rest, 0⟩
  | (.ok (pf, compressed), rest) =>
    match checkRecvPayload pf cfg.rc (cfg.path != .none) cfg.isServer with
    | some e => ⟨.error e, rest, 0⟩
    | none =>
      if pf = compressionMade then
        let r := decompress cfg.path dec cfg.limit compressed
        ⟨r.1, rest, r.2⟩
      else ⟨.ok compressed, rest, 0⟩

/-- Call `recv` until the first error (io.EOF included); the messages delivered and that error.
    `fuel` ≥ number of frames + 1 (`stream.length + 1` always suffices). -/
def recvAll (cfg : Cfg) (dec : Decomp) : Nat → Bytes → List Bytes × Err
  | 0, _ => ([], .eof)
  | fuel + 1, stream =>
    let o := recvAndDecompress cfg dec stream
    match o.res with
    | .error e => ([], e)
    | .ok m => let r := recvAll cfg dec fuel o.rest; (m :: r.1, r.2)

end GrpcModel.Framing
