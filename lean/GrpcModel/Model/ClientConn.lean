import GrpcModel.Generated.ClientConn
/-!
# Client HTTP/2 transport as a per-connection state machine (C11, C14)

Ports `internal/transport/http2_client.go` (`reader` dispatch, `operateHeaders`, `handleData`,
`handleRSTStream`, `handleSettings`, `handlePing`, `handleGoAway`, `handleWindowUpdate`,
`closeStream`, `NewStream`, `GracefulClose`, `Close`), the parts of `controlbuf.go` that decide
the fate of a client stream (`clientHeaderHandler`, `cleanupStreamHandler`,
`incomingGoAwayHandler`, `goAwayHandler`, `run`'s exit path, `controlBuffer.finish`) and
`client_stream.go` (non-gRPC response collection, `ClientStream.Close`).

Grain: one `Ev` is one critical section of the real code (a reader-loop iteration for one frame,
one loopy `handle(item)`, one `NewStream` attempt under `controlBuf.mu`+`t.mu`, one phase of
`Close`).  The theorems quantify over arbitrary sequences of `Ev`, i.e. over every interleaving
of the reader goroutine, loopy, the RPC goroutines and `Close`, and over every frame sequence the
framer can deliver.  What the `x/net/http2` framer returns is the model's input (`Frame`):
parsed frames, `streamErr` for an `http2.StreamError`, `connErr` for anything else.

Codes are gRPC status codes as numbers; the tables come from the Go source (T4).
Time is in milliseconds.
-/
namespace GrpcModel.ClientConn
open GrpcModel.Generated

abbrev Bytes := List UInt8

/-- 2^32, 2^31 and math.MaxUint32 (named so that elaboration never unfolds the literals) -/
def two32 : Nat := 4294967296
def two31 : Nat := 2147483648
def maxU32 : Nat := 4294967295

def b (s : String) : Bytes := s.toUTF8.toList

/-! ## codes and tables (T4) -/

/-- `codes.Code` value of an identifier of codes/codes.go (position in the iota block). -/
def codeOf (name : String) : Nat := codeNames.idxOf name

def cCanceled : Nat := codeOf "Canceled"
def cUnknown : Nat := codeOf "Unknown"
def cDeadline : Nat := codeOf "DeadlineExceeded"
def cInternal : Nat := codeOf "Internal"
def cUnavailable : Nat := codeOf "Unavailable"

/-- golang.org/x/net/http2 `ErrCode` identifiers by value (errors.go). -/
def h2ErrNames : List String :=
  ["ErrCodeNo", "ErrCodeProtocol", "ErrCodeInternal", "ErrCodeFlowControl", "ErrCodeSettingsTimeout",
   "ErrCodeStreamClosed", "ErrCodeFrameSize", "ErrCodeRefusedStream", "ErrCodeCancel", "ErrCodeCompression",
   "ErrCodeConnect", "ErrCodeEnhanceYourCalm", "ErrCodeInadequateSecurity", "ErrCodeHTTP11Required"]

def h2No : Nat := 0
def h2Protocol : Nat := 1
def h2FlowControl : Nat := 3
def h2FrameSize : Nat := 6
def h2RefusedStream : Nat := 7
def h2Cancel : Nat := 8
def h2EnhanceYourCalm : Nat := 11

/-- `http2ErrConvTab[code]` with the `ok` result. -/
def rstToCode (h2 : Nat) : Option Nat :=
  match h2ErrNames[h2]? with
  | none => none
  | some n => (http2ErrConvTab.lookup n).map codeOf

/-- net/http status constants (status.go). -/
def httpStatusNames : List (String × Int) :=
  [("StatusContinue",100),("StatusSwitchingProtocols",101),("StatusProcessing",102),("StatusEarlyHints",103),
   ("StatusOK",200),("StatusCreated",201),("StatusAccepted",202),("StatusNonAuthoritativeInfo",203),("StatusNoContent",204),
   ("StatusResetContent",205),("StatusPartialContent",206),("StatusMultiStatus",207),("StatusAlreadyReported",208),("StatusIMUsed",226),
   ("StatusMultipleChoices",300),("StatusMovedPermanently",301),("StatusFound",302),("StatusSeeOther",303),("StatusNotModified",304),
   ("StatusUseProxy",305),("StatusTemporaryRedirect",307),("StatusPermanentRedirect",308),
   ("StatusBadRequest",400),("StatusUnauthorized",401),("StatusPaymentRequired",402),("StatusForbidden",403),("StatusNotFound",404),
   ("StatusMethodNotAllowed",405),("StatusNotAcceptable",406),("StatusProxyAuthRequired",407),("StatusRequestTimeout",408),
   ("StatusConflict",409),("StatusGone",410),("StatusLengthRequired",411),("StatusPreconditionFailed",412),
   ("StatusRequestEntityTooLarge",413),("StatusRequestURITooLong",414),("StatusUnsupportedMediaType",415),
   ("StatusRequestedRangeNotSatisfiable",416),("StatusExpectationFailed",417),("StatusTeapot",418),("StatusMisdirectedRequest",421),
   ("StatusUnprocessableEntity",422),("StatusLocked",423),("StatusFailedDependency",424),("StatusTooEarly",425),
   ("StatusUpgradeRequired",426),("StatusPreconditionRequired",428),("StatusTooManyRequests",429),
   ("StatusRequestHeaderFieldsTooLarge",431),("StatusUnavailableForLegalReasons",451),
   ("StatusInternalServerError",500),("StatusNotImplemented",501),("StatusBadGateway",502),("StatusServiceUnavailable",503),
   ("StatusGatewayTimeout",504),("StatusHTTPVersionNotSupported",505),("StatusVariantAlsoNegotiates",506),
   ("StatusInsufficientStorage",507),("StatusLoopDetected",508),("StatusNotExtended",510),("StatusNetworkAuthenticationRequired",511)]

/-- `HTTPStatusConvTab[statusCode]` with the `ok` result. -/
def httpToCode (st : Int) : Option Nat :=
  (httpStatusConvTab.find? fun (k, _) => httpStatusNames.lookup k == some st).map fun (_, v) => codeOf v

/-! ## header value parsing used by `operateHeaders` -/

def isDigit (c : UInt8) : Bool := 48 ≤ c && c ≤ 57

def digitsVal (ds : Bytes) : Nat := ds.foldl (fun n c => n * 10 + (c.toNat - 48)) 0

/-- `strconv.ParseInt(s, 10, bits)` / `strconv.Atoi` (bits = 64): optional sign, one or more
ASCII digits, value within the signed range; anything else is an error. -/
def parseIntBits (bits : Nat) (s : Bytes) : Option Int :=
  let (neg, ds) := match s with
    | 45 :: r => (true, r)
    | 43 :: r => (false, r)
    | r => (false, r)
  if ds.isEmpty || !ds.all isDigit then none else
  let n := digitsVal ds
  if neg then (if n ≤ 2 ^ (bits - 1) then some (-(n : Int)) else none)
  else (if n < 2 ^ (bits - 1) then some (n : Int) else none)

/-- `codes.Code(uint32(code))` -/
def toUInt32 (i : Int) : Nat := (i % (two32 : Int)).toNat

def baseContentType : Bytes := b "application/grpc"

/-- `grpcutil.ContentSubtype(v)`'s boolean. -/
def validContentType (v : Bytes) : Bool :=
  if v = baseContentType then true
  else if !(baseContentType.isPrefixOf v) then false
  else match v.drop baseContentType.length with
    | 43 :: _ => true   -- '+'
    | 59 :: _ => true   -- ';'
    | _ => false

def isB64 (c : UInt8) : Bool :=
  (65 ≤ c && c ≤ 90) || (97 ≤ c && c ≤ 122) || (48 ≤ c && c ≤ 57) || c = 43 || c = 47

/-- padded quanta: every 4-group but the last is 4 alphabet bytes; the last may end in `=` or `==`. -/
def b64PaddedOK : Bytes → Bool
  | [] => true
  | [a, b', c, d] =>
    isB64 a && isB64 b' && ((isB64 c && (isB64 d || d = 61)) || (c = 61 && d = 61))
  | a :: b' :: c :: d :: rest => isB64 a && isB64 b' && isB64 c && isB64 d && b64PaddedOK rest
  | _ => false

/-- `decodeBinHeader(v)` succeeds: `base64.StdEncoding` when `len(v)%4 == 0`, else `RawStdEncoding`
(non-strict; header values cannot contain CR/LF). -/
def binOK (v : Bytes) : Bool :=
  if v.length % 4 = 0 then b64PaddedOK v
  else v.all isB64 && v.length % 4 ≠ 1

/-! ### `decodeGrpcMessage` (http_util.go), with Go's index checks made explicit

Every `msg[i]` / `msg[i+1:i+3]` of the Go code is a bounds-checked read here (`none` = the Go code
would panic with "index out of range"), so "the decoder never panics" is a theorem about this port
(`GrpcProofs.C11.decodeGrpcMessage_never_panics`), and the correspondence run ties the port to the
real function on every `grpc-message` value the scripted server sends. -/

def hexVal (c : UInt8) : Option Nat :=
  if 48 ≤ c && c ≤ 57 then some (c.toNat - 48)
  else if 97 ≤ c && c ≤ 102 then some (c.toNat - 87)
  else if 65 ≤ c && c ≤ 70 then some (c.toNat - 55)
  else none

/-- the loop of `decodeGrpcMessageUnchecked` from index `i` on (fuel ≥ remaining length) -/
def decodeLoop (m : Bytes) : Nat → Nat → Bytes → Option Bytes
  | 0, _, acc => some acc
  | fuel + 1, i, acc =>
    if i < m.length then
      match m[i]? with
      | none => none                                   -- msg[i]
      | some c =>
        if c = 37 && i + 2 < m.length then
          match m[i + 1]?, m[i + 2]? with              -- msg[i+1:i+3]
          | some x, some y =>
            (match hexVal x, hexVal y with             -- strconv.ParseUint(…, 16, 8)
             | some h, some l => decodeLoop m fuel (i + 3) (acc ++ [UInt8.ofNat (h * 16 + l)])
             | _, _ => decodeLoop m fuel (i + 1) (acc ++ [c]))
          | _, _ => none
        else decodeLoop m fuel (i + 1) (acc ++ [c])
    else some acc

def decodeGrpcMessageUnchecked (m : Bytes) : Option Bytes := decodeLoop m (m.length + 1) 0 []

/-- the scan of `decodeGrpcMessage`: is there a `%` with at least two bytes after it? -/
def needsDecode (m : Bytes) : Bool :=
  (List.range m.length).any fun i => m[i]? = some 37 && i + 2 < m.length

/-- `decodeGrpcMessage`; `none` = panic -/
def decodeGrpcMessage (m : Bytes) : Option Bytes :=
  if m.isEmpty then some [] else
  if needsDecode m then decodeGrpcMessageUnchecked m else some m

def isReservedHeader (n : Bytes) : Bool :=
  (match n with | 58 :: _ => true | _ => false) || ccReservedHeaders.any (fun r => b r = n)

def isWhitelistedHeader (n : Bytes) : Bool := ccWhitelistedHeaders.any (fun r => b r = n)

/-- result of the `for _, hf := range frame.Fields` loop of `operateHeaders` -/
structure Scan where
  isGRPC : Bool
  ctErr : Bool              -- contentTypeErr != ""
  grpcStatus : Nat          -- grpcStatusCode (codes.Unknown unless a grpc-status header was seen)
  httpStatus : Bytes        -- last `:status` value ("" = missing)
  headerError : Bool
  msg : Bytes := []         -- grpcMessage (decoded)
deriving Repr, DecidableEq

/-- The loop; `none` = a `grpc-status` value failed `strconv.ParseInt(v, 10, 32)` (the stream is closed
from inside the loop). -/
def scanFields : Scan → List (Bytes × Bytes) → Option Scan
  | sc, [] => some sc
  | sc, (n, v) :: rest =>
    if n = b "content-type" then
      if validContentType v then scanFields { sc with ctErr := false, isGRPC := true } rest
      else scanFields { sc with ctErr := true } rest
    else if n = b "grpc-encoding" then scanFields sc rest
    else if n = b "grpc-status" then
      match parseIntBits 32 v with
      | none => none
      | some c => scanFields { sc with grpcStatus := toUInt32 c } rest
    else if n = b "grpc-message" then scanFields { sc with msg := (decodeGrpcMessage v).getD [] } rest
    else if n = b ":status" then scanFields { sc with httpStatus := v } rest
    else if isReservedHeader n && !isWhitelistedHeader n then scanFields sc rest
    else if (b "-bin").isSuffixOf n && !binOK v then scanFields { sc with headerError := true } rest
    else scanFields sc rest

/-! ## state -/

/-- How an RPC's stream ended: the error its reader gets from the recv buffer (`none` = io.EOF, in
which case the RPC's status is `status`) and `s.status` (`none` = never set: the stream was
orphaned before its HEADERS reached the wire). -/
structure Term where
  err : Option Nat
  status : Option Nat
deriving Repr, DecidableEq, Inhabited

/-- the RPC's final status code, as stream.go computes it (`io.EOF` → `Status()`, else `toRPCErr(err)`) -/
def Term.rpcCode (t : Term) : Nat :=
  match t.err with
  | some c => c
  | none => t.status.getD 0

structure Strm where
  id : Nat
  rpc : Nat
  reader : Bool               -- the RPC goroutine reads as data arrives
  deadline : Option Nat
  wdone : Bool                -- streamWriteDone (only meaningful while `term = none`)
  term : Option Term          -- `some` ⇔ state = streamDone
  unprocessed : Bool
  hdrClosed : Bool            -- headerChanClosed
  headerValid : Bool
  noHeaders : Bool
  bytesReceived : Bool
  nonGRPC : Option (Nat × Nat)  -- nonGRPCStatus code, len(nonGRPCDataBuf)
  pd : Nat                    -- fc.pendingData
  pu : Nat                    -- fc.pendingUpdate
  inActive : Bool             -- present in t.activeStreams
  inSnapshot : Bool           -- captured by Close's `streams := t.activeStreams`
  buffered : Nat              -- bytes in the recv buffer not yet read
  nread : Nat
  smsg : Bytes := []          -- message of `s.status` when the RPC reads io.EOF (set by the closeStream winner)
deriving Repr, DecidableEq, Inhabited

/-- A blocked `NewStream` holds the `streamsQuotaAvailable` channel it last saw (`ch`), by generation. -/
inductive RpcSt
  | blocked (ch : Option Nat)
  | failed (code : Nat) (retry : Bool)
  | opened (idx : Nat)
deriving Repr, DecidableEq, Inhabited

structure Rpc where
  reader : Bool
  deadline : Option Nat
  cancelled : Bool
  st : RpcSt
deriving Repr, DecidableEq, Inhabited

inductive Item
  | hdr (idx id : Nat)                                  -- clientHeaders of the stream at index `idx` (its id)
  | cleanup (idx id : Nat) (rst : Bool) (code : Nat)    -- cleanupStream of the stream at index `idx`
  | inGoAway
  | outGoAway
  | settingsAck
  | pingAck (d : Bytes)
  | outWU (id n : Nat)
  | inWU
  | data (id : Nat)
deriving Repr, DecidableEq, Inhabited

/-- frames loopy writes -/
inductive Wire
  | H (id : Nat)
  | D (id : Nat)
  | R (id code : Nat)
  | G (last code : Nat)
  | Sa
  | Pa (d : Bytes)
  | W (id n : Nat)
deriving Repr, DecidableEq, Inhabited

inductive TState | reachable | draining | closing
deriving Repr, DecidableEq, Inhabited

/-- progress of `http2Client.Close` -/
inductive CloseP
  | none
  | waitWriter (timerAt : Nat)   -- blocked in `select { <-t.writerDone; <-timer.C }`
  | waitReader                   -- cancel() and conn.Close() done; blocked in `<-t.readerDone`
  | done
deriving Repr, DecidableEq, Inhabited

structure State where
  errCloses : Bool              -- configuration: the reader loop returns when handleGoAway reports a connection error
  hdrSize : Nat                 -- Σ hf.Size() of the request header list (configuration)
  now : Nat
  tstate : TState
  nextID : Nat
  streams : List Strm
  rpcs : List Rpc
  goAwayClosed : Bool           -- close(t.goAway) happened
  prevGoAwayID : Nat
  reason : Nat                  -- goAwayReason
  quota : Int                   -- streamQuota
  maxConc : Nat
  waiting : Nat                 -- waitingStreams (uint32)
  maxSendHdr : Option Nat
  chanGen : Nat                 -- generation of t.streamsQuotaAvailable
  token : Bool                  -- the current channel holds a token
  unacked : Nat                 -- t.fc.unacked
  cbuf : List Item
  cbufClosed : Bool
  lDraining : Bool
  estd : List Nat
  lExited : Bool
  lBlocked : Bool               -- loopy is inside a Flush that cannot complete (peer not reading)
  lExitPending : Option Bool    -- loopy returned from run's loop with this "close the conn" flag and is flushing
  wbuf : List Wire              -- written into the bufWriter, not flushed yet
  held : Bool                   -- the peer does not read
  connClosed : Bool             -- the client closed its net.Conn
  peerGone : Bool               -- the peer closed (writes fail, reads hit EOF)
  readerDone : Bool
  closeP : CloseP
  ctxDone : Bool                -- t.cancel() ran
  onClose : List (Nat × Nat × Bool)   -- onClose callbacks: reason, goaway code, Err != nil
  goAwayErrs : Nat              -- times handleGoAway returned a connection error
deriving Repr, DecidableEq, Inhabited

def limit : Nat := ccDefaultWindowSize

/-- Does `http2Client.reader` return (and hence `Close` the transport) when `handleGoAway` reports a
connection error?  Read off the CURRENT source of `reader` (T4): is there a `return` after the call.
In the tree this model was written against there is none: `errClose = t.handleGoAway(frame)` is
followed by the next loop iteration, so the error is dropped. -/
def readerReturnsOnGoAwayErr : Bool :=
  match readerSrc.splitOn "t.handleGoAway(frame)" with
  | [_, after] => (after.splitOn "return").length > 1
  | _ => false

def init (errCloses : Bool) (hdrSize : Nat) (maxConc : Option Nat) (maxSendHdr : Option Nat) : State :=
  -- NewHTTP2Client + readServerPreface (handleSettings(sf, isFirst = true)); loopy has written the ack
  let mc := maxConc.getD maxU32
  { errCloses := errCloses, hdrSize := hdrSize, now := 0, tstate := .reachable, nextID := 1, streams := [], rpcs := [],
    goAwayClosed := false, prevGoAwayID := 0, reason := 0,
    quota := (ccDefaultMaxStreamsClient : Int) + ((mc : Int) - (ccDefaultMaxStreamsClient : Int)), maxConc := mc, waiting := 0,
    maxSendHdr := maxSendHdr, chanGen := 0, token := false, unacked := 0,
    cbuf := [], cbufClosed := false, lDraining := false, estd := [], lExited := false, lBlocked := false,
    lExitPending := none, wbuf := [], held := false, connClosed := false, peerGone := false, readerDone := false,
    closeP := .none, ctxDone := false, onClose := [], goAwayErrs := 0 }

/-! ## primitives -/

def State.updStream (s : State) (i : Nat) (f : Strm → Strm) : State :=
  { s with streams := s.streams.modify i f }

def State.updRpc (s : State) (k : Nat) (f : Rpc → Rpc) : State :=
  { s with rpcs := s.rpcs.modify k f }

/-- `t.activeStreams[id]` (`getStream`) as an index into `streams` -/
def State.findActive (s : State) (sid : Nat) : Option Nat :=
  s.streams.findIdx? fun st => st.id == sid && st.inActive

/-- `len(t.activeStreams)` -/
def State.activeCount (s : State) : Nat := (s.streams.filter (·.inActive)).length

/-- `controlBuf.put(it)` / `executeAndPut(nil, it)` -/
def State.put (s : State) (it : Item) : State :=
  if s.cbufClosed then s else { s with cbuf := s.cbuf ++ [it] }

/-- non-blocking send on `t.streamsQuotaAvailable` -/
def State.sendToken (s : State) : State :=
  if s.quota > 0 && s.waiting > 0 then { s with token := true } else s

/-- the stream-record update of the `swapState(streamDone)` winner in `closeStream` -/
def closeF (err : Option Nat) (st : Nat) (x : Strm) : Strm :=
  if x.term.isSome then x else
  { x with term := some { err := err, status := some st }, noHeaders := if x.hdrClosed then x.noHeaders else true,
           hdrClosed := true }

/-- `t.closeStream(s, err, rst, rstCode, st, …)`: the `swapState(streamDone)` winner records the
outcome, closes headerChan, and queues `cleanupStream` with `addBackStreamQuota`. -/
def State.closeStream (s : State) (i : Nat) (err : Option Nat) (st : Nat) (rst : Bool) (rstCode : Nat) : State :=
  match s.streams[i]? with
  | none => s
  | some str =>
    if str.term.isSome then s else
    let s := s.updStream i (closeF err st)
    if s.cbufClosed then s else
    ({ s with quota := s.quota + 1, cbuf := s.cbuf ++ [Item.cleanup i str.id rst rstCode] }).sendToken

/-- the stream-record update of `NewStream`'s `cleanup` closure -/
def orphanF (err : Nat) (x : Strm) : Strm :=
  if x.term.isSome then x else
  { x with term := some { err := some err, status := none }, unprocessed := true, hdrClosed := true }

/-- `cleanup` closure of `NewStream` (`onOrphaned` / `initStream` failure): the stream never reached
the wire; no status is recorded, the reader gets `err`, the stream is marked unprocessed. -/
def State.orphan (s : State) (i : Nat) (err : Nat) : State := s.updStream i (orphanF err)

/-- `t.onClose(GoAwayInfo{…})` -/
def State.notify (s : State) (reason code : Nat) (hasErr : Bool) : State :=
  { s with onClose := s.onClose ++ [(reason, code, hasErr)] }

/-! ## frames (reader goroutine) -/

inductive Frame
  | headers (sid : Nat) (endStream truncated : Bool) (fields : List (Bytes × Bytes))
  | data (sid size dataLen : Nat) (padded endStream : Bool)
  | rst (sid code : Nat)
  | settings (ack : Bool) (ss : List (Nat × Nat))
  | ping (ack : Bool) (d : Bytes)
  | goAway (last code : Nat) (debug : Bytes)
  | windowUpdate (sid inc : Nat)
  | other
  | streamErr (sid code : Nat)
  | connErr
deriving Repr, DecidableEq, Inhabited

/-- `inFlow.onRead(n)` (delta is always 0 here: reads are 1 byte at a time); returns the new
(pendingData, pendingUpdate) — the window update it may emit is not tracked for streams. -/
def fcOnRead (pd pu n : Nat) : Nat × Nat :=
  if pd = 0 then (pd, pu) else
  let pd := pd - n
  let pu := pu + n
  if pu ≥ limit / 4 then (pd, 0) else (pd, pu)

/-- the message of the status the next `closeStream(s, io.EOF, …, st, …)` records, if it wins (`str` = the
stream record the handler read) -/
def msgF (m : Bytes) (x : Strm) : Strm := if x.term.isSome then x else { x with smsg := m }

def State.setMsg (s : State) (i : Nat) (_str : Strm) (m : Bytes) : State := s.updStream i (msgF m)

/-- first HEADERS of a gRPC response: `CompareAndSwapUint32(&s.headerChanClosed, 0, 1)`, headerValid, close(headerChan) -/
def hdrF (x : Strm) : Strm := if x.hdrClosed then x else { x with hdrClosed := true, headerValid := true }

/-- `operateHeaders` -/
def State.operateHeaders (s : State) (sid : Nat) (es trunc : Bool) (fields : List (Bytes × Bytes)) : State :=
  match s.findActive sid with
  | none => s
  | some i =>
    match s.streams[i]? with
    | none => s
    | some str =>
    let s := s.updStream i fun x => { x with bytesReceived := true }
    let initialHeader := !str.hdrClosed
    if !initialHeader && !es then s.closeStream i (some cInternal) cInternal true h2Protocol
    else if trunc then s.closeStream i (some cInternal) cInternal true h2FrameSize
    else match str.nonGRPC with
    | some (code, _) => if es then s.closeStream i (some code) code true h2Protocol else s
    | none =>
      match scanFields { isGRPC := !initialHeader, ctErr := true, grpcStatus := cUnknown, httpStatus := [], headerError := false } fields with
      | none => s.closeStream i (some cUnknown) cUnknown true h2Protocol
      | some sc =>
        if !sc.isGRPC then
          if sc.httpStatus.isEmpty then
            if es then s.closeStream i (some cInternal) cInternal true h2Protocol
            else s.updStream i fun x => { x with nonGRPC := some (cInternal, 0) }
          else match parseIntBits 64 sc.httpStatus with
            | none => s.closeStream i (some cInternal) cInternal true h2Protocol
            | some n =>
              if 100 ≤ n && n < 200 then
                if es then s.closeStream i (some cInternal) cInternal true h2Protocol else s
              else
                let code := (httpToCode n).getD cUnknown
                if es then s.closeStream i (some code) code true h2Protocol
                else s.updStream i fun x => { x with nonGRPC := some (code, 0) }
        else if sc.headerError then s.closeStream i (some cInternal) cInternal true h2Protocol
        else if !es then
          s.updStream i hdrF
        else
          -- trailers (or trailers-only): the RPC reads io.EOF and takes `status`
          (s.setMsg i str sc.msg).closeStream i none sc.grpcStatus (str.term.isNone && !str.wdone) h2No

/-- `t.fc.onData(size)` (trInFlow) -/
def State.connOnData (s : State) (size : Nat) : State :=
  let u := s.unacked + size
  if u ≥ limit / 4 then ({ s with unacked := 0 }).put (.outWU 0 u) else { s with unacked := u }

/-- `handleData` -/
def State.handleData (s : State) (sid size dataLen : Nat) (padded es : Bool) : State :=
  let s := s.connOnData size
  match s.findActive sid with
  | none => s
  | some i =>
    match s.streams[i]? with
    | none => s
    | some str =>
    let pd := if size > 0 then str.pd + size else str.pd
    let s := s.updStream i fun x => { x with pd := pd }
    if size > 0 && pd + str.pu > limit then
      (s.setMsg i str (b s!"received {pd + str.pu}-bytes data exceeding the limit {limit} bytes")).closeStream i none cInternal true h2FlowControl
    else match str.nonGRPC with
    | some (code, len) =>
      let n := min dataLen (nonGRPCDataMaxLen - len)
      let len := len + n
      let s := s.updStream i fun x => { x with nonGRPC := some (code, len) }
      if len ≥ nonGRPCDataMaxLen || es then s.closeStream i (some code) code true h2Protocol
      else
        let (pd', pu') := fcOnRead pd str.pu size
        s.updStream i fun x => { x with pd := pd', pu := pu' }
    | none =>
      let s :=
        if size > 0 then
          let s := if padded then
              let (pd', pu') := fcOnRead pd str.pu (size - dataLen)
              s.updStream i fun x => { x with pd := pd', pu := pu' }
            else s
          -- s.write(recvMsg{buffer}): dropped by the recv buffer once an error was written
          if dataLen > 0 && str.term.isNone then s.updStream i fun x => { x with buffered := x.buffered + dataLen } else s
        else s
      if es then (s.setMsg i str (b "server closed the stream without sending trailers")).closeStream i none cInternal (str.term.isNone && !str.wdone) h2No else s

/-- `handleRSTStream` -/
def State.handleRST (s : State) (sid code : Nat) : State :=
  match s.findActive sid with
  | none => s
  | some i =>
    match s.streams[i]? with
    | none => s
    | some str =>
    let s := if code = h2RefusedStream then s.updStream i fun x => { x with unprocessed := true } else s
    let sc := (rstToCode code).getD cUnknown
    let sc := if sc = cCanceled then
        (match str.deadline with
         | some d => if d ≤ s.now then cDeadline else sc
         | none => sc)
      else sc
    s.closeStream i (some sc) sc false h2No

/-- value of the last setting with the given id -/
def lastSetting (ss : List (Nat × Nat)) (id : Nat) : Option Nat :=
  ((ss.filter (fun p => p.1 == id)).getLast?).map (·.2)

/-- `handleSettings(f, false)` -/
def State.handleSettings (s : State) (ack : Bool) (ss : List (Nat × Nat)) : State :=
  if ack then s else
  if s.cbufClosed then s else     -- executeAndPut fails before running the update functions
  let s := match lastSetting ss 6 with
    | some v => { s with maxSendHdr := some v }
    | none => s
  let s := match lastSetting ss 3 with
    | none => s
    | some v =>
      let delta : Int := (v : Int) - (s.maxConc : Int)
      let s := { s with maxConc := v, quota := s.quota + delta }
      if delta > 0 && s.waiting > 0 then { s with chanGen := s.chanGen + 1, token := false } else s
  s.put .settingsAck

/-- the streams `handleGoAway` marks: `streamID > id && streamID <= upperLimit` over `t.activeStreams` -/
def isVictim (id upper : Nat) (st : Strm) : Bool := st.inActive && st.id > id && st.id ≤ upper

def markF (x : Strm) : Strm := { x with unprocessed := true }

/-- `stream.unprocessed.Store(true)` for every victim (done or not), under `t.mu` -/
def State.markVictims (s : State) (id upper : Nat) : State :=
  { s with streams := s.streams.map fun x => if isVictim id upper x then markF x else x }

/-- `closeStream(stream, errStreamDrain, false, ErrCodeNo, statusGoAway, …)` for the victims at indices `< n` -/
def State.closeVictims (s : State) (id upper : Nat) : Nat → State
  | 0 => s
  | n + 1 =>
    let s := s.closeVictims id upper n
    match s.streams[n]? with
    | some st => if isVictim id upper st then s.closeStream n (some cUnavailable) cUnavailable false h2No else s
    | none => s

/-- first GOAWAY on this transport (`default:` branch of the select): setGoAwayReason, close(t.goAway),
onClose + draining unless already draining -/
def State.goAwayFirst (s : State) (code : Nat) (debug : Bytes) : State :=
  let reason := if code = h2EnhanceYourCalm && debug = b "too_many_pings" then 2 else 1
  let s := { s with reason := reason, goAwayClosed := true }
  if s.tstate ≠ .draining then ({ s with tstate := TState.draining }).notify reason code false else s

/-- record the id, then kill the streams above it; `true` = the "no active streams" connection error -/
def State.goAwayKill (s : State) (id upper : Nat) : State × Bool :=
  let s := { s with prevGoAwayID := id }
  if s.activeCount == 0 then ({ s with goAwayErrs := s.goAwayErrs + 1 }, true)
  else
    -- stream.unprocessed.Store(true) for every victim (done or not), then closeStream outside t.mu
    ((s.markVictims id upper).closeVictims id upper s.streams.length, false)

/-- `handleGoAway`; the Bool is "returned a connection error" (assigned to the reader's `errClose`). -/
def State.handleGoAway (s : State) (id code : Nat) (debug : Bytes) : State × Bool :=
  if s.tstate = .closing then (s, false) else
  if id > 0 && id % 2 = 0 then ({ s with goAwayErrs := s.goAwayErrs + 1 }, true) else
  if s.goAwayClosed && id > s.prevGoAwayID then ({ s with goAwayErrs := s.goAwayErrs + 1 }, true) else
  let upper := if s.prevGoAwayID = 0 then maxU32 else s.prevGoAwayID
  if s.goAwayClosed then s.goAwayKill id upper
  else
    let r := (s.goAwayFirst code debug).goAwayKill id upper
    (r.1.put .inGoAway, r.2)      -- deferred put(incomingGoAway)

/-- `streams := t.activeStreams; t.activeStreams = nil` -/
def snapF (x : Strm) : Strm := { x with inSnapshot := x.inActive, inActive := false }

/-- `http2Client.Close`, first critical section (under `t.mu`) up to `controlBuf.put(&goAway{…})`. -/
def State.closeP1 (s : State) (hasErr : Bool) : State :=
  if s.tstate = .closing then s else
  let s := if s.tstate ≠ .draining then s.notify 0 0 hasErr else s
  let s := { s with tstate := TState.closing,
                    streams := s.streams.map snapF }
  let s := s.put .outGoAway
  { s with closeP := .waitWriter (s.now + 5000) }

/-- the reader loop returns (`errClose` set): `close(t.readerDone)`, then `t.Close(errClose)` -/
def State.readerExit (s : State) : State :=
  if s.readerDone then s else
  ({ s with readerDone := true }).closeP1 true

/-- one iteration of the reader loop -/
def State.onFrame (s : State) (f : Frame) : State :=
  if s.readerDone then s else
  match f with
  | .headers sid es tr fs => s.operateHeaders sid es tr fs
  | .data sid size dl p es => s.handleData sid size dl p es
  | .rst sid code => s.handleRST sid code
  | .settings ack ss => s.handleSettings ack ss
  | .ping ack d => if ack then s else s.put (.pingAck d)
  | .goAway id code dbg =>
    -- `errClose = t.handleGoAway(frame)`; whether the loop then returns is configuration (`errCloses`)
    let r := s.handleGoAway id code dbg
    if s.errCloses && r.2 then r.1.readerExit else r.1
  | .windowUpdate _ _ => s.put .inWU
  | .other => s
  | .streamErr sid code =>
    match s.findActive sid with
    | none => s
    | some i =>
      let c := (rstToCode code).getD 0     -- `code := http2ErrConvTab[se.Code]` (zero value when absent)
      s.closeStream i (some c) c true h2Protocol
  | .connErr => s.readerExit

/-! ## loopy -/

def deactF (x : Strm) : Strm := { x with inActive := false }

/-- `v.onOrphaned(ErrConnClosing)` for the queued `clientHeaders` items -/
def State.orphanQueued (s : State) : List Item → State
  | [] => s
  | .hdr i _ :: rest => (s.orphan i cUnavailable).orphanQueued rest
  | _ :: rest => s.orphanQueued rest

/-- `controlBuffer.finish`: close the buffer, orphan queued HEADERS -/
def State.finish (s : State) : State :=
  if s.cbufClosed then s else
  let s := s.orphanQueued s.cbuf
  { s with cbuf := [], cbufClosed := true }

/-- tail of `loopyWriter.run` and of the goroutine that runs it: Flush (unless I/O error), `finish()`,
`t.conn.Close()` unless I/O error, `close(t.writerDone)`.  Returns the frames that reached the peer. -/
def State.loopyExit (s : State) (closeConn : Bool) : State × List Wire :=
  if closeConn && s.held && !s.wbuf.isEmpty && !s.connClosed then
    -- the final Flush blocks until the peer reads again or the conn is closed
    ({ s with lBlocked := true, lExitPending := some closeConn }, [])
  else
    let out := if closeConn && !s.connClosed && !s.peerGone then s.wbuf else []
    let s := ({ s with wbuf := [], lBlocked := false, lExitPending := none }).finish
    ({ s with lExited := true, connClosed := s.connClosed || closeConn }, out)

def State.write (s : State) (w : Wire) : State := { s with wbuf := s.wbuf ++ [w] }

/-- `loopyWriter.handle(item)` for the head of the control buffer (+ `processData` for the empty
END_STREAM frame). -/
def State.loopyStep (s : State) : State × List Wire :=
  if s.lExited || s.lBlocked then (s, []) else
  match s.cbuf with
  | [] => (s, [])
  | it :: rest =>
    let s := { s with cbuf := rest }
    -- a write after the conn is gone fails with an I/O error
    let dead := s.connClosed || s.peerGone
    match it with
    | .hdr i id =>
      if s.lDraining then (s.orphan i cUnavailable, [])
      else if s.tstate = .closing then (s.orphan i cUnavailable).loopyExit true   -- initStream: ErrConnClosing
      else if dead then s.loopyExit false
      else (({ s with estd := s.estd ++ [id] }).write (.H id), [])
    | .cleanup i id rst code =>
      -- onWrite: delete(t.activeStreams, id) unless Close already niled the map
      let s : State := if s.tstate = TState.closing then s else s.updStream i deactF
      let s := { s with estd := s.estd.filter (· ≠ id) }
      if rst && dead then s.loopyExit false else
      let s := if rst then s.write (.R id code) else s
      if s.lDraining && s.estd.isEmpty then s.loopyExit true else (s, [])
    | .inGoAway =>
      let s := { s with lDraining := true }
      if s.estd.isEmpty then s.loopyExit true else (s, [])
    | .outGoAway =>
      if dead then s.loopyExit false else
      (s.write (.G ((s.nextID + two32 - 2) % two32 % two31) h2No)).loopyExit true
    | .settingsAck => if dead then s.loopyExit false else (s.write .Sa, [])
    | .pingAck d => if dead then s.loopyExit false else (s.write (.Pa d), [])
    | .outWU id n => if dead then s.loopyExit false else (s.write (.W id n), [])
    | .inWU => (s, [])
    | .data id =>
      if s.estd.contains id then (if dead then s.loopyExit false else (s.write (.D id), [])) else (s, [])

/-- end of a loopy batch: `l.framer.writer.Flush()` -/
def State.loopyFlush (s : State) : State × List Wire :=
  if s.lExited || s.lBlocked || s.wbuf.isEmpty then (s, []) else
  if s.connClosed || s.peerGone then ({ s with wbuf := [] }, [])      -- error ignored here; the next write fails
  else if s.held then ({ s with lBlocked := true }, [])
  else ({ s with wbuf := [] }, s.wbuf)

/-- the peer starts reading again -/
def State.release (s : State) : State × List Wire :=
  let s := { s with held := false }
  if !s.lBlocked then (s, []) else
  match s.lExitPending with
  | some c => ({ s with lBlocked := false }).loopyExit c
  | none => ({ s with lBlocked := false, wbuf := [] }, if s.connClosed || s.peerGone then [] else s.wbuf)

/-- loopy notices that the transport's context was cancelled or its blocked write failed because the
conn was closed (`get` returns an error / ioError): exit without closing the conn. -/
def State.loopyAbort (s : State) : State × List Wire :=
  if s.lExited then (s, []) else
  if s.ctxDone || s.connClosed || s.peerGone then
    (({ s with lBlocked := false, lExitPending := none, wbuf := [] }).loopyExit false)
  else (s, [])

/-! ## application side -/

/-- a blocked `NewStream` call gets its result (finished calls are never rewritten) -/
def setSt (v : RpcSt) (r : Rpc) : Rpc :=
  match r.st with
  | .blocked _ => { r with st := v }
  | _ => r

/-- `checkForHeaderListSize` fails -/
def State.hdrTooBig (s : State) : Bool :=
  match s.maxSendHdr with | some m => decide (s.hdrSize > m) | none => false

/-- `t.waitingStreams++` / `--` (uint32) and `t.streamQuota--` -/
def State.incWaiting (s : State) : State := { s with waiting := (s.waiting + 1) % two32 }
def State.decWaiting (s : State) : State := { s with waiting := if s.waiting = 0 then maxU32 else s.waiting - 1 }
def State.takeQuota (s : State) : State := { s with quota := s.quota - 1 }

/-- success path of `checkForStreamQuota`: allocate the id, insert into `activeStreams`, queue the HEADERS -/
def State.register (s : State) (k : Nat) (r : Rpc) : State :=
  let id := s.nextID
  let str : Strm :=
    { id := id, rpc := k, reader := r.reader, deadline := r.deadline, wdone := false, term := none,
      unprocessed := false, hdrClosed := false, headerValid := false, noHeaders := false,
      bytesReceived := false, nonGRPC := none, pd := 0, pu := 0, inActive := true, inSnapshot := false,
      buffered := 0, nread := 0 }
  let idx := s.streams.length
  let s := { s with nextID := id + 2, streams := s.streams ++ [str], cbuf := s.cbuf ++ [Item.hdr idx id] }
  s.sendToken.updRpc k (setSt (.opened idx))

/-- one pass of `NewStream`'s `executeAndPut(checkForHeaderListSize && checkForStreamQuota, hdr)` for
RPC `k` (`first` = firstTry). -/
def State.tryNewStream (s : State) (k : Nat) (first : Bool) : State :=
  match s.rpcs[k]? with
  | none => s
  | some r =>
  if s.cbufClosed then s.updRpc k (setSt (.failed cUnavailable true)) else
  if s.hdrTooBig then s.updRpc k (setSt (.failed cInternal false))
  else if s.quota ≤ 0 then
    (if first then s.incWaiting else s).updRpc k (setSt (.blocked (some s.chanGen)))
  else
    let s := (if first then s else s.decWaiting).takeQuota
    if s.tstate ≠ .reachable then
      -- not created; the caller goes back to its select with the channel it already had (nil on the first try)
      s
    else s.register k r

/-- the app starts an RPC -/
def State.newRPC (s : State) (reader : Bool) (deadline : Option Nat) : State :=
  let k := s.rpcs.length
  let r : Rpc := { reader := reader, deadline := deadline, cancelled := false, st := .blocked none }
  let s := { s with rpcs := s.rpcs ++ [r] }
  s.tryNewStream k true

inductive Via | chan | ctx | goAway | tctx
deriving Repr, DecidableEq, Inhabited

def Rpc.ctxDone (r : Rpc) (now : Nat) : Bool :=
  r.cancelled || (match r.deadline with | some d => d ≤ now | none => false)

/-- a blocked `NewStream`'s `select` fires on the given case (if that case is ready) -/
def State.wake (s : State) (k : Nat) (via : Via) : State :=
  match s.rpcs[k]? with
  | none => s
  | some r =>
    match r.st with
    | .blocked ch =>
      (match via with
       | .chan =>
         (match ch with
          | none => s
          | some g =>
            if g < s.chanGen then s.tryNewStream k false            -- closed channel
            else if s.token then ({ s with token := false }).tryNewStream k false
            else s)
       | .ctx => if r.ctxDone s.now then
            s.updRpc k (setSt (.failed (if r.cancelled then cCanceled else cDeadline) false))
          else s
       | .goAway => if s.goAwayClosed then s.updRpc k (setSt (.failed cUnavailable true)) else s
       | .tctx => if s.ctxDone then s.updRpc k (setSt (.failed cUnavailable true)) else s)
    | _ => s

/-- the RPC's context is done while it owns a stream: `ClientStream.Close(ContextErr(ctx.Err()))`
(from recvBufferReader or from the RPC layer) -/
def State.ctxFire (s : State) (k : Nat) : State :=
  match s.rpcs[k]? with
  | none => s
  | some r =>
    if !r.ctxDone s.now then s else
    match r.st with
    | .opened i =>
      let c := if r.cancelled then cCanceled else cDeadline
      s.closeStream i (some c) c true h2Cancel
    | _ => s

def State.cancel (s : State) (k : Nat) : State := s.updRpc k fun r => { r with cancelled := true }

/-- `ClientStream.Write(nil, nil, Last)` -/
def State.half (s : State) (k : Nat) : State :=
  match s.rpcs[k]? with
  | some { st := .opened i, .. } =>
    (match s.streams[i]? with
     | some str =>
       if str.term.isSome || str.wdone then s
       else (s.updStream i fun x => { x with wdone := true }).put (.data str.id)
     | none => s)
  | _ => s

/-- the RPC goroutine consumes what is in its recv buffer (1 byte per Read); a non-reading RPC does
so only once the stream is done. -/
def State.appRead (s : State) (i : Nat) : State :=
  match s.streams[i]? with
  | none => s
  | some str =>
    if str.buffered = 0 || !(str.reader || str.term.isSome) then s else
    let n := str.buffered
    -- n single-byte onRead calls
    let (pd', pu') := if str.pd = 0 then (str.pd, str.pu) else (str.pd - n, (str.pu + n) % (limit / 4))
    s.updStream i fun x => { x with buffered := 0, nread := x.nread + n, pd := pd', pu := pu' }

/-- `GracefulClose` up to and excluding the `Close` it may call -/
def State.gracefulClose (s : State) : State :=
  if s.tstate ≠ .reachable then s else
  let s := ({ s with tstate := .draining }).notify 0 0 false
  if s.activeCount == 0 then s.closeP1 true else s.put .inGoAway

/-- `Close` after the select: `t.cancel(); t.conn.Close()` -/
def State.closeP2 (s : State) : State :=
  match s.closeP with
  | .waitWriter tAt =>
    if s.lExited || tAt ≤ s.now then { s with ctxDone := true, connClosed := true, closeP := .waitReader } else s
  | _ => s

/-- `for _, s := range streams { t.closeStream(s, err, false, http2.ErrCodeNo, st, nil, false) }` over indices `< n` -/
def State.closeSnapshot (s : State) : Nat → State
  | 0 => s
  | n + 1 =>
    let s := s.closeSnapshot n
    match s.streams[n]? with
    | some st => if st.inSnapshot then s.closeStream n (some cUnavailable) cUnavailable false h2No else s
    | none => s

/-- `Close` after `<-t.readerDone`: notify the captured streams -/
def State.closeP3 (s : State) : State :=
  match s.closeP with
  | .waitReader =>
    if !s.readerDone then s else
    let s := s.closeSnapshot s.streams.length
    { s with closeP := .done }
  | _ => s

/-! ## events -/

inductive Ev
  | newRPC (reader : Bool) (deadline : Option Nat)
  | wake (k : Nat) (via : Via)
  | half (k : Nat)
  | cancel (k : Nat)
  | ctxFire (k : Nat)
  | appRead (i : Nat)
  | frame (f : Frame)
  | loopy
  | flush
  | loopyAbort
  | hold
  | release
  | peerGone
  | gracefulClose
  | close
  | closeP2
  | closeP3
  | tick (ms : Nat)
deriving Repr, DecidableEq, Inhabited

def step (s : State) : Ev → State × List Wire
  | .newRPC r d => (s.newRPC r d, [])
  | .wake k v => (s.wake k v, [])
  | .half k => (s.half k, [])
  | .cancel k => (s.cancel k, [])
  | .ctxFire k => (s.ctxFire k, [])
  | .appRead i => (s.appRead i, [])
  | .frame f => (s.onFrame f, [])
  | .loopy => s.loopyStep
  | .flush => s.loopyFlush
  | .loopyAbort => s.loopyAbort
  | .hold => ({ s with held := true }, [])
  | .release => s.release
  | .peerGone => ({ s with peerGone := true }, [])
  | .gracefulClose => (s.gracefulClose, [])
  | .close => (s.closeP1 true, [])
  | .closeP2 => (s.closeP2, [])
  | .closeP3 => (s.closeP3, [])
  | .tick ms => ({ s with now := s.now + ms }, [])

def run (s : State) : List Ev → State
  | [] => s
  | e :: es => run (step s e).1 es

end GrpcModel.ClientConn
