/-
Model of health/server.go (health.Server).

Every method body runs under `s.mu`, so SetServingStatus / Shutdown / Resume / Check and the
registration part of Watch are ONE rule each.  The Watch loop of a stream runs outside the lock
and is split into its steps, which interleave freely with everything else (any number of streams,
arbitrarily slow `stream.Send`):

  recv   : `servingStatus := <-update`; `if lastSentStatus == servingStatus { continue }`;
           `lastSentStatus = servingStatus`  → stream.Send(servingStatus) is in progress
  sendOk : stream.Send returned nil (the client has the message: appended to `log`)
  leave  : Send failed or the stream's context is done: Watch returns and its deferred function
           deletes the update channel from s.updates (one rule: after the return nobody reads the
           channel, so the moment of the delete is unobservable)

`update` is a 1-slot channel: setServingStatusLocked first drains it (non-blocking) and then sends,
under the lock, so the send never blocks and the slot always holds the most recent status.
Services are numbered (0 = ""); statuses are the int32 enum values, `lastSentStatus` starts at -1
exactly as in the code (so a service whose status were -1 would never be reported: the theorems
assume statuses >= 0, the enum's range).  Ghost: `hist` = every value ever put into this
stream's channel, in order.
-/
namespace GrpcModel.Health

def UNKNOWN : Int := 0
def SERVING : Int := 1
def NOT_SERVING : Int := 2
def SERVICE_UNKNOWN : Int := 3

structure Watcher where
  svc      : Nat
  slot     : Option Int   -- the `update` channel (capacity 1)
  lastSent : Int          -- lastSentStatus
  sending  : Option Int   -- stream.Send(v) in progress
  log      : List Int     -- what the stream has delivered
  alive    : Bool         -- registered in s.updates[svc]
  hist     : List Int     -- ghost
deriving Repr, DecidableEq, Inhabited

structure St where
  statusMap : Nat → Option Int
  shutdown  : Bool
  nw        : Nat
  w         : Nat → Watcher

/-- NewServer: `statusMap: {"": SERVING}` -/
def init : St :=
  { statusMap := fun k => if k = 0 then some SERVING else none, shutdown := false, nw := 0, w := fun _ => default }

/-- what Watch puts into a fresh channel / what the service "currently reports" -/
def cur (s : St) (svc : Nat) : Int := (s.statusMap svc).getD SERVICE_UNKNOWN

def setW (f : Nat → Watcher) (i : Nat) (x : Watcher) : Nat → Watcher := fun j => if j = i then x else f j

/-- setServingStatusLocked's loop body for one registered channel: drain, then put `v` -/
def put (x : Watcher) (v : Int) : Watcher := { x with slot := some v, hist := x.hist ++ [v] }

inductive Rule
  | set (svc : Nat) (v : Int)
  | shutdown
  | resume
  | watch (svc : Nat)
  | recv (i : Nat)
  | sendOk (i : Nat)
  | leave (i : Nat)
deriving DecidableEq, Repr

/-- Shutdown / Resume: `for service := range s.statusMap { setServingStatusLocked(service, v) }` -/
def setAll (s : St) (v : Int) : St :=
  { s with
    statusMap := fun k => (s.statusMap k).map fun _ => v,
    w := fun i => let x := s.w i
                  if x.alive ∧ (s.statusMap x.svc).isSome then put x v else x }

def apply (s : St) : Rule → Option St
  | .set svc v =>
    if s.shutdown then some s
    else some { s with
      statusMap := fun k => if k = svc then some v else s.statusMap k,
      w := fun i => let x := s.w i
                    if x.alive ∧ x.svc = svc then put x v else x }
  | .shutdown => some { setAll s NOT_SERVING with shutdown := true }
  | .resume => some { setAll s SERVING with shutdown := false }
  | .watch svc =>
    some { s with
      nw := s.nw + 1,
      w := setW s.w s.nw { svc := svc, slot := some (cur s svc), lastSent := -1, sending := none, log := [],
                            alive := true, hist := [cur s svc] } }
  | .recv i =>
    let x := s.w i
    if i < s.nw ∧ x.alive ∧ x.sending = none then
      match x.slot with
      | none => none
      | some v =>
        if x.lastSent = v then some { s with w := setW s.w i { x with slot := none } }
        else some { s with w := setW s.w i { x with slot := none, lastSent := v, sending := some v } }
    else none
  | .sendOk i =>
    let x := s.w i
    if i < s.nw ∧ x.alive then
      match x.sending with
      | none => none
      | some v => some { s with w := setW s.w i { x with sending := none, log := x.log ++ [v] } }
    else none
  | .leave i =>
    let x := s.w i
    if i < s.nw ∧ x.alive then some { s with w := setW s.w i { x with alive := false, sending := none } } else none

/-- Check(service): `some status` or `none` = NotFound -/
def check (s : St) (svc : Nat) : Option Int := s.statusMap svc

def run (s : St) : List Rule → St
  | [] => s
  | r :: rs => match apply s r with
    | some t => run t rs
    | none => run s rs

inductive Reach : St → Prop
  | init : Reach init
  | step {s t : St} (r : Rule) : Reach s → apply s r = some t → Reach t

end GrpcModel.Health
