/-
Model of
  balancer/ringhash/ring.go   : normalizeWeights, newRing, ring.pick, ring.next
  balancer/ringhash/picker.go : picker.Pick (the two ring walks of gRFC A61 / A76)
The hash function (xxhash of "<hashKey>_<idx>") is a parameter `hashOf : endpoint → idx → Nat`.
The float arithmetic of `newRing` is ONE definition generic over `RingArith α`, instantiated with
exact rationals (theorems) and with IEEE doubles (bit-exact comparison with the Go code).
-/
import GrpcModel.Model.SortSearch
namespace GrpcModel.Ring
open GrpcModel.SortSearch

class RingArith (α : Type) where
  ofNat : Nat → α
  add : α → α → α
  mul : α → α → α
  div : α → α → α
  /-- `math.Min` -/
  min : α → α → α
  /-- `math.Ceil` -/
  ceil : α → α
  /-- `a < b` -/
  lt : α → α → Bool

instance : RingArith Rat where
  ofNat n := (n : Rat)
  add := (· + ·)
  mul := (· * ·)
  div := (· / ·)
  min a b := if a ≤ b then a else b
  ceil x := (x.ceil : Rat)
  lt a b := decide (a < b)

instance : RingArith Float where
  ofNat n := Float.ofNat n
  add := (· + ·)
  mul := (· * ·)
  div := (· / ·)
  min a b := if a ≤ b then a else b   -- no NaN / signed zero can arise here
  ceil x := x.ceil
  lt a b := a < b

open RingArith

/-- what `newRing` reads of an `endpointState` -/
structure Endpoint where
  hashKey : String
  weight : Nat
deriving DecidableEq, Repr

/-- `sort.Slice(ret, func(i, j) bool { return ret[i].hashKey < ret[j].hashKey })` — insertion sort;
    hash keys are distinct (they key the picker's endpointStates map), so the result is unique. -/
def insertByKey (e : Endpoint) : List Endpoint → List Endpoint
  | [] => [e]
  | x :: xs => if e.hashKey < x.hashKey then e :: x :: xs else x :: insertByKey e xs

def sortByKey : List Endpoint → List Endpoint
  | [] => []
  | e :: es => insertByKey e (sortByKey es)

/-- `weightSum` (a uint32: wraps) -/
def weightSum (eps : List Endpoint) : Nat := (eps.foldl (fun s e => s + e.weight) 0) % 4294967296

variable {α : Type} [RingArith α]

/-- `nw := float64(epState.weight) / float64(weightSum)` -/
def normWeight (sum : Nat) (e : Endpoint) : α := div (ofNat e.weight) (ofNat sum)

/-- `min := 1.0; min = math.Min(min, nw)` over all endpoints -/
def minWeight (eps : List Endpoint) : α :=
  eps.foldl (fun m e => RingArith.min m (normWeight (weightSum eps) e)) (ofNat 1)

/-- `scale := math.Min(math.Ceil(minWeight*float64(minRingSize))/minWeight, float64(maxRingSize))` -/
def scaleOf (eps : List Endpoint) (minSize maxSize : Nat) : α :=
  RingArith.min (div (ceil (mul (minWeight eps) (ofNat minSize))) (minWeight eps)) (ofNat maxSize)

/-- `for currentHashes < targetHashes && uint64(len(items)) < maxRingSize { …; idx++; currentHashes++ }`
    (the second conjunct is the F14 repair, /repo commit 9cc3b57): number of iterations and the new
    `currentHashes`; `len` is `len(items)` on entry (fuel bounds the loop; the driver passes
    maxRingSize + 2). -/
def fillLoop (target : α) (maxSize : Nat) : Nat → α → Nat → Nat → Nat × α
  | 0, cur, n, _ => (n, cur)
  | fuel + 1, cur, n, len =>
    if lt cur target && decide (len < maxSize) then fillLoop target maxSize fuel (add cur (ofNat 1)) (n + 1) (len + 1)
    else (n, cur)

/-- the outer loop over the (key-sorted) endpoints: entries per endpoint; `len` = `len(items)` so far -/
def countsLoop (scale : α) (sum maxSize fuel : Nat) : List Endpoint → α → α → Nat → List Nat
  | [], _, _, _ => []
  | e :: es, cur, target, len =>
    let target' := add target (mul scale (normWeight sum e))
    let (n, cur') := fillLoop target' maxSize fuel cur 0 len
    n :: countsLoop scale sum maxSize fuel es cur' target' (len + n)

/-- entries per endpoint, in key order -/
def ringCounts (eps : List Endpoint) (minSize maxSize : Nat) : List Nat :=
  countsLoop (scaleOf (α := α) eps minSize maxSize) (weightSum eps) maxSize (maxSize + 2) (sortByKey eps)
    (ofNat 0) (ofNat 0) 0

/-- a ring entry: hash, endpoint (position in key order), per-endpoint index -/
structure RingEntry where
  hash : Nat
  ep : Nat
  sub : Nat
deriving DecidableEq, Repr

/-- `sort.Slice(items, func(i, j) bool { return items[i].hash < items[j].hash })` (hashes distinct) -/
def insertByHash (e : RingEntry) : List RingEntry → List RingEntry
  | [] => [e]
  | x :: xs => if e.hash < x.hash then e :: x :: xs else x :: insertByHash e xs

def sortByHash : List RingEntry → List RingEntry
  | [] => []
  | e :: es => insertByHash e (sortByHash es)

/-- the unsorted `items`: endpoint k (key order) contributes entries with idx 0 … count-1 -/
def entriesOf (hashOf : Nat → Nat → Nat) : List Nat → Nat → List RingEntry
  | [], _ => []
  | c :: cs, k => (List.range c).map (fun j => ⟨hashOf k j, k, j⟩) ++ entriesOf hashOf cs (k + 1)

/-- `newRing`: the ring items in hash order. -/
def newRing (hashOf : Nat → Nat → Nat) (eps : List Endpoint) (minSize maxSize : Nat) : List RingEntry :=
  sortByHash (entriesOf hashOf (ringCounts (α := α) eps minSize maxSize) 0)

/-- `ring.pick(h)`: index of the first item with hash ≥ h, 0 if there is none. -/
def ringPick (items : List RingEntry) (h : Nat) : Nat :=
  let i := search items.length (fun i => decide ((items.getD i ⟨0, 0, 0⟩).hash ≥ h))
  if i = items.length then 0 else i

/-- `ring.next(e)`: `(e.idx + 1) % len(items)` -/
def ringNext (n idx : Nat) : Nat := (idx + 1) % n

/-! ### picker.Pick -/

/-- connectivity state of an endpoint's child picker -/
inductive CState | idle | connecting | ready | transientFailure | shutdown
deriving DecidableEq, Repr

inductive WalkResult
  | delegate (idx : Nat)      -- `es.state.Picker.Pick(info)` of the endpoint owning ring item idx
  | queue                     -- `balancer.ErrNoSubConnAvailable`
  | panic                     -- "Found child balancer in unknown state"
deriving DecidableEq, Repr

/-- the request-hash walk: `for i := 0; i < ringSize; i++` from item `start`; `st idx` is the state of
    the endpoint owning ring item idx. -/
def walkHash (st : Nat → CState) (n start : Nat) : Nat → Nat → WalkResult
  | 0, _ => .delegate start            -- all in TRANSIENT_FAILURE: the first entry's picker
  | fuel + 1, i =>
    let index := (start + i) % n
    match st index with
    | .ready | .connecting | .idle => .delegate index
    | .transientFailure => walkHash st n start fuel (i + 1)
    | .shutdown => .panic

/-- the random-hash walk; returns the result and the ring items whose endpoint got `exitIdle()`. -/
def walkRandom (st : Nat → CState) (n start : Nat) : Nat → Nat → Bool → List Nat → WalkResult × List Nat
  | 0, _, requested, ex => (if requested then .queue else .delegate start, ex)
  | fuel + 1, i, requested, ex =>
    let index := (start + i) % n
    if st index = .ready then (.delegate index, ex)
    else if !requested && st index = .idle then walkRandom st n start fuel (i + 1) true (ex ++ [index])
    else walkRandom st n start fuel (i + 1) requested ex

/-- `picker.Pick` with a request hash (`random = false`) or a generated one (`random = true`). -/
def pickerPick (items : List RingEntry) (st : Nat → CState) (hasConnecting : Bool) (random : Bool)
    (h : Nat) : WalkResult × List Nat :=
  let e := ringPick items h
  let n := items.length
  if random then walkRandom st n e n 0 hasConnecting []
  else (walkHash st n e n 0, [])

/-! ### ringhashBalancer: when the ring is regenerated (ringhash.go UpdateState / UpdateClientConnState) -/

/-- `config` (min/max ring size), the endpoint set of `endpointStates`, and `ring`. -/
structure BalState where
  cfg : Option (Nat × Nat) := none
  eps : List Endpoint := []
  ring : List RingEntry := []

/-- One resolver + LB-config update. `shouldRegenerateRing` is set when an endpoint was added or
    removed or changed its weight / hash key (the endpoint sets differ), when there was no config
    yet, or when `MinRingSize` or `MaxRingSize` differs from the previous config; the ring is then
    rebuilt by `newRing` (here: `fresh`, the ring newRing builds for the new endpoints and bounds),
    provided there is at least one endpoint. Otherwise the old ring is kept. -/
def balUpdate (s : BalState) (eps : List Endpoint) (minSize maxSize : Nat) (fresh : List RingEntry) : BalState :=
  let epsChanged := decide (sortByKey s.eps ≠ sortByKey eps)
  let cfgChanged := match s.cfg with
    | none => true
    | some (a, b) => a != minSize || b != maxSize
  if !eps.isEmpty && (epsChanged || cfgChanged) then { cfg := some (minSize, maxSize), eps := eps, ring := fresh }
  else { cfg := some (minSize, maxSize), eps := eps, ring := s.ring }

end GrpcModel.Ring
