/-
Model of
  internal/xds/xdsclient/xdsresource/unmarshal_lds.go : buildFilterChainMap, addFilterChainsForDestPrefixes,
      getOrCreateDestPrefixEntry, addFilterChainsForServerNames / TransportProtocols / ApplicationProtocols /
      SourceType / SourcePrefixes / SourcePorts, parsePrefixRanges, and the "no supported filter chains" check of
      processServerSideListener
  internal/xds/server/filter_chain_manager.go : newFilterChainManager, lookup, filterByDestinationPrefixes,
      filterBySourceType, filterBySourcePrefixes, filterBySourcePorts
  internal/xds/server/listener_wrapper.go : the lookupParams built in Accept (Unmap'd addresses, isUnspecifiedAddr)

The Go code keeps a four-level structure
    DstPrefixes[i].SourceTypeArr[st].Entries[j].PortMap[port] = filter chain.
The model keeps the same information flat: one `Slot` per leaf of that structure (destination prefix, source
type, source prefix, port key, chain).  A destination entry exists exactly when some slot carries its prefix
(buildFilterChainMap drops entries without a filter chain), a source-prefix entry likewise.  `rawSeen` is the
per-destination-entry `rawBufferSeen` bit.  Filter chains are identified by their index in the Listener.
-/
import GrpcModel.Generated.FilterChain
namespace GrpcModel.FilterChain
open GrpcModel.Generated

/-- the indices of the `sourceType` iota block (T4): any = 0, same-or-loopback = 1, external = 2 -/
def stAny : Nat := fcSourceTypes.idxOf "sourceTypeAny"
def stSame : Nat := fcSourceTypes.idxOf "sourceTypeSameOrLoopback"
def stExternal : Nat := fcSourceTypes.idxOf "sourceTypeExternal"

inductive IP
  | v4 (a : BitVec 32)
  | v6 (a : BitVec 128)
deriving DecidableEq, Repr

/-- a `netip.Prefix`; `unspec` is the zero value used for "no prefix_ranges given" -/
inductive Pfx
  | unspec
  | v4 (a : BitVec 32) (len : Nat)
  | v6 (a : BitVec 128) (len : Nat)
deriving DecidableEq, Repr

/-- one `CidrRange` as configured -/
inductive RawCidr
  | v4 (a : BitVec 32) (len : Nat)
  | v6 (a : BitVec 128) (len : Nat)
  | bad                                  -- address_prefix is not an IP literal
deriving DecidableEq, Repr

/-- keep the `len` most significant bits (`Prefix.Masked`), for `len ≤ w` -/
def maskTop {w : Nat} (a : BitVec w) (len : Nat) : BitVec w := (a >>> (w - len)) <<< (w - len)

/-- `Addr.Unmap`: an IPv4-mapped IPv6 address becomes IPv4 -/
def unmap (a : BitVec 128) : IP :=
  if a >>> 32 == 0xffff#128 then .v4 (a.setWidth 32) else .v6 a

/-- one element of `parsePrefixRanges`: ParseAddr, Unmap, PrefixFrom(bits).Masked(), IsValid -/
def parsePrefix : RawCidr → Option Pfx
  | .bad => none
  | .v4 a len => if len ≤ 32 then some (.v4 (maskTop a len) len) else none
  | .v6 a len =>
    match unmap a with
    | .v4 a4 => if len ≤ 32 then some (.v4 (maskTop a4 len) len) else none
    | .v6 a6 => if len ≤ 128 then some (.v6 (maskTop a6 len) len) else none

/-- the loop of `parsePrefixRanges`: the first range that does not parse fails the whole list -/
def parseList : List RawCidr → Option (List Pfx)
  | [] => some []
  | r :: rs =>
    match parsePrefix r with
    | none => none
    | some p =>
      match parseList rs with
      | none => none
      | some ps => some (p :: ps)

/-- `parsePrefixRanges`; an empty list of ranges stands for the one unspecified prefix -/
def parsePrefixes (rs : List RawCidr) : Option (List Pfx) :=
  match parseList rs with
  | none => none
  | some [] => some [.unspec]
  | some l => some l

/-- `Prefix.Contains` -/
def Pfx.contains : Pfx → IP → Bool
  | .v4 a n, .v4 b => (a ^^^ b) >>> (32 - n) == 0
  | .v6 a n, .v6 b => (a ^^^ b) >>> (128 - n) == 0
  | _, _ => false

/-- the `matchSize` of the two prefix stages: `none` = skipped (valid prefix not containing the address),
    -1 = unspecified prefix, else the prefix length -/
def matchSize (p : Pfx) (ip : IP) : Option Int :=
  match p with
  | .unspec => some fcUnspecifiedPrefixMatch
  | .v4 _ n => if p.contains ip then some n else none
  | .v6 _ n => if p.contains ip then some n else none

/-- `FilterChainMatch` of one filter chain, reduced to what validation and lookup read -/
structure ChainCfg where
  dstPort : Bool          -- destination_port present and non-zero
  serverNames : Bool      -- server_names non-empty
  tp : Nat                -- transport_protocol: 0 = "", 1 = "raw_buffer", else anything else
  alpn : Bool             -- application_protocols non-empty
  srcType : Nat           -- 0 ANY, 1 SAME_IP_OR_LOOPBACK, 2 EXTERNAL, else an unknown enum value
  dst : List RawCidr      -- prefix_ranges
  src : List RawCidr      -- source_prefix_ranges
  ports : List Nat        -- source_ports
deriving Repr

/-- one leaf `DstPrefixes[dst].SourceTypeArr[st].Entries[src].PortMap[port] = chain` -/
structure Slot where
  dst : Pfx
  st : Nat
  src : Pfx
  port : Nat              -- 0 = the wildcard key
  chain : Nat
deriving DecidableEq, Repr

structure Table where
  slots : List Slot
  rawSeen : List Pfx
deriving Repr

inductive BuildErr | prefix | srcType | overlap | empty
deriving DecidableEq, Repr

def sameKey (d : Pfx) (st : Nat) (s : Pfx) (p : Nat) (x : Slot) : Bool :=
  x.dst == d && x.st == st && x.src == s && x.port == p

/-- `addFilterChainsForSourcePorts`: no ports = key 0; an occupied key is the overlap error -/
def addPorts (d : Pfx) (st : Nat) (s : Pfx) (id : Nat) : List Nat → Table → Except BuildErr Table
  | [], t => .ok t
  | p :: ps, t =>
    if t.slots.any (sameKey d st s p) then .error .overlap
    else addPorts d st s id ps { t with slots := t.slots ++ [⟨d, st, s, p, id⟩] }

def portKeys (ports : List Nat) : List Nat := if ports.isEmpty then [0] else ports

/-- the loop of `addFilterChainsForSourcePrefixes` over the parsed prefixes -/
def addSrcs (d : Pfx) (st : Nat) (id : Nat) (ports : List Nat) : List Pfx → Table → Except BuildErr Table
  | [], t => .ok t
  | s :: ss, t =>
    match addPorts d st s id (portKeys ports) t with
    | .error e => .error e
    | .ok t' => addSrcs d st id ports ss t'

/-- one destination prefix of one chain: addFilterChainsForServerNames → TransportProtocols →
    ApplicationProtocols → SourceType → SourcePrefixes -/
def addForDst (c : ChainCfg) (id : Nat) (d : Pfx) (t : Table) : Except BuildErr Table :=
  if c.serverNames then .ok t
  else if c.tp ≥ 2 then .ok t
  else if c.tp = 0 ∧ t.rawSeen.contains d then .ok t
  else
    let t := if c.tp = 1 ∧ !t.rawSeen.contains d
      then { slots := t.slots.filter (fun x => x.dst != d), rawSeen := d :: t.rawSeen } else t
    if c.alpn then .ok t
    else if c.srcType ≥ 3 then .error .srcType
    else match parsePrefixes c.src with
      | none => .error .prefix
      | some ss => addSrcs d c.srcType id c.ports ss t

def addDsts (c : ChainCfg) (id : Nat) : List Pfx → Table → Except BuildErr Table
  | [], t => .ok t
  | d :: ds, t =>
    match addForDst c id d t with
    | .error e => .error e
    | .ok t' => addDsts c id ds t'

/-- one iteration of the loop in `buildFilterChainMap` -/
def addChain (c : ChainCfg) (id : Nat) (t : Table) : Except BuildErr Table :=
  if c.dstPort then .ok t
  else match parsePrefixes c.dst with
    | none => .error .prefix
    | some ds => addDsts c id ds t

def addChains : List ChainCfg → Nat → Table → Except BuildErr Table
  | [], _, t => .ok t
  | c :: cs, id, t =>
    match addChain c id t with
    | .error e => .error e
    | .ok t' => addChains cs (id + 1) t'

/-- `processServerSideListener` as far as filter chains go -/
def build (hasDefault : Bool) (cs : List ChainCfg) : Except BuildErr Table :=
  match addChains cs 0 ⟨[], []⟩ with
  | .error e => .error e
  | .ok t => if t.slots.isEmpty ∧ !hasDefault then .error .empty else .ok t

/-! ### lookup -/

structure Conn where
  wild : Bool             -- listener bound to the unspecified address
  dst : IP
  src : IP
  port : Nat
deriving Repr

inductive Res
  | chain (id : Nat)
  | dflt                  -- the default filter chain
  | none                  -- error: no matching filter chain (and no default)
  | multiple              -- error: "multiple matching filter chains"
deriving DecidableEq, Repr

def IP.isLoopback : IP → Bool
  | .v4 a => a >>> 24 == 127#32
  | .v6 a => a == 1#128

/-- the running-maximum loop shared by filterByDestinationPrefixes and filterBySourcePrefixes:
    `skip` when the prefix does not match, `continue` when smaller than the current maximum, reset the
    result when larger, append. -/
def bestLoop (f : Slot → Option Int) : List Slot → Int → List Slot → List Slot
  | [], _, acc => acc
  | s :: rest, mx, acc =>
    match f s with
    | none => bestLoop f rest mx acc
    | some m =>
      if m < mx then bestLoop f rest mx acc
      else if m > mx then bestLoop f rest m [s]
      else bestLoop f rest mx (acc ++ [s])

/-- noPrefixMatch = -2 -/
def best (f : Slot → Option Int) (l : List Slot) : List Slot := bestLoop f l fcNoPrefixMatch []

def srcTypeOf (c : Conn) : Nat := if c.src = c.dst ∨ c.src.isLoopback then stSame else stExternal

/-- `filterBySourceType` on the flat table -/
def bySourceType (ty : Nat) (l : List Slot) : List Slot :=
  if l.any (·.st == ty) then l.filter (·.st == ty) else l.filter (·.st == stAny)

/-- `filterBySourcePorts` -/
def byPort (port : Nat) (l : List Slot) : Option Nat :=
  match l.find? (·.port == port) with
  | some s => some s.chain
  | none => (l.find? (·.port == 0)).map (·.chain)

/-- `filterChainManager.lookup` -/
def lookup (t : Table) (hasDefault : Bool) (c : Conn) : Res :=
  let fallback : Res := if hasDefault then .dflt else .none
  let s1 := if c.wild then best (fun s => matchSize s.dst c.dst) t.slots else t.slots
  if s1.isEmpty then fallback else
  let s2 := bySourceType (srcTypeOf c) s1
  if s2.isEmpty then fallback else
  let s3 := best (fun s => matchSize s.src c.src) s2
  -- `matchingSrcPrefixes` holds one element per (destination entry, source-prefix entry) pair with the best
  -- match: none → nil, exactly one → its port map, more → the error
  match s3 with
  | [] => fallback
  | h :: _ =>
    if s3.all (fun s => s.dst == h.dst && s.src == h.src) then
      match byPort c.port s3 with
      | some id => .chain id
      | none => fallback
    else .multiple

/-! ### reference: most-specific match by stage-wise narrowing

Every stage keeps, of what the previous stage kept, the candidates that match the connection with the most
specific value; there is no backtracking.  Destination prefixes are considered only on a listener bound to
the wildcard address (the reading of the code and of the pinned test, see props/C49.py). -/
namespace Spec

/-- the candidates with the largest defined size -/
def mostSpecific (f : Slot → Option Int) (l : List Slot) : List Slot :=
  l.filter fun s => match f s with
    | none => false
    | some m => l.all fun s' => match f s' with
      | none => true
      | some k => k ≤ m

def stage1 (t : Table) (c : Conn) : List Slot :=
  if c.wild then mostSpecific (fun s => matchSize s.dst c.dst) t.slots else t.slots

def stage2 (t : Table) (c : Conn) : List Slot :=
  let s1 := stage1 t c
  let ty := srcTypeOf c
  s1.filter fun s => s.st == ty || (s.st == stAny && s1.all (·.st != ty))

def stage3 (t : Table) (c : Conn) : List Slot := mostSpecific (fun s => matchSize s.src c.src) (stage2 t c)

def stage4 (t : Table) (c : Conn) : List Slot :=
  let s3 := stage3 t c
  s3.filter fun s => s.port == c.port || (s.port == 0 && s3.all (·.port != c.port))

/-- the chain of the unique survivor; the default when nothing survives; `multiple` = a tie -/
def select (t : Table) (hasDefault : Bool) (c : Conn) : Res :=
  match stage4 t c with
  | [] => if hasDefault then .dflt else .none
  | [s] => .chain s.chain
  | _ => .multiple

end Spec

def Res.show : Res → String
  | .chain id => s!"fc{id}" | .dflt => "default" | .none => "err:none" | .multiple => "err:multiple"

def BuildErr.show : BuildErr → String
  | .prefix => "reject:prefix" | .srcType => "reject:srctype" | .overlap => "reject:overlap" | .empty => "reject:empty"

end GrpcModel.FilterChain
