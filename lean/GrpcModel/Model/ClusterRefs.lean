/-
Model of the cluster reference counting of the xDS resolver
(internal/xds/resolver/serviceconfig.go, internal/xds/resolver/xds_resolver.go) together with the
cluster-subscription bookkeeping of the dependency manager it talks to
(internal/xds/xdsdepmgr/xds_dependency_manager.go: `applyRouteConfigUpdateLocked`,
`SubscribeToCluster`, `unsubscribeFromCluster`, `maybeSendUpdateLocked`).

Actors and their atomic steps (= ops):

  rds S        the dependency manager (under its mutex) applies a route configuration whose routes
               name the clusters S (a LIST: a cluster may be named by several routes or several times in
               one weighted-cluster route; both sides keep ONE reference per distinct cluster): static references := S, subscriptions without any reference are
               deleted, and — all cluster/endpoint resources being available — it calls
               `watcher.Update(config)`, which the resolver only ENQUEUES on its callback serializer.
               `config` carries the route clusters S and `XDSConfig.Clusters` = all current subscriptions.
  deliver      the resolver's serializer runs the oldest queued `Update` callback:
               `newConfigSelector` (addOrGetActiveClusterInfo per route cluster — a NEW clusterInfo
               subscribes to the cluster in the dependency manager — then refCount+1 for each),
               `sendNewServiceConfig` (pruneActiveClustersAndPlugins: refCount == 0 ⇒ unsubscribe and
               delete; push service config = the remaining active clusters, with the XDSConfig),
               then `curConfigSelector.stop()` (refCount-1 each; 0 ⇒ unsubscribe).
  select r c   an RPC r is routed by the CURRENT config selector to cluster c (`SelectConfig`:
               refCount+1, OnCommitted = sync.OnceFunc(refCount-1; 0 ⇒ unsubscribe)).
  commit r     OnCommitted of RPC r is invoked (any number of times; sync.OnceFunc).

`clusterInfo.unsubscribe` is the `sync.OnceFunc` returned by `SubscribeToCluster`: the first call
decrements the dynamic reference count in the dependency manager (deleting the subscription and
sending an update when no static reference is left either), later calls do nothing — `spent`.

Not modelled: cluster specifier plugins (same counting, but they call sendNewServiceConfig instead
of unsubscribe), interceptors / RefCounted route clusters, resource errors (erroringConfigSelector),
CDS/EDS resources (always available at once, so every route update yields exactly one Update).
-/
namespace GrpcModel.ClusterRefs

abbrev Name := Nat

/-- resolver side: one entry of `activeClusters` -/
structure Info where
  name : Name
  refCount : Nat
  spent : Bool          -- unsubscribe (a sync.OnceFunc) has already been invoked
deriving Repr, DecidableEq

structure Rpc where
  id : Nat
  cluster : Name
  committed : Bool      -- the OnceFunc inside OnCommitted has run
deriving Repr, DecidableEq

/-- an `Update(config)` waiting in the resolver's serializer -/
structure Upd where
  route : List Name     -- clusters named by the routes of config.VirtualHost
  clusters : List Name  -- keys of config.Clusters
deriving Repr, DecidableEq

structure State where
  -- dependency manager
  static : List Name            -- clustersFromLastRouteConfig (staticRefCount = 1)
  dyn : List Name               -- dynamic references: dynamicRefCount of c = number of occurrences of c
  -- resolver
  queue : List Upd
  active : List Info            -- activeClusters
  cur : Option (List Name)      -- clusters referenced by curConfigSelector
  rpcs : List Rpc
  -- what the channel was given last (resolver.State): children of the service config, XDSConfig.Clusters
  pushedSC : List Name
  pushedXC : List Name
  pushes : Nat
  -- ghost
  commits : List Nat            -- ids of RPCs whose reference was released (one entry per release)
  reusedSpent : Bool            -- a clusterInfo whose unsubscribe was spent got a new reference
deriving Repr, DecidableEq

def init : State :=
  { static := [], dyn := [], queue := [], active := [], cur := none, rpcs := [], pushedSC := [], pushedXC := [],
    pushes := 0, commits := [], reusedSpent := false }

inductive Op
  | rds (s : List Name) | deliver | select (r : Nat) (c : Name) | commit (r : Nat)
  | regen   -- the callback scheduled by a config selector's sendNewServiceConfig (last reference to a cluster
            -- specifier plugin released): r.sendNewServiceConfig(r.curConfigSelector) = prune + UpdateState
deriving Repr, DecidableEq

/-- the distinct elements of a list (Go map keys) -/
def dedup : List Name → List Name
  | [] => []
  | a :: l => if a ∈ l then dedup l else a :: dedup l

/-! ### dependency manager -/

def dynOf (s : State) (c : Name) : Nat := s.dyn.count c

/-- keys of clusterSubscriptions: a subscription exists iff it has a static or a dynamic reference -/
def subs (s : State) : List Name := dedup (s.static ++ s.dyn)

/-- maybeSendUpdateLocked with every resource available: enqueue Update(config) at the resolver -/
def sendUpdate (s : State) : State :=
  { s with queue := s.queue ++ [{ route := s.static, clusters := subs s }] }

/-- SubscribeToCluster(c): an existing subscription just gets dynamicRefCount+1.  A new one (no static
    reference: the queued config that named c is stale) is created and `maybeSendUpdateLocked` runs
    three times while its resources arrive — at once, after the Cluster resource, after the Endpoints
    resource; a cluster without a static reference never holds an update back, so each run sends an
    Update, the first two without c among `config.Clusters`. -/
def subscribe (s : State) (c : Name) : State :=
  let existed := (subs s).contains c
  let s' : State := { s with dyn := s.dyn ++ [c] }
  if existed then s' else
  let partialU : Upd := { route := s'.static, clusters := (subs s').filter (· ≠ c) }
  sendUpdate { s' with queue := s'.queue ++ [partialU, partialU] }

/-- unsubscribeFromCluster(c) (first call of the OnceFunc) -/
def unsubscribeDM (s : State) (c : Name) : State :=
  let n := dynOf s c - 1
  let s' : State := { s with dyn := s.dyn.erase c }
  if n = 0 ∧ ¬ s.static.contains c then sendUpdate s' else s'

/-! ### resolver -/

def findInfo (a : List Info) (c : Name) : Option Info := a.find? (·.name == c)

/-- apply f to the entry of cluster c -/
def modifyInfo (a : List Info) (c : Name) (f : Info → Info) : List Info :=
  a.map (fun x => if x.name = c then f x else x)

def markSpent (i : Info) : Info := { i with spent := true }
def decr (i : Info) : Info := { i with refCount := i.refCount - 1 }
def incr (i : Info) : Info := { i with refCount := i.refCount + 1 }

/-- ci.unsubscribe() -/
def unsubscribe (s : State) (c : Name) : State :=
  match findInfo s.active c with
  | none => s
  | some i =>
    if i.spent then s else
    unsubscribeDM { s with active := modifyInfo s.active c markSpent } c

/-- `if v := info.refCount.Add(-1); v == 0 { info.unsubscribe() }` -/
def release (s : State) (c : Name) : State :=
  match findInfo s.active c with
  | none => s
  | some i =>
    let s' : State := { s with active := modifyInfo s.active c decr }
    if i.refCount - 1 = 0 then unsubscribe s' c else s'

/-- addOrGetActiveClusterInfo(c) followed (at the end of newConfigSelector) by refCount.Add(1) -/
def acquireCS (s : State) (c : Name) : State :=
  match findInfo s.active c with
  | some i =>
    { s with active := modifyInfo s.active c incr, reusedSpent := s.reusedSpent || i.spent }
  | none =>
    let s' := subscribe s c
    { s' with active := s'.active ++ [{ name := c, refCount := 1, spent := false }] }

/-- pruneActiveClustersAndPlugins -/
def prune (s : State) : State :=
  let dead := (s.active.filter (·.refCount = 0)).map (·.name)
  let s' := dead.foldl unsubscribe s
  { s' with active := s'.active.filter (·.refCount ≠ 0) }

/-- `r.cc.UpdateState(...)`: service config = the active clusters, XDSConfig = the update's -/
def pushConfig (s : State) (u : Upd) : State :=
  { s with pushedSC := s.active.map (fun i => i.name), pushedXC := u.clusters, pushes := s.pushes + 1 }

/-- `r.curConfigSelector.stop()` -/
def stopOld (s : State) : State :=
  match s.cur with
  | some old => old.foldl release s
  | none => s

def deliver (s : State) : State :=
  match s.queue with
  | [] => s
  | u :: rest =>
    let route := dedup u.route
    -- newConfigSelector; sendNewServiceConfig (prune, UpdateState); curConfigSelector.stop()
    let s4 := stopOld (pushConfig (prune (route.foldl acquireCS { s with queue := rest })) u)
    { s4 with cur := some route }

def step (s : State) : Op → State
  | .rds r =>
    let r := dedup r
    sendUpdate { s with static := r }
  | .deliver => deliver s
  | .regen =>
    let s2 := prune s
    { s2 with pushedSC := s2.active.map (fun i => i.name), pushes := s2.pushes + 1 }
  | .select id c =>
    -- SelectConfig on the current config selector; an unknown id and a cluster of the current routes
    if s.rpcs.any (·.id == id) then s else
    match s.cur with
    | some cl =>
      if cl.contains c then
        match findInfo s.active c with
        | some _ => { s with active := modifyInfo s.active c incr,
                             rpcs := s.rpcs ++ [{ id := id, cluster := c, committed := false }] }
        | none => s      -- would be the panic "matched cluster not found in ConfigSelector": unreachable
      else s
    | none => s
  | .commit id =>
    match s.rpcs.find? (·.id == id) with
    | none => s
    | some r =>
      if r.committed then s else
      let s1 : State := { s with rpcs := s.rpcs.map (fun x => if x.id == id then { x with committed := true } else x),
                                 commits := s.commits ++ [id] }
      release s1 r.cluster

def run (ops : List Op) : State := ops.foldl step init

/-! ### the property's predicates (also used by the monitor) -/

def inflight (s : State) : List Name := (s.rpcs.filter (!·.committed)).map (·.cluster)

/-- every RPC that was routed to a cluster and is not committed finds that cluster in the service config … -/
def usableSC (s : State) : Bool := (inflight s).all (s.pushedSC.contains ·)
/-- … and in the XDSConfig the channel's balancers work from -/
def usableXC (s : State) : Bool := (inflight s).all (s.pushedXC.contains ·)

/-- nothing is pending: no queued update, no uncommitted RPC -/
def quiescent (s : State) : Bool := s.queue.isEmpty && (inflight s).isEmpty

/-- at quiescence the configuration contains exactly the clusters of the current routes -/
def dropped (s : State) : Bool :=
  match s.cur with
  | some cl => s.pushedSC.all (cl.contains ·)
  | none => s.pushedSC.isEmpty

end GrpcModel.ClusterRefs
