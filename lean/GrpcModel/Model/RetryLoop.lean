/-
Model of the client-stream retry machinery of grpc-go's stream.go, one RPC against a scripted
server (C18, C23):

  clientStream.withRetry / retryLocked / replayBufferLocked / bufferForRetryLocked /
  commitAttemptLocked / finish, SendMsg / CloseSend / RecvMsg / Header, csAttempt.finish,
  newClientStream's first op, pickerWrapper.pick's outcome per attempt.

The decision itself is `GrpcModel.Retry.shouldRetry` (Model/Retry.lean).

World: the server answers an attempt according to a script (one behaviour per attempt, in the
order the attempts reach the server) and only at quiescent points: when the client is blocked
in RecvMsg/Header, or after a client operation has returned.  An attempt is therefore never
failed in the middle of a burst of client frames, which makes every operation's
run-to-quiescence result a function of the script (the harness enforces the same discipline).
-/
import GrpcModel.Model.Retry
namespace GrpcModel.RetryLoop
open GrpcModel.Retry

/-! ### the scripted server -/

inductive Trig
  | atHeaders                -- as soon as the request headers arrived
  | afterMsgs (n : Nat)      -- once n messages arrived on this attempt
  | atHalfClose              -- once END_STREAM arrived
deriving Repr, DecidableEq

inductive BKind
  | trailersOnly   -- Trailers-Only response: status `code`, optional grpc-retry-pushback-ms values
  | headers        -- response headers, then (code = 0: one message and OK trailers | else trailers with `code`)
  | refuse         -- RST_STREAM(REFUSED_STREAM)
  | goaway         -- GOAWAY whose last-stream-id is below this stream
  | never          -- no answer at all
deriving Repr, DecidableEq

structure Beh where
  kind : BKind
  trig : Trig
  code : Nat
  push : List (List UInt8)
deriving Repr, DecidableEq

/-- behaviour once the script is exhausted: answer OK at half-close. -/
def Beh.dflt : Beh := ⟨.headers, .atHalfClose, 0, []⟩

/-- what an attempt carried to the server -/
inductive Wire
  | msg (seq size : Nat)
  | half
deriving Repr, DecidableEq

/-- How the pick of an attempt went (C23): the picker's result had a Done callback or not. -/
structure Att where
  beh : Beh
  prev : Int                   -- grpc-previous-rpc-attempts of this attempt (= numRetries at creation)
  log : List Wire              -- what the server received on it, oldest first
  answered : Bool := false     -- the scripted answer was written
  reset : Bool := false        -- the client closed the stream itself before any answer
  localCode : Nat := 0         -- status the client closed it with (when `reset`)
  respRead : Nat := 0          -- messages of an OK response already delivered to the application
  finishCalls : Nat := 0       -- csAttempt.finish calls that reached pickResult.Done (at most once by `finished`)
  doneCode : Nat := 0          -- status code of the error `finish` (hence Done's DoneInfo.Err) was called with (0 = nil)
deriving Repr, DecidableEq

def Att.msgs (a : Att) : Nat := (a.log.filter fun w => w matches .msg _ _).length
def Att.ended (a : Att) : Bool := a.log.contains .half

def Att.due (a : Att) : Bool :=
  match a.beh.trig with
  | .atHeaders => true
  | .afterMsgs n => decide (a.msgs ≥ n)
  | .atHalfClose => a.ended

/-- the transport stream of the attempt is closed at the client. -/
def Att.dead (a : Att) : Bool := a.reset || (a.answered && a.beh.kind != .never)

/-- the server writes every answer that is due (quiescent point). -/
def react (atts : List Att) : List Att :=
  atts.map fun a => if !a.answered && !a.reset && a.beh.kind != .never && a.due then { a with answered := true } else a

/-! ### client stream -/

inductive ROp
  | start                      -- pick a transport and create the stream
  | msg (seq size : Nat)       -- SendMsg
  | half                       -- CloseSend
deriving Repr, DecidableEq

inductive Ev
  | newAttempt (idx : Nat) (prev : Int)
  | msg (idx seq size : Nat)
  | half (idx : Nat)
  | failed (code : Nat)        -- an attempt whose stream could not be created (pick ok, NewStream failed): finished at once
deriving Repr, DecidableEq

/-- a retry delay taken during an operation: exact (pushback) or the exponent of the backoff band -/
inductive Delay
  | pushback (ms : Int)
  | backoff (k : Nat)
deriving Repr, DecidableEq

structure St where
  clientStreams : Bool
  serverStreams : Bool
  disableRetry : Bool
  pol : Option Policy
  maxBuf : Int
  cs : CS
  replay : List ROp := []
  replaySize : Int := 0
  sentLast : Bool := false
  recvFirst : Bool := false
  seq : Nat := 0
  atts : List Att := []
  script : List Beh
  started : Bool := false
  commits : Nat := 0           -- number of transitions uncommitted → committed (onCommit calls)
  hist : List Wire := []       -- ghost: what the application has produced so far (SendMsg / CloseSend calls)
  nsScript : List (Option Nat) := []   -- per stream creation, in order: none = NewStream succeeds, some c = it fails with status c
  failedFin : List Nat := []   -- per attempt whose stream creation failed: how often its `finish` (Done) ran
deriving Repr

/-- the clientStream of a new RPC (before `newClientStream`'s first op): `disableRetry` also means
    the stream carries no throttler. -/
def St.init (clientStreams serverStreams disableRetry : Bool) (pol : Option Policy) (maxBuf : Int)
    (thr : Option Throttler) (script : List Beh) (nsScript : List (Option Nat) := []) : St :=
  { clientStreams, serverStreams, disableRetry, pol, maxBuf, script, nsScript,
    cs := { finished := false, committed := false, firstAttempt := true, numRetries := 0,
            sincePushback := 0, throttler := if disableRetry then none else thr } }

/-- result of one client operation as the application sees it -/
inductive Res
  | ok
  | eof
  | err (code : Nat)           -- a status error
  | exhaustedEof               -- "max retries exhausted …: EOF" (the wrapped non-status error SendMsg returns)
  | errExhausted (code : Nat)  -- "max retries exhausted …" wrapping a status error
  | msg (len : Nat)
  | hdr
  | nohdr
  | blocked
  | outOfFuel
deriving Repr, DecidableEq

def St.cur (st : St) : Option Att := st.atts.getLast?
def St.curIdx (st : St) : Nat := st.atts.length
def St.curDead (st : St) : Bool := match st.cur with | some a => a.dead | none => true

def St.updCur (st : St) (f : Att → Att) : St :=
  match st.atts.getLast? with
  | none => st
  | some a => { st with atts := st.atts.dropLast ++ [f a] }

/-- `commitAttemptLocked`. -/
def St.commit (st : St) : St :=
  { st with cs := { st.cs with committed := true }, replay := [],
            commits := if st.cs.committed then st.commits else st.commits + 1 }

/-- `bufferForRetryLocked(sz, op, cleanup)`. -/
def St.buffer (st : St) (sz : Int) (op : ROp) : St :=
  if st.cs.committed then st
  else
    let st := { st with replaySize := st.replaySize + sz }
    if st.replaySize > st.maxBuf then st.commit
    else { st with replay := st.replay ++ [op] }

/-- `csAttempt.finish` on the current attempt: closes the transport stream (a still open one is
    reset with the given status) and, once per attempt, calls the pick's Done. -/
def St.finishAttempt (st : St) (code : Nat) : St :=
  st.updCur fun a =>
    if a.finishCalls > 0 then a
    else { a with finishCalls := 1, doneCode := code, reset := if a.dead then a.reset else true,
                  localCode := if a.dead then a.localCode else code }

/-- `clientStream.finish(err)`: `code = 0` stands for nil / io.EOF. -/
def St.finish (st : St) (code : Nat) : St :=
  if st.cs.finished then st
  else
    let st := { st with cs := { st.cs with finished := true } }
    let st := st.commit
    let st := st.finishAttempt code
    if code = 0 then { st with cs := { st.cs with throttler := successOpt st.cs.throttler } } else st

/-- one frame on the current attempt (`transportStream.Write`): false = the stream is done. -/
def St.write (st : St) (w : Wire) : St × Bool × List Ev :=
  if st.curDead then (st, false, [])
  else
    let ev := match w with
      | .msg s z => Ev.msg st.curIdx s z
      | .half => Ev.half st.curIdx
    (st.updCur fun a => { a with log := a.log ++ [w] }, true, [ev])

/-- a new attempt: pick, NewStream (request headers reach the server). -/
def St.newAttempt (st : St) : St × List Ev :=
  let b := (st.script.drop st.atts.length).headD Beh.dflt
  let a : Att := { beh := b, prev := st.cs.numRetries, log := [] }
  ({ st with atts := st.atts ++ [a] }, [Ev.newAttempt (st.atts.length + 1) st.cs.numRetries])

/-- `replayBufferLocked` on a fresh attempt. -/
def St.replayAll (st : St) : St × List Ev :=
  st.replay.foldl (fun (acc : St × List Ev) op =>
    let (s, evs) := acc
    match op with
    | .start => let (s', e) := s.newAttempt; (s', evs ++ e)
    | .msg q z =>
      let (s', _, e) := s.write (.msg q z)
      if s.clientStreams then (s', evs ++ e)
      else let (s'', _, e2) := s'.write .half; (s'', evs ++ e ++ e2)
    | .half => let (s', _, e) := s.write .half; (s', evs ++ e)) (st, [])

/-- what `shouldRetry` reads from a finished attempt. -/
def attemptView (a : Att) : Attempt :=
  let k := a.beh.kind
  { drop := false, hasStream := true, allowTransparent := false,
    unprocessed := !a.reset && (k == .refuse || k == .goaway),
    trailersOnly := a.reset || (k == .trailersOnly || k == .refuse || k == .goaway),
    pushback := if !a.reset && k == .trailersOnly then a.beh.push else [],
    code := if a.reset then a.localCode else match k with
      | .trailersOnly => a.beh.code
      | .headers => a.beh.code
      | _ => 14 }

/-- the status code the closed current attempt carries (`transportStream.Status().Code()`). -/
def St.curCode (st : St) : Nat := match st.cur with | some a => (attemptView a).code | none => 2

inductive COp
  | send (size : Nat)
  | half
  | recv
  | header
deriving Repr, DecidableEq

/-- raw outcome of running the op's closure on the current attempt -/
inductive Raw
  | nil                  -- err == nil
  | nilMsg (len : Nat)   -- RecvMsg got a message
  | nilHdr               -- Header got metadata
  | nilNoHdr             -- Header got (nil, nil): the stream ended OK without headers
  | eof
  | err (code : Nat)
  | blocks
deriving Repr, DecidableEq

/-- `op(a)` on the current attempt. Blocking ops first let the server react (quiescence). -/
def St.applyOp (st : St) (op : COp) : St × Raw × List Ev :=
  match op with
  | .send size =>
    let (st1, ok, ev) := st.write (.msg (if size = 0 then 0 else st.seq) size)
    if !ok then (st1, .eof, ev)
    else if st.clientStreams then (st1, .nil, ev)
    else let (st2, _, ev2) := st1.write .half; (st2, .nil, ev ++ ev2)
  | .half => let (st1, _, ev) := st.write .half; (st1, .nil, ev)
  | .recv =>
    let st := { st with atts := react st.atts }
    match st.cur with
    | none => (st, .blocks, [])
    | some a =>
      if !a.dead then (st, .blocks, [])
      else if a.reset then (st, .err a.localCode, [])
      else match a.beh.kind with
        | .trailersOnly =>
          if a.beh.code ≠ 0 then (st, .err a.beh.code, [])
          else if !st.serverStreams && !st.recvFirst then (st, .err 13, [])
          else (st, .eof, [])
        | .headers =>
          if a.beh.code ≠ 0 then (st, .err a.beh.code, [])
          else if a.respRead = 0 then
            ({ st.updCur (fun a => { a with respRead := 1 }) with recvFirst := true }, .nilMsg 2, [])
          else (st, .eof, [])
        | _ => (st, .err 14, [])
  | .header =>
    let st := { st with atts := react st.atts }
    match st.cur with
    | none => (st, .blocks, [])
    | some a =>
      if !a.dead then (st, .blocks, [])
      else if a.reset then (st, .err a.localCode, [])
      else match a.beh.kind with
        | .trailersOnly => if a.beh.code ≠ 0 then (st, .err a.beh.code, []) else (st, .nilNoHdr, [])
        | .headers => (st, .nilHdr, [])
        | _ => (st, .err 14, [])

/-- the `onSuccess` callback of the op. -/
def St.onSuccess (st : St) (op : COp) : St :=
  match op with
  | .send size => st.buffer (5 + size) (.msg (if size = 0 then 0 else st.seq) size)
  | .half => st.buffer 0 .half
  | .recv => st.commit
  | .header => st.commit

def rawToRes : Raw → Res
  | .nil => .ok
  | .nilMsg n => .msg n
  | .nilHdr => .hdr
  | .nilNoHdr => .nohdr
  | .eof => .eof
  | .err c => .err c
  | .blocks => .blocked

/-- how `withRetry` classifies the outcome of `op(a)` -/
inductive Outcome
  | blocked
  | success      -- err == nil, or io.EOF on a stream whose status is OK
  | failure
deriving Repr, DecidableEq

def St.classify (st : St) : Raw → Outcome
  | .blocks => .blocked
  | .nil | .nilMsg _ | .nilHdr | .nilNoHdr => .success
  | .eof => if st.curCode = 0 then .success else .failure
  | .err _ => .failure

/-- the status code of the error `op(a)` returned (0 for io.EOF). -/
def Raw.code : Raw → Nat
  | .err c => c
  | _ => 0

/-- `retryLocked` up to the decision: `attempt.finish(lastErr)`, then `shouldRetry`. -/
def St.decideRetry (st : St) (raw : Raw) : St × Decision :=
  let st2 := st.finishAttempt raw.code
  match st2.cur with
  | none => (st2, .noRetry)
  | some a =>
    let (cs', d) := shouldRetry st2.disableRetry st2.pol st2.cs (attemptView a) 0
    ({ st2 with cs := cs' }, d)

/-- the delay `shouldRetry` waits for decision `d` on the failed current attempt. -/
def St.delayOf (st : St) (d : Decision) : List Delay :=
  match d with
  | .backoff _ true =>
    (match st.cur with
     | some a => (match parsePushback (attemptView a).pushback with | .ms n => [.pushback n] | _ => [])
     | none => [])
  | .backoff _ false => [.backoff (st.cs.sincePushback - 1)]
  | _ => []

/-- `retryLocked` after a positive decision: counters, new attempt, `replayBufferLocked`. -/
def St.startRetry (st : St) (d : Decision) : St × List Ev :=
  { st with cs := afterDecision st.cs d }.replayAll

/-- what `shouldRetry` reads from an attempt whose stream could not be created: the pick succeeded,
    `transport.NewStream` failed with status `code` and did not allow a transparent retry. -/
def noStreamView (code : Nat) : Attempt :=
  { drop := false, hasStream := false, allowTransparent := false, unprocessed := false,
    trailersOnly := false, pushback := [], code := code }

/-- One turn of `retryLocked`'s loop for a new attempt whose first replay op (pick + NewStream) fails
    with status `c`: the counters of the decision `d` that led here are applied, the attempt is
    finished at the top of the next iteration (`attempt.finish`: its pick's Done), and
    `shouldRetry` judges it.  `cs.attempt` is not touched: it still is the last attempt that had a
    stream. -/
def St.failStep (st : St) (d : Decision) (c : Nat) : St × Decision :=
  let st1 := { st with cs := afterDecision st.cs d, nsScript := st.nsScript.tail, failedFin := st.failedFin ++ [1] }
  let r := shouldRetry st1.disableRetry st1.pol st1.cs (noStreamView c) 0
  ({ st1 with cs := r.1 }, r.2)

/-- `retryLocked`'s loop while stream creation keeps failing.  Returns the state, `some res` if the
    RPC gave up (the error the operation returns), the decision still to be carried out, the
    failed-attempt events and the delays waited. -/
def St.failLoop : Nat → St → Decision → St × Option Res × Decision × List Ev × List Delay
  | fuel, st, d =>
    match st.nsScript with
    | [] => (st, none, d, [], [])
    | none :: rest => ({ st with nsScript := rest }, none, d, [], [])
    | some c :: _ =>
      let r := st.failStep d c
      match r.2 with
      | .noRetry => (r.1, some (.err c), r.2, [.failed c], [])
      | .exhausted => (r.1, some (.errExhausted c), r.2, [.failed c], [])
      | d' =>
        match fuel with
        | 0 => (r.1, some .outOfFuel, d', [.failed c], [])
        | fuel + 1 =>
          let x := St.failLoop fuel r.1 d'
          (x.1, x.2.1, x.2.2.1, .failed c :: x.2.2.2.1, [Delay.backoff (r.1.cs.sincePushback - 1)] ++ x.2.2.2.2)

/-- `retryLocked` after a positive decision: attempts are created until one has a stream (the buffer
    is then replayed on it) or `shouldRetry` gives up on one whose stream creation failed
    (`some res`: the error the operation returns). -/
def St.nextAttempt (fuel : Nat) (st : St) (d : Decision) : St × Option Res × List Ev × List Delay :=
  let f := st.failLoop fuel d
  match f.2.1 with
  | some r => (f.1, some r, f.2.2.2.1, f.2.2.2.2)
  | none => ((f.1.startRetry f.2.2.1).1, none, f.2.2.2.1 ++ (f.1.startRetry f.2.2.1).2, f.2.2.2.2)

/-- `withRetry(op, onSuccess)`, with `retryLocked` inlined.  `fuel` bounds the number of new
    attempts made inside one operation (`GrpcProofs.C18.fuel_suffices`: it never runs out). -/
def St.withRetry : Nat → St → COp → St × Res × List Ev × List Delay
  | fuel, st, op =>
    let (st1, raw, ev) := st.applyOp op
    if st.cs.committed then (st1, rawToRes raw, ev, [])
    else match st1.classify raw with
      | .blocked => (st1, .blocked, ev, [])
      | .success => (st1.onSuccess op, rawToRes raw, ev, [])
      | .failure =>
        let (st3, d) := st1.decideRetry raw
        match d with
        | .noRetry => (st3.commit, rawToRes raw, ev, [])
        | .exhausted => (st3.commit, (match raw with | .err c => .errExhausted c | _ => .exhaustedEof), ev, [])
        | _ =>
          match fuel with
          | 0 => (st3, .outOfFuel, ev, [])
          | fuel + 1 =>
            let n := st3.nextAttempt fuel d
            match n.2.1 with
            | some r => (n.1.commit, r, ev ++ n.2.2.1, st3.delayOf d ++ n.2.2.2)
            | none =>
              let w := St.withRetry fuel n.1 op
              (w.1, w.2.1, ev ++ n.2.2.1 ++ w.2.2.1, st3.delayOf d ++ n.2.2.2 ++ w.2.2.2)

/-- the wire item an operation still has to put on the current attempt and into the buffer. -/
def St.pendOf (st : St) : COp → List Wire
  | .send size =>
    let item := Wire.msg (if size = 0 then 0 else st.seq) size
    if st.clientStreams then [item] else [item, .half]
  | .half => [.half]
  | .recv => []
  | .header => []

/-- `op(a)` returned an error (io.EOF or a status). -/
def Raw.isFail : Raw → Bool
  | .eof => true
  | .err _ => true
  | _ => false

/-! ### application-level operations (each ends at a quiescent point: the server reacts) -/

def St.settle (st : St) : St := { st with atts := react st.atts }

/-- `newClientStream` when the first stream creation succeeds: the attempt is created inline and
    the stream-creating op is buffered. -/
def St.opNewOk (st : St) : St × Res × List Ev × List Delay :=
  let (st1, ev) := st.newAttempt
  let st2 := { st1 with started := true }.buffer 0 .start
  (st2.settle, .ok, ev, [])

/-- `newClientStream`: first op through `withRetry`.  While stream creation fails (`nsScript`) the
    failed attempt is finished and judged by `shouldRetry`; a positive decision makes `withRetry`
    create the next attempt; a negative one makes NewStream return the error (there is no stream). -/
def St.opNew : Nat → St → St × Res × List Ev × List Delay
  | fuel, st =>
    match st.nsScript with
    | [] => st.opNewOk
    | none :: rest => ({ st with nsScript := rest } : St).opNewOk
    | some c :: rest =>
      let st1 : St := { st with nsScript := rest, failedFin := st.failedFin ++ [1] }
      let r := shouldRetry st1.disableRetry st1.pol st1.cs (noStreamView c) 0
      let st2 : St := { st1 with cs := r.1 }
      match r.2 with
      | .noRetry => (st2.commit, .err c, [.failed c], [])
      | .exhausted => (st2.commit, .errExhausted c, [.failed c], [])
      | d' =>
        match fuel with
        | 0 => (st2, .outOfFuel, [.failed c], [])
        | fuel + 1 =>
          let x := St.opNew fuel { st2 with cs := afterDecision r.1 d' }
          (x.1, x.2.1, .failed c :: x.2.2.1, [Delay.backoff (r.1.sincePushback - 1)] ++ x.2.2.2)

/-- SendMsg up to `withRetry`: the application has now produced the message (ghost `hist`); a
    non-client-streaming RPC marks `sentLast`. -/
def St.beginSend (st : St) (size : Nat) : St :=
  let st := { st with seq := st.seq + 1 }
  { st with hist := st.hist ++ st.pendOf (.send size), sentLast := st.sentLast || !st.clientStreams }

/-- what SendMsg / RecvMsg do with the result of `withRetry`: `cs.finish(err)` on a real error
    (RecvMsg also on io.EOF), then the server gets to react. -/
def St.endSend (st : St) (res : Res) : St :=
  (match res with
   | .err c => st.finish c
   | .errExhausted c => st.finish c
   | .exhaustedEof => st.finish 2
   | _ => st).settle

def St.endRecv (st : St) (res : Res) : St :=
  (match res with
   | .err c => st.finish c
   | .errExhausted c => st.finish c
   | .eof => st.finish 0
   | _ => st).settle

def St.opSend (fuel : Nat) (st : St) (size : Nat) : St × Res × List Ev × List Delay :=
  if st.sentLast then ((({ st with seq := st.seq + 1 } : St).finish 13).settle, .err 13, [], [])
  else
    let r := St.withRetry fuel (st.beginSend size) (.send size)
    (r.1.endSend r.2.1, r.2.1, r.2.2.1, r.2.2.2)

def St.beginClose (st : St) : St := { st with sentLast := true, hist := st.hist ++ [.half] }

def St.opClose (fuel : Nat) (st : St) : St × Res × List Ev × List Delay :=
  if st.sentLast then (st.settle, .ok, [], [])
  else
    let r := St.withRetry fuel st.beginClose .half
    (r.1.settle, .ok, r.2.2.1, r.2.2.2)

def St.opRecv (fuel : Nat) (st : St) : St × Res × List Ev × List Delay :=
  let r := St.withRetry fuel st .recv
  (r.1.endRecv r.2.1, r.2.1, r.2.2.1, r.2.2.2)

def St.endHeader (st : St) (res : Res) : St :=
  (match res with
   | .err c => st.finish c
   | .errExhausted c => st.finish c
   | .nohdr => st.finish 0
   | _ => st).settle

def St.opHeader (fuel : Nat) (st : St) : St × Res × List Ev × List Delay :=
  let r := St.withRetry fuel st .header
  (r.1.endHeader r.2.1,
   (match r.2.1 with | .err _ => .nohdr | .errExhausted _ => .nohdr | x => x), r.2.2.1, r.2.2.2)

/-- The application cancels the RPC's context (streaming RPCs: the goroutine started by
    `newClientStream` calls `cs.finish(Canceled)`). -/
def St.opCancel (st : St) : St × Res × List Ev × List Delay := ((st.finish 1).settle, .ok, [], [])

/-- application script -/
inductive AppOp
  | new
  | send (size : Nat)
  | close
  | recv
  | header
  | cancel
deriving Repr, DecidableEq

/-- `clientStreamWrapper.SendMsg` (defaultStreamInterceptor): for a non-client-streaming RPC io.EOF
    becomes nil, and a successful send is followed by CloseSend (a no-op: sentLast is already set). -/
def St.opSendW (fuel : Nat) (st : St) (size : Nat) : St × Res × List Ev × List Delay :=
  let r := st.opSend fuel size
  if st.clientStreams then r
  else (r.1, (match r.2.1 with | .eof => .ok | x => x), r.2.2.1, r.2.2.2)

/-- `clientStreamWrapper.RecvMsg`: for a non-server-streaming RPC a received message is followed by a
    second RecvMsg that must see the end of the stream (io.EOF → nil). -/
def St.opRecvW (fuel : Nat) (st : St) : St × Res × List Ev × List Delay :=
  let r := st.opRecv fuel
  if st.serverStreams then r
  else match r.2.1 with
    | .msg n =>
      let r2 := r.1.opRecv fuel
      (r2.1, (match r2.2.1 with | .eof => .msg n | .msg _ => .err 13 | x => x), r.2.2.1 ++ r2.2.2.1, r.2.2.2 ++ r2.2.2.2)
    | _ => r

/-- SendMsg and RecvMsg used concurrently (one sender, one receiver: the supported concurrency),
    in the one schedule `cs.mu` does not exclude: `withRetry` releases the lock around `op(a)`, so
    after the sender's transport write on attempt `a` the receiver can run — fail, decide to retry,
    create the next attempt and replay the buffer, which does not hold the sender's message yet —
    before the sender re-acquires the lock.  The sender then finds `a != cs.attempt` and runs its
    op again on the current attempt (from the top of `withRetry`); otherwise it buffers the op.
    When the sender's write cannot happen on the current attempt (dead stream, committed RPC,
    non-client-streaming) nothing interleaves and the two calls run one after the other.
    Returns the state, SendMsg's result, RecvMsg's result and the server-side events. -/
def St.resumeSend (fuel : Nat) (r1 : St) (idx : Nat) (size : Nat) : St × Res × List Ev × List Delay :=
  if r1.curIdx ≠ idx then St.withRetry fuel r1 (.send size)
  else (r1.onSuccess (.send size), Res.ok, [], [])

/-- a RecvMsg that was still blocked when the sender returned gets to run on -/
def St.recvAgain (fuel : Nat) (s4 : St) (rR : Res) : St × Res × List Ev :=
  if rR = .blocked then ((s4.opRecvW fuel).1, (s4.opRecvW fuel).2.1, (s4.opRecvW fuel).2.2.1) else (s4, rR, [])

/-- the interleaved schedule proper: `s0` is the state after `beginSend`, its current attempt alive -/
def St.opSendRecvWindow (fuel : Nat) (s0 : St) (size : Nat) : St × Res × Res × List Ev :=
  let w := s0.applyOp (.send size)              -- the sender's transport write, on the current attempt
  let s1 := w.1.settle
  let r := s1.opRecvW fuel                       -- the receiver runs, and may retry, in the window
  let s := r.1.resumeSend fuel s1.curIdx size    -- the sender re-enters withRetry
  let s4 := s.1.endSend s.2.1
  let f := s4.recvAgain fuel r.2.1
  (f.1, s.2.1, f.2.1, w.2.2 ++ r.2.2.1 ++ s.2.2.1 ++ f.2.2)

def St.opSendRecv (fuel : Nat) (st : St) (size : Nat) : St × Res × Res × List Ev :=
  if st.sentLast ∨ !st.clientStreams ∨ (st.beginSend size).cs.committed ∨ (st.beginSend size).curDead then
    ((st.opSendW fuel size).1.opRecvW fuel |>.1, (st.opSendW fuel size).2.1,
     ((st.opSendW fuel size).1.opRecvW fuel).2.1, (st.opSendW fuel size).2.2.1 ++ ((st.opSendW fuel size).1.opRecvW fuel).2.2.1)
  else (st.beginSend size).opSendRecvWindow fuel size

def St.step (fuel : Nat) (st : St) : AppOp → St × Res × List Ev × List Delay
  | .new => st.opNew fuel
  | .send n => st.opSendW fuel n
  | .close => st.opClose fuel
  | .recv => st.opRecvW fuel
  | .header => st.opHeader fuel
  | .cancel => st.opCancel

/-- run a whole application script, collecting every server-side event. -/
def St.run (fuel : Nat) : St → List AppOp → St × List Res × List Ev
  | st, [] => (st, [], [])
  | st, o :: os =>
    let (st1, r, ev, _) := st.step fuel o
    let (st2, rs, evs) := St.run fuel st1 os
    (st2, r :: rs, ev ++ evs)

/-! ### vocabulary of the C18 statements -/

/-- what a replay buffer puts on the wire of a fresh attempt (a non-client-streaming send also
    half-closes). -/
def wireOf (clientStreams : Bool) : List ROp → List Wire
  | [] => []
  | .start :: r => wireOf clientStreams r
  | .msg q z :: r => (if clientStreams then [Wire.msg q z] else [Wire.msg q z, Wire.half]) ++ wireOf clientStreams r
  | .half :: r => Wire.half :: wireOf clientStreams r

/-- the buffer of an RPC that was started: the stream-creating op first, and only there. -/
def startsOnce : List ROp → Bool
  | .start :: r => !r.contains .start
  | _ => false

/-- the operation delivered a response header or a response message to the application. -/
def Res.delivers : Res → Bool
  | .msg _ => true
  | .hdr => true
  | _ => false

/-- the fuel that is always enough: one transparent retry plus the remaining policy attempts. -/
def budget (cs : CS) (pol : Option Policy) : Nat :=
  (if cs.firstAttempt then 1 else 0) +
  (match pol with | some rp => (rp.maxAttempts - cs.numRetries).toNat | none => 0)

def St.retryBudget (st : St) : Nat := budget st.cs st.pol

end GrpcModel.RetryLoop
