import GrpcModel.Model.H2Wire
import GrpcModel.Driver.Loop
/-!
# Quiescent big-step semantics over the fine-grained model, and the snapshot format

The correspondence run (tie T2) applies one external event to the real `http2Client` inside a
`testing/synctest` bubble and waits until every goroutine is durably blocked.  `settle` is the same
thing on the model: it fires the internal events (`loopy`, `flush`, reader noticing a closed conn,
the later phases of `Close`, blocked `NewStream` calls whose `select` became ready, RPC goroutines
reacting to their context / draining their recv buffer) until none is enabled.  `render` prints the
state in exactly the format of `harness/synct/c_clientconn_test.go: snapshot()`.
-/
namespace GrpcModel.ClientConnSim
open GrpcModel.ClientConn GrpcModel.H2Wire GrpcModel.Driver

structure Sim where
  started : Bool
  dead : Bool               -- `start bad`: NewHTTP2Client failed
  s : State
  fr : FramerSt
deriving Inhabited

def Sim.init : Sim := { started := false, dead := false, s := ClientConn.init readerReturnsOnGoAwayErr 400 none none, fr := FramerSt.init 256 }

/-- which case of a blocked NewStream's select is ready (ctx first: the generator never makes two
different outcomes ready at once) -/
def readyVia (s : State) (r : Rpc) (ch : Option Nat) : Option Via :=
  if r.ctxDone s.now then some .ctx
  else if s.goAwayClosed then some .goAway
  else if s.ctxDone then some .tctx
  else match ch with
    | some g => if g < s.chanGen || s.token then some .chan else none
    | none => none

/-- one internal event, if any is enabled -/
def internalEv (s : State) : Option Ev :=
  if !s.lExited && !s.lBlocked && !s.cbuf.isEmpty then some .loopy
  else if !s.lExited && !s.lBlocked && !s.wbuf.isEmpty then some .flush
  else if !s.lExited && (s.ctxDone || (s.lBlocked && s.connClosed)) then some .loopyAbort
  else if !s.readerDone && (s.connClosed || s.peerGone) then some (.frame .connErr)
  else if (match s.closeP with | .waitWriter tAt => s.lExited || tAt ≤ s.now | _ => false) then some .closeP2
  else if (match s.closeP with | .waitReader => s.readerDone | _ => false) then some .closeP3
  else
    let rpcEv := (List.range s.rpcs.length).findSome? fun k =>
      match s.rpcs[k]? with
      | none => none
      | some r =>
        match r.st with
        | .blocked ch => (readyVia s r ch).map fun v => Ev.wake k v
        | .opened i =>
          if r.ctxDone s.now && (match s.streams[i]? with | some st => st.term.isNone | none => false) then some (Ev.ctxFire k)
          else none
        | .failed _ _ => none
    match rpcEv with
    | some e => some e
    | none =>
      (List.range s.streams.length).findSome? fun i =>
        match s.streams[i]? with
        | some st => if st.buffered > 0 && (st.reader || st.term.isSome) then some (Ev.appRead i) else none
        | none => none

def settle (fuel : Nat) (s : State) (acc : List Wire) : State × List Wire :=
  match fuel with
  | 0 => (s, acc)
  | fuel + 1 =>
    match internalEv s with
    | none => (s, acc)
    | some e =>
      let (s', w) := step s e
      settle fuel s' (acc ++ w)

def FUEL : Nat := 100000

/-- the next instant in (now, target] at which a timer fires: an RPC deadline or Close's timer -/
def nextInstant (s : State) (target : Nat) : Option Nat :=
  let ds := s.rpcs.filterMap fun r => r.deadline
  let ds := match s.closeP with | .waitWriter tAt => tAt :: ds | _ => ds
  let ds := ds.filter fun d => s.now < d && d ≤ target
  ds.foldl (fun acc d => match acc with | none => some d | some a => some (min a d)) none

def sleepTo (fuel : Nat) (s : State) (target : Nat) (acc : List Wire) : State × List Wire :=
  match fuel with
  | 0 => (s, acc)
  | fuel + 1 =>
    match nextInstant s target with
    | none => settle FUEL { s with now := target } acc
    | some t =>
      let (s, acc) := settle FUEL { s with now := t } acc
      sleepTo fuel s target acc

/-! ## rendering -/

def bs (c : Bool) (t : String) : String := if c then t else ""

def renderStream (st : Strm) : String :=
  let fl := bs st.hdrClosed "h" ++ bs st.headerValid "v" ++ bs st.noHeaders "n" ++ bs st.bytesReceived "b" ++
    bs st.unprocessed "u" ++ bs st.inActive "a" ++ (match st.nonGRPC with | some (_, l) => s!"g{l}" | none => "")
  match st.term with
  | none =>
    s!"{if st.wdone then "B" else "A"}{st.id}:{fl}:p{st.pd}.{st.pu}:r{st.nread}"
  | some t =>
    let stc := match t.status with | some c => toString c | none => "-"
    let hexs (d : Bytes) : String := if d.isEmpty then "-" else String.ofList (d.flatMap fun x => [hexChar (x.toNat / 16), hexChar (x.toNat % 16)])
    let term := match t.err with | none => s!"eof/{stc}/m{hexs st.smsg}" | some c => s!"{c}/{stc}"
    s!"D{st.id}:{fl}:{term}:r{st.nread}"

def renderRpc (s : State) (r : Rpc) : String :=
  match r.st with
  | .blocked _ => "W"
  | .failed c retry => s!"E{c}.{if retry then 1 else 0}"
  | .opened i => match s.streams[i]? with | some st => renderStream st | none => "?"

def renderWire : Wire → Option String
  | .H id => some s!"H{id}"
  | .D id => some s!"D{id}.0e"
  | .R id c => some s!"R{id}.{c}"
  | .G l c => some s!"G{l}.{c}"
  | .Sa => some "Sa"
  | .Pa d => some ("Pa" ++ String.ofList (d.flatMap fun x => [hexChar (x.toNat / 16), hexChar (x.toNat % 16)]))
  | .W id n => if id = 0 then some s!"W0.{n}" else none

def joinOr (sep : String) (l : List String) : String := if l.isEmpty then "-" else sep.intercalate l

def renderConn (s : State) : String :=
  let st := match s.tstate with | .reachable => "R" | .closing => "C" | .draining => "D"
  let act : Int := if s.tstate = .closing then -1 else s.activeCount
  let mh : Int := match s.maxSendHdr with | some m => m | none => -1
  let oc := "+".intercalate (s.onClose.map fun (r, c, e) => s!"{r}/{c}/{if e then 1 else 0}")
  let q := if s.tstate = .closing then "-" else toString s.quota
  let wt := if s.tstate = .closing then "-" else toString s.waiting
  s!"{st},act={act},prev={s.prevGoAwayID},next={s.nextID},q={q},wt={wt},mc={s.maxConc},mh={mh},ga={bs s.goAwayClosed "1"},cd={bs s.ctxDone "1"},rs={s.reason},oc={oc},eof={bs (s.connClosed || s.peerGone) "1"}"

def render (s : State) (w : List Wire) : String :=
  s!"rpcs={joinOr "," (s.rpcs.map (renderRpc s))} wire={joinOr "," (w.filterMap renderWire)} conn={renderConn s}"

/-! ## ops -/

def optNat (t : String) : Option Nat := if t = "-" then none else t.toNat?

/-- apply one op of the line protocol; returns the model's output line -/
def Sim.op (m : Sim) (fs : List String) : Sim × String :=
  match fs with
  | ["start", "bad"] =>
    if m.started then (m, "bad-op") else
    ({ m with started := true, dead := true }, "err rpcs=- wire=S.6=256 conn=-")
  | ["start", mcs, mhl] =>
    if m.started then (m, "bad-op") else
    let s := ClientConn.init readerReturnsOnGoAwayErr 400 (optNat mcs) (optNat mhl)
    ({ m with started := true, s := s }, "ok " ++ render s [] |>.replace "wire=-" "wire=S.6=256,Sa")
  | _ =>
    if !m.started then (m, if fs.head? = some "start" then "bad-op" else "nostart")
    else if m.dead then (m, if fs = ["end"] then "ok rpcs=- wire=- conn=- leak=0" else "nostart") else
    let s := m.s
    let fin (m : Sim) (res : String) (s : State) (pre : List Wire) : Sim × String :=
      let (s, w) := settle FUEL s pre
      ({ m with s := s }, res ++ " " ++ render s w)
    match fs with
    | ["new", mode, d] =>
      let dl := match d.toNat? with | some 0 => none | some k => some (s.now + k) | none => none
      fin m "ok" (s.newRPC (mode = "r") dl) []
    | ["half", k] =>
      (match k.toNat? with
       | some k =>
         (match s.rpcs[k]? with
          | some { st := .opened i, .. } =>
            (match s.streams[i]? with
             | some str => if str.term.isSome || str.wdone then fin m "werr" s [] else fin m "ok" (s.half k) []
             | none => fin m "norpc" s [])
          | _ => fin m "norpc" s [])
       | none => (m, "bad-op"))
    | ["cancel", k] =>
      (match k.toNat? with
       | some k => if k < s.rpcs.length then fin m "ok" (s.cancel k) [] else fin m "norpc" s []
       | none => (m, "bad-op"))
    | ["sleep", ms] =>
      (match ms.toNat? with
       | some ms =>
         let (s, w) := sleepTo 1000 s (s.now + ms) []
         fin m "ok" s w
       | none => (m, "bad-op"))
    | ["f", typ, flags, sid, hex] =>
      (match typ.toNat?, flags.toNat?, sid.toNat?, unhex hex with
       | some typ, some flags, some sid, some p =>
         if s.readerDone || s.peerGone then fin m "ok" s [] else
         let (fr, ev) := feed m.fr typ flags sid p
         let m := { m with fr := fr }
         (match ev with
          | some f => fin m "ok" (s.onFrame f) []
          | none => fin m "ok" s [])
       | _, _, _, _ => (m, "bad-op"))
    | ["trunc", hex] =>
      -- an incomplete frame, then EOF; a complete header announcing more than http2MaxFrameLen is
      -- rejected (ErrFrameTooLarge) before the peer goes away
      (match unhex hex with
       | some p =>
         let tooLarge := p.length ≥ 9 && (match p with | a :: b' :: c :: _ => a.toNat * 65536 + b'.toNat * 256 + c.toNat > Generated.ccHttp2MaxFrameLen | _ => false)
         if tooLarge && !(s.readerDone || s.peerGone) then
           let (s, w) := settle FUEL (s.onFrame .connErr) []
           fin m "ok" { s with peerGone := true } w
         else fin m "ok" { s with peerGone := true } []
       | none => (m, "bad-op"))
    | ["peerclose"] => fin m "ok" { s with peerGone := true } []
    | ["gclose"] => fin m "ok" s.gracefulClose []
    | ["close"] => fin m "ok" (s.closeP1 true) []
    | ["end"] =>
      -- teardown: release, Close(ErrConnClosing), cancel every RPC context, the peer goes away
      let (s, w0) := s.release
      let (s, w1) := settle FUEL s w0
      let (s, w2) := settle FUEL (s.closeP1 true) w1
      let s := (List.range s.rpcs.length).foldl (fun s k => s.cancel k) s
      let (s, w3) := settle FUEL { s with peerGone := true } w2
      ({ m with s := s }, "ok " ++ render s w3 ++ " leak=0")
    | ["hold"] => fin m "ok" { s with held := true } []
    | ["release"] =>
      let (s, w) := s.release
      fin m "ok" s w
    | _ => (m, "bad-op")

end GrpcModel.ClientConnSim
