/-
Connection-level model for C04: the receive windows of ALL streams of one client transport, with
stream registration and BDP updates interleaved.

  internal/transport/http2_client.go :
    NewStream / checkForStreamQuota   `s.fc = inFlow{limit: uint32(t.initialWindowSize)}` at the moment
                                      the stream gets its id and enters `t.activeStreams`
    updateFlowControl(n)              `t.initialWindowSize = n`, `newLimit(n)` on every ACTIVE stream,
                                      WINDOW_UPDATE(0, n - old) and SETTINGS_INITIAL_WINDOW_SIZE = n, all in
                                      one controlBuf critical section (so in one place in the order of
                                      HEADERS / SETTINGS frames the peer sees)
    closeStream                       the stream leaves `t.activeStreams`
  (http2_server.go: operateHeaders / updateFlowControl have the same shape.)

Per-stream bookkeeping and the peer's view of each stream window are `GrpcModel.InFlow.State`
(the real `inFlow` + ghost).  The peer's initial window for a stream is the SETTINGS value in force
where the stream's HEADERS sits in the frame order = `iws` at registration.
-/
import GrpcModel.Model.InFlow
namespace GrpcModel.InFlowConn
open GrpcModel.InFlow GrpcModel.Generated

structure Conn where
  iws : Nat                          -- t.initialWindowSize (= last advertised SETTINGS_INITIAL_WINDOW_SIZE)
  streams : List (Nat × State) := [] -- t.activeStreams: (stream id, receive bookkeeping + peer's view)
deriving Repr

def Conn.init (iws : Nat) : Conn := { iws := iws }

inductive COp
  | openS (id : Nat)            -- the stream is registered (its HEADERS is queued right after)
  | sop (id : Nat) (op : Op)    -- a per-stream step (DATA, padding, read request, read); not `.bdp`
  | bdp (n : Nat)               -- updateFlowControl(n)
  | closeS (id : Nat)           -- closeStream
deriving Repr

def isBdp : Op → Bool
  | .bdp _ => true
  | _ => false

def Conn.has (c : Conn) (id : Nat) : Bool := c.streams.any (fun e => e.1 == id)

def Conn.get (c : Conn) (id : Nat) : Option State := (c.streams.find? (fun e => e.1 == id)).map (·.2)

/-- a per-stream step on the entries with this id; a stream whose frame is rejected is reset and leaves -/
def stepEntry (id : Nat) (op : Op) (e : Nat × State) : Option (Nat × State) :=
  if e.1 = id then
    (if (step e.2 op).2 = .rejected then none else some (e.1, (step e.2 op).1))
  else some e

def cstep (c : Conn) : COp → Conn
  | .openS id => if c.has id then c else { c with streams := c.streams ++ [(id, State.init c.iws)] }
  | .sop id op => { c with streams := c.streams.filterMap (stepEntry id op) }
  | .bdp n => { iws := n, streams := c.streams.map (fun e => (e.1, (step e.2 (.bdp n)).1)) }
  | .closeS id => { c with streams := c.streams.filter (fun e => e.1 != id) }

def clegal (c : Conn) : COp → Bool
  | .openS id => !c.has id
  | .sop id op => !isBdp op && c.has id
      && c.streams.all (fun e => e.1 != id || e.2.g.legal false e.2.f.delta op)
  | .bdp n => decide (c.iws ≤ n) && decide (n ≤ fcBdpLimit)
  | .closeS _ => true

def crun (c : Conn) : List COp → Conn
  | [] => c
  | o :: os => crun (cstep c o) os

def clegalRun (c : Conn) : List COp → Bool
  | [] => true
  | o :: os => clegal c o && clegalRun (cstep c o) os

end GrpcModel.InFlowConn
