import GrpcModel.Model.Loopy
/-!
# Executable property predicates (monitors) for the loopy writer

Each monitor is a small automaton over the *observable trace* of the writer: the sequence of
`(op, outs)` pairs, `op` = the control item handed to the writer (what the peer / the application did),
`outs` = the frames the writer put on the wire while handling it.  The same definitions are
(a) what the theorems in `GrpcProofs/Properties/C0x.lean` prove about the model's trace for every history and
(b) what the driver evaluates on the frames decoded from the REAL writer's conn.

The literals (65535, 16384) are the property's / RFC 7540's, not the generated Go constants.
-/
namespace GrpcModel.Loopy

/-! ## C01: the peer's flow-control ledger (RFC 7540 §6.9) -/
namespace C01

/-- The receiving peer's bookkeeping of the windows it has granted for DATA sent by this endpoint. -/
structure Peer where
  /-- connection window: 65535 + Σ WINDOW_UPDATE(0) − Σ DATA -/
  conn : Int
  /-- the SETTINGS_INITIAL_WINDOW_SIZE the peer has announced last -/
  iws : Nat
  /-- per stream: initial window + Σ WINDOW_UPDATE(id) + Σ (new − old initial window) − Σ DATA(id) -/
  win : Nat → Option Int

def Peer.init : Peer := { conn := 65535, iws := 65535, win := fun _ => none }

def Peer.setWin (p : Peer) (id : Nat) (w : Option Int) : Peer :=
  { p with win := fun i => if i = id then w else p.win i }

/-- One SETTINGS entry as accounted by the peer: §6.9.2, all stream windows move by the difference. -/
def Peer.setting (p : Peer) (kv : Nat × Nat) : Peer :=
  if kv.1 = 4 then
    { p with iws := kv.2, win := fun i => (p.win i).map (· + ((kv.2 : Int) - (p.iws : Int))) }
  else p

def hasHeaders (id : Nat) (outs : List Out) : Bool :=
  outs.any fun o => match o with | .headers i _ _ => i == id | _ => false

/-- What the peer did / learnt with this control item. A stream's window starts at the current initial window size
when the stream is opened: by the peer itself (server side: `registerStream`) or by our HEADERS (client side). -/
def Peer.recv (p : Peer) (op : Op) (outs : List Out) : Peer :=
  match op with
  | .winUpdate id inc =>
    if id = 0 then { p with conn := p.conn + inc }
    else p.setWin id ((p.win id).map (· + (inc : Int)))
  | .settings ss _ => ss.foldl Peer.setting p
  | .register id => if outs.contains .unmodelled then p else p.setWin id (some p.iws)
  | .clientHeaders id _ _ => if hasHeaders id outs then p.setWin id (some p.iws) else p
  | _ => p

/-- Account one frame; `some reason` = the frame breaks C01. -/
def Peer.send (p : Peer) : Out → Peer × Option String
  | .data id _ size _ =>
    if size > 16384 then (p, some "DATA frame larger than 16384 bytes")
    else if size = 0 then (p, none)
    else match p.win id with
      | none => (p, some "DATA on a stream that was never granted a window")
      | some w =>
        if (size : Int) > p.conn then (p, some "DATA exceeds the peer's connection window")
        else if (size : Int) > w then (p, some "DATA exceeds the peer's stream window")
        else (({ p with conn := p.conn - size }).setWin id (some (w - size)), none)
  | .headers _ _ frags =>
    if frags.all (· ≤ 16384) then (p, none) else (p, some "HEADERS/CONTINUATION fragment larger than 16384 bytes")
  | _ => (p, none)

def Peer.sendAll (p : Peer) : List Out → Peer × Option String
  | [] => (p, none)
  | o :: os =>
    match p.send o with
    | (p1, some e) => (p1, some e)
    | (p1, none) => p1.sendAll os

/-- Monitor step: the verdict for one `(op, outs)` pair. -/
def mstep (p : Peer) (op : Op) (outs : List Out) : Peer × Option String :=
  (p.recv op outs).sendAll outs

/-- The ledger after a trace and the first violation, if any. -/
def runMon (p : Peer) : List (Op × List Out) → Peer × Option String
  | [] => (p, none)
  | (op, outs) :: t =>
    match mstep p op outs with
    | (p1, some e) => (p1, some e)
    | (p1, none) => runMon p1 t

/-- C01 holds on a trace. -/
def holds (tr : List (Op × List Out)) : Bool := (runMon Peer.init tr).2.isNone

end C01


/-! ## C02: per-stream byte order, completeness, END_STREAM placement, nothing after the end

The application's outbound byte stream of a stream is the concatenation of everything it wrote (`h ++ data` of every
`dataFrame` accepted while the stream is established); a byte is identified by its offset in that stream. Every DATA
frame in a trace carries such an offset (`Out.data id off size es`: the model computes it from its queue; for the real
writer the driver recognises the payload bytes).  The predicate demands, per stream:

* DATA frames carry consecutive ranges: `off` = number of bytes sent so far (order, no loss, no duplication), never beyond what
  was written;
* END_STREAM only on a frame that ends exactly at the end of the data item that asked for it, after which no DATA follows;
* trailers (HEADERS with END_STREAM) only when every byte written before the trailers were requested has been sent;
* after trailers or RST_STREAM, or once the writer was told to forget the stream (`cleanupStream`), no further frame for it;
  reading: the RST_STREAM that is part of the same close action (`serverHeaders.cleanup.rst`, `earlyAbortStream.rst`) directly
  follows the trailers it belongs to and is allowed (RFC 7540 §8.1).

The environment (http2Client / http2Server) has obligations too; a stream on which it breaks one is marked `wild` and no longer
judged: stream ids are never reused, a client writes nothing after its END_STREAM item, trailers are requested once, a stream
that has ended on the wire is not reset again (`cleanupStream{rst:true}`), `earlyAbortStream` only for never-registered ids.
-/
namespace C02

inductive Phase | idle | open | closed
deriving DecidableEq, Repr

structure SS where
  phase : Phase := .idle
  wild : Bool := false
  /-- DATA bytes put on the wire -/
  sent : Nat := 0
  /-- bytes written by the application while the stream was open -/
  written : Nat := 0
  /-- length of the stream's byte stream, fixed when a data item with endStream was written -/
  esAt : Option Nat := none
  esSent : Bool := false
  /-- value of `written` when trailers were requested -/
  trailersAt : Option Nat := none
deriving Repr

structure Mon where
  str : Nat → SS
  /-- the stream whose trailers were the previous frame of the current step (an RST_STREAM may follow them directly) -/
  justTrailers : Option Nat

def Mon.init : Mon := { str := fun _ => {}, justTrailers := none }

def Mon.set (m : Mon) (id : Nat) (x : SS) : Mon := { m with str := fun i => if i = id then x else m.str i }

def hasHeadersFor (id : Nat) (outs : List Out) : Bool :=
  outs.any fun o => match o with | .headers i _ _ => i == id | _ => false

def openStream (m : Mon) (id : Nat) : Mon :=
  let x := m.str id
  if x.wild then m
  else if x.phase = .idle then m.set id { phase := .open } else m.set id { x with wild := true }

/-- The part of a control item that concerns the spec, applied before the frames of the step are judged. -/
def Mon.pre (m : Mon) (op : Op) (outs : List Out) : Mon :=
  match op with
  | .register id => openStream m id
  | .clientHeaders id _ _ => if hasHeadersFor id outs then openStream m id else m
  | .data id h d es =>
    let x := m.str id
    if x.phase = .open then
      if x.esAt.isSome then m.set id { x with wild := true }
      else m.set id { x with written := x.written + h + d, esAt := if es then some (x.written + h + d) else none }
    else m
  | .serverHeaders id true _ _ _ =>
    let x := m.str id
    if x.phase = .open then
      if x.trailersAt.isSome then m.set id { x with wild := true } else m.set id { x with trailersAt := some x.written }
    else m
  | .cleanup id rst _ =>
    let x := m.str id
    if x.phase = .open then m else if rst then m.set id { x with wild := true } else m
  | .earlyAbort id _ _ =>
    let x := m.str id
    if x.phase = .idle then m else m.set id { x with wild := true }
  | _ => m

/-- … and after them. -/
def Mon.post (m : Mon) (op : Op) : Mon :=
  match op with
  | .cleanup id _ _ => let x := m.str id; if x.phase = .open then m.set id { x with phase := .closed } else m
  | _ => m

def isCleanupOf (op : Op) (id : Nat) : Bool := match op with | .cleanup i _ _ => i == id | _ => false
def isEarlyAbortOf (op : Op) (id : Nat) : Bool := match op with | .earlyAbort i _ _ => i == id | _ => false

/-- Judge one frame. -/
def Mon.frame (m : Mon) (op : Op) : Out → Mon × Option String
  | .data id off size es =>
    let x := m.str id
    let m := { m with justTrailers := none }
    if x.wild then (m, none)
    else if x.phase ≠ .open then (m, some s!"DATA on stream {id}, which is not open")
    else if x.esSent then (m, some s!"DATA on stream {id} after END_STREAM")
    else if off ≠ x.sent then (m, some s!"DATA on stream {id} does not continue the byte stream: out of order, lost or duplicated bytes")
    else if x.sent + size > x.written then (m, some s!"DATA on stream {id} carries bytes that were never written")
    else if es ∧ x.esAt ≠ some (x.sent + size) then (m, some s!"END_STREAM on stream {id} on a frame that is not the end of the stream")
    else (m.set id { x with sent := x.sent + size, esSent := es }, none)
  | .headers id es _ =>
    let x := m.str id
    if x.wild then ({ m with justTrailers := none }, none)
    else if !es then
      if x.phase = .open then ({ m with justTrailers := none }, none)
      else ({ m with justTrailers := none }, some s!"HEADERS on stream {id}, which is not open")
    else if isEarlyAbortOf op id then ({ m.set id { x with phase := .closed } with justTrailers := some id }, none)
    else if x.phase ≠ .open then ({ m with justTrailers := none }, some s!"trailers on stream {id}, which is not open")
    else if x.trailersAt ≠ some x.sent then
      ({ m with justTrailers := none }, some s!"trailers on stream {id} before all of its DATA")
    else ({ m.set id { x with phase := .closed } with justTrailers := some id }, none)
  | .rst id _ =>
    let x := m.str id
    let jt := m.justTrailers
    let m := { m with justTrailers := none }
    if x.wild then (m, none)
    else if isCleanupOf op id ∨ jt = some id then (m, none)
    else (m, some s!"RST_STREAM on stream {id} that was not asked for")
  | .cb .. => (m, none)
  | _ => ({ m with justTrailers := none }, none)

def Mon.frames (m : Mon) (op : Op) : List Out → Mon × Option String
  | [] => (m, none)
  | o :: os =>
    match m.frame op o with
    | (m1, some e) => (m1, some e)
    | (m1, none) => m1.frames op os

def mstep (m : Mon) (op : Op) (outs : List Out) : Mon × Option String :=
  if op.outside then (m, none) else
  match ({ m.pre op outs with justTrailers := none }).frames op outs with
  | (m1, some e) => (m1, some e)
  | (m1, none) => (m1.post op, none)

def runMon (m : Mon) : List (Op × List Out) → Mon × Option String
  | [] => (m, none)
  | (op, outs) :: t =>
    match mstep m op outs with
    | (m1, some e) => (m1, some e)
    | (m1, none) => runMon m1 t

/-- C02 holds on a trace. -/
def holds (tr : List (Op × List Out)) : Bool := (runMon Mon.init tr).2.isNone

end C02


/-! ## C03: a stream with data and window credit is always eventually written

Judged on what is observable of the writer after every step (`View`): `sendQuota`, the `activeStreams` list in order, and per
established stream its state, its stream quota `oiws − bytesOutStanding`, the length of its item queue and the size of the head item.

* `stateOk` — no lost wake-up, as a state predicate: a stream with queued data and positive stream quota is on the active list
  (it is not left `waitingOnStreamQuota`, whatever the order in which data, WINDOW_UPDATEs and SETTINGS arrived), the list has no
  duplicates and holds exactly the `active` streams, `empty` ⇔ nothing queued, the head of a queue is a data item.
* `tickOk` — progress and round robin for one `processData` call: with connection quota left, the stream at the head of the list is
  served with exactly `min(16384, stream quota, sendQuota, head item)` bytes (or parked as `waitingOnStreamQuota` when it has no
  stream quota), and it goes to the tail; every other stream moves one place forward.
* `orderOk` — any other control item leaves the relative order of the streams on the list untouched: new ones join at the tail.

Together: a stream at position `k` of the list is served by the `(k+1)`-th `processData` call that finds connection quota
(theorem `served_within`), i.e. "eventually" is a bound, and no stream can be overtaken.
-/
namespace C03

structure SV where
  id : Nat
  state : SState
  quota : Int
  nitems : Nat
  headData : Bool
  headLen : Nat
deriving Repr, DecidableEq

structure View where
  closed : Bool
  sendQuota : Nat
  active : List Nat
  streams : List SV
deriving Repr, DecidableEq

def svOf (s : St) (id : Nat) : SV :=
  let x := s.str id
  { id := id, state := x.state, quota := s.quota id, nitems := x.items.length,
    headData := match x.items with | .data .. :: _ => true | _ => false,
    headLen := match x.items with | .data _ h d _ :: _ => h + d | _ => 0 }

/-- What is observable of a writer state. -/
def view (s : St) : View :=
  { closed := s.closed, sendQuota := s.sendQuota, active := s.active, streams := s.keys.map (svOf s) }

def streamOk (v : View) (x : SV) : Bool :=
  (x.state != .active || v.active.contains x.id)
  && ((x.state == .empty) == (x.nitems == 0))
  && (x.state != .waiting || decide (x.quota ≤ 0))
  && (x.nitems == 0 || x.headData)
  -- no lost wake-up: queued data and stream quota ⇒ on the active list
  && (x.nitems == 0 || decide (x.quota ≤ 0) || v.active.contains x.id)

def stateOk (v : View) : Bool :=
  decide v.active.Nodup
  && v.active.all (fun id => v.streams.any fun x => x.id == id && x.state == .active)
  && v.streams.all (streamOk v)

def dataFor (id : Nat) : List Out → List Nat
  | [] => []
  | .data i _ size _ :: t => if i = id then size :: dataFor id t else dataFor id t
  | _ :: t => dataFor id t

def anyData : List Out → Bool
  | [] => false
  | .data .. :: _ => true
  | _ :: t => anyData t

/-- One `processData` call: `b` before, `a` after, `outs` what it wrote. -/
def tickOk (b a : View) (outs : List Out) : Bool :=
  if b.closed then true else
  match b.active with
  | [] => !anyData outs && a.active == []
  | id :: rest =>
    if b.sendQuota = 0 then !anyData outs && a.active == b.active
    else match b.streams.find? (·.id == id) with
      | none => false
      | some x =>
        if x.quota ≤ 0 ∧ x.headLen ≠ 0 then
          -- no stream quota: parked, the others move up
          !anyData outs && a.active == rest
        else
          -- served with as much as frame size, stream quota, connection quota and the item allow, then to the tail (or off the list)
          dataFor id outs == [min (min (min 16384 x.quota.toNat) b.sendQuota) x.headLen]
          && (a.active == rest || a.active == rest ++ [id])

/-- Any other control item: streams already on the list keep their relative order, newcomers join at the tail. -/
def orderOk (b a : View) : Bool :=
  (b.active.filter (a.active.contains ·)).isPrefixOf a.active

/-- Monitor step: verdict for one step given the views before and after it. -/
def mstep (b : View) (op : Op) (outs : List Out) (a : View) : Option String :=
  if !stateOk a then some "writer state is not well-formed: a stream with data and stream quota is not on the active list (lost wake-up), or the list is inconsistent"
  else match op with
    | .tick _ => if tickOk b a outs then none else some "processData did not serve (or park) the head of the active list and rotate it"
    | _ => if orderOk b a then none else some "a control item reordered the active list"

/-- The trace with views: every step with the writer's view before and after it. -/
def vrunFrom (s : St) : List Op → List (View × Op × List Out × View)
  | [] => []
  | o :: os => let r := step s o; (view s, o, r.outs, view r.st) :: vrunFrom r.st os

def holds (tr : List (View × Op × List Out × View)) : Bool :=
  tr.all fun x => (mstep x.1 x.2.1 x.2.2.1 x.2.2.2).isNone

end C03

end GrpcModel.Loopy
