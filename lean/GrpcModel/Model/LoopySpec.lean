import GrpcModel.Model.Loopy
/-!
# Executable property predicates (monitors) for the loopy writer

Each monitor is a small automaton over the *observable trace* of the writer: the sequence of
`(op, outs)` pairs, `op` = the control item handed to the writer (what the peer / the application did),
`outs` = the frames the writer put on the wire while handling it.  The same definitions are
(a) what the theorems in `GrpcProofs/Properties/C0x.lean` prove about the model's trace for every history and
(b) what the driver evaluates on the frames decoded from the REAL writer's conn.

The literals (65535, 16384) are the property's / RFC 7540's, not the generated Go constants.
-/
namespace GrpcModel.Loopy

/-! ## C01: the peer's flow-control ledger (RFC 7540 §6.9) -/
namespace C01

/-- The receiving peer's bookkeeping of the windows it has granted for DATA sent by this endpoint. -/
structure Peer where
  /-- connection window: 65535 + Σ WINDOW_UPDATE(0) − Σ DATA -/
  conn : Int
  /-- the SETTINGS_INITIAL_WINDOW_SIZE the peer has announced last -/
  iws : Nat
  /-- per stream: initial window + Σ WINDOW_UPDATE(id) + Σ (new − old initial window) − Σ DATA(id) -/
  win : Nat → Option Int

def Peer.init : Peer := { conn := 65535, iws := 65535, win := fun _ => none }

def Peer.setWin (p : Peer) (id : Nat) (w : Option Int) : Peer :=
  { p with win := fun i => if i = id then w else p.win i }

/-- One SETTINGS entry as accounted by the peer: §6.9.2, all stream windows move by the difference. -/
def Peer.setting (p : Peer) (kv : Nat × Nat) : Peer :=
  if kv.1 = 4 then
    { p with iws := kv.2, win := fun i => (p.win i).map (· + ((kv.2 : Int) - (p.iws : Int))) }
  else p

def hasHeaders (id : Nat) (outs : List Out) : Bool :=
  outs.any fun o => match o with | .headers i _ _ => i == id | _ => false

/-- What the peer did / learnt with this control item. A stream's window starts at the current initial window size
when the stream is opened: by the peer itself (server side: `registerStream`) or by our HEADERS (client side). -/
def Peer.recv (p : Peer) (op : Op) (outs : List Out) : Peer :=
  match op with
  | .winUpdate id inc =>
    if id = 0 then { p with conn := p.conn + inc }
    else p.setWin id ((p.win id).map (· + (inc : Int)))
  | .settings ss _ => ss.foldl Peer.setting p
  | .register id => if outs.contains .unmodelled then p else p.setWin id (some p.iws)
  | .clientHeaders id _ _ => if hasHeaders id outs then p.setWin id (some p.iws) else p
  | _ => p

/-- Account one frame; `some reason` = the frame breaks C01. -/
def Peer.send (p : Peer) : Out → Peer × Option String
  | .data id _ size _ =>
    if size > 16384 then (p, some "DATA frame larger than 16384 bytes")
    else if size = 0 then (p, none)
    else match p.win id with
      | none => (p, some "DATA on a stream that was never granted a window")
      | some w =>
        if (size : Int) > p.conn then (p, some "DATA exceeds the peer's connection window")
        else if (size : Int) > w then (p, some "DATA exceeds the peer's stream window")
        else (({ p with conn := p.conn - size }).setWin id (some (w - size)), none)
  | .headers _ _ frags =>
    if frags.all (· ≤ 16384) then (p, none) else (p, some "HEADERS/CONTINUATION fragment larger than 16384 bytes")
  | _ => (p, none)

def Peer.sendAll (p : Peer) : List Out → Peer × Option String
  | [] => (p, none)
  | o :: os =>
    match p.send o with
    | (p1, some e) => (p1, some e)
    | (p1, none) => p1.sendAll os

/-- Monitor step: the verdict for one `(op, outs)` pair. -/
def mstep (p : Peer) (op : Op) (outs : List Out) : Peer × Option String :=
  (p.recv op outs).sendAll outs

/-- The ledger after a trace and the first violation, if any. -/
def runMon (p : Peer) : List (Op × List Out) → Peer × Option String
  | [] => (p, none)
  | (op, outs) :: t =>
    match mstep p op outs with
    | (p1, some e) => (p1, some e)
    | (p1, none) => runMon p1 t

/-- C01 holds on a trace. -/
def holds (tr : List (Op × List Out)) : Bool := (runMon Peer.init tr).2.isNone

end C01

end GrpcModel.Loopy
