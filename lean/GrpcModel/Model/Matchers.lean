/-
Model of
  internal/xds/matcher/matcher_header.go  : valueFromMD, Header{Exact,Regex,Range,Present,Prefix,Suffix,Contains,String}Matcher
  internal/xds/matcher/string_matcher.go  : StringMatcher.Match, newStrPtr, New*StringMatcher, StringMatcherFromProto,
                                            CompileSafeRegex (validity + full-string anchoring)
  internal/xds/xdsclient/xdsresource/matcher_path.go : path{Exact,Prefix,Regex}Matcher

Strings are byte lists (`List Nat`, a byte is a value < 256; nothing below depends on the bound).
The Go code folds case with `strings.ToLower` / `strings.ToUpper`. On strings whose bytes are all < 128 these are
exactly `asciiLower` / `asciiUpper` below (Go takes its ASCII fast path). The model ports the code ON THAT DOMAIN:
with ignore_case / case_insensitive set and a byte ≥ 128 in the pattern or the input, the model does not claim to
predict the code (the driver prints `*`), and the property's executable specification (`Spec`, ASCII folding
for every byte string) is what the monitor holds the implementation to.

`regexp` is not modelled as a library: a regular expression is an abstract syntax tree `Re` whose language is decided
by Brzozowski derivatives (`Re.matches`, full-string). The theorems treat `Re.matches r` as an opaque predicate.
-/
namespace GrpcModel.Matchers

abbrev Str := List Nat

/-! ### ASCII case folding (what `strings.ToLower/ToUpper` do on ASCII-only strings) -/

def lowerB (b : Nat) : Nat := if 65 ≤ b ∧ b ≤ 90 then b + 32 else b
def upperB (b : Nat) : Nat := if 97 ≤ b ∧ b ≤ 122 then b - 32 else b
def asciiLower (s : Str) : Str := s.map lowerB
def asciiUpper (s : Str) : Str := s.map upperB
def isAscii (s : Str) : Bool := s.all (· < 128)

/-- `strings.Contains(s, pat)`. -/
def hasInfix (pat : Str) : Str → Bool
  | [] => pat.isEmpty
  | c :: t => pat.isPrefixOf (c :: t) || hasInfix pat t

/-! ### regular expressions: syntax, validity (`regexp.Compile` succeeds), full-string matching -/

inductive Re where
  | none                      -- matches nothing            `[^\x00-\x{10FFFF}]`
  | eps                       -- the empty string           `(?:)`
  | char (c : Nat)            -- one literal byte           `\xhh`
  | dot                       -- `.` : any character but \n
  | range (lo hi : Nat)       -- `[\xlo-\xhi]`
  | seq (a b : Re)
  | alt (a b : Re)
  | star (a : Re)
  | invalid                   -- a pattern `regexp.Compile` rejects (rendered as an unclosed group)
deriving Repr, DecidableEq, Inhabited

/-- `regexp.Compile(pattern)` succeeds (first line of `CompileSafeRegex`): no syntax error anywhere; a class
    range with lo > hi is an "invalid character class range". -/
def Re.valid : Re → Bool
  | .invalid => false
  | .range lo hi => lo ≤ hi
  | .seq a b | .alt a b => a.valid && b.valid
  | .star a => a.valid
  | _ => true

def Re.nullable : Re → Bool
  | .eps | .star _ => true
  | .seq a b => a.nullable && b.nullable
  | .alt a b => a.nullable || b.nullable
  | _ => false

def mkSeq (a b : Re) : Re :=
  match a, b with
  | .none, _ => .none
  | _, .none => .none
  | .eps, b => b
  | a, b => .seq a b

def mkAlt (a b : Re) : Re :=
  match a, b with
  | .none, b => b
  | a, .none => a
  | a, b => .alt a b

def Re.deriv (c : Nat) : Re → Re
  | .char d => if c = d then .eps else .none
  | .dot => if c = 10 then .none else .eps
  | .range lo hi => if lo ≤ c ∧ c ≤ hi then .eps else .none
  | .seq a b => if a.nullable then mkAlt (mkSeq (a.deriv c) b) (b.deriv c) else mkSeq (a.deriv c) b
  | .alt a b => mkAlt (a.deriv c) (b.deriv c)
  | .star a => mkSeq (a.deriv c) (.star a)
  | _ => .none

/-- `CompileSafeRegex(p)` then `MatchString(s)`: the pattern is wrapped as `^(?:p)$`, so the WHOLE of `s` must be
    in the language of `p`. -/
def Re.matches (r : Re) (s : Str) : Bool := (s.foldl (fun r c => r.deriv c) r).nullable

/-! ### StringMatcher (string_matcher.go) -/

inductive SMKind | exact | prefix | suffix | contains | regex
deriving Repr, DecidableEq

/-- Go `StringMatcher`: exactly one of the five pointer fields is set (`kind`); `pat` is the STORED pattern. -/
structure StringMatcher where
  kind : SMKind
  pat : Str
  re : Re
  ignoreCase : Bool
deriving Repr

/-- `newStrPtr`: the stored pattern is lower-cased when ignoreCase. -/
def newStr (input : Str) (ignoreCase : Bool) : Str := if ignoreCase then asciiLower input else input

/-- `NewExactStringMatcher`, `NewPrefixStringMatcher`, `NewSuffixStringMatcher`, `NewContainsStringMatcher`. -/
def newSM (kind : SMKind) (pat : Str) (ignoreCase : Bool) : StringMatcher :=
  { kind := kind, pat := newStr pat ignoreCase, re := .eps, ignoreCase := ignoreCase }

/-- `NewRegexStringMatcher`: ignoreCase is not set. -/
def newRegexSM (re : Re) : StringMatcher := { kind := .regex, pat := [], re := re, ignoreCase := false }

/-- `StringMatcher.Match`. -/
def StringMatcher.match (sm : StringMatcher) (input : Str) : Bool :=
  match sm.kind with
  | .exact => (if sm.ignoreCase then asciiLower input else input) == sm.pat
  | .prefix => sm.pat.isPrefixOf (if sm.ignoreCase then asciiLower input else input)
  | .suffix => sm.pat.isSuffixOf (if sm.ignoreCase then asciiLower input else input)
  | .contains => hasInfix sm.pat (if sm.ignoreCase then asciiLower input else input)
  | .regex => sm.re.matches input

/-- `StringMatcherFromProto` (non-nil proto with one of the five patterns set): `none` = error. -/
def smFromProto (kind : SMKind) (pat : Str) (re : Re) (ignoreCase : Bool) : Option StringMatcher :=
  match kind with
  | .exact => some (newSM .exact pat ignoreCase)
  | .prefix => if pat = [] then none else some (newSM .prefix pat ignoreCase)
  | .suffix => if pat = [] then none else some (newSM .suffix pat ignoreCase)
  | .regex => if re.valid then some (newRegexSM re) else none
  | .contains => if pat = [] then none else some (newSM .contains pat ignoreCase)

/-! ### header matchers (matcher_header.go) -/

/-- `metadata.MD` as an association list (keys are distinct in a Go map; `lookup` takes the first). -/
abbrev MD := List (Str × List Str)

/-- `strings.Join(vs, ",")`. -/
def joinComma : List Str → Str
  | [] => []
  | [a] => a
  | a :: t => a ++ 44 :: joinComma t

/-- `vs, ok := md[key]`. -/
def lookupMD (md : MD) (key : Str) : Option (List Str) := List.lookup key md

/-- `valueFromMD`. -/
def valueFromMD (md : MD) (key : Str) : Option Str := (lookupMD md key).map joinComma

def isDigit (b : Nat) : Bool := 48 ≤ b && b ≤ 57
def digitsVal (ds : Str) : Nat := ds.foldl (fun a d => a * 10 + (d - 48)) 0

/-- `strconv.ParseInt(s, 10, 64)` with `err == nil`, after the sign: at least one ASCII digit, nothing else (no
    underscores in base 10), value inside int64 (otherwise a range error). -/
def parseMag (neg : Bool) (ds : Str) : Option Int :=
  if ds.isEmpty || !ds.all isDigit then none
  else if neg then (if digitsVal ds > 9223372036854775808 then none else some (-(digitsVal ds : Int)))
  else (if digitsVal ds ≥ 9223372036854775808 then none else some (digitsVal ds : Int))

/-- `strconv.ParseInt(s, 10, 64)`: optional sign, then `parseMag`. -/
def parseInt64 : Str → Option Int
  | 43 :: t => parseMag false t
  | 45 :: t => parseMag true t
  | s => parseMag false s

inductive HeaderMatcher where
  | exact (key pat : Str) (invert : Bool)
  | regex (key : Str) (re : Re) (invert : Bool)
  | range (key : Str) (start stop : Int) (invert : Bool)
  | present (key : Str) (present : Bool)
  | prefix (key pat : Str) (invert : Bool)
  | suffix (key pat : Str) (invert : Bool)
  | contains (key pat : Str) (invert : Bool)
  | string (key : Str) (sm : StringMatcher) (invert : Bool)
deriving Repr

/-- `NewHeaderPresentMatcher`: invert is folded into `present` at construction. -/
def newPresent (key : Str) (present invert : Bool) : HeaderMatcher :=
  .present key (if invert then !present else present)

/-- The common prologue `v, ok := valueFromMD(md, key); if !ok { return false }; return f(v)`. -/
def onValue (md : MD) (key : Str) (f : Str → Bool) : Bool :=
  match valueFromMD md key with
  | none => false
  | some v => f v

/-- `HeaderRangeMatcher.Match` after the lookup:
    `if i, err := strconv.ParseInt(v, 10, 64); err == nil && i >= start && i < end { return !invert }; return invert`. -/
def rangeResult (v : Str) (start stop : Int) (invert : Bool) : Bool :=
  match parseInt64 v with
  | some i => if i ≥ start ∧ i < stop then !invert else invert
  | none => invert

/-- `Header*Matcher.Match`. -/
def HeaderMatcher.match (m : HeaderMatcher) (md : MD) : Bool :=
  match m with
  | .exact key pat invert => onValue md key fun v => (v == pat) != invert
  | .regex key re invert => onValue md key fun v => re.matches v != invert
  | .range key start stop invert => onValue md key fun v => rangeResult v start stop invert
  | .present key want =>
    -- `_, present := valueFromMD(md, key)` (after fix 8ad6d37; before it an empty joined value counted as absent)
    (onValue md key fun _ => true) == want
  | .prefix key pat invert => onValue md key fun v => pat.isPrefixOf v != invert
  | .suffix key pat invert => onValue md key fun v => pat.isSuffixOf v != invert
  | .contains key pat invert => onValue md key fun v => hasInfix pat v != invert
  | .string key sm invert => onValue md key fun v => sm.match v != invert

/-! ### path matchers (matcher_path.go) -/

inductive PathMatcher where
  | exact (fullPath : Str) (caseInsensitive : Bool)
  | prefix (pfx : Str) (caseInsensitive : Bool)
  | regex (re : Re)
deriving Repr

/-- `newPathExactMatcher`: the stored path is upper-cased when caseInsensitive. -/
def newPathExact (p : Str) (ci : Bool) : PathMatcher := .exact (if ci then asciiUpper p else p) ci
/-- `newPathPrefixMatcher`. -/
def newPathPrefix (p : Str) (ci : Bool) : PathMatcher := .prefix (if ci then asciiUpper p else p) ci

/-- `path*Matcher.match`. -/
def PathMatcher.match (m : PathMatcher) (path : Str) : Bool :=
  match m with
  | .exact fullPath ci => if ci then fullPath == asciiUpper path else fullPath == path
  | .prefix pfx ci => if ci then pfx.isPrefixOf (asciiUpper path) else pfx.isPrefixOf path
  | .regex re => re.matches path

/-! ### The property's executable specification (C47), in terms of the CONFIGURED values.
Evaluated by the monitor on every implementation answer; the theorems in GrpcProofs/Properties/C47.lean prove
that the model equals it for every byte string and characterise it in `Prop`. -/
namespace Spec

def isUpperB (x : Nat) : Bool := 65 ≤ x && x ≤ 90

/-- two bytes equal up to ASCII case: equal, or one is an upper-case ASCII letter and the other its lower-case. -/
def caseEqB (x y : Nat) : Bool := x == y || (isUpperB x && y == x + 32) || (isUpperB y && x == y + 32)

/-- strings equal up to ASCII case (same length, position-wise `caseEqB`). -/
def eqFold : Str → Str → Bool
  | [], [] => true
  | a :: s, b :: t => caseEqB a b && eqFold s t
  | _, _ => false

/-- `pat` equals, up to ASCII case, a prefix of `s`. -/
def prefixFold : Str → Str → Bool
  | [], _ => true
  | p :: ps, c :: cs => caseEqB p c && prefixFold ps cs
  | _ :: _, [] => false

def suffixFold (pat s : Str) : Bool := prefixFold pat.reverse s.reverse

def infixFold (pat : Str) : Str → Bool
  | [] => pat.isEmpty
  | c :: t => prefixFold pat (c :: t) || infixFold pat t

/-- string matcher with configured pattern `pat` / regex `re`. -/
def sm (kind : SMKind) (pat : Str) (re : Re) (ignoreCase : Bool) (input : Str) : Bool :=
  match kind with
  | .exact => if ignoreCase then eqFold input pat else input == pat
  | .prefix => if ignoreCase then prefixFold pat input else pat.isPrefixOf input
  | .suffix => if ignoreCase then suffixFold pat input else pat.isSuffixOf input
  | .contains => if ignoreCase then infixFold pat input else hasInfix pat input
  | .regex => re.matches input

/-- unbounded base-10 integer: optional sign and at least one digit. -/
def decMag (neg : Bool) (ds : Str) : Option Int :=
  if !ds.isEmpty && ds.all isDigit then some (if neg then -(digitsVal ds : Int) else (digitsVal ds : Int)) else none

def decimal : Str → Option Int
  | 43 :: t => decMag false t
  | 45 :: t => decMag true t
  | s => decMag false s

def inRange (v : Str) (start stop : Int) : Bool :=
  match decimal v with
  | some n => start ≤ n && n < stop
  | none => false

/-- header value predicates and the invert rule: absent ⇒ no match; present ⇒ predicate xor invert. -/
def withInvert (md : MD) (key : Str) (invert : Bool) (p : Str → Bool) : Bool :=
  match lookupMD md key with
  | none => false
  | some vs => p (joinComma vs) != invert

/-- present_match compares presence of the header in the map (invert flips the expectation). -/
def present (md : MD) (key : Str) (presentCfg invert : Bool) : Bool :=
  (lookupMD md key).isSome == (presentCfg != invert)

/-- path matcher with configured path/prefix. -/
def pathExact (p : Str) (ci : Bool) (path : Str) : Bool := if ci then eqFold path p else path == p
def pathPrefix (p : Str) (ci : Bool) (path : Str) : Bool := if ci then prefixFold p path else p.isPrefixOf path

end Spec

end GrpcModel.Matchers
