/-
Model of internal/mem/buffer_pool.go (and the constructors in mem/buffer_pool.go):
  BinaryTieredBufferPool (newBinaryTiered, poolForGet, poolForPut), TieredBufferPool (getPool),
  sizedBufferPool.Get/Put, SimpleBufferPool.Get/Put, NopBufferPool.

A sub-pool's `sync.Pool` is a bag of buffers: `Get` may return ANY stored buffer or none (sync.Pool
drops items at GC), so `get` is a relation — `getOutcomes` lists every allowed result; the tie follows
the implementation's choice and checks it is one of them. A buffer is (identity, capacity, zero?)
where `zero` says that all `cap` bytes are 0.
-/
import GrpcModel.Generated.MemBuffer
namespace GrpcModel.MemPool
open GrpcModel.Generated

structure Buf where
  id : Nat
  cap : Nat
  zero : Bool
deriving Repr, DecidableEq

/-- sizedBufferPool (`simple = false`, defaultSize = size) or SimpleBufferPool (`simple = true`) -/
structure Sub where
  size : Nat
  simple : Bool
  zeroing : Bool
  store : List Buf := []
deriving Repr, DecidableEq

inductive Kind | binary | tiered | simple | nop
deriving Repr, DecidableEq

structure Pool where
  kind : Kind
  subs : List Sub          -- sized pools, ascending size
  fallback : Sub
  nextId : Nat := 0
deriving Repr

inductive Ref | sub (i : Nat) | fallback | nop
deriving Repr, DecidableEq

def pow2 (e : Nat) : Nat := 2 ^ e

def insertSorted (x : Nat) : List Nat → List Nat
  | [] => [x]
  | y :: t => if x < y then x :: y :: t else if x = y then y :: t else y :: insertSorted x t

/-- `slices.Sort` + `slices.Compact` -/
def sortDedup (l : List Nat) : List Nat := l.foldr insertSorted []

/-- NewBinaryTieredBufferPool / NewDirtyBinaryTieredBufferPool -/
def newBinary (exps : List Nat) (zeroing : Bool) : Pool :=
  { kind := .binary, subs := (sortDedup exps).map fun e => ⟨pow2 e, false, zeroing, []⟩,
    fallback := ⟨0, true, zeroing, []⟩ }

/-- NewTieredBufferPool (always zeroing) -/
def newTiered (sizes : List Nat) : Pool :=
  { kind := .tiered, subs := (sizes.foldr (fun x l => -- sort.Ints keeps duplicates
        let rec ins : List Nat → List Nat
          | [] => [x]
          | y :: t => if x ≤ y then x :: y :: t else y :: ins t
        ins l) []).map fun s => ⟨s, false, true, []⟩,
    fallback := ⟨0, true, true, []⟩ }

def newSimple (zeroing : Bool) : Pool := { kind := .simple, subs := [], fallback := ⟨0, true, zeroing, []⟩ }
def newNop : Pool := { kind := .nop, subs := [], fallback := ⟨0, true, false, []⟩ }

def maxPoolCap (p : Pool) : Nat := p.subs.foldl (fun a s => max a s.size) 0

/-- index of the first sized pool with size ≥ n -/
def firstGE : List Sub → Nat → Nat → Option Nat
  | [], _, _ => none
  | s :: t, n, i => if s.size ≥ n then some i else firstGE t n (i + 1)

/-- index of the last sized pool with size ≤ n (ascending list) -/
def lastLE : List Sub → Nat → Nat → Option Nat → Option Nat
  | [], _, _, acc => acc
  | s :: t, n, i, acc => if s.size ≤ n then lastLE t n (i + 1) (some i) else acc

/-- largest power of two ≤ n (n > 0): `1 << (bits.Len(n) - 1)` -/
def floorPow2 : Nat → Nat → Nat
  | 0, _ => 1
  | fuel + 1, n => if n < 2 then 1 else 2 * floorPow2 fuel (n / 2)

/-- `poolForGet` / `getPool(size)` -/
def refForGet (p : Pool) (n : Nat) : Ref :=
  match p.kind with
  | .nop => .nop
  | .simple => .fallback
  | .binary =>
    if n = 0 || n > maxPoolCap p then .fallback
    else match firstGE p.subs n 0 with      -- smallest 2^e ≥ n, then the next configured tier at or above it
      | some i => .sub i
      | none => .fallback
  | .tiered => match firstGE p.subs n 0 with
    | some i => .sub i
    | none => .fallback

/-- `poolForPut(cap)` / `getPool(cap)`; `none` = the buffer is dropped -/
def refForPut (p : Pool) (c : Nat) : Option Ref :=
  match p.kind with
  | .nop => none
  | .simple => some .fallback
  | .binary =>
    if c = 0 then none
    else if c > maxPoolCap p then some .fallback
    else match lastLE p.subs (floorPow2 c c) 0 none with   -- largest tier ≤ the largest 2^k ≤ cap
      | some i => some (.sub i)
      | none => none
  | .tiered => match firstGE p.subs c 0 with
    | some i => match p.subs[i]? with
      | some s => if c < s.size then none else some (.sub i)    -- sizedBufferPool.Put ignores smaller buffers
      | none => none
    | none => some .fallback

def getSub (p : Pool) : Ref → Option Sub
  | .sub i => p.subs[i]?
  | .fallback => some p.fallback
  | .nop => none

def setSub (p : Pool) (r : Ref) (s : Sub) : Pool :=
  match r with
  | .sub i => { p with subs := p.subs.set i s }
  | .fallback => { p with fallback := s }
  | .nop => p

/-- capacity of a freshly allocated buffer -/
def freshCap (s : Sub) (n : Nat) : Nat :=
  if s.simple then (n + goPageSize - 1) / goPageSize * goPageSize else s.size

structure Got where
  buf : Buf
  len : Nat
  reused : Bool
deriving Repr, DecidableEq

/-- every result `Get(n)` may have, with the pool afterwards -/
def getOutcomes (p : Pool) (n : Nat) : List (Got × Pool) :=
  match refForGet p n with
  | .nop => [(⟨⟨p.nextId, n, true⟩, n, false⟩, { p with nextId := p.nextId + 1 })]
  | r => match getSub p r with
    | none => []
    | some s =>
      let fresh : Got × Pool := (⟨⟨p.nextId, freshCap s n, true⟩, n, false⟩, { p with nextId := p.nextId + 1 })
      let reuse := (s.store.filter fun b => !s.simple || b.cap ≥ n).map fun b =>
        ((⟨{ b with zero := b.zero || s.zeroing }, n, true⟩ : Got), setSub p r { s with store := s.store.erase b })
      fresh :: reuse

/-- `Put(buf)` -/
def put (p : Pool) (b : Buf) : Pool :=
  match refForPut p b.cap with
  | none => p
  | some r => match getSub p r with
    | none => p
    | some s => setSub p r { s with store := b :: s.store }

end GrpcModel.MemPool
