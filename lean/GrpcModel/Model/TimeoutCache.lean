/-
Model of internal/cache/timeoutCache.go (TimeoutCache).

Every method body runs under `c.mu` from its first to its last access of the cache, so Add, Remove
and the locked part of Clear are ONE rule each ("all schedules" = "all orders of critical
sections").  What is NOT atomic, and is therefore split into separate rules that interleave freely
with everything else (any number of concurrent callers, any number of timers):

  time.AfterFunc goroutine of an entry   timerFire : the runtime starts the func (from now on timer.Stop() = false)
                                         timerLock : c.mu.Lock(); if entry.deleted { unlock; return }
                                                     delete(c.cache, key); c.mu.Unlock()
                                         timerCall : entry.callback()
  Clear(runCallback)                     clear     : lock; removeInternal for every key; unlock
                                         clearCall : entry.callback()   (one per collected entry, if runCallback)

Timer states of an entry:  armed (pending; Stop() succeeds) → fired (func started, waiting for c.mu)
→ cb (unlocked, about to run the callback) → done;  or armed → stopped (Stop() returned true).
Time is abstracted: an armed timer may fire at any moment (a superset of the real behaviours).

Entries are identified by their creation index; `ent` and `cache` are total functions so that every
update is pointwise.  Ghost fields (not in the Go code): cbRuns, removed, cleared, clearedCb, owed.
-/
namespace GrpcModel.TimeoutCache

inductive Timer | armed | fired | cb | done | stopped
deriving DecidableEq, Repr, Inhabited

structure Entry where
  key       : Nat
  item      : Nat
  tm        : Timer
  deleted   : Bool   -- cacheEntry.deleted
  cbRuns    : Nat    -- ghost: how often entry.callback() has run
  removed   : Nat    -- ghost: Remove calls that returned this entry
  cleared   : Nat    -- ghost: Clear calls that took this entry out of the map
  clearedCb : Nat    -- ghost: … of which with runCallback = true
  owed      : Nat    -- callbacks a Clear(true) caller has collected in `entries` and not yet run
deriving DecidableEq, Repr, Inhabited

structure St where
  n     : Nat                 -- entries created so far: ids 0 … n-1
  ent   : Nat → Entry
  cache : Nat → Option Nat    -- c.cache : key → entry

def init : St := { n := 0, ent := fun _ => default, cache := fun _ => none }

def setEnt (f : Nat → Entry) (i : Nat) (e : Entry) : Nat → Entry := fun j => if j = i then e else f j
def setKey (c : Nat → Option Nat) (k : Nat) (v : Option Nat) : Nat → Option Nat :=
  fun j => if j = k then v else c j

/-- removeInternal, the part that touches the entry: `if !entry.timer.Stop() { entry.deleted = true }`.
    Stop() returns true exactly when the timer was still pending. -/
def stopTimer (e : Entry) : Entry :=
  match e.tm with
  | .armed => { e with tm := .stopped }
  | _ => { e with deleted := true }

inductive Rule
  | add (k item : Nat)       -- Add(key, item, callback)
  | remove (k : Nat)         -- Remove(key)
  | clear (runCb : Bool)     -- Clear: the locked loop
  | clearCall (id : Nat)     -- Clear: entry.callback() for a collected entry
  | timerFire (id : Nat)
  | timerLock (id : Nat)
  | timerCall (id : Nat)
deriving DecidableEq, Repr

/-- Add's result `(item, ok)`. -/
def addResult (s : St) (k item : Nat) : Nat × Bool :=
  match s.cache k with
  | some id => ((s.ent id).item, false)
  | none => (item, true)

/-- Remove's result (`none` = `(nil, false)`). -/
def removeResult (s : St) (k : Nat) : Option Nat :=
  match s.cache k with
  | some id => some (s.ent id).item
  | none => none

/-- Len() -/
def len (s : St) : Nat := ((List.range s.n).filter fun id => s.cache (s.ent id).key == some id).length

def apply (s : St) : Rule → Option St
  | .add k item =>
    match s.cache k with
    | some _ => some s
    | none =>
      some { n := s.n + 1,
             ent := setEnt s.ent s.n { key := k, item := item, tm := .armed, deleted := false, cbRuns := 0,
                                       removed := 0, cleared := 0, clearedCb := 0, owed := 0 },
             cache := setKey s.cache k (some s.n) }
  | .remove k =>
    match s.cache k with
    | none => some s
    | some id =>
      let e := stopTimer (s.ent id)
      some { s with cache := setKey s.cache k none, ent := setEnt s.ent id { e with removed := e.removed + 1 } }
  | .clear runCb =>
    -- `for key := range c.cache { removeInternal(key) }`: entry `id` is visited iff some key maps to it;
    -- keys map to entries carrying that key (invariant `keyOf`), hence the test below.
    some { s with
      cache := fun _ => none,
      ent := fun id =>
        let e := s.ent id
        if s.cache e.key = some id then
          let e' := stopTimer e
          { e' with cleared := e'.cleared + 1,
                    clearedCb := if runCb then e'.clearedCb + 1 else e'.clearedCb,
                    owed := if runCb then e'.owed + 1 else e'.owed }
        else e }
  | .clearCall id =>
    let e := s.ent id
    if id < s.n ∧ e.owed > 0 then
      some { s with ent := setEnt s.ent id { e with owed := e.owed - 1, cbRuns := e.cbRuns + 1 } }
    else none
  | .timerFire id =>
    let e := s.ent id
    if id < s.n ∧ e.tm = .armed then some { s with ent := setEnt s.ent id { e with tm := .fired } } else none
  | .timerLock id =>
    let e := s.ent id
    if id < s.n ∧ e.tm = .fired then
      if e.deleted then some { s with ent := setEnt s.ent id { e with tm := .done } }
      else some { s with cache := setKey s.cache e.key none, ent := setEnt s.ent id { e with tm := .cb } }
    else none
  | .timerCall id =>
    let e := s.ent id
    if id < s.n ∧ e.tm = .cb then
      some { s with ent := setEnt s.ent id { e with tm := .done, cbRuns := e.cbRuns + 1 } }
    else none

def run (s : St) : List Rule → St
  | [] => s
  | r :: rs => match apply s r with
    | some t => run t rs
    | none => run s rs

inductive Reach : St → Prop
  | init : Reach init
  | step {s t : St} (r : Rule) : Reach s → apply s r = some t → Reach t

end GrpcModel.TimeoutCache
