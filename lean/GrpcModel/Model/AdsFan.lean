/-!
C42, fan-out part: "no response is read until all watchers have finished processing the previous one",
across `adsStreamImpl.recv` → `xdsChannel.onResponse` → `channelState.adsResourceUpdate` (one unit per
interested authority, `authorityCnt`) → `authority.handleADSResourceUpdate` (one unit per notified
watcher, `watcherCnt`; an authority that notifies nobody gives its unit back at once) → watchers.

Ported shape (internal/xds/clients/xdsclient/{ads_stream,xdsclient,authority}.go):
* the reader loop reads response `v` only when flow control is free, sets it pending and hands the
  stream's `onDone` down; it enters the next `Recv` only after `onDone` ran;
* `channelState.adsResourceUpdate` hands every interested authority a `done` that counts down and calls
  `onDone` at zero; with no interested authority it calls `onDone` itself;
* an authority notifies every watcher of every resource of the response that it has state for (the
  content of a response is always new here: the harness stamps it with the response number), each with a
  `done` that counts down to the authority's unit; with nobody to notify the unit is returned at once;
* a watcher that starts watching a cached resource is called back with a no-op `done`.

State is after quiescence; `settle` runs the reader as far as it gets.
-/
namespace GrpcModel.AdsFan

/-- what a blocking watcher holds: the `done` of response `v`, or a no-op `done` (cached resource) -/
inductive Tok
  | resp (v : Nat)
  | cached (v : Nat)
deriving DecidableEq, Repr

structure Watcher where
  id : Nat
  auth : Nat
  name : String
  block : Bool
  pend : List Tok := []
deriving Repr

structure St where
  started : Bool := false                      -- the stream exists (first subscription made)
  ws : List Watcher := []
  cache : List ((Nat × String) × Nat) := []     -- (authority, name) ↦ version cached
  inbox : List (Nat × List (Nat × String)) := [] -- responses sent by the server, not yet read
  cur : Option Nat := none                      -- response read and not yet released by `onDone`
  outstanding : Nat := 0                        -- `done`s of `cur` still to come (all authorities together)
  completed : Nat := 0                          -- responses whose `onDone` has run
  delivered : Nat := 0                          -- responses read from the stream
  ver : Nat := 0                                -- number of responses the server has sent
  log : List (Nat × Nat) := []                  -- callbacks of the current op: (watcher, version)
deriving Repr

def lookup (c : List ((Nat × String) × Nat)) (k : Nat × String) : Option Nat := (c.find? (·.1 = k)).map (·.2)

def setCache (c : List ((Nat × String) × Nat)) (k : Nat × String) (v : Nat) : List ((Nat × String) × Nat) :=
  (k, v) :: c.filter (·.1 ≠ k)

/-- hand response `v` with resources `rs` to the watchers: every watcher of a listed resource is called
back; a blocking one keeps the `done` (one more outstanding unit), the others return it at once. -/
def notify (ws : List Watcher) (v : Nat) (rs : List (Nat × String)) : List Watcher × Nat × List (Nat × Nat) :=
  ws.foldr (fun w (acc : List Watcher × Nat × List (Nat × Nat)) =>
    if rs.contains (w.auth, w.name) then
      if w.block then ({ w with pend := w.pend ++ [.resp v] } :: acc.1, acc.2.1 + 1, (w.id, v) :: acc.2.2)
      else (w :: acc.1, acc.2.1, (w.id, v) :: acc.2.2)
    else (w :: acc.1, acc.2.1, acc.2.2)) ([], 0, [])

/-- the reader: while flow control is free and a response is waiting, read it and fan it out. -/
def settle : Nat → St → St
  | 0, s => s
  | fuel + 1, s =>
    if !s.started || s.cur.isSome then s else
    match s.inbox with
    | [] => s
    | (v, rs) :: rest =>
      let (ws, n, lg) := notify s.ws v rs
      -- only resources the authority has state for (somebody watches them) are cached
      let cache := (rs.filter fun k => s.ws.any fun w => (w.auth, w.name) = k).foldl (fun c k => setCache c k v) s.cache
      let s := { s with inbox := rest, ws := ws, cache := cache, delivered := s.delivered + 1, log := s.log ++ lg }
      if n = 0 then settle fuel { s with completed := s.completed + 1 }
      else { s with cur := some v, outstanding := n }

/-- the watcher `id` gives back the oldest `done` it holds -/
def popTok (id : Nat) : List Watcher → Option (Tok × List Watcher)
  | [] => none
  | w :: ws =>
    if w.id = id then
      match w.pend with
      | [] => none
      | t :: r => some (t, { w with pend := r } :: ws)
    else (popTok id ws).map fun p => (p.1, w :: p.2)

inductive Op
  | watch (auth : Nat) (name : String) (id : Nat) (block : Bool)
  | respond (rs : List (Nat × String))
  | done (id : Nat)
deriving Repr

def step (s : St) : Op → St
  | .watch a n id b =>
    if s.ws.any (·.id = id) then s else
    let s := { s with log := [] }
    let w : Watcher := { id := id, auth := a, name := n, block := b }
    let (w, lg) := match lookup s.cache (a, n) with
      | some v => (if b then { w with pend := [.cached v] } else w, [(id, v)])
      | none => (w, [])
    let s := { s with ws := s.ws ++ [w], started := true, log := lg }
    settle (s.inbox.length + 1) s
  | .respond rs =>
    let s := { s with log := [], ver := s.ver + 1 }
    let s := { s with inbox := s.inbox ++ [(s.ver, rs)] }
    settle (s.inbox.length + 1) s
  | .done id =>
    let s := { s with log := [] }
    match popTok id s.ws with
    | none => s
    | some (t, ws) =>
      let s := { s with ws := ws }
      match t with
      | .cached _ => s
      | .resp _ =>
        if s.outstanding ≤ 1 then
          settle (s.inbox.length + 1) { s with outstanding := 0, cur := none, completed := s.completed + 1 }
        else { s with outstanding := s.outstanding - 1 }

def run (s : St) (ops : List Op) : St := ops.foldl step s

/-- how often the reader has entered `Recv`: once per response it is allowed to read -/
def recvEntered (s : St) : Nat := if s.started then s.completed + 1 else 0

/-- `done`s of responses (not of cached call-backs) that watchers still hold -/
def isResp : Tok → Bool
  | .resp _ => true
  | .cached _ => false

def heldResp : List Watcher → Nat
  | [] => 0
  | w :: ws => (w.pend.filter isResp).length + heldResp ws

end GrpcModel.AdsFan
