/-
Model of
  internal/transport/transport.go : recvMsg, recvBuffer.{put, compactBacklogLocked, load, get},
                                    recvBufferReader.{Read, ReadMessageHeader, read, readMessageHeader,
                                    readAdditional, readMessageHeaderAdditional}   (server flavour: no ctx)
  mem/buffers.go                  : SplitUnsafe / ReadUnsafe on the reader's `last`

Atomic steps.  `put` and `load` run under `recvBuffer.mu`; a channel receive `<-b.c` is one atomic
step.  The reader goroutine does  [channel receive] ; [load] ; [local work on m / r.last]  and the
producer can run `put` between the receive and the load, so the reader's `Read`/`ReadMessageHeader`
is split into `rbegin` (the prefix up to and including the receive) and `fin n` / `finh k`
(`readAdditional` / `readMessageHeaderAdditional`).  `read n` / `hdr k` are the unsplit calls.

Totalised Go operations (the theorems in GrpcProofs/Properties/C05.lean show none is ever exercised
with a value on which Lean and Go differ, see `ledger` there):
  * `len(b.backlog) - b.uncompactedSuffixLen` is `Nat` subtraction (Go: a negative index panics);
  * `b.bufPool.Get(b.uncompactedBytes)` is `Int.toNat` (Go: a negative length panics);
  * `copy((*newBuf)[start:], data)` truncates silently in Go exactly like `fillBuf` below; bytes of
    the pooled buffer that are not overwritten keep the pool's content, modelled as `poison`;
  * `m.buffer.Len()` / `m.buffer.ReadOnlyData()` on an error message (nil buffer; Go: nil
    dereference panic) are `0` / `[]`.
Messages are `data bytes | err e`: every constructor call in the package is `recvMsg{buffer: b}` or
`recvMsg{err: e}` (http2_client.go, http2_server.go, handler_server.go).
-/
import GrpcModel.Generated.RecvBuffer
namespace GrpcModel.RecvBuffer
open GrpcModel.Generated

abbrev Bytes := List UInt8

/-- `recvMsg`: `{buffer: b}` or `{err: e}` (errors are small numbers; 1 = io.EOF). -/
inductive Msg
  | data (b : Bytes)
  | err (e : Nat)
deriving DecidableEq, Repr, Inhabited

/-- `m.buffer.ReadOnlyData()` -/
def Msg.bytes : Msg → Bytes
  | .data b => b
  | .err _ => []

/-- `m.buffer.Len()` -/
def Msg.len (m : Msg) : Nat := m.bytes.length

def Msg.isData : Msg → Bool
  | .data _ => true
  | .err _ => false

/-- `r.err` of a message -/
def Msg.errOf : Msg → Option Nat
  | .data _ => none
  | .err e => some e

/-- `unsafe.Sizeof(recvMsg{}) + unsafe.Sizeof([]byte{})` on a 64-bit platform: two interface values
    (2 × 16 bytes) + a slice header (24 bytes).  Not extractable by T4 (needs `unsafe.Sizeof`); the
    harness prints the real value (`consts` op) and the driver compares it with this one. -/
def recvMsgSize : Nat := 56

/-- `compactionThreshold = imem.BufferPoolingThreshold * (recvMsgSize + 1)` -/
def compactionThreshold : Nat := rbBufferPoolingThreshold * (recvMsgSize + 1)

/-- content of pooled memory that `copy` did not overwrite (the harness pool fills with 0xEE) -/
def poison : UInt8 := 0xEE

/-- `recvBuffer` -/
structure RB where
  chan : Option Msg := none          -- `c chan recvMsg` (capacity 1)
  backlog : List Msg := []
  sufLen : Nat := 0                  -- `uncompactedSuffixLen`
  sufBytes : Int := 0                -- `uncompactedBytes`
  err : Option Nat := none           -- `err` (only ever tested against nil)
  compaction : Bool := true          -- `envconfig.EnableReceiveBufferCompaction`
deriving Repr

/-- `newBuf := pool.Get(n)` followed by the `start += copy((*newBuf)[start:], m…)` loop over `cat`,
    the concatenation of the suffix payloads. -/
def fillBuf (cat : Bytes) (n : Nat) : Bytes :=
  cat.take n ++ List.replicate (n - cat.length) poison

/-- `recvBuffer.compactBacklogLocked(r)` (called after `r` was appended to the backlog). -/
def compactBacklog (b : RB) (r : Msg) : RB :=
  if !b.compaction then b else
  match r with
  | .err _ => { b with sufBytes := 0, sufLen := 0 }
  | .data d =>
    let sufLen := b.sufLen + 1
    let sufBytes : Int := b.sufBytes + (d.length : Int)
    let backlogHeapSize : Int := (sufLen : Int) * (recvMsgSize : Int) + sufBytes
    if backlogHeapSize ≤ (rbUtilizationFactor : Int) * sufBytes then
      { b with sufBytes := 0, sufLen := 0 }
    else if backlogHeapSize ≤ (compactionThreshold : Int) then
      { b with sufBytes := sufBytes, sufLen := sufLen }
    else
      let startIdx := b.backlog.length - sufLen
      let cat := (b.backlog.drop startIdx).flatMap Msg.bytes
      let newBuf := fillBuf cat sufBytes.toNat
      { b with backlog := b.backlog.take startIdx ++ [.data newBuf], sufBytes := 0, sufLen := 0 }

/-- `recvBuffer.put(r)`.  When `b.err != nil` the message is dropped (`if r.buffer != nil
    { r.buffer.Free() }`, since /repo commit 6c0457f; before it an error message — nil buffer —
    made this branch panic, finding F19) and the buffer is left unchanged. -/
def put (b : RB) (r : Msg) : RB :=
  if b.err.isSome then b else
  let b := { b with err := r.errOf }
  if b.backlog.isEmpty && b.chan.isNone then { b with chan := some r }
  else compactBacklog { b with backlog := b.backlog ++ [r] } r

/-- `recvBuffer.load()` -/
def load (b : RB) : RB :=
  match b.backlog, b.chan with
  | m :: rest, none =>
    let b' := if b.compaction && b.sufLen == b.backlog.length
      then { b with sufLen := b.sufLen - 1, sufBytes := b.sufBytes - (m.len : Int) } else b
    { b' with chan := some m, backlog := rest }
  | _, _ => b

/-- `recvBufferReader` (server flavour) -/
structure Reader where
  last : Option Bytes := none
  err : Option Nat := none
deriving Repr

/-- One stream's receive side plus `held`: the message the reader goroutine has received from the
    channel but not yet processed (it is between `<-r.recv.get()` and `r.recv.load()`). -/
structure State where
  rb : RB := {}
  rd : Reader := {}
  held : Option Msg := none
deriving Repr

def init (compaction : Bool) : State := { rb := { compaction := compaction } }

inductive Op
  | putD (b : Bytes)     -- producer: put(recvMsg{buffer: b})
  | putE (e : Nat)       -- producer: put(recvMsg{err: e})
  | load                 -- a bare recvBuffer.load()
  | read (n : Nat)       -- reader: Read(n), unsplit
  | hdr (k : Nat)        -- reader: ReadMessageHeader(make([]byte,k)), unsplit
  | rbegin               -- reader: Read/ReadMessageHeader up to and including the channel receive
  | fin (n : Nat)        -- reader: readAdditional(m, n) (+ the `r.err =` assignment of Read)
  | finh (k : Nat)       -- reader: readMessageHeaderAdditional(m, header[k]) (+ `r.err =`)
deriving Repr

inductive Out
  | ok                   -- put / load done
  | bytes (b : Bytes)    -- Read returned a buffer / ReadMessageHeader filled header[:n]
  | err (e : Nat)        -- the reader returned error e
  | blocked              -- the call would block on the empty channel
  | took                 -- rbegin received a message
  | skip                 -- rbegin: Read would not reach the channel; fin: nothing held
  | busy                 -- reader op while a message is held (single reader goroutine)
  | panic                -- the IMPLEMENTATION panicked or hung (never produced by the model; always a violation)
deriving DecidableEq, Repr

/-- `readAdditional(m, n)` after its `r.recv.load()`, with Read's `buf, r.err = …`. -/
def readAdditional (rd : Reader) (m : Msg) (n : Nat) : Reader × Out :=
  match m with
  | .err e => ({ rd with err := some e }, .err e)
  | .data d =>
    if d.length > n then ({ rd with last := some (d.drop n) }, .bytes (d.take n))
    else (rd, .bytes d)

/-- `mem.ReadUnsafe(header, buf)` for a header of length k: (copied bytes, remaining buffer). -/
def readUnsafe (k : Nat) (d : Bytes) : Bytes × Option Bytes :=
  let n := min k d.length
  (d.take n, if n = d.length then none else some (d.drop n))

/-- `readMessageHeaderAdditional(m, header)` after its load, with `n, r.err = …`. -/
def readHeaderAdditional (rd : Reader) (m : Msg) (k : Nat) : Reader × Out :=
  match m with
  | .err e => ({ rd with err := some e }, .err e)
  | .data d => let (h, rest) := readUnsafe k d; ({ rd with last := rest }, .bytes h)

def step (s : State) : Op → State × Out
  | .putD b => ({ s with rb := put s.rb (.data b) }, .ok)
  | .putE e => ({ s with rb := put s.rb (.err e) }, .ok)
  | .load => ({ s with rb := load s.rb }, .ok)
  | .read n =>
    if s.held.isSome then (s, .busy) else
    match s.rd.err with
    | some e => (s, .err e)
    | none =>
      match s.rd.last with
      | some l =>
        if l.length > n then ({ s with rd := { s.rd with last := some (l.drop n) } }, .bytes (l.take n))
        else ({ s with rd := { s.rd with last := none } }, .bytes l)
      | none =>
        match s.rb.chan with
        | none => (s, .blocked)
        | some m =>
          let rb := load { s.rb with chan := none }
          let (rd, o) := readAdditional s.rd m n
          ({ s with rb := rb, rd := rd }, o)
  | .hdr k =>
    if s.held.isSome then (s, .busy) else
    match s.rd.err with
    | some e => (s, .err e)
    | none =>
      match s.rd.last with
      | some l => let (h, rest) := readUnsafe k l; ({ s with rd := { s.rd with last := rest } }, .bytes h)
      | none =>
        match s.rb.chan with
        | none => (s, .blocked)
        | some m =>
          let rb := load { s.rb with chan := none }
          let (rd, o) := readHeaderAdditional s.rd m k
          ({ s with rb := rb, rd := rd }, o)
  | .rbegin =>
    if s.held.isSome then (s, .busy) else
    if s.rd.err.isSome || s.rd.last.isSome then (s, .skip) else
    match s.rb.chan with
    | none => (s, .blocked)
    | some m => ({ s with rb := { s.rb with chan := none }, held := some m }, .took)
  | .fin n =>
    match s.held with
    | none => (s, .skip)
    | some m =>
      let (rd, o) := readAdditional s.rd m n
      ({ s with rb := load s.rb, rd := rd, held := none }, o)
  | .finh k =>
    match s.held with
    | none => (s, .skip)
    | some m =>
      let (rd, o) := readHeaderAdditional s.rd m k
      ({ s with rb := load s.rb, rd := rd, held := none }, o)

/-- fold `step` over an op list: final state and the outputs. -/
def run (s : State) : List Op → State × List Out
  | [] => (s, [])
  | o :: os => let (s', x) := step s o; let (s'', xs) := run s' os; (s'', x :: xs)

/-! ### The property as an executable specification (also the run-time monitor)

A FIFO byte queue that is closed by the first error.  `check sp op out` says whether answering `out`
to `op` is allowed by C05 in spec state `sp` and gives the next spec state. -/

structure Spec where
  queue : Bytes := []          -- accepted DATA bytes not yet handed to the application
  perr : Option Nat := none    -- the error/EOS that closed the input (first `put` of an error)
  done : Option Nat := none    -- the error the reader has reported
  empties : Nat := 0           -- accepted zero-length DATA messages not yet answered by an empty read
deriving Repr, DecidableEq

/-- reader answer `out` to a request for at most `n` bytes -/
def Spec.readCheck (sp : Spec) (n : Nat) : Out → Except String Spec
  | .bytes b =>
    if sp.done.isSome then .error "data delivered after the error/end of stream"
    else if b.length > n then .error "more bytes than asked for"
    else if !(b.isPrefixOf sp.queue) then .error "delivered bytes are not the next received bytes (lost, duplicated or reordered)"
    else if b.isEmpty && n > 0 then
      (if sp.empties = 0 then .error "empty read although no empty frame was received"
       else .ok { sp with empties := sp.empties - 1 })
    else .ok { sp with queue := sp.queue.drop b.length }
  | .err e =>
    match sp.done with
    | some e' => if e = e' then .ok sp else .error "a different error after the first one"
    | none =>
      if !sp.queue.isEmpty then .error "error/end of stream reported before all data received before it"
      else if sp.perr ≠ some e then .error "reported an error that was not the one received"
      else .ok { sp with done := some e }
  | .blocked =>
    if sp.done.isSome then .error "blocked after the error was reported"
    else if !sp.queue.isEmpty then .error "reader blocks although received data is pending"
    else if sp.perr.isSome then .error "reader blocks although the error/end of stream is pending"
    else .ok sp
  | .busy => .ok sp
  | .skip => .ok sp
  | _ => .error "unexpected answer to a read"

def Spec.check (sp : Spec) : Op → Out → Except String Spec
  | .putD b, .ok =>
    if sp.perr.isSome then .ok sp
    else .ok { sp with queue := sp.queue ++ b, empties := if b.isEmpty then sp.empties + 1 else sp.empties }
  | .putE e, .ok => if sp.perr.isSome then .ok sp else .ok { sp with perr := some e }
  | .putD _, .panic => .error "put panics"
  | .putE _, .panic => .error "put of an error panics"
  | .load, .ok => .ok sp
  | .read n, o => sp.readCheck n o
  | .hdr k, o => sp.readCheck k o
  | .fin n, o => sp.readCheck n o
  | .finh k, o => sp.readCheck k o
  | .rbegin, .took => .ok sp
  | .rbegin, .skip => .ok sp
  | .rbegin, .busy => .ok sp
  | .rbegin, .blocked => sp.readCheck 0 .blocked
  | _, _ => .error "unexpected answer"

/-- the monitor over a whole trace -/
def Spec.checkAll (sp : Spec) : List Op → List Out → Except String Spec
  | o :: os, x :: xs => match sp.check o x with
    | .ok sp' => sp'.checkAll os xs
    | .error e => .error e
  | _, _ => .ok sp

end GrpcModel.RecvBuffer
