/-
Model of internal/xds/balancer/priority
  balancer.go          : UpdateClientConnState (children add / policy change / remove, priorities,
                         inhibitPickerUpdates + resumePickerUpdates), run
  balancer_priority.go : syncPriority, stopSubBalancersLowerThanPriority, switchToChild,
                         handleChildStateUpdate
  balancer_child.go    : start, stop, startInitTimer / stopInitTimer and the timer callback
plus the part of internal/balancergroup the policy relies on: AddWithClientConn (re-use of a cached
sub-balancer and replay of its last state), Remove (cache for SubBalancerCloseTimeout),
RemoveImmediately, cache expiry.

State at quiescence: everything the `run` goroutine does with the queued updates is folded into the
operation that caused it.  Child names are numbers, child policy types are numbers, times are Int
milliseconds of a virtual clock.  Not modelled: child policies that fail UpdateClientConnState,
duplicate names in `priorities`, ExitIdle/ResolverError forwarding, sub-connections.
-/
import GrpcModel.Generated.Priority
namespace GrpcModel.Priority
open GrpcModel.Generated

/-- DefaultPriorityInitTimeout in ms -/
def initTimeout : Int := (priorityInitTimeoutNs / 1000000 : Nat)
/-- DefaultSubBalancerCloseTimeout in ms -/
def closeTimeout : Int := (prioritySubBalancerCloseTimeoutNs / 1000000 : Nat)

/-- pickers: the two error pickers of the policy, or the k-th picker created by a stub child -/
inductive Pk
  | nosc            -- base.NewErrPicker(balancer.ErrNoSubConnAvailable)
  | allrm           -- base.NewErrPicker(ErrAllPrioritiesRemoved)
  | stub (k : Nat)
deriving DecidableEq, Repr

/-- balancer.State: connectivity (0 idle 1 connecting 2 ready 3 transient failure) + picker -/
structure PState where
  conn : Nat
  pk : Pk
deriving DecidableEq, Repr

def initState : PState := ⟨1, .nosc⟩

/-- `childBalancer` -/
structure Child where
  name : Nat
  typ : Nat
  started : Bool
  st : PState
  reportedTF : Bool
  timer : Option Int       -- deadline of initTimer (none = nil)
deriving DecidableEq, Repr

/-- a sub-balancer the balancer group holds for an id: in `idToBalancerConfig` (cachedUntil = none)
    or in `deletedBalancerCache` -/
structure Sb where
  name : Nat
  typ : Nat
  last : Option PState     -- subBalancerWrapper.state once the child has reported
  cachedUntil : Option Int
deriving DecidableEq, Repr

inductive Ev
  | build (name typ : Nat)
  | ucc (name : Nat)
  | close (name : Nat)
deriving DecidableEq, Repr

structure St where
  now : Int := 0
  prios : List Nat := []
  children : List Child := []     -- ascending name
  inUse : Option Nat := none      -- childInUse ("" = none)
  sbs : List Sb := []             -- ascending name
  nextPk : Nat := 1
  lastUp : Option PState := none  -- the state last sent to the parent ClientConn
  ups : List PState := []         -- sent during the current operation
  evs : List Ev := []             -- what the stub children saw during the current operation
  queue : List (Nat × PState) := []  -- childBalancerStateUpdate (replayed cached states)
  pending : List (Nat × Int) := []   -- init-timer callbacks that were dispatched (their timer fired) but have
                                     -- not yet obtained the balancer's mutex: (child name, deadline of that timer)
deriving Repr

def init : St := {}

def findChild (s : St) (n : Nat) : Option Child := s.children.find? (·.name = n)
def findSb (s : St) (n : Nat) : Option Sb := s.sbs.find? (·.name = n)

def modChild (s : St) (n : Nat) (f : Child → Child) : St :=
  { s with children := s.children.map fun c => if c.name = n then f c else c }

def insertChild (c : Child) : List Child → List Child
  | [] => [c]
  | x :: xs => if c.name < x.name then c :: x :: xs else x :: insertChild c xs

def insertSb (c : Sb) : List Sb → List Sb
  | [] => [c]
  | x :: xs => if c.name < x.name then c :: x :: xs else x :: insertSb c xs

def sendUp (s : St) (p : PState) : St := { s with lastUp := some p, ups := s.ups ++ [p] }

/-- `childBalancer.stop` -/
def stopChild (s : St) (n : Nat) (immediate : Bool) : St :=
  match findChild s n with
  | none => s
  | some c =>
    if !c.started then s else
    let s := modChild s n fun c => { c with started := false, st := initState, reportedTF := false, timer := none }
    if immediate then
      { s with sbs := s.sbs.filter (·.name ≠ n), evs := s.evs ++ (if (findSb s n).isSome then [Ev.close n] else []) }
    else
      { s with sbs := s.sbs.map fun b => if b.name = n then { b with cachedUntil := some (s.now + closeTimeout) } else b }

/-- `childBalancer.start`: AddWithClientConn + startInitTimer + sendUpdate -/
def startChild (s : St) (n : Nat) : St :=
  match findChild s n with
  | none => s
  | some c =>
    if c.started then s else
    let s := modChild s n fun c => { c with started := true, timer := some (c.timer.getD (s.now + initTimeout)) }
    match findSb s n with
    | some b =>
      if b.typ = c.typ then
        -- re-use from the cache; the cached state (if any) is replayed through the update queue
        { s with sbs := s.sbs.map (fun b => if b.name = n then { b with cachedUntil := none } else b),
                 queue := s.queue ++ (match b.last with | some p => [(n, p)] | none => []),
                 evs := s.evs ++ [Ev.ucc n] }
      else
        { s with sbs := insertSb ⟨n, c.typ, none, none⟩ (s.sbs.filter (·.name ≠ n)),
                 evs := s.evs ++ [Ev.close n, Ev.build n c.typ, Ev.ucc n] }
    | none =>
      { s with sbs := insertSb ⟨n, c.typ, none, none⟩ s.sbs, evs := s.evs ++ [Ev.build n c.typ, Ev.ucc n] }

/-- the condition of syncPriority for the child at index p -/
def usable (c : Child) : Bool :=
  c.st.conn = 2 || c.st.conn = 0 || (c.st.conn = 1 && c.timer.isSome)

def pick (c : Child) (last : Bool) : Bool := !c.started || usable c || last

/-- `stopSubBalancersLowerThanPriority` for the names after the chosen one -/
def stopLower (s : St) (lower : List Nat) : St := lower.foldl (fun s n => stopChild s n false) s

/-- `switchToChild` -/
def switchTo (s : St) (c : Child) (lower : List Nat) : St :=
  let s := stopLower s lower
  if s.inUse = some c.name ∧ c.started then s else
  let s := { s with inUse := some c.name }
  if !c.started then startChild s c.name else s

/-- `syncPriority` over the remaining priorities (inhibitPickerUpdates is false) -/
def syncFrom (s : St) (updating : Option Nat) : List Nat → St
  | [] => s
  | n :: rest =>
    match findChild s n with
    | none => syncFrom s updating rest
    | some c =>
      if pick c rest.isEmpty then
        let s := if s.inUse ≠ some n ∨ updating = some n then sendUp s c.st else s
        switchTo s c rest
      else syncFrom s updating rest

def sync (s : St) (updating : Option Nat) : St := syncFrom s updating s.prios

/-- the state / init timer bookkeeping of `handleChildStateUpdate` for one child -/
def applyState (now : Int) (c : Child) (p : PState) : Child :=
  let old := c.st
  let c := { c with st := p }
  if p.conn = 2 ∨ p.conn = 0 then { c with reportedTF := false, timer := none }
  else if p.conn = 3 then { c with reportedTF := true, timer := none }
  else if p.conn = 1 then
    (if !c.reportedTF ∧ old.conn ≠ 1 then { c with timer := some (c.timer.getD (now + initTimeout)) } else c)
  else c

/-- `handleChildStateUpdate` -/
def handleChild (s : St) (n : Nat) (p : PState) : St :=
  match findChild s n with
  | none => s
  | some c =>
    if !c.started then s else
    sync (modChild s n fun c => applyState s.now c p) (some n)

/-- the `run` goroutine works off the queued (replayed) child states -/
def drain : Nat → St → St
  | 0, s => s
  | fuel + 1, s =>
    match s.queue with
    | [] => s
    | (n, p) :: rest => drain fuel (handleChild { s with queue := rest } n p)

def settle (s : St) : St := drain (s.children.length + s.queue.length + 1) s

/-- the per-child part of UpdateClientConnState for a child of the new config -/
def updChild (s : St) (nt : Nat × Nat) : St :=
  match findChild s nt.1 with
  | none => { s with children := insertChild ⟨nt.1, nt.2, false, initState, false, none⟩ s.children }
  | some c =>
    let s := if c.typ ≠ nt.2 then modChild (stopChild s nt.1 true) nt.1 fun c => { c with typ := nt.2 } else s
    -- updateConfig: a started child is sent the new config
    match findChild s nt.1 with
    | some c => if c.started then { s with evs := s.evs ++ [Ev.ucc nt.1] } else s
    | none => s

/-- children of the old config that the new one does not have are stopped and deleted -/
def dropChildren (s : St) (keep : List Nat) : St :=
  let gone := (s.children.filter fun c => !keep.contains c.name).map (·.name)
  let s := gone.foldl (fun s n => stopChild s n true) s
  { s with children := s.children.filter fun c => keep.contains c.name }

/-- UpdateClientConnState (+ resumePickerUpdates) -/
def update (s : St) (prios : List Nat) (kids : List (Nat × Nat)) : St :=
  let s := kids.foldl updChild s
  let s := dropChildren s (kids.map (·.1))
  let s := { s with prios := prios }
  if prios.isEmpty then sendUp { s with inUse := none } ⟨3, .allrm⟩
  else settle (sync s s.inUse)

/-- a stub child reports a state with a fresh picker -/
def childReport (s : St) (n conn : Nat) : Option St :=
  match findSb s n with
  | none => none
  | some _ =>
    let p : PState := ⟨conn, .stub s.nextPk⟩
    let s := { s with nextPk := s.nextPk + 1, sbs := s.sbs.map fun b => if b.name = n then { b with last := some p } else b }
    some (settle (handleChild s n p))

/-- the init timer callback of child n -/
def timerFire (s : St) (n : Nat) : St :=
  settle (sync (modChild s n fun c => { c with timer := none }) none)

/-- the cache entry of sub-balancer n times out -/
def cacheExpire (s : St) (n : Nat) : St :=
  { s with sbs := s.sbs.filter (·.name ≠ n), evs := s.evs ++ [Ev.close n] }

/-- The init timer of child n fires: its callback goroutine is started and waits for the balancer's
    mutex.  Until it runs `initTimer` is still set.  (child name, deadline) identifies the timer: a
    timer is dispatched at its deadline D and every timer armed later has a deadline > D. -/
def dispatch (s : St) (n : Nat) : St :=
  match findChild s n with
  | none => s
  | some c =>
    match c.timer with
    | none => s
    | some d => if d ≤ s.now ∧ !s.pending.contains (n, d) then { s with pending := s.pending ++ [(n, d)] } else s

/-- The oldest dispatched callback obtains the mutex.  `timerW.stopped` is false exactly when the
    child's current timer is still the one this callback belongs to; otherwise it returns at once. -/
def runCallback (s : St) : St :=
  match s.pending with
  | [] => s
  | (n, d) :: rest =>
    let s := { s with pending := rest }
    match findChild s n with
    | none => s
    | some c => if c.timer = some d then timerFire s n else s

/-- earliest timer event at or before `target` that has not been dispatched: (deadline, isCache, name) -/
def nextDue (s : St) (target : Int) : Option (Int × Bool × Nat) :=
  let inits := s.children.filterMap fun c => c.timer.bind fun t => if s.pending.contains (c.name, t) then none else some (t, false, c.name)
  let caches := s.sbs.filterMap fun b => b.cachedUntil.map fun t => (t, true, b.name)
  (inits ++ caches).foldl (fun best e =>
    if e.1 ≤ target then
      match best with
      | none => some e
      | some b => if e.1 < b.1 then some e else some b
    else best) none

/-- virtual time passes until `target`; due timers fire in time order.  With `hold` the callbacks
    of init timers are only dispatched (they park before taking the mutex). -/
def sleepTo (hold : Bool) : Nat → St → Int → St
  | 0, s, target => { s with now := target }
  | fuel + 1, s, target =>
    match nextDue s target with
    | none => { s with now := max s.now target }
    | some (t, isCache, n) =>
      let s := { s with now := max s.now t }
      sleepTo hold fuel (if isCache then cacheExpire s n else if hold then dispatch s n else timerFire s n) target

/-! ## histories -/

inductive Op
  | update (prios : List Nat) (kids : List (Nat × Nat))
  | child (n conn : Nat)
  | timer (n : Nat)       -- the init timer of child n fires and its callback runs at once (only if it is armed)
  | dispatch (n : Nat)    -- the init timer of child n fires (deadline reached); the callback waits for the mutex
  | runcb                 -- the oldest waiting callback runs
  | expire (n : Nat)      -- the cache entry of sub-balancer n times out (only if it is cached)
  | advance (d : Nat)
deriving Repr

def clearOut (s : St) : St := { s with ups := [], evs := [] }

def step (s : St) : Op → St
  | .update prios kids => update (clearOut s) prios kids
  | .child n conn => (childReport (clearOut s) n conn).getD (clearOut s)
  | .timer n =>
    match findChild s n with
    | some c => if c.timer.isSome then timerFire (clearOut s) n else clearOut s
    | none => clearOut s
  | .dispatch n => dispatch (clearOut s) n
  | .runcb => runCallback (clearOut s)
  | .expire n =>
    match findSb s n with
    | some b => if b.cachedUntil.isSome then cacheExpire (clearOut s) n else clearOut s
    | none => clearOut s
  | .advance d => { clearOut s with now := s.now + d }

def run (ops : List Op) : St := ops.foldl step init

end GrpcModel.Priority
