/-
Model of internal/grpcsync/event.go (Event) at the grain of individual accesses to
`fired atomic.Bool`.  Counting abstraction: any number of concurrent Fire / HasFired callers.

  Fire       f0 : e.fired.CompareAndSwap(false, true)
             f1 : (CAS succeeded) close(e.c); return true          (CAS failed: return false)
  HasFired      : e.fired.Load()       (a read; rule `hasFired` changes nothing)

`closed` counts executions of `close(e.c)`: a second one would panic ("close of closed channel").
-/
namespace GrpcModel.Event

structure St where
  fired  : Bool   -- e.fired
  closed : Nat    -- number of close(e.c) executed
  f0     : Nat    -- Fire goroutines before the CAS
  f1     : Nat    -- Fire goroutines that won the CAS, before close(e.c)
  trues  : Nat    -- Fire calls that returned true
  falses : Nat    -- Fire calls that returned false
deriving Repr, DecidableEq, Inhabited

/-- NewEvent -/
def init : St := { fired := false, closed := 0, f0 := 0, f1 := 0, trues := 0, falses := 0 }

inductive Rule
  | fireStart   -- Fire called                                  → f0
  | casOk       -- f0: CompareAndSwap(false,true) succeeds      → f1
  | casFail     -- f0: CompareAndSwap fails; return false
  | close       -- f1: close(e.c); return true
  | hasFired    -- HasFired: Load()
deriving DecidableEq, Repr

def apply (s : St) : Rule → Option St
  | .fireStart => some { s with f0 := s.f0 + 1 }
  | .casOk => if s.f0 > 0 ∧ s.fired = false then some { s with f0 := s.f0 - 1, fired := true, f1 := s.f1 + 1 } else none
  | .casFail => if s.f0 > 0 ∧ s.fired = true then some { s with f0 := s.f0 - 1, falses := s.falses + 1 } else none
  | .close => if s.f1 > 0 then some { s with f1 := s.f1 - 1, closed := s.closed + 1, trues := s.trues + 1 } else none
  | .hasFired => some s

def run (s : St) : List Rule → St
  | [] => s
  | r :: rs => match apply s r with
    | some t => run t rs
    | none => run s rs

inductive Reach : St → Prop
  | init : Reach init
  | step {s t : St} (r : Rule) : Reach s → apply s r = some t → Reach t

end GrpcModel.Event
