/-
Model of the cluster-specifier-plugin side of the xDS resolver's reference counting
(internal/xds/resolver/xds_resolver.go: newConfigSelector / addOrGetActiveClusterInfo(key, "") /
pruneActiveClustersAndPlugins / the config selector's `sendNewServiceConfig` callback;
internal/xds/resolver/serviceconfig.go: SelectConfig's plugin branch, stop()).  It runs in lockstep with
GrpcModel/Model/ClusterRefs.lean (the driver feeds both): plugins are not subscribed anywhere, so the
dependency manager plays no role; instead, releasing the LAST reference to a plugin — in OnCommitted or
in stop() — calls `cs.sendNewServiceConfig()`, which schedules on the resolver's serializer

    r.sendNewServiceConfig(r.curConfigSelector)      -- prune, then UpdateState(service config, CURRENT selector)

Config selectors are numbered in the order newConfigSelector creates them (`curSel`); `pushedSel` is the
selector handed to the channel by the last UpdateState.

  update ps   the serializer runs an Update callback whose routes name the plugins ps: new selector
              (one reference per distinct plugin), prune, UpdateState with the NEW selector, stop() of the
              old one (each release that reaches 0 schedules a regen)
  regen       the serializer runs a scheduled regen callback: prune, UpdateState with the CURRENT selector
  select r p  SelectConfig routes RPC r to plugin p through the current selector (refCount+1)
  commit r    OnCommitted (sync.OnceFunc): refCount-1; 0 ⇒ schedule a regen
-/
namespace GrpcModel.PluginRefs

abbrev Name := Nat

structure Rpc where
  id : Nat
  plugin : Name
  committed : Bool
deriving Repr, DecidableEq

structure State where
  active : List (Name × Nat)     -- activePlugins: refCount
  cur : List Name                -- plugins of curConfigSelector
  rpcs : List Rpc
  pending : Nat                  -- regen callbacks scheduled and not yet run
  pushedSP : List Name           -- plugin children of the last service config
  curSel : Nat                   -- number of the current config selector (0 = none yet)
  pushedSel : Nat                -- number of the selector given to the channel last
deriving Repr, DecidableEq

def init : State := { active := [], cur := [], rpcs := [], pending := 0, pushedSP := [], curSel := 0, pushedSel := 0 }

inductive Op
  | update (ps : List Name) | regen | select (r : Nat) (p : Name) | commit (r : Nat)
deriving Repr, DecidableEq

def dedup : List Name → List Name
  | [] => []
  | a :: l => if a ∈ l then dedup l else a :: dedup l

def rcOf (a : List (Name × Nat)) (p : Name) : Nat := (a.lookup p).getD 0

def bump (a : List (Name × Nat)) (p : Name) : List (Name × Nat) :=
  if a.any (·.1 == p) then a.map (fun e => if e.1 == p then (e.1, e.2 + 1) else e) else a ++ [(p, 1)]

/-- refCount.Add(-1); 0 ⇒ cs.sendNewServiceConfig() -/
def release (s : State) (p : Name) : State :=
  if s.active.any (·.1 == p) then
    let n := rcOf s.active p - 1
    { s with active := s.active.map (fun e => if e.1 == p then (e.1, e.2 - 1) else e),
             pending := if n = 0 then s.pending + 1 else s.pending }
  else s

/-- pruneActiveClustersAndPlugins (plugin half) followed by UpdateState with selector `sel` -/
def prunePush (s : State) (sel : Nat) : State :=
  let a := s.active.filter (·.2 ≠ 0)
  { s with active := a, pushedSP := a.map (·.1), pushedSel := sel }

def step (s : State) : Op → State
  | .update ps =>
    let ps := dedup ps
    let s1 : State := { s with active := ps.foldl bump s.active, curSel := s.curSel + 1 }
    let s2 := prunePush s1 s1.curSel
    let s3 := s.cur.foldl release s2
    { s3 with cur := ps }
  | .regen => prunePush { s with pending := s.pending - 1 } s.curSel
  | .select id p =>
    if s.rpcs.any (·.id == id) then s else
    if s.cur.contains p ∧ s.active.any (·.1 == p) then
      { s with active := bump s.active p, rpcs := s.rpcs ++ [{ id := id, plugin := p, committed := false }] }
    else s
  | .commit id =>
    match s.rpcs.find? (·.id == id) with
    | none => s
    | some r =>
      if r.committed then s else
      release { s with rpcs := s.rpcs.map (fun x => if x.id == id then { x with committed := true } else x) } r.plugin

def run (ops : List Op) : State := ops.foldl step init

end GrpcModel.PluginRefs
