import GrpcModel.Model.ServerDrain
import GrpcModel.Driver.Loop
/-! Quiescent big-step semantics, snapshot rendering and the C14 server-half monitor for `ServerDrain`
(same scheme as ClientConnSim / ClientConnMon; harness: harness/synct/c_serverdrain_test.go). -/
namespace GrpcModel.ServerDrainSim
open GrpcModel.ServerDrain GrpcModel.Driver

def internalEv (s : State) : Option Ev :=
  if !s.lExited && !s.lBlocked && !s.cbuf.isEmpty then some .loopy
  else if !s.lExited && !s.lBlocked && !s.wbuf.isEmpty then some .flush
  else if !s.lExited && (s.done || (s.lBlocked && s.connClosed)) then some .loopyAbort
  else if (match s.waiter with | some t => s.done || s.drainFired || t ≤ s.now | none => false) then some .waiterFire
  else if (match s.closeTimer with | some t => s.readerDone || t ≤ s.now | none => false) then some .closeTimerFire
  else if !s.readerDone && (s.connClosed || s.peerGone) then some .readerErr
  else none

def settle (fuel : Nat) (s : State) (acc : List Wire) : State × List Wire :=
  match fuel with
  | 0 => (s, acc)
  | fuel + 1 =>
    match internalEv s with
    | none => (s, acc)
    | some e =>
      let (s', w) := step s e
      settle fuel s' (acc ++ w)

def FUEL : Nat := 100000

def nextInstant (s : State) (target : Nat) : Option Nat :=
  let ds := (match s.waiter with | some t => [t] | none => []) ++ (match s.closeTimer with | some t => [t] | none => [])
  let ds := ds.filter fun d => s.now < d && d ≤ target
  ds.foldl (fun acc d => match acc with | none => some d | some a => some (min a d)) none

def sleepTo (fuel : Nat) (s : State) (target : Nat) (acc : List Wire) : State × List Wire :=
  match fuel with
  | 0 => (s, acc)
  | fuel + 1 =>
    match nextInstant s target with
    | none => settle FUEL { s with now := target } acc
    | some t =>
      let (s, acc) := settle FUEL { s with now := t } acc
      sleepTo fuel s target acc

def bs (c : Bool) (t : String) : String := if c then t else ""

def hexOf (d : Bytes) : String := String.ofList (d.flatMap fun x => [hexChar (x.toNat / 16), hexChar (x.toNat % 16)])

def renderWire : Wire → String
  | .G id c => s!"G{id}.{c}"
  | .P d => "P" ++ hexOf d
  | .Pa d => "Pa" ++ hexOf d
  | .H id => s!"H{id}e"
  | .R id c => s!"R{id}.{c}"

def render (s : State) (w : List Wire) : String :=
  let ss := s.streams.map fun x => s!"{x.id}:{bs (x.active && !s.activeNil) "a"}{bs x.done "d"}{bs x.cancelled "c"}"
  let st := match s.tstate with | .reachable => "R" | .closing => "C" | .draining => "D"
  let j (l : List String) := if l.isEmpty then "-" else ",".intercalate l
  s!"streams={j ss} wire={j (w.map renderWire)} conn={st},max={s.maxStreamID},dr={bs s.drainStarted "s"}{bs s.drainFired "f"},done={bs s.done "1"},eof={bs (s.connClosed || s.peerGone) "1"}"

structure Sim where
  started : Bool
  s : State
deriving Inhabited

def Sim.init : Sim := { started := false, s := ServerDrain.init }

def Sim.op (m : Sim) (fs : List String) : Sim × String :=
  match fs with
  | ["start"] =>
    if m.started then (m, "bad-op") else
    ({ m with started := true }, "ok " ++ (render ServerDrain.init []).replace "wire=-" "wire=S,Sa")
  | _ =>
    if !m.started then (m, "nostart") else
    let s := m.s
    let fin (res : String) (s : State) (pre : List Wire) : Sim × String :=
      let (s, w) := settle FUEL s pre
      ({ m with s := s }, res ++ " " ++ render s w)
    match fs with
    | ["hdr", sid] =>
      (match sid.toNat? with
       | some 0 => fin "ok" s.readerExit []      -- HEADERS on stream 0: the framer's connection error
       | some sid => fin "ok" (s.onHeaders sid) []
       | none => (m, "bad-op"))
    | ["hdrpark", sid] =>
      -- the reader is parked between the two halves of operateHeaders (tie T3)
      (match sid.toNat? with
       | some 0 => fin "nopark" s.readerExit []
       | some sid =>
         if s.connClosed || s.peerGone then fin "nopark" s [] else
         let s' := s.hdrA sid
         fin (if s'.hdrPending.isSome && !s.hdrPending.isSome then "ok" else "nopark") s' []
       | none => (m, "bad-op"))
    | ["unpark"] =>
      let (s, w0) := settle FUEL s.hdrB []
      let (s, w1) := sleepTo 1000 s (s.now + 2) w0
      fin "ok" s w1
    | ["drain"] => fin "ok" s.drain []
    | ["pingack", h] => (match unhex h with | some d => fin "ok" (s.onPingAck d) [] | none => (m, "bad-op"))
    | ["ping"] => fin "ok" (s.onPing [9, 9, 9, 9, 9, 9, 9, 9]) []
    | ["finish", sid, _] =>
      (match sid.toNat? with
       | some sid =>
         if (s.find sid).isNone then fin "nostream" s [] else
         let (s', e) := s.finishStream sid
         fin (if e then "werr" else "ok") s' []
       | none => (m, "bad-op"))
    | ["rst", sid] => (match sid.toNat? with | some sid => fin "ok" (s.onRST sid) [] | none => (m, "bad-op"))
    | ["sleep", ms] =>
      (match ms.toNat? with
       | some ms => let (s, w) := sleepTo 1000 s (s.now + ms) []; fin "ok" s w
       | none => (m, "bad-op"))
    | ["hold"] => fin "ok" { s with held := true } []
    | ["release"] => let (s, w) := s.release; fin "ok" s w
    | ["peerclose"] => fin "ok" { s with peerGone := true } []
    | ["close"] => fin "ok" s.close []
    | ["end"] =>
      let (s, wa) := settle FUEL s.hdrB []
      let (s, wb) := sleepTo 1000 s (s.now + 2) wa
      let (s, w0) := (fun (p : State × List Wire) => (p.1, wb ++ p.2)) s.release
      let (s, w1) := settle FUEL s w0
      let (s, w2) := settle FUEL s.close w1
      let (s, w3) := settle FUEL { s with peerGone := true } w2
      ({ m with s := s }, "ok " ++ render s w3 ++ " leak=0")
    | _ => (m, "bad-op")

/-! ## monitor (server half of C14) on the implementation's snapshots -/

structure SEntry where
  id : Nat
  flags : String
deriving Repr, Inhabited, DecidableEq

structure Snap where
  res : String := ""
  streams : List SEntry
  wire : List String
  st : String
  max : Nat
  eof : Bool
  leak : Int
deriving Repr, Inhabited

def kv (fields : List String) (k : String) : String :=
  match fields.find? (fun f => f.startsWith (k ++ "=")) with
  | some f => (f.drop (k.length + 1)).toString
  | none => ""

def parseSnap (line : String) : Option Snap :=
  match line.splitOn " " with
  | res :: sp :: wp :: cn :: rest =>
    if !sp.startsWith "streams=" || !cn.startsWith "conn=" then none else
    let ss := (sp.drop 8).toString
    let streams := if ss = "-" then [] else (ss.splitOn ",").map fun e =>
      match e.splitOn ":" with
      | [i, f] => { id := i.toNat?.getD 0, flags := f }
      | _ => { id := 0, flags := "?" }
    let ws := (wp.drop 5).toString
    let cf := ((cn.drop 5).toString).splitOn ","
    let leak := match rest with | [lk] => ((lk.drop 5).toString.toInt?).getD 1 | _ => 0
    some { res := res, streams := streams, wire := if ws = "-" then [] else ws.splitOn ",", st := cf.headD "-",
           max := (kv cf "max").toNat?.getD 0, eof := kv cf "eof" = "1", leak := leak }
  | _ => none

structure MonSt where
  prev : Option Snap
  final : Option Nat        -- last-stream-id of the final GOAWAY seen on the wire
  extClose : Bool           -- the test itself ended the connection (close / peerclose / end / protocol violation)
  ackSeen : Bool            -- the client's ack of the drain PING was sent
  late : List Nat           -- streams accepted after that ack and before the final GOAWAY appeared on the wire
  now : Nat := 0            -- virtual time, from the sleep / unpark ops
  drainAt : Option Nat := none   -- time of the first `drain` op
  recv : List Nat := []     -- legal stream ids whose HEADERS the server has read (hdr / hdrpark ops)
  parked : Option Nat := none   -- the reader is parked inside operateHeaders for this id
deriving Inhabited

def MonSt.init : MonSt := { prev := none, final := none, extClose := false, ackSeen := false, late := [] }

/-- a GOAWAY frame in the wire list that is not the heads-up one -/
def finalOf (w : List String) : Option (Nat × Nat) :=
  w.findSome? fun f =>
    if f.startsWith "G" && f ≠ "G2147483647.0" then
      match ((f.drop 1).toString).splitOn "." with
      | [i, c] => (match i.toNat?, c.toNat? with | some i, some c => some (i, c) | _, _ => none)
      | _ => none
    else none

def firstViol (l : List (Option String)) : String :=
  match l.filterMap id with
  | [] => "ok"
  | v :: _ => "VIOL " ++ v

def monitor (m : MonSt) (fs : List String) (impl : String) : MonSt × String :=
  match parseSnap impl with
  | none => (m, "-")
  | some c =>
    let ext := m.extClose || (match fs with
      | ["close"] | ["peerclose"] | ["end"] => true
      | ["hdr", sid] =>
        (match sid.toNat?, m.prev with
         | some sid, some p => sid % 2 ≠ 1 || sid ≤ p.max || sid = 0
         | _, _ => false)
      | _ => false)
    let now := m.now + (match fs with | ["sleep", ms] => ms.toNat?.getD 0 | ["unpark"] | ["end"] => 2 | _ => 0)
    let drainAt := match fs, m.drainAt with | ["drain"], none => some m.now | _, d => d
    let ackSeen := m.ackSeen || (match fs with | ["pingack", d] => d = "0106010800030309" | _ => false)
    -- the final GOAWAY has been triggered: the drain PING was acked, or the 5 s fallback timer (started when loopy wrote
    -- the heads-up GOAWAY, not before the Drain call) may have fired
    let triggered := m.ackSeen || (match m.drainAt with | some t => t + 5000 ≤ now | none => false)
    let prevIds : List Nat := match m.prev with | some p => p.streams.map (fun (e : SEntry) => e.id) | none => []
    let newIds := (c.streams.map (fun (e : SEntry) => e.id)).filter fun i => !(prevIds.contains i)
    let late := if triggered && m.final.isNone then m.late ++ newIds else m.late
    let legal (sid : Nat) : Bool := match m.prev with | some p => sid % 2 = 1 && sid > p.max && p.st ≠ "C" && !p.eof | none => false
    let recv := match fs with
      | ["hdr", sid] | ["hdrpark", sid] => (match sid.toNat? with | some k => if legal k then m.recv ++ [k] else m.recv | none => m.recv)
      | _ => m.recv
    let parked : Option Nat := match fs with
      | ["hdrpark", sid] => if c.res = "ok" then sid.toNat? else m.parked
      | ["unpark"] | ["end"] => none
      | _ => m.parked
    let fin := finalOf c.wire
    let final := match fin with | some (i, 0) => some i | _ => m.final
    let v1 : List (Option String) :=
      match fin with
      | some (i, 0) =>
        -- the final GOAWAY of a graceful drain
        [if i ≠ c.max then some s!"final GOAWAY id {i} is not the highest stream id seen ({c.max})" else none] ++
        c.streams.map fun e => if e.id > i then some s!"stream {e.id} was accepted but the final GOAWAY says {i}" else none
      | _ => []
    let v3 : Option String :=
      match m.final, m.prev with
      | some n, some p =>
        if c.streams.length ≠ p.streams.length then some s!"a stream was accepted after the final GOAWAY({n})" else none
      | _, _ => none
    let v2 : List (Option String) :=
      match final with
      | some n =>
        if (c.st = "C" || c.eof) && !ext then
          c.streams.map fun e =>
            if e.id ≤ n && !(e.flags.toList.contains 'd') then
              some (s!"connection closed by the draining server while accepted stream {e.id} <= final GOAWAY id {n} is unfinished" ++
                (if late.contains e.id then " (accepted after the final GOAWAY was triggered, before loopy wrote it)" else ""))
            else none
        else []
      | none => []
    -- "a final GOAWAY whose id is the highest stream id it accepted": a stream the final GOAWAY covers must have been
    -- handed to a handler (in this harness every request is well-formed), not silently dropped
    let v4 : List (Option String) :=
      match final with
      | some n =>
        if c.st = "C" && ext then [] else
        recv.map fun k =>
          if k ≤ n && parked ≠ some k && !((c.streams.map fun (e : SEntry) => e.id).contains k) then
            some s!"the final GOAWAY({n}) covers stream {k}, whose HEADERS the server read and silently dropped"
          else none
      | none => []
    let leak : Option String := if c.leak ≠ 0 then some s!"{c.leak} goroutine(s) outlive the closed connection" else none
    ({ prev := some c, final := final, extClose := ext, ackSeen := ackSeen, late := late, recv := recv, parked := parked,
       now := now, drainAt := drainAt },
      firstViol (v1 ++ [v3] ++ v2 ++ v4 ++ [leak]))

end GrpcModel.ServerDrainSim
