import GrpcModel.Generated.RLS
/-
Model of balancer/rls/internal/adaptive/{lookback.go,adaptive.go}.

`lookback` is ported statement by statement (advance's clearing loop is the recursive `clearLoop`);
times are non-negative nanoseconds (`t.UnixNano()`), `buf` is a total function of the bin index
(only indices < bins are ever touched), counters are unbounded integers (int64 in Go).
`Throttler` works on two lookbacks under one mutex: ShouldThrottle / RegisterBackendResponse are
one step each.  The float64 arithmetic of ShouldThrottle is modelled in ℚ (`Rat`): all operands
are small integers (exact in float64) and the quotient is only compared with the random draw.
defaultRatioForAccepts = 2.0 and defaultRequestsPadding = 8.0 are float literals the T4 extractor
cannot read; they are written out here and guarded by the differential run.
-/
namespace GrpcModel.RLSAdaptive
open GrpcModel.Generated

structure LB where
  bins  : Nat
  width : Nat         -- nanoseconds per bin
  head  : Nat
  total : Int
  buf   : Nat → Int

/-- newLookback -/
def newLookback (bins duration : Nat) : LB :=
  { bins := bins, width := duration / bins, head := 0, total := 0, buf := fun _ => 0 }

def setBuf (f : Nat → Int) (i : Nat) (v : Int) : Nat → Int := fun j => if j = i then v else f j

/-- one iteration of advance's loop: `i := (ch + j + 1) % l.bins; l.total -= l.buf[i]; l.buf[i] = 0` -/
def clearBin (l : LB) (i : Nat) : LB := { l with total := l.total - l.buf i, buf := setBuf l.buf i 0 }

/-- `for j := int64(0); j < jmax; j++ { … }` with `n = jmax - j` iterations left -/
def clearLoop (l : LB) (ch : Nat) : Nat → Nat → LB
  | _, 0 => l
  | j, n + 1 => clearLoop (clearBin l ((ch + j + 1) % l.bins)) ch (j + 1) n

/-- advance: returns the lookback and the absolute bin index of `t` -/
def advance (l : LB) (t : Nat) : LB × Nat :=
  let ch := l.head
  let nh := t / l.width
  if nh ≤ ch then (l, nh)
  else ({ clearLoop l ch 0 (min l.bins (nh - ch)) with head := nh }, nh)

def add (l : LB) (t : Nat) (v : Int) : LB :=
  let r := advance l t
  let l := r.1
  let pos := r.2
  if l.head - pos ≥ l.bins then l
  else { l with buf := setBuf l.buf (pos % l.bins) (l.buf (pos % l.bins) + v), total := l.total + v }

def sum (l : LB) (t : Nat) : LB × Int := let r := advance l t; (r.1, r.1.total)

/-! ### specification side: the history of add calls and its window sum -/

/-- Σ of the values of the recorded adds whose bin satisfies `P` -/
def S : List (Nat × Int) → (Nat → Bool) → Int
  | [], _ => 0
  | (p, v) :: t, P => (if P p then v else 0) + S t P

/-- bin `p` lies in the window of `bins` bins ending at `head`: head − bins < p ≤ head -/
def inWindow (head bins p : Nat) : Bool := decide (head < p + bins) && decide (p ≤ head)

def windowSum (H : List (Nat × Int)) (head bins : Nat) : Int := S H (inWindow head bins)

inductive Op | add (t : Nat) (v : Int) | sum (t : Nat)
deriving Repr, DecidableEq

def step (l : LB) : Op → LB
  | .add t v => add l t v
  | .sum t => (sum l t).1

def run (l : LB) (ops : List Op) : LB := ops.foldl step l

def histStep (width : Nat) (H : List (Nat × Int)) : Op → List (Nat × Int)
  | .add t v => (t / width, v) :: H
  | .sum _ => H

def maxStep (width : Nat) (m : Nat) : Op → Nat
  | .add t _ => max m (t / width)
  | .sum t => max m (t / width)

/-- history (newest first) of the add calls of `ops`, as (bin, value) -/
def hist (width : Nat) (ops : List Op) : List (Nat × Int) := ops.foldl (histStep width) []

/-- the largest bin index any call has mentioned so far (0 initially) -/
def maxBin (width : Nat) (ops : List Op) : Nat := ops.foldl (maxStep width) 0

/-! ### Throttler -/

structure Thr where
  accepts : LB
  throttles : LB

/-- New(): newWithArgs(defaultDuration, defaultBins, 2.0, 8.0) -/
def newThrottler : Thr :=
  { accepts := newLookback rlsDefaultBins rlsDefaultDuration, throttles := newLookback rlsDefaultBins rlsDefaultDuration }

def ratioForAccepts : Rat := 2
def requestsPadding : Rat := 8

/-- `(requests - ratioForAccepts*accepts) / (requests + requestsPadding)` -/
def probability (accepts throttles : Int) : Rat :=
  let requests : Rat := (accepts : Rat) + (throttles : Rat)
  (requests - ratioForAccepts * (accepts : Rat)) / (requests + requestsPadding)

/-- ShouldThrottle with the random draw `r` and the clock reading `now` made explicit -/
def shouldThrottle (t : Thr) (now : Nat) (r : Rat) : Thr × Bool :=
  let a := sum t.accepts now
  let th := sum t.throttles now
  if probability a.2 th.2 ≤ r then ({ accepts := a.1, throttles := th.1 }, false)
  else ({ accepts := a.1, throttles := add th.1 now 1 }, true)

/-- RegisterBackendResponse -/
def registerBackendResponse (t : Thr) (now : Nat) (throttled : Bool) : Thr :=
  if throttled then { t with throttles := add t.throttles now 1 } else { t with accepts := add t.accepts now 1 }

end GrpcModel.RLSAdaptive
