/-
Model of the per-RPC-credentials / transport-security policy (C58):

  clientconn.go                       : (*ClientConn).validateTransportCredentials
  internal/transport/http2_client.go  : NewHTTP2Client (handshake-time check), createHeaderFields,
                                        getTrAuthData, getCallAuthData
  credentials/credentials.go          : CheckSecurityLevel, SecurityLevel
  internal/metadata/metadata.go       : ValidateKey, ValidatePair
  credentials/insecure, credentials/local, credentials/tls.go : what Info()/ClientHandshake report

The code is ported as it is: `isSecure` is true as soon as transport credentials exist (also for
`insecure.NewCredentials()`), a nil AuthInfo passes the handshake-time check but fails
CheckSecurityLevel, InvalidSecurityLevel and AuthInfo types without GetCommonAuthInfo pass both.
-/
import GrpcModel.Generated.CredsPolicy
namespace GrpcModel.CredsPolicy
open GrpcModel.Generated

/-! ### security levels -/

/-- `credentials.SecurityLevel` -/
inductive Level | invalid | none | integrityOnly | privacyAndIntegrity
deriving DecidableEq, Repr

def Level.name : Level → String
  | .invalid => "InvalidSecurityLevel" | .none => "NoSecurity"
  | .integrityOnly => "IntegrityOnly" | .privacyAndIntegrity => "PrivacyAndIntegrity"

/-- numeric value of the constant: its position in the `iota` block as it is in the source NOW (T4) -/
def Level.num (l : Level) : Nat := securityLevelNames.idxOf l.name

/-- What `ClientHandshake` returned as `credentials.AuthInfo`. -/
inductive Auth
  | nilInfo                 -- a nil interface
  | noCommon                -- a type without `GetCommonAuthInfo()`
  | common (l : Level)      -- embeds `credentials.CommonAuthInfo{SecurityLevel: l}`
deriving DecidableEq, Repr

/-- the type assertion `ai.(interface{ GetCommonAuthInfo() CommonAuthInfo })` -/
def Auth.common? : Auth → Option Level
  | .common l => some l
  | _ => none

/-- `credentials.CheckSecurityLevel(ai, level)`; `true` = nil error. -/
def checkSecurityLevel (ai : Auth) (level : Level) : Bool :=
  match ai with
  | .nilInfo => false                                   -- "AuthInfo is nil"
  | .noCommon => true
  | .common l =>
    if l = .invalid then true
    else if l.num < level.num then false
    else true

/-! ### transport credentials -/

inductive TKind
  | insecure        -- credentials/insecure
  | localTCP        -- credentials/local, peer 127.x / [::1]
  | localUDS        -- credentials/local, unix socket
  | localRemote     -- credentials/local, non-local peer: handshake error
  | tls             -- credentials.NewTLS
  | custom (protoInsecure : Bool) (a : Auth)   -- user TransportCredentials
deriving DecidableEq, Repr

/-- `transportCreds.Info().SecurityProtocol == "insecure"` -/
def TKind.protoInsecure : TKind → Bool
  | .insecure => true
  | .custom p _ => p
  | _ => false

/-- AuthInfo returned by `ClientHandshake` (`none` = handshake error). -/
def TKind.handshake : TKind → Option Auth
  | .insecure => some (.common .none)
  | .localTCP => some (.common .none)
  | .localUDS => some (.common .privacyAndIntegrity)
  | .localRemote => none
  | .tls => some (.common .privacyAndIntegrity)
  | .custom _ a => some a

/-- how the transport credentials were configured on the channel -/
inductive Via
  | opt          -- WithTransportCredentials
  | bundle       -- WithCredentialsBundle (bundle has transport creds)
  | none         -- neither
  | both         -- both options
  | bundleNoTC   -- bundle whose TransportCredentials() is nil
deriving DecidableEq, Repr

/-! ### per-RPC credentials and their metadata -/

abbrev Key := List Char
abbrev Bytes := List UInt8

/-- a `credentials.PerRPCCredentials`: RequireTransportSecurity() and the map GetRequestMetadata returns -/
structure Cred where
  require : Bool
  md : List (Key × Bytes)
deriving DecidableEq, Repr

/-- who a credential is: i-th WithPerRPCCredentials option, the bundle's, the call option's -/
inductive Name | d (i : Nat) | b | c
deriving DecidableEq, Repr

structure Config where
  tkind : TKind
  via : Via
  dial : List Cred
  bundle : Option Cred
  call : Option Cred
deriving Repr

/-- `strings.ToLower` on ASCII -/
def lowerChar (c : Char) : Char :=
  if 'A' ≤ c ∧ c ≤ 'Z' then Char.ofNat (c.toNat + 32) else c

def lowerKey (k : Key) : Key := k.map lowerChar

def keyCharOK (r : Char) : Bool :=
  ('a' ≤ r && r ≤ 'z') || ('0' ≤ r && r ≤ '9') || r == '.' || r == '-' || r == '_'

/-- `imetadata.ValidateKey` (true = nil error) -/
def validateKey (k : Key) : Bool :=
  match k with
  | [] => false
  | c :: _ => if c = ':' then true else k.all keyCharOK

def printable (b : UInt8) : Bool := 0x20 ≤ b && b ≤ 0x7E

/-- `imetadata.ValidatePair(k, v)` -/
def validatePair (k : Key) (v : Bytes) : Bool :=
  if !validateKey k then false
  else if "-bin".toList.isSuffixOf k then true
  else v.all printable

/-- bytewise `<` on keys (Go string comparison; keys are ASCII) -/
def keyLt : Key → Key → Bool
  | [], [] => false
  | [], _ :: _ => true
  | _ :: _, [] => false
  | a :: as, b :: bs => if a.toNat < b.toNat then true else if b.toNat < a.toNat then false else keyLt as bs

/-- a Go `map[string]string`, kept sorted by key (canonical form of an unordered map) -/
abbrev AuthMap := List (Key × Bytes)

/-- `m[k] = v` -/
def AuthMap.set : AuthMap → Key → Bytes → AuthMap
  | [], k, v => [(k, v)]
  | (k', v') :: rest, k, v =>
    if k = k' then (k, v) :: rest
    else if keyLt k k' then (k, v) :: (k', v') :: rest
    else (k', v') :: AuthMap.set rest k v

/-- the loop `for k, v := range data { k = ToLower(k); if ValidatePair … return err; m[k] = v }`;
    `none` = a pair was invalid (status INTERNAL). -/
def addPairs (m : AuthMap) : List (Key × Bytes) → Option AuthMap
  | [] => some m
  | (k, v) :: rest =>
    let k' := lowerKey k
    if validatePair k' v then addPairs (m.set k' v) rest else none

inductive Code | ok | unavailable | unauthenticated | internal
deriving DecidableEq, Repr

/-- `getTrAuthData`: GetRequestMetadata of every connection-level credential in order, merged into
    one map. Returns who was invoked and the map or the error code. -/
def getTrAuthData (m : AuthMap) : List (Name × Cred) → List Name × Except Code AuthMap
  | [] => ([], .ok m)
  | (n, cr) :: rest =>
    match addPairs m cr.md with
    | none => ([n], .error .internal)
    | some m' =>
      let (inv, r) := getTrAuthData m' rest
      (n :: inv, r)

/-- the connected transport: `http2Client{authInfo, isSecure, perRPCCreds}` -/
structure Transport where
  authInfo : Auth
  isSecure : Bool
  perRPC : List (Name × Cred)

/-- `getCallAuthData` -/
def getCallAuthData (t : Transport) : Option Cred → List Name × Except Code AuthMap
  | none => ([], .ok [])
  | some cr =>
    if cr.require && (!t.isSecure || !checkSecurityLevel t.authInfo .privacyAndIntegrity) then
      ([], .error .unauthenticated)
    else match addPairs [] cr.md with
      | none => ([.c], .error .internal)
      | some m => ([.c], .ok m)

inductive DialErr | nosec | both | nobundletc | missing
deriving DecidableEq, Repr

def Via.hasTC : Via → Bool | .opt | .both => true | _ => false
def Via.hasBundle : Via → Bool | .bundle | .both | .bundleNoTC => true | _ => false
def Via.bundleHasTC : Via → Bool | .bundleNoTC => false | _ => true

/-- `(*ClientConn).validateTransportCredentials`; only `dopts.copts.PerRPCCredentials` (the
    WithPerRPCCredentials options) are inspected, not the bundle's. -/
def validateTransportCredentials (c : Config) : Option DialErr :=
  if !c.via.hasTC && !c.via.hasBundle then some .nosec
  else if c.via.hasTC && c.via.hasBundle then some .both
  else if c.via.hasBundle && !c.via.bundleHasTC then some .nobundletc
  else if c.tkind.protoInsecure && c.dial.any (·.require) then some .missing
  else none

def nameDial (i : Nat) : List Cred → List (Name × Cred)
  | [] => []
  | c :: rest => (.d i, c) :: nameDial (i + 1) rest

/-- `perRPCCreds := opts.PerRPCCredentials; if bundle.PerRPCCredentials() != nil { append }` -/
def connCreds (c : Config) : List (Name × Cred) :=
  nameDial 0 c.dial ++
    (if c.via.hasBundle then match c.bundle with | some b => [(.b, b)] | none => [] else [])

inductive ConnErr | handshake | insecureCreds
deriving DecidableEq, Repr

/-- the handshake-time condition of `NewHTTP2Client` for one credential -/
def handshakeRejects (ai : Auth) (cd : Cred) : Bool :=
  cd.require && match ai.common? with
    | some l => l ≠ .invalid && l.num < Level.privacyAndIntegrity.num
    | none => false

/-- `NewHTTP2Client` as far as credentials are concerned (transport creds are non-nil here:
    guaranteed by validateTransportCredentials, hence `isSecure = true`). -/
def newHTTP2Client (c : Config) : Except ConnErr Transport :=
  match c.tkind.handshake with
  | none => .error .handshake
  | some ai =>
    if (connCreds c).any (fun nc => handshakeRejects ai nc.2) then .error .insecureCreds
    else .ok { authInfo := ai, isSecure := true, perRPC := connCreds c }

inductive Outcome
  | dialErr (e : DialErr)                       -- grpc.NewClient fails
  | connErr (e : ConnErr)                       -- no transport: the RPC fails UNAVAILABLE
  | rpcErr (code : Code) (inv : List Name)      -- createHeaderFields fails: no header is written
  | sent (tr call : AuthMap) (inv : List Name)  -- the credential header fields written (tr, then call)
deriving DecidableEq, Repr

/-- one unary RPC on a fresh channel -/
def rpc (c : Config) : Outcome :=
  match validateTransportCredentials c with
  | some e => .dialErr e
  | none =>
    match newHTTP2Client c with
    | .error e => .connErr e
    | .ok t =>
      match getTrAuthData [] t.perRPC with
      | (inv1, .error code) => .rpcErr code inv1
      | (inv1, .ok tr) =>
        match getCallAuthData t c.call with
        | (inv2, .error code) => .rpcErr code (inv1 ++ inv2)
        | (inv2, .ok call) => .sent tr call (inv1 ++ inv2)

/-! ### what the server sees: header fields grouped by key (`metadata.MD`), sorted by key -/

abbrev Seen := List (Key × List Bytes)

def Seen.add : Seen → Key → Bytes → Seen
  | [], k, v => [(k, [v])]
  | (k', vs) :: rest, k, v =>
    if k = k' then (k', vs ++ [v]) :: rest
    else if keyLt k k' then (k, [v]) :: (k', vs) :: rest
    else (k', vs) :: Seen.add rest k v

def seenOf (tr call : AuthMap) : Seen :=
  (tr ++ call).foldl (fun s kv => s.add kv.1 kv.2) []

/-! ### the property's vocabulary -/

/-- some configured credential demands transport security -/
def Config.anyRequire (c : Config) : Bool :=
  c.dial.any (·.require)
  || (c.via.hasBundle && match c.bundle with | some b => b.require | none => false)
  || (match c.call with | some cr => cr.require | none => false)

/-- the negotiated level is KNOWN and below PrivacyAndIntegrity (NoSecurity or IntegrityOnly).
    InvalidSecurityLevel / no CommonAuthInfo / nil AuthInfo are "unknown", not "below". -/
def Auth.weak : Auth → Bool
  | .common .none | .common .integrityOnly => true
  | _ => false

def Config.weak (c : Config) : Bool :=
  match c.tkind.handshake with
  | some a => a.weak
  | none => false

/-- the connection is known to satisfy the requirement -/
def Config.strong (c : Config) : Bool :=
  c.tkind.handshake = some (.common .privacyAndIntegrity)

def Cred.valid (cr : Cred) : Bool := cr.md.all fun kv => validatePair (lowerKey kv.1) kv.2

def Config.allCreds (c : Config) : List Cred :=
  c.dial ++ (match c.bundle with | some b => if c.via.hasBundle then [b] else [] | none => [])
    ++ (match c.call with | some cr => [cr] | none => [])

/-- every credential returns well-formed metadata -/
def Config.validMD (c : Config) : Bool := c.allCreds.all Cred.valid

/-- the outcome carries credential metadata onto the wire -/
def Outcome.isSent : Outcome → Bool
  | .sent .. => true
  | _ => false

/-- whose GetRequestMetadata ran -/
def Outcome.inv : Outcome → List Name
  | .rpcErr _ inv => inv
  | .sent _ _ inv => inv
  | _ => []

end GrpcModel.CredsPolicy
