/-
Model of picker_wrapper.go (`pickerWrapper`: `pick`, `updatePicker`, `reset`, `close`) together
with clientconn.go `addrConn.getReadyTransport`, at the grain of the shared accesses of the pick
loop.  Any number of concurrent picks (threads are indexed by a natural number), any
interleaving of their steps with picker updates, idle resets, close, sub-channel state changes,
context expiry and the (scripted) results of the LB policy's `Picker.Pick`.

Generations.  `pickerWrapper.pickerGen` is an `atomic.Pointer[pickerGeneration]`; every
`updatePicker`/`reset` swaps in a fresh `pickerGeneration{picker, blockingCh}` and closes the
*old* generation's `blockingCh`; `close` swaps in nil and closes the old channel.  The model
numbers the generations 0,1,2,…: `pickers[g]` is generation g's picker (`none` = nil picker),
the current generation is `cur = pickers.length - 1`, and generation g's channel is closed iff
`g < cur ∨ closed` (`chClosed`).  A local variable `ch chan struct{}` of `pick` is modelled by the
number of the generation whose channel it holds (`none` = nil).

Program points of one `pick` call (`Pc`):

  load        top of the `for`: the next action is `pg := pw.pickerGen.Load()`
  block g     inside `select { case <-ctx.Done(): … case <-ch: }` with ch = generation g's channel
  inPick g    `pg` (generation g) has been loaded, `ch = pg.blockingCh` assigned, and `p.Pick(info)`
              is being called / has not returned yet.  (Load and call are one step: nothing shared
              is touched in between, so any event between them can be moved before the load's
              successor without changing what any goroutine observes.)
  check sc    Pick returned SubConn sc; the next action is `acbw.ac.getReadyTransport()`
  done o      `pick` has returned with outcome o

`pick` is ported statement by statement in `tstep` (the thread's own steps) and `pickReturn`
(what the loop does with the value returned by `p.Pick`).  `getReadyTransport` reads
`ac.state`/`ac.transport` under `ac.mu` (one atomic step) and `pick` returns right after it
without touching shared state, so "ready check + return" is one step: "READY when the pick
returned" is stated at that linearisation point.

Not modelled: a `context.Context` whose `Err()` is neither Canceled nor DeadlineExceeded (pick would
spin), channelz accounting (`doneChannelzWrapper`), the log lines.
-/
import GrpcModel.Generated.PickerWrapper
namespace GrpcModel.PickerWrapper
open GrpcModel.Generated

/-- connectivity.State -/
inductive ConnState | idle | connecting | ready | transientFailure | shutdown
deriving DecidableEq, Repr, Inhabited

/-- The two fields of `addrConn` read by `getReadyTransport` (both guarded by `ac.mu`). -/
structure SubConnSt where
  state : ConnState
  transport : Option Nat     -- `ac.transport`; `none` = nil
deriving DecidableEq, Repr, Inhabited

/-- clientconn.go `addrConn.getReadyTransport`: `if ac.state == connectivity.Ready { return ac.transport }; return nil` -/
def getReadyTransport (sc : SubConnSt) : Option Nat :=
  if sc.state = .ready then sc.transport else none

/-- internal/status `IsRestrictedControlPlaneCode` (gRFC A54); the numeric values are regenerated
    from codes/codes.go (T4). -/
def restrictedCodes : List Nat :=
  [pwCodeInvalidArgument, pwCodeNotFound, pwCodeAlreadyExists, pwCodeFailedPrecondition,
   pwCodeAborted, pwCodeOutOfRange, pwCodeDataLoss]

def isRestricted (code : Nat) : Bool := restrictedCodes.contains code

/-- What `p.Pick(info)` returned. -/
inductive PickResult where
  | noSubConn                  -- err == balancer.ErrNoSubConnAvailable
  | statusErr (code : Nat)     -- status.FromError(err) ok (a status error or an error wrapping one)
  | otherErr (e : Nat)         -- any other error (incl. GRPCStatus() == nil); e identifies its text
  | subConn (sc : Nat) (hasDone : Bool)  -- nil error, SubConn is this channel's *acBalancerWrapper number sc
  | foreignSubConn             -- nil error, SubConn of another type
deriving DecidableEq, Repr, Inhabited

inductive CtxState | live | canceled | deadlineExceeded
deriving DecidableEq, Repr, Inhabited

/-- How `pick` returned. -/
inductive Outcome where
  | transport (sc tr : Nat) (blocked : Bool)   -- pick{transport: t, result, blocked}, nil
  | closing                                    -- ErrClientConnClosing
  | drop (code : Nat) (rewritten : Bool)       -- dropError{status error}; rewritten = A54 → INTERNAL
  | unavailable (e : Nat)                      -- status.Error(codes.Unavailable, err.Error())
  | ctxErr (code : Nat) (lastPickErr : Option Nat)  -- status.Error(DeadlineExceeded|Canceled, …)
deriving DecidableEq, Repr, Inhabited

inductive Pc where
  | load
  | block (g : Nat)
  | inPick (g : Nat)
  | check (sc : Nat) (hasDone : Bool)
  | done (o : Outcome)
deriving DecidableEq, Repr, Inhabited

/-- Locals of one `pick` call. -/
structure Thread where
  pc : Pc
  failfast : Bool
  ctx : CtxState
  ch : Option Nat            -- `ch`
  pickBlocked : Bool         -- `pickBlocked`
  lastPickErr : Option Nat   -- `lastPickErr`
  calls : Nat                -- ghost: number of `p.Pick` calls made
  dones : Nat                -- ghost: number of `pickResult.Done(balancer.DoneInfo{})` calls made by pick
deriving DecidableEq, Repr, Inhabited

/-- Shared state. -/
structure Shared where
  pickers : List (Option Nat)  -- generation ↦ picker (none = nil picker); never empty
  closed : Bool                -- pickerGen holds nil
  sc : Nat → SubConnSt

def Shared.cur (s : Shared) : Nat := s.pickers.length - 1

/-- picker of generation g (`none` also for a generation that does not exist). -/
def Shared.pickerAt (s : Shared) (g : Nat) : Option Nat := (s.pickers.getD g none)

/-- generation g's `blockingCh` is closed -/
def Shared.chClosed (s : Shared) (g : Nat) : Bool := decide (g < s.cur) || s.closed

/-- Observable events (the trace the theorems talk about). -/
inductive Obs where
  | started (tid : Nat) (cur : Nat)            -- pick called while generation `cur` was current
  | blocked (tid : Nat) (g : Nat)              -- pick entered the select on generation g (= current at that moment)
  | pickCalled (tid : Nat) (g : Nat) (picker : Nat)  -- p.Pick called on generation g's picker
  | doneCalled (tid : Nat) (sc : Nat)          -- pickResult.Done(DoneInfo{}) on a non-ready SubConn
  | returned (tid : Nat) (o : Outcome)
  | published (g : Nat) (picker : Option Nat)  -- updatePicker / reset made generation g current
  | closedPw
deriving DecidableEq, Repr, Inhabited

/-- One step of the pick goroutine itself. `preferCtx` resolves Go's `select` when both the
    context is done and the channel is closed (Go chooses pseudo-randomly). Returns `none` when
    the thread cannot move (parked in the select, inside Pick, or finished). -/
def tstep (s : Shared) (tid : Nat) (t : Thread) (preferCtx : Bool) : Option (Thread × Option Obs) :=
  match t.pc with
  | .load =>
    -- pg := pw.pickerGen.Load(); if pg == nil { return pick{}, ErrClientConnClosing }
    if s.closed then some ({ t with pc := .done .closing }, some (.returned tid .closing)) else
    let g := s.cur
    -- if pg.picker == nil { ch = pg.blockingCh }
    let ch := if s.pickerAt g = none then some g else t.ch
    -- if ch == pg.blockingCh { select … ; continue }
    if ch = some g then some ({ t with pc := .block g, ch := ch }, some (.blocked tid g)) else
    -- if ch != nil { pickBlocked = true }; ch = pg.blockingCh; p := pg.picker; p.Pick(info)
    some ({ t with pc := .inPick g, pickBlocked := t.pickBlocked || ch.isSome, ch := some g, calls := t.calls + 1 },
          some (.pickCalled tid g ((s.pickerAt g).getD 0)))
  | .block g =>
    let ctxDone := t.ctx ≠ .live
    let chDone := s.chClosed g
    if ctxDone ∧ (preferCtx ∨ ¬ chDone) then
      -- case <-ctx.Done(): status.Error(codes.DeadlineExceeded | codes.Canceled, errStr)
      let code := if t.ctx = .deadlineExceeded then pwCodeDeadlineExceeded else pwCodeCanceled
      let o := Outcome.ctxErr code t.lastPickErr
      some ({ t with pc := .done o }, some (.returned tid o))
    else if chDone then
      -- case <-ch: ; continue
      some ({ t with pc := .load }, none)
    else none
  | .inPick _ => none
  | .check sc hasDone =>
    -- if t := acbw.ac.getReadyTransport(); t != nil { return pick{transport: t, result, blocked: pickBlocked}, nil }
    match getReadyTransport (s.sc sc) with
    | some tr =>
      let o := Outcome.transport sc tr t.pickBlocked
      some ({ t with pc := .done o }, some (.returned tid o))
    | none =>
      -- if pickResult.Done != nil { pickResult.Done(balancer.DoneInfo{}) }; loop
      if hasDone then some ({ t with pc := .load, dones := t.dones + 1 }, some (.doneCalled tid sc))
      else some ({ t with pc := .load }, none)
  | .done _ => none

/-- What the loop does with the value returned by `p.Pick(info)` (thread at `inPick`). -/
def pickReturn (tid : Nat) (t : Thread) (r : PickResult) : Thread × Option Obs :=
  match r with
  | .noSubConn => ({ t with pc := .load }, none)                         -- continue
  | .statusErr code =>
    -- if istatus.IsRestrictedControlPlaneCode(st) { err = status.Errorf(codes.Internal, …) }; return pick{}, dropError{error: err}
    let o := if isRestricted code then Outcome.drop pwCodeInternal true else Outcome.drop code false
    ({ t with pc := .done o }, some (.returned tid o))
  | .otherErr e =>
    -- if !failfast { lastPickErr = err; continue }; return pick{}, status.Error(codes.Unavailable, err.Error())
    if !t.failfast then ({ t with pc := .load, lastPickErr := some e }, none)
    else ({ t with pc := .done (.unavailable e) }, some (.returned tid (.unavailable e)))
  | .subConn sc hasDone => ({ t with pc := .check sc hasDone }, none)
  | .foreignSubConn => ({ t with pc := .load }, none)                    -- logger.Errorf; continue

/-- Everything that can happen. -/
inductive Act where
  | update (picker : Option Nat)   -- pw.updatePicker(p)   (p may be nil)
  | idle                           -- pw.reset()
  | close                          -- pw.close()
  | setSc (sc : Nat) (st : SubConnSt)   -- addrConn state/transport change under ac.mu
  | start (tid : Nat) (failfast : Bool) -- a new pick call
  | ctxExpire (tid : Nat) (deadline : Bool)
  | step (tid : Nat) (preferCtx : Bool) -- the pick goroutine moves
  | pickRet (tid : Nat) (r : PickResult) -- the LB policy's Pick returns
deriving Repr, Inhabited

structure Sys where
  sh : Shared
  thr : Nat → Option Thread

def Sys.setThr (s : Sys) (tid : Nat) (t : Thread) : Sys :=
  { s with thr := fun i => if i = tid then some t else s.thr i }

def newThread (failfast : Bool) : Thread :=
  { pc := .load, failfast := failfast, ctx := .live, ch := none, pickBlocked := false,
    lastPickErr := none, calls := 0, dones := 0 }

def init : Sys :=
  { sh := { pickers := [none], closed := false, sc := fun _ => { state := .idle, transport := none } },
    thr := fun _ => none }

/-- The callers' contract (clientconn.go / balancer_wrapper.go): `updatePicker`/`reset` are not
    called after `close` (ccBalancerWrapper.UpdateState returns early once cc.conns == nil;
    the real code would dereference nil). Disabled actions leave the state unchanged. -/
def step (s : Sys) : Act → Sys × Option Obs
  | .update p =>
    if s.sh.closed then (s, none) else
    ({ s with sh := { s.sh with pickers := s.sh.pickers ++ [p] } }, some (.published (s.sh.cur + 1) p))
  | .idle =>
    if s.sh.closed then (s, none) else
    ({ s with sh := { s.sh with pickers := s.sh.pickers ++ [none] } }, some (.published (s.sh.cur + 1) none))
  | .close =>
    if s.sh.closed then (s, none) else ({ s with sh := { s.sh with closed := true } }, some .closedPw)
  | .setSc k st => ({ s with sh := { s.sh with sc := fun i => if i = k then st else s.sh.sc i } }, none)
  | .start tid ff =>
    match s.thr tid with
    | some _ => (s, none)
    | none => (s.setThr tid (newThread ff), some (.started tid s.sh.cur))
  | .ctxExpire tid dl =>
    match s.thr tid with
    | some t => if t.ctx = .live then (s.setThr tid { t with ctx := if dl then .deadlineExceeded else .canceled }, none) else (s, none)
    | none => (s, none)
  | .step tid pc =>
    match s.thr tid with
    | some t => match tstep s.sh tid t pc with
      | some (t', o) => (s.setThr tid t', o)
      | none => (s, none)
    | none => (s, none)
  | .pickRet tid r =>
    match s.thr tid with
    | some t => match t.pc with
      | .inPick _ => let (t', o) := pickReturn tid t r; (s.setThr tid t', o)
      | _ => (s, none)
    | none => (s, none)

/-! ### the call site: stream.go `csAttempt.getTransport`

Every attempt of an RPC — the first one, a transparent retry, a retry under the retry policy —
picks through `getTransport`, which passes `cs.callInfo.failFast` (false = the RPC is
wait-for-ready) to `pick`, whatever the attempt number. `CallState` holds the clientStream fields
that are in scope there. -/

structure CallState where
  failFast : Bool       -- cs.callInfo.failFast (FailFast / WaitForReady call option, service config)
  numRetries : Nat      -- cs.numRetries: completed non-transparent retry attempts
  firstAttempt : Bool   -- cs.firstAttempt
deriving DecidableEq, Repr, Inhabited

/-- `pick, err := cs.cc.pickerWrapper.pick(a.ctx, cs.callInfo.failFast, pickInfo)` -/
def attemptFailfast (cs : CallState) : Bool := cs.failFast

/-- an attempt of an RPC in call state `cs` starts its pick -/
def attemptStart (tid : Nat) (cs : CallState) : Act := .start tid (attemptFailfast cs)

/-- Run a sequence of actions from (s, log); the trace is in chronological order. -/
def runFrom (s : Sys) (log : List Obs) : List Act → Sys × List Obs
  | [] => (s, log)
  | a :: as => runFrom (step s a).1 (log ++ (step s a).2.toList) as

/-- State and trace after a sequence of actions from the initial state. -/
def run (acts : List Act) : Sys × List Obs := runFrom init [] acts

end GrpcModel.PickerWrapper
