/-
Model of balancer/pickfirst/pickfirst.go — a full port of the mutex-protected state machine:
  deDupAddresses, interleaveAddresses (addressFamily is a field of the model's address),
  addressList {isValid,size,increment,currentAddress,reset,updateAddrs,seekTo,hasNext},
  UpdateClientConnState, ResolverError/resolverErrorLocked, Close, ExitIdle, startFirstPassLocked,
  closeSubConnsLocked, reconcileSubConnsLocked, shutdownRemainingLocked, requestConnectionLocked,
  scheduleNextConnectionLocked (+ the timer callback), updateSubConnState, endFirstPassIfPossibleLocked,
  isActiveSCData, updateSubConnHealthState, updateBalancerState, forceUpdateConcludedStateLocked,
  picker.Pick / idlePicker.Pick.
All entry points run under b.mu, so a history is a sequence of ops.  The channel side (ClientConn,
SubConns) is the recording fake of the harness.  Random shuffling is pinned (harness and model) to
list reversal; the weighted variant (A113, float keys) is not modelled.
-/
import GrpcModel.Model.LbConnState
namespace GrpcModel.PickFirst
open GrpcModel.LbConnState (ConnState)

/-- `ipAddrFamily` -/
inductive Fam | unknown | v4 | v6
deriving DecidableEq, Repr

/-- a `resolver.Address` (only `Addr` is set by the harness): family + a number making it unique -/
structure Addr where
  fam : Fam
  n : Nat
deriving DecidableEq, Repr

/-! ### address pre-processing -/

/-- `deDupAddresses` (`seen` = keys of `seenAddrs`) -/
def deDupAux (seen : List Addr) : List Addr → List Addr
  | [] => []
  | a :: t => if a ∈ seen then deDupAux seen t else a :: deDupAux (a :: seen) t

def deDup (l : List Addr) : List Addr := deDupAux [] l

/-- `interleavingOrder`: families in order of first appearance -/
def famOrder : List Addr → List Fam
  | [] => []
  | a :: t => a.fam :: (famOrder t).filter (· ≠ a.fam)

/-- remove the first address of family `f` -/
def takeFam (f : Fam) : List Addr → Option (Addr × List Addr)
  | [] => none
  | a :: t => if a.fam = f then some (a, t) else
      match takeFam f t with
      | some (x, r) => some (x, a :: r)
      | none => none

/-- one full cycle of the `for curFamilyIdx := 0; len(interleaved) < len(addrs); curFamilyIdx = (curFamilyIdx+1) % n`
    loop: every family of `interleavingOrder`, in order, gives its first remaining member (families
    that ran out are skipped). Returns what was appended and what remains in `familyAddrsMap`. -/
def round : List Fam → List Addr → List Addr × List Addr
  | [], rest => ([], rest)
  | f :: fs, rest =>
    match takeFam f rest with
    | some (a, rest') => let (t, r) := round fs rest'; (a :: t, r)
    | none => round fs rest

/-- cycles until everything is placed (`fuel` = number of addresses: every cycle places at least one) -/
def interleaveLoop (order : List Fam) : Nat → List Addr → List Addr
  | 0, _ => []
  | fuel + 1, rest =>
    if rest.isEmpty then [] else
    let (t, r) := round order rest
    t ++ interleaveLoop order fuel r

/-- `interleaveAddresses` -/
def interleave (l : List Addr) : List Addr := interleaveLoop (famOrder l) l.length l

/-- what UpdateClientConnState does to the resolver's list -/
def preprocess (l : List Addr) : List Addr := interleave (deDup l)

/-- C34, pre-processing clause (monitor + theorem): `out` is a permutation of the de-duplicated input
    that keeps the relative order inside each address family. -/
def prepOk (inp out : List Addr) : Bool :=
  out.isPerm (deDup inp) &&
  [Fam.unknown, Fam.v4, Fam.v6].all fun f => out.filter (·.fam = f) = (deDup inp).filter (·.fam = f)

/-! ### balancer state -/

/-- `scData` (+ `id`: which SubConn of the fake channel it wraps; `healthReg`: a health listener is
    registered on that SubConn) -/
structure SC where
  id : Nat
  addr : Addr
  raw : ConnState := .idle
  eff : ConnState := .idle
  lastErr : Nat := 0              -- 0 = nil
  failed : Bool := false          -- connectionFailedInFirstPass
  healthReg : Bool := false
deriving DecidableEq, Repr

/-- the pickers pick_first hands out -/
inductive Picker
  | none                      -- nothing pushed yet
  | queue                     -- picker{err: ErrNoSubConnAvailable}
  | ready (sc : Nat)          -- picker{result: SubConn}
  | connErr (e : Nat)         -- picker{err: lastErr / ConnectionError}
  | idle (used : Bool)        -- idlePicker{exitIdle: sync.OnceFunc(b.ExitIdle)}
  | resErr                    -- picker{err: "name resolver error: …"}
  | healthErr (e : Nat)       -- picker{err: "pickfirst: health check failure: …"}
deriving DecidableEq, Repr

inductive Ev
  | newSc (id : Nat) (a : Addr)     -- cc.NewSubConn
  | connect (id : Nat)              -- sc.Connect()
  | sd (id : Nat)                   -- sc.Shutdown()
  | hl (id : Nat)                   -- sc.RegisterHealthListener
  | push (s : ConnState) (p : Picker)   -- cc.UpdateState
deriving DecidableEq, Repr

structure St where
  state : ConnState := .connecting
  subConns : List SC := []        -- b.subConns (insertion order; the real map has none)
  addrs : List Addr := []         -- addressList.addresses
  idx : Nat := 0                  -- addressList.idx
  firstPass : Bool := false
  numTF : Nat := 0
  timer : Bool := false           -- a happy-eyeballs timer is armed and not cancelled
  health : Bool := false          -- healthCheckingEnabled
  scSerial : Nat := 0
  picker : Picker := .none        -- the picker the channel has
  /-- ghost: address-list indices on which Connect was requested in the running first pass -/
  passLog : List Nat := []
  /-- ghost: number of times the address-list index was reset (a new pass / re-seek) -/
  passSerial : Nat := 0
  /-- ghost: TRANSIENT_FAILURE was reported because connections failed and no SubConn became READY
      (nor was the address list emptied) since -/
  sticky : Bool := false
deriving Repr

abbrev M := St → St × List Ev

/-! addressList -/
def isValid (s : St) : Bool := s.idx < s.addrs.length
def increment (s : St) : St × Bool :=
  if !isValid s then (s, false) else ({ s with idx := s.idx + 1 }, decide (s.idx + 1 < s.addrs.length))
def currentAddress (s : St) : Option Addr := if isValid s then s.addrs[s.idx]? else none
def hasNext (s : St) : Bool := isValid s && decide (s.idx + 1 < s.addrs.length)
/-- `seekTo`: index of the first equal address -/
def seekTo (s : St) (a : Addr) : St × Bool :=
  match s.addrs.findIdx? (· = a) with
  | some i => ({ s with idx := i, passLog := [], passSerial := s.passSerial + 1 }, true)
  | none => (s, false)

def getSC (s : St) (a : Addr) : Option SC := s.subConns.find? (·.addr = a)
def setSC (s : St) (sc : SC) : St :=
  { s with subConns := if s.subConns.any (·.addr = sc.addr)
      then s.subConns.map fun x => if x.addr = sc.addr then sc else x
      else s.subConns ++ [sc] }
/-- `isActiveSCData`: the scData wrapping SubConn `id` is the one in the map -/
def activeSC (s : St) (id : Nat) : Option SC := s.subConns.find? (·.id = id)

/-- `forceUpdateConcludedStateLocked` (+ the ghost `sticky`) -/
def forcePush (s : St) (st : ConnState) (p : Picker) : St × List Ev :=
  let sticky := match p with
    | .connErr _ => true
    | _ => s.sticky
  ({ s with state := st, picker := p, sticky := sticky }, [.push st p])

/-- `updateBalancerState` -/
def pushState (s : St) (st : ConnState) (p : Picker) : St × List Ev :=
  if st = s.state ∧ s.state ≠ .tf then (s, []) else forcePush s st p

def cancelTimer (s : St) : St := { s with timer := false }

/-- `scheduleNextConnectionLocked` -/
def schedule (s : St) : St :=
  let s := cancelTimer s
  if !hasNext s then s else { s with timer := true }

/-- `endFirstPassIfPossibleLocked` -/
def endFirstPass (s : St) (lastErr : Nat) : St × List Ev :=
  if isValid s then (s, [])
  else if s.subConns.any (!·.failed) then (s, [])
  else
    let (s, ev) := pushState { s with firstPass := false } .tf (.connErr lastErr)
    (s, ev ++ (s.subConns.filter (·.raw = .idle)).map (Ev.connect ·.id))

/-- `requestConnectionLocked`; `fuel` bounds the `for valid := true; valid; valid = increment()` loop -/
def requestLoop : Nat → St → List Ev → St × List Ev
  | 0, s, ev => (s, ev)
  | fuel + 1, s, ev =>
    match currentAddress s with
    | none => (s, ev)        -- not reachable inside the loop
    | some cur =>
      -- `sd, ok := b.subConns.Get(curAddr); if !ok { sd = b.newSCData(curAddr); b.subConns.Set(curAddr, sd) }`
      let found : Option SC := getSC s cur
      let sd : SC := match found with
        | some sd => sd
        | none => { id := s.scSerial + 1, addr := cur }
      let s : St := match found with
        | some _ => s
        | none => setSC { s with scSerial := s.scSerial + 1 } sd
      let ev : List Ev := match found with
        | some _ => ev
        | none => ev ++ [Ev.newSc sd.id cur]
      match sd.raw with
      | .idle => (schedule { s with passLog := s.passLog ++ [s.idx] }, ev ++ [Ev.connect sd.id])
      | .tf =>
        let s := setSC s { sd with failed := true }
        let (s, valid) := increment s
        if valid then requestLoop fuel s ev
        else
          let (s, ev2) := endFirstPass s sd.lastErr
          (s, ev ++ ev2)
      | .connecting => (schedule s, ev)
      | _ => (s, ev)         -- "SubConn with unexpected state … present in SubConns map."

def requestConnection (s : St) : St × List Ev :=
  if !isValid s then (s, []) else requestLoop (s.addrs.length + 1) s []

/-- `startFirstPassLocked` -/
def startFirstPass (s : St) : St × List Ev :=
  requestConnection { s with firstPass := true, numTF := 0, passLog := [], passSerial := s.passSerial + 1,
                             subConns := s.subConns.map ({ · with failed := false }) }

/-- `closeSubConnsLocked` -/
def closeSubConns (s : St) : St × List Ev :=
  ({ s with subConns := [] }, s.subConns.map (Ev.sd ·.id))

/-- `shutdownRemainingLocked` -/
def shutdownRemaining (s : St) (sel : SC) : St × List Ev :=
  ({ cancelTimer s with subConns := [sel] }, (s.subConns.filter (·.id ≠ sel.id)).map (Ev.sd ·.id))

/-- `resolverErrorLocked` -/
def resolverError (s : St) : St × List Ev :=
  if s.state ≠ .tf ∧ s.addrs.length > 0 then (s, []) else pushState s .tf .resErr

/-- `UpdateClientConnState`; `newAddrs` = the flattened (and shuffled) list before de-dup/interleave.
    Returns also whether ErrBadResolverState is returned. -/
def updateCCS (s : St) (health : Bool) (raw : List Addr) : St × List Ev × Bool :=
  let s := cancelTimer s
  if raw.isEmpty then
    let (s, ev1) := closeSubConns s
    let s := { s with addrs := [], idx := 0, sticky := false, passLog := [], passSerial := s.passSerial + 1 }
    let (s, ev2) := resolverError s
    (s, ev1 ++ ev2, true)
  else
    let s := { s with health := health }
    let newAddrs := preprocess raw
    let prevAddr := currentAddress s
    let prevCount := s.addrs.length
    let isPrevReady : Bool := match prevAddr with
      | some a => (getSC s a).any (·.raw = .ready)
      | none => false
    let s := { s with addrs := newAddrs, idx := 0, passLog := [], passSerial := s.passSerial + 1 }
    let kept := match prevAddr with
      | some a => if isPrevReady then (seekTo s a) else (s, false)
      | none => (s, false)
    if kept.2 then (kept.1, [], false) else
    -- reconcileSubConnsLocked
    let gone := s.subConns.filter fun sc => !(newAddrs.contains sc.addr)
    let s := { s with subConns := s.subConns.filter fun sc => newAddrs.contains sc.addr }
    let ev1 := gone.map (Ev.sd ·.id)
    if isPrevReady = true ∨ s.state = .connecting ∨ prevCount = 0 then
      let (s, ev2) := forcePush s .connecting .queue
      let (s, ev3) := startFirstPass s
      (s, ev1 ++ ev2 ++ ev3, false)
    else if s.state = .tf then
      let (s, ev3) := startFirstPass s
      (s, ev1 ++ ev3, false)
    else (s, ev1, false)

/-- `ExitIdle` -/
def exitIdle (s : St) : St × List Ev :=
  if s.state = .idle then
    let (s, ev1) := pushState s .connecting .queue
    let (s, ev2) := startFirstPass s
    (s, ev1 ++ ev2)
  else (s, [])

/-- `Close` -/
def close (s : St) : St × List Ev :=
  let (s, ev) := closeSubConns s
  ({ cancelTimer s with state := .shutdown }, ev)

/-- the happy-eyeballs timer callback -/
def timerFire (s : St) : St × List Ev :=
  if !s.timer then (s, []) else
  let s := { s with timer := false }
  let (s, ok) := increment s
  if ok then requestConnection s else (s, [])

/-- `updateSubConnState(sd, {new, err})` for the SubConn `id` of the fake channel -/
def scState (s : St) (id : Nat) (new : ConnState) (err : Nat) : St × List Ev :=
  match activeSC s id with
  | none => (s, [])                       -- obsolete SubConn
  | some sd0 =>
    let old := sd0.raw
    -- (the fake channel drops a health listener when the SubConn leaves READY)
    let sd := { sd0 with raw := new, healthReg := sd0.healthReg && new = .ready }
    let s := setSC s sd
    if new = .shutdown then (setSC s { sd with eff := .shutdown }, [])
    else
    let sd := if new = .tf then { sd with failed := true } else sd
    let s := setSC s sd
    if new = .ready then
      let (s, ev1) := shutdownRemaining s sd
      let s := { s with sticky := false }
      let (s, found) := seekTo s sd.addr
      if !found then (s, ev1)
      else if !s.health then
        let sd := { sd with eff := .ready }
        let (s, ev2) := pushState (setSC s sd) .ready (.ready sd.id)
        (s, ev1 ++ ev2)
      else
        let sd := { sd with eff := .connecting, healthReg := true }
        let (s, ev2) := pushState (setSC s sd) .connecting .queue
        (s, ev1 ++ ev2 ++ [.hl sd.id])
    else if old = .ready ∨ (old = .connecting ∧ new = .idle) then
      let (s, ev1) := shutdownRemaining s sd
      let sd := { sd with eff := new }
      -- (ghost) a CONNECTING→IDLE SubConn is "a successful connection" for the code (issue 7862)
      let s := { setSC s sd with idx := 0, passLog := [], passSerial := s.passSerial + 1, sticky := false }
      let (s, ev2) := pushState s .idle (.idle false)
      (s, ev1 ++ ev2)
    else if s.firstPass then
      match new with
      | .connecting =>
        if sd.eff ≠ .tf then pushState (setSC s { sd with eff := .connecting }) .connecting .queue
        else (s, [])
      | .tf =>
        let sd := { sd with lastErr := err, eff := .tf }
        let s := setSC s sd
        if currentAddress s = some sd.addr then
          let s := cancelTimer s
          let (s, ok) := increment s
          if ok then requestConnection s else endFirstPass s err
        else endFirstPass s err
      | _ => (s, [])
    else
      match new with
      | .tf =>
        let n := s.subConns.length
        let s := { s with numTF := (s.numTF + 1) % n }
        let s := setSC s { sd with lastErr := err }
        if s.numTF % n = 0 then pushState s .tf (.connErr err) else (s, [])
      | .idle => (s, [.connect sd.id])
      | _ => (s, [])

/-- `updateSubConnHealthState` -/
def healthState (s : St) (id : Nat) (st : ConnState) (err : Nat) : St × List Ev :=
  match activeSC s id with
  | none => (s, [])
  | some sd =>
    let s := setSC s { sd with eff := st }
    match st with
    | .ready => pushState s .ready (.ready sd.id)
    | .tf => pushState s .tf (.healthErr err)
    | .connecting => pushState s .connecting .queue
    | _ => (s, [])

inductive PickRes | sc (id : Nat) | queue | err | nopicker
deriving DecidableEq, Repr

/-- `Pick` on the channel's picker (the idle picker calls ExitIdle, once) -/
def pick (s : St) : St × List Ev × PickRes :=
  match s.picker with
  | .none => (s, [], .nopicker)
  | .queue => (s, [], .queue)
  | .ready id => (s, [], .sc id)
  | .connErr e => (s, [], if e = 0 then .sc 0 else .err)   -- picker{err: nil}: empty result, nil error
  | .resErr => (s, [], .err)
  | .healthErr _ => (s, [], .err)
  | .idle used =>
    if used then (s, [], .queue) else
    let (s, ev) := exitIdle { s with picker := .idle true }
    -- exitIdle may have replaced the picker; if not, keep the "used" mark
    (s, ev, .queue)

inductive Op
  | update (health : Bool) (raw : List Addr)
  | resErr
  | sc (id : Nat) (st : ConnState) (err : Nat)
  | health (id : Nat) (st : ConnState) (err : Nat)
  | tick
  | exitIdle
  | pick
  | close
deriving Repr

structure Out where
  evs : List Ev := []
  bad : Bool := false
  pick : Option PickRes := none
deriving Repr

def step (s : St) : Op → St × Out
  | .update h raw => let (s, ev, bad) := updateCCS s h raw; (s, { evs := ev, bad := bad })
  | .resErr => let (s, ev) := resolverError s; (s, { evs := ev })
  | .sc id st err => let (s, ev) := scState s id st err; (s, { evs := ev })
  | .health id st err => let (s, ev) := healthState s id st err; (s, { evs := ev })
  | .tick => let (s, ev) := timerFire s; (s, { evs := ev })
  | .exitIdle => let (s, ev) := exitIdle s; (s, { evs := ev })
  | .pick => let (s, ev, r) := pick s; (s, { evs := ev, pick := some r })
  | .close => let (s, ev) := close s; (s, { evs := ev })

def run (s : St) : List Op → St
  | [] => s
  | op :: t => run (step s op).1 t

end GrpcModel.PickFirst
