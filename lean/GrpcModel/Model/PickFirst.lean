/-
Model of balancer/pickfirst/pickfirst.go — a full port of the mutex-protected state machine:
  deDupAddresses, interleaveAddresses (addressFamily is a field of the model's address),
  addressList {isValid,size,increment,currentAddress,reset,updateAddrs,seekTo,hasNext},
  UpdateClientConnState, ResolverError/resolverErrorLocked, Close, ExitIdle, startFirstPassLocked,
  closeSubConnsLocked, reconcileSubConnsLocked, shutdownRemainingLocked, requestConnectionLocked,
  scheduleNextConnectionLocked (+ the timer callback), updateSubConnState, endFirstPassIfPossibleLocked,
  isActiveSCData, updateSubConnHealthState, updateBalancerState, forceUpdateConcludedStateLocked,
  picker.Pick / idlePicker.Pick.
All entry points run under b.mu, so a history is a sequence of ops.  The channel side (ClientConn,
SubConns) is the recording fake of the harness.  Random shuffling is pinned (harness and model) to
list reversal; the weighted variant (A113, float keys) is not modelled.
-/
import GrpcModel.Model.LbConnState
namespace GrpcModel.PickFirst
open GrpcModel.LbConnState (ConnState)

/-- `ipAddrFamily` -/
inductive Fam | unknown | v4 | v6
deriving DecidableEq, Repr

/-- a `resolver.Address` (only `Addr` is set by the harness): family + a number making it unique -/
structure Addr where
  fam : Fam
  n : Nat
deriving DecidableEq, Repr

/-! ### address pre-processing -/

/-- `deDupAddresses` (`seen` = keys of `seenAddrs`) -/
def deDupAux (seen : List Addr) : List Addr → List Addr
  | [] => []
  | a :: t => if a ∈ seen then deDupAux seen t else a :: deDupAux (a :: seen) t

def deDup (l : List Addr) : List Addr := deDupAux [] l

/-- `interleavingOrder`: families in order of first appearance -/
def famOrder : List Addr → List Fam
  | [] => []
  | a :: t => a.fam :: (famOrder t).filter (· ≠ a.fam)

/-- remove the first address of family `f` -/
def takeFam (f : Fam) : List Addr → Option (Addr × List Addr)
  | [] => none
  | a :: t => if a.fam = f then some (a, t) else
      match takeFam f t with
      | some (x, r) => some (x, a :: r)
      | none => none

/-- one full cycle of the `for curFamilyIdx := 0; len(interleaved) < len(addrs); curFamilyIdx = (curFamilyIdx+1) % n`
    loop: every family of `interleavingOrder`, in order, gives its first remaining member (families
    that ran out are skipped). Returns what was appended and what remains in `familyAddrsMap`. -/
def round : List Fam → List Addr → List Addr × List Addr
  | [], rest => ([], rest)
  | f :: fs, rest =>
    match takeFam f rest with
    | some (a, rest') => let (t, r) := round fs rest'; (a :: t, r)
    | none => round fs rest

/-- cycles until everything is placed (`fuel` = number of addresses: every cycle places at least one) -/
def interleaveLoop (order : List Fam) : Nat → List Addr → List Addr
  | 0, _ => []
  | fuel + 1, rest =>
    if rest.isEmpty then [] else
    let (t, r) := round order rest
    t ++ interleaveLoop order fuel r

/-- `interleaveAddresses` -/
def interleave (l : List Addr) : List Addr := interleaveLoop (famOrder l) l.length l

/-- what UpdateClientConnState does to the resolver's list -/
def preprocess (l : List Addr) : List Addr := interleave (deDup l)

/-- C34, pre-processing clause (monitor + theorem): `out` is a permutation of the de-duplicated input
    that keeps the relative order inside each address family. -/
def prepOk (inp out : List Addr) : Bool :=
  out.isPerm (deDup inp) &&
  [Fam.unknown, Fam.v4, Fam.v6].all fun f => out.filter (·.fam = f) = (deDup inp).filter (·.fam = f)

/-! ### balancer state -/

/-- `scData` (+ `id`: which SubConn of the fake channel it wraps; `healthReg`: a health listener is
    registered on that SubConn) -/
structure SC where
  id : Nat
  addr : Addr
  raw : ConnState := .idle
  eff : ConnState := .idle
  lastErr : Nat := 0              -- 0 = nil
  failed : Bool := false          -- connectionFailedInFirstPass
  healthReg : Bool := false
deriving DecidableEq, Repr

/-- the pickers pick_first hands out -/
inductive Picker
  | none                      -- nothing pushed yet
  | queue                     -- picker{err: ErrNoSubConnAvailable}
  | ready (sc : Nat)          -- picker{result: SubConn}
  | connErr (e : Nat)         -- picker{err: lastErr / ConnectionError}
  | idle (used : Bool)        -- idlePicker{exitIdle: sync.OnceFunc(b.ExitIdle)}
  | resErr                    -- picker{err: "name resolver error: …"}
  | healthErr (e : Nat)       -- picker{err: "pickfirst: health check failure: …"}
deriving DecidableEq, Repr

inductive Ev
  | newSc (id : Nat) (a : Addr)     -- cc.NewSubConn
  | connect (id : Nat)              -- sc.Connect()
  | sd (id : Nat)                   -- sc.Shutdown()
  | hl (id : Nat)                   -- sc.RegisterHealthListener
  | push (s : ConnState) (p : Picker)   -- cc.UpdateState
deriving DecidableEq, Repr

structure St where
  state : ConnState := .connecting
  subConns : List SC := []        -- b.subConns (insertion order; the real map has none)
  addrs : List Addr := []         -- addressList.addresses
  idx : Nat := 0                  -- addressList.idx
  firstPass : Bool := false
  numTF : Nat := 0
  timer : Bool := false           -- a happy-eyeballs timer is armed and not cancelled
  /-- timers that were cancelled (`cancelled = true; timer.Stop()`) before their callback ran: Stop()
      cannot stop a callback that has already been started and is waiting for b.mu, so each of them
      may still run once, later -/
  lateTimers : Nat := 0
  health : Bool := false          -- healthCheckingEnabled
  scSerial : Nat := 0
  picker : Picker := .none        -- the picker the channel has
  /-- ghost: address-list indices on which Connect was requested in the running first pass -/
  passLog : List Nat := []
  /-- ghost: number of times the address-list index was reset (a new pass / re-seek) -/
  passSerial : Nat := 0
  /-- ghost: TRANSIENT_FAILURE was reported because connections failed and no SubConn became READY
      (nor was the address list emptied) since -/
  sticky : Bool := false
deriving Repr

abbrev M := St → St × List Ev

/-! addressList -/
def isValid (s : St) : Bool := s.idx < s.addrs.length
def increment (s : St) : St × Bool :=
  if !isValid s then (s, false) else ({ s with idx := s.idx + 1 }, decide (s.idx + 1 < s.addrs.length))
def currentAddress (s : St) : Option Addr := if isValid s then s.addrs[s.idx]? else none
def hasNext (s : St) : Bool := isValid s && decide (s.idx + 1 < s.addrs.length)
/-- `seekTo`: index of the first equal address -/
def seekTo (s : St) (a : Addr) : St × Bool :=
  match s.addrs.findIdx? (· = a) with
  | some i => ({ s with idx := i, passLog := [], passSerial := s.passSerial + 1 }, true)
  | none => (s, false)

def getSC (s : St) (a : Addr) : Option SC := s.subConns.find? (·.addr = a)
def setSC (s : St) (sc : SC) : St :=
  { s with subConns := if s.subConns.any (·.addr = sc.addr)
      then s.subConns.map fun x => if x.addr = sc.addr then sc else x
      else s.subConns ++ [sc] }
/-- `isActiveSCData`: the scData wrapping SubConn `id` is the one in the map -/
def activeSC (s : St) (id : Nat) : Option SC := s.subConns.find? (·.id = id)

/-- `forceUpdateConcludedStateLocked` (+ the ghost `sticky`) -/
def forcePush (s : St) (st : ConnState) (p : Picker) : St × List Ev :=
  let sticky := match p with
    | .connErr _ => true
    | _ => s.sticky
  ({ s with state := st, picker := p, sticky := sticky }, [.push st p])

/-- `updateBalancerState` -/
def pushState (s : St) (st : ConnState) (p : Picker) : St × List Ev :=
  if st = s.state ∧ s.state ≠ .tf then (s, []) else forcePush s st p

/-- `b.cancelConnectionTimer()`: `cancelled = true; closeFn()` (a sync.OnceFunc: nothing the second time) -/
def cancelTimer (s : St) : St := { s with timer := false, lateTimers := s.lateTimers + (if s.timer then 1 else 0) }

/-- `scheduleNextConnectionLocked` -/
def schedule (s : St) : St :=
  let s := cancelTimer s
  if !hasNext s then s else { s with timer := true }

/-- `endFirstPassIfPossibleLocked` -/
def endFirstPass (s : St) (lastErr : Nat) : St × List Ev :=
  if isValid s then (s, [])
  else if s.subConns.any (!·.failed) then (s, [])
  else
    let (s, ev) := pushState { s with firstPass := false } .tf (.connErr lastErr)
    (s, ev ++ (s.subConns.filter (·.raw = .idle)).map (Ev.connect ·.id))

/-- `sd.connectionFailedInFirstPass = true` -/
def SC.markFailed (sd : SC) : SC := { sd with failed := true }

/-- `sd, ok := b.subConns.Get(curAddr); if !ok { sd = b.newSCData(curAddr); b.subConns.Set(curAddr, sd) }` -/
def ensureSC (s : St) (cur : Addr) : St × SC × List Ev :=
  match getSC s cur with
  | some sd => (s, sd, [])
  | none =>
    let sd : SC := { id := s.scSerial + 1, addr := cur }
    (setSC { s with scSerial := s.scSerial + 1 } sd, sd, [Ev.newSc sd.id cur])

/-- `requestConnectionLocked`; `fuel` bounds the `for valid := true; valid; valid = increment()` loop -/
def requestLoop : Nat → St → List Ev → St × List Ev
  | 0, s, ev => (s, ev)
  | fuel + 1, s, ev =>
    match currentAddress s with
    | none => (s, ev)        -- not reachable inside the loop
    | some cur =>
      let r := ensureSC s cur
      match r.2.1.raw with
      | .idle => (schedule { r.1 with passLog := r.1.passLog ++ [r.1.idx] }, ev ++ r.2.2 ++ [Ev.connect r.2.1.id])
      | .tf =>
        let s2 := increment (setSC r.1 r.2.1.markFailed)
        if s2.2 then requestLoop fuel s2.1 (ev ++ r.2.2)
        else ((endFirstPass s2.1 r.2.1.lastErr).1, ev ++ r.2.2 ++ (endFirstPass s2.1 r.2.1.lastErr).2)
      | .connecting => (schedule r.1, ev ++ r.2.2)
      | _ => (r.1, ev ++ r.2.2)         -- "SubConn with unexpected state … present in SubConns map."

def requestConnection (s : St) : St × List Ev :=
  if !isValid s then (s, []) else requestLoop (s.addrs.length + 1) s []

/-- `startFirstPassLocked` -/
def startFirstPass (s : St) : St × List Ev :=
  requestConnection { s with firstPass := true, numTF := 0, passLog := [], passSerial := s.passSerial + 1,
                             subConns := s.subConns.map ({ · with failed := false }) }

/-- `closeSubConnsLocked` -/
def closeSubConns (s : St) : St × List Ev :=
  ({ s with subConns := [] }, s.subConns.map (Ev.sd ·.id))

/-- `shutdownRemainingLocked` -/
def shutdownRemaining (s : St) (sel : SC) : St × List Ev :=
  ({ cancelTimer s with subConns := [sel] }, (s.subConns.filter (·.id ≠ sel.id)).map (Ev.sd ·.id))

/-- `resolverErrorLocked` -/
def resolverError (s : St) : St × List Ev :=
  if s.state ≠ .tf ∧ s.addrs.length > 0 then (s, []) else pushState s .tf .resErr

/-- `UpdateClientConnState` with no addresses: "Cleanup state pertaining to the previous resolver state.
    Treat an empty address list like an error by calling b.ResolverError." -/
def updateEmpty (s : St) : St × List Ev :=
  let r1 := closeSubConns s
  let r2 := resolverError { r1.1 with addrs := [], idx := 0, sticky := false, passLog := [], passSerial := s.passSerial + 1 }
  (r2.1, r1.2 ++ r2.2)

/-- `prevAddr` when `isPrevRawConnectivityStateReady`: the current address, if its SubConn's raw state is READY -/
def prevReadyAddr (s : St) : Option Addr :=
  match currentAddress s with
  | some a => if (getSC s a).any (·.raw = .ready) then some a else none
  | none => none

/-- `reconcileSubConnsLocked` -/
def reconcile (s : St) (newAddrs : List Addr) : St × List Ev :=
  ({ s with subConns := s.subConns.filter fun sc => newAddrs.contains sc.addr },
   (s.subConns.filter fun sc => !(newAddrs.contains sc.addr)).map (Ev.sd ·.id))

/-- the `if isPrevRawConnectivityStateReady || b.state == Connecting || prevAddrsCount == 0 {…} else if
    b.state == TransientFailure {…}` tail -/
def updateTail (s : St) (isPrevReady : Bool) (prevCount : Nat) : St × List Ev :=
  if isPrevReady = true ∨ s.state = .connecting ∨ prevCount = 0 then
    let r1 := forcePush s .connecting .queue
    let r2 := startFirstPass r1.1
    (r2.1, r1.2 ++ r2.2)
  else if s.state = .tf then startFirstPass s
  else (s, [])

/-- `UpdateClientConnState` with addresses; `raw` = the flattened (and shuffled) list -/
def updateNonEmpty (s : St) (health : Bool) (raw : List Addr) : St × List Ev :=
  let s0 : St := { s with health := health }
  let newAddrs := preprocess raw
  let prev := prevReadyAddr s0
  let prevCount := s0.addrs.length
  let s2 : St := { s0 with addrs := newAddrs, idx := 0, passLog := [], passSerial := s0.passSerial + 1 }
  let k : St × Bool := match prev with
    | some a => seekTo s2 a
    | none => (s2, false)
  -- "If the previous ready SubConn exists in new address list, keep this connection"
  if k.2 then (k.1, [])
  else
    let r1 := reconcile s2 newAddrs
    let r2 := updateTail r1.1 prev.isSome prevCount
    (r2.1, r1.2 ++ r2.2)

/-- `UpdateClientConnState`. Returns also whether ErrBadResolverState is returned. -/
def updateCCS (s : St) (health : Bool) (raw : List Addr) : St × List Ev × Bool :=
  if raw.isEmpty then ((updateEmpty (cancelTimer s)).1, (updateEmpty (cancelTimer s)).2, true)
  else ((updateNonEmpty (cancelTimer s) health raw).1, (updateNonEmpty (cancelTimer s) health raw).2, false)

/-- `ExitIdle` -/
def exitIdle (s : St) : St × List Ev :=
  if s.state = .idle then
    let (s, ev1) := pushState s .connecting .queue
    let (s, ev2) := startFirstPass s
    (s, ev1 ++ ev2)
  else (s, [])

/-- `Close` -/
def close (s : St) : St × List Ev :=
  let (s, ev) := closeSubConns s
  ({ cancelTimer s with state := .shutdown, sticky := false }, ev)

/-- the happy-eyeballs timer callback, once it holds b.mu: `if cancelled { return }; if increment() { requestConnectionLocked() }` -/
def timerCallback (s : St) (cancelled : Bool) : St × List Ev :=
  if cancelled then (s, []) else
  let (s, ok) := increment s
  if ok then requestConnection s else (s, [])

/-- the armed timer fires -/
def timerFire (s : St) : St × List Ev :=
  if !s.timer then (s, []) else timerCallback { s with timer := false } false

/-- the callback of a timer that was cancelled after it had fired gets b.mu at last -/
def lateFire (s : St) : St × List Ev :=
  if s.lateTimers = 0 then (s, []) else timerCallback { s with lateTimers := s.lateTimers - 1 } true

/-- `updateSubConnState`, the `newState == Ready` branch (`sd` is already stored with its new raw state) -/
def scReady (s : St) (sd : SC) : St × List Ev :=
  let r1 := shutdownRemaining s sd
  let r2 := seekTo { r1.1 with sticky := false } sd.addr
  if !r2.2 then (r2.1, r1.2)
  else if !r2.1.health then
    let r3 := pushState (setSC r2.1 { sd with eff := .ready }) .ready (.ready sd.id)
    (r3.1, r1.2 ++ r3.2)
  else
    let r3 := pushState (setSC r2.1 { sd with eff := .connecting, healthReg := true }) .connecting .queue
    (r3.1, r1.2 ++ r3.2 ++ [Ev.hl sd.id])

/-- … the "READY SubConn failed / connected and dropped" branch: back to IDLE -/
def scToIdle (s : St) (sd : SC) (new : ConnState) : St × List Ev :=
  let r1 := shutdownRemaining s sd
  -- (ghost) a CONNECTING→IDLE SubConn is "a successful connection" for the code (issue 7862)
  let s2 : St := { setSC r1.1 { sd with eff := new } with idx := 0, passLog := [], passSerial := r1.1.passSerial + 1, sticky := false }
  let r3 := pushState s2 .idle (.idle false)
  (r3.1, r1.2 ++ r3.2)

/-- … `if b.firstPass { switch newState … }` -/
def scFirstPass (s : St) (sd : SC) (new : ConnState) (err : Nat) : St × List Ev :=
  match new with
  | .connecting =>
    -- "If it's TRANSIENT_FAILURE, stay in TRANSIENT_FAILURE until it's READY. See A62." — of this SubConn
    -- (effectiveState) and, since 97a72f7, of the balancer (b.state): a SubConn added by a resolver update
    -- received in TRANSIENT_FAILURE must not take the channel to CONNECTING
    if sd.eff ≠ .tf ∧ s.state ≠ .tf then pushState (setSC s { sd with eff := .connecting }) .connecting .queue
    else (s, [])
  | .tf =>
    let s1 := setSC s { sd with lastErr := err, eff := .tf }
    if currentAddress s1 = some sd.addr then
      let r := increment (cancelTimer s1)
      if r.2 then requestConnection r.1 else endFirstPass r.1 err
    else endFirstPass s1 err
  | _ => (s, [])

/-- … after the first pass: "keep re-connecting failing SubConns" -/
def scLater (s : St) (sd : SC) (new : ConnState) (err : Nat) : St × List Ev :=
  match new with
  | .tf =>
    let n := s.subConns.length
    let s1 : St := setSC { s with numTF := (s.numTF + 1) % n } { sd with lastErr := err }
    if s1.numTF % n = 0 then pushState s1 .tf (.connErr err) else (s1, [])
  | .idle => (s, [Ev.connect sd.id])
  | _ => (s, [])

/-- the scData as stored right after `sd.rawConnectivityState = newState.ConnectivityState`
    (the fake channel drops a health listener when the SubConn leaves READY) -/
def SC.withRaw (sd : SC) (new : ConnState) : SC :=
  { sd with raw := new, healthReg := sd.healthReg && new = .ready, failed := sd.failed || new = .tf }

/-- `updateSubConnState(sd, {new, err})` for the SubConn `id` of the fake channel -/
def scState (s : St) (id : Nat) (new : ConnState) (err : Nat) : St × List Ev :=
  match activeSC s id with
  | none => (s, [])                       -- obsolete SubConn
  | some sd0 =>
    if new = .shutdown then (setSC s { sd0 with raw := .shutdown, eff := .shutdown, healthReg := false }, [])
    else
    let sd := sd0.withRaw new
    let s := setSC s sd
    if new = .ready then scReady s sd
    else if sd0.raw = .ready ∨ (sd0.raw = .connecting ∧ new = .idle) then scToIdle s sd new
    else if s.firstPass then scFirstPass s sd new err
    else scLater s sd new err

/-- `updateSubConnHealthState` -/
def healthState (s : St) (id : Nat) (st : ConnState) (err : Nat) : St × List Ev :=
  match activeSC s id with
  | none => (s, [])
  | some sd =>
    let s := setSC s { sd with eff := st }
    match st with
    | .ready => pushState s .ready (.ready sd.id)
    | .tf => pushState s .tf (.healthErr err)
    | .connecting => pushState s .connecting .queue
    | _ => (s, [])

inductive PickRes | sc (id : Nat) | queue | err | empty | nopicker
deriving DecidableEq, Repr

/-- `Pick` on the channel's picker (the idle picker calls ExitIdle, once) -/
def pick (s : St) : St × List Ev × PickRes :=
  match s.picker with
  | .none => (s, [], .nopicker)
  | .queue => (s, [], .queue)
  | .ready id => (s, [], .sc id)
  | .connErr e => (s, [], if e = 0 then .empty else .err)   -- picker{err: nil}: empty result, nil error
  | .resErr => (s, [], .err)
  | .healthErr _ => (s, [], .err)
  | .idle used =>
    if used then (s, [], .queue) else
    let (s, ev) := exitIdle { s with picker := .idle true }
    -- exitIdle may have replaced the picker; if not, keep the "used" mark
    (s, ev, .queue)

inductive Op
  | update (health : Bool) (raw : List Addr)
  | resErr
  | sc (id : Nat) (st : ConnState) (err : Nat)
  | health (id : Nat) (st : ConnState) (err : Nat)
  | tick
  | late          -- a cancelled timer's callback runs (it had fired before Stop())
  | exitIdle
  | pick
  | close
deriving Repr

structure Out where
  evs : List Ev := []
  bad : Bool := false
  pick : Option PickRes := none
deriving Repr

def step (s : St) : Op → St × Out
  | .update h raw => let (s, ev, bad) := updateCCS s h raw; (s, { evs := ev, bad := bad })
  | .resErr => let (s, ev) := resolverError s; (s, { evs := ev })
  | .sc id st err => let (s, ev) := scState s id st err; (s, { evs := ev })
  | .health id st err => let (s, ev) := healthState s id st err; (s, { evs := ev })
  | .tick => let (s, ev) := timerFire s; (s, { evs := ev })
  | .late => let (s, ev) := lateFire s; (s, { evs := ev })
  | .exitIdle => let (s, ev) := exitIdle s; (s, { evs := ev })
  | .pick => let (s, ev, r) := pick s; (s, { evs := ev, pick := some r })
  | .close => let (s, ev) := close s; (s, { evs := ev })

def run (s : St) : List Op → St
  | [] => s
  | op :: t => run (step s op).1 t

end GrpcModel.PickFirst
