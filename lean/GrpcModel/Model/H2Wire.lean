import GrpcModel.Model.ClientConn
/-!
# What the `x/net/http2` framer (as configured by `newFramer`) hands to the client's reader loop

Glue between the wire-level ops of the correspondence run (`f <type> <flags> <sid> <payload>`) and
the model's `Frame`.  Ports `grpc framer.readFrame` (own DATA parser), `Framer.ReadFrameHeader`
(`SetMaxReadFrameSize(http2MaxFrameLen)`, `checkFrameOrder`), the per-type `parseXxxFrame`
validity checks and `readMetaFrame` (size accounting, header validity, `checkPseudos`).  HPACK is
covered for the literal representations the generator emits (`0x00`/`0x10` + raw strings) and for
the invalid index `0x80`; the theorems do not depend on this file (they quantify over `Frame`).
-/
namespace GrpcModel.H2Wire
open GrpcModel.ClientConn GrpcModel.Generated

structure Meta where
  sid : Nat
  es : Bool
  remain : Nat
  invalid : Bool
  sawRegular : Bool
  truncated : Bool
  emit : Bool
  fields : List (Bytes × Bytes)
  save : Bytes
deriving Repr, Inhabited

structure FramerSt where
  maxHdrList : Nat          -- fr.MaxHeaderListSize (ConnectOptions.MaxHeaderListSize)
  lastHeaderStream : Nat
  pending : Option Meta     -- inside readMetaFrame, waiting for a CONTINUATION
deriving Repr, Inhabited

def FramerSt.init (mhl : Nat) : FramerSt := { maxHdrList := mhl, lastHeaderStream := 0, pending := none }

def u32 (p : Bytes) : Nat :=
  match p with
  | a :: b' :: c :: d :: _ => a.toNat * 16777216 + b'.toNat * 65536 + c.toNat * 256 + d.toNat
  | _ => 0

def hasFlag (flags bit : Nat) : Bool := (flags / bit) % 2 = 1

/-- httpguts.ValidHeaderFieldValue -/
def validValue (v : Bytes) : Bool := v.all fun c => !((c < 32 || c = 127) && !(c = 32 || c = 9))

def isTokenByte (c : UInt8) : Bool :=
  (48 ≤ c && c ≤ 57) || (97 ≤ c && c ≤ 122) || (65 ≤ c && c ≤ 90) ||
  [33, 35, 36, 37, 38, 39, 42, 43, 45, 46, 94, 95, 96, 124, 126].contains c.toNat

/-- validWireHeaderFieldName -/
def validName (n : Bytes) : Bool := !n.isEmpty && n.all fun c => isTokenByte c && !(65 ≤ c && c ≤ 90)

inductive Dec
  | field (n v : Bytes) (rest : Bytes)
  | needMore
  | error
deriving Repr

/-- hpack readVarInt(n = 7 or 4) -/
def readVarInt (bits : Nat) (p : Bytes) : Option (Option (Nat × Bytes)) :=   -- none = error, some none = need more
  match p with
  | [] => some none
  | c :: rest =>
    let mask := 2 ^ bits - 1
    let i := c.toNat % (2 ^ bits)
    if i < mask then some (some (i, rest)) else
    let rec go (fuel : Nat) (p : Bytes) (i m : Nat) : Option (Option (Nat × Bytes)) :=
      match fuel with
      | 0 => none
      | fuel + 1 =>
        match p with
        | [] => some none
        | c :: r =>
          let i := i + (c.toNat % 128) * 2 ^ m
          if c.toNat < 128 then some (some (i, r))
          else if m + 7 ≥ 63 then none else go fuel r i (m + 7)
    go 12 rest i 0

/-- hpack readString for a non-Huffman string (a Huffman string is outside the supported subset: error) -/
def readString (maxStr : Nat) (p : Bytes) : Dec :=
  match p with
  | [] => .needMore
  | c :: _ =>
    if c.toNat ≥ 128 then .error else
    match readVarInt 7 p with
    | none => .error
    | some none => .needMore
    | some (some (len, rest)) =>
      if len > maxStr then .error
      else if rest.length < len then .needMore
      else .field (rest.take len) [] (rest.drop len)

/-- one header field representation -/
def parseRepr (maxStr : Nat) (p : Bytes) : Dec :=
  match p with
  | [] => .needMore
  | c :: _ =>
    if c = 0 || c = 16 then
      match readString maxStr (p.drop 1) with
      | .field n _ r1 =>
        (match readString maxStr r1 with
         | .field v _ r2 => .field n v r2
         | .needMore => .needMore
         | .error => .error)
      | .needMore => .needMore
      | .error => .error
    else .error

/-- the emit function of readMetaFrame -/
def emitField (m : Meta) (n v : Bytes) : Meta :=
  if !m.emit then m else
  let invalid := m.invalid || !validValue v
  let isPseudo := match n with | 58 :: _ => true | _ => false
  let (invalid, sawRegular) :=
    if isPseudo then (invalid || m.sawRegular, m.sawRegular)
    else (invalid || !validName n, true)
  let m := { m with invalid := invalid, sawRegular := sawRegular }
  if invalid then { m with emit := false } else
  let size := n.length + v.length + 32
  if size > m.remain then { m with emit := false, truncated := true, remain := 0 }
  else { m with remain := m.remain - size, fields := m.fields ++ [(n, v)] }

/-- hdec.Write(frag): `none` = decoding error -/
def decWrite (maxStr : Nat) (m : Meta) (frag : Bytes) : Option Meta :=
  if frag.isEmpty then some m else
  let rec go (fuel : Nat) (m : Meta) (buf : Bytes) : Option Meta :=
    match fuel with
    | 0 => none
    | fuel + 1 =>
      if buf.isEmpty then some { m with save := [] } else
      match parseRepr maxStr buf with
      | .field n v rest => go fuel (emitField m n v) rest
      | .needMore => if buf.length > 2 * (maxStr + 8) then none else some { m with save := buf }
      | .error => none
  go (frag.length + m.save.length + 1) m (m.save ++ frag)

def pseudoOK (fields : List (Bytes × Bytes)) : Bool :=
  let pf := fields.takeWhile fun (n, _) => match n with | 58 :: _ => true | _ => false
  let names := pf.map (·.1)
  let req := [b ":method", b ":path", b ":scheme", b ":authority", b ":protocol"]
  let known := names.all fun n => req.contains n || n = b ":status"
  let isReq := names.any fun n => req.contains n
  let isResp := names.any fun n => n = b ":status"
  known && names.eraseDups.length = names.length && !(isReq && isResp)

/-- the body of readMetaFrame's loop for one fragment; `endHeaders` ends it -/
def metaFragment (st : FramerSt) (m : Meta) (frag : Bytes) (endHeaders : Bool) : FramerSt × Option Frame :=
  if frag.length > 2 * m.remain then (st, some .connErr)
  else if m.invalid then (st, some .connErr)
  else match decWrite st.maxHdrList m frag with
    | none => (st, some .connErr)
    | some m =>
      if !endHeaders then ({ st with pending := some m }, none) else
      let st := { st with pending := none }
      if !m.save.isEmpty then (st, some .connErr)
      else if m.invalid then (st, some (.streamErr m.sid h2Protocol))
      else if !pseudoOK m.fields then (st, some (.streamErr m.sid h2Protocol))
      else (st, some (.headers m.sid m.es m.truncated m.fields))

/-- One frame with a well-formed length field arrives: what the reader loop gets (`none`: the framer is
still inside ReadFrame waiting for a CONTINUATION). -/
def feed (st : FramerSt) (typ flags sid : Nat) (p : Bytes) : FramerSt × Option Frame :=
  let len := p.length
  -- ReadFrameHeader
  if len > ccHttp2MaxFrameLen then (st, some .connErr) else
  -- checkFrameOrder
  if st.lastHeaderStream ≠ 0 && (typ ≠ 9 || sid ≠ st.lastHeaderStream) then (st, some .connErr)
  else if st.lastHeaderStream = 0 && typ = 9 then (st, some .connErr)
  else
  let st := if typ = 1 || typ = 9 then
      { st with lastHeaderStream := if hasFlag flags 4 then 0 else sid } else st
  match st.pending with
  | some m =>
    -- inside readMetaFrame: this is the CONTINUATION (guaranteed by checkFrameOrder)
    metaFragment st m p (hasFlag flags 4)
  | none =>
  match typ with
  | 0 =>  -- framer.readDataFrame
    if sid = 0 then (st, some .connErr)
    else if hasFlag flags 8 then
      match p with
      | [] => (st, some .connErr)
      | pad :: body =>
        if pad.toNat > body.length then (st, some .connErr)
        else (st, some (.data sid len (body.length - pad.toNat) true (hasFlag flags 1)))
    else (st, some (.data sid len len false (hasFlag flags 1)))
  | 1 =>  -- parseHeadersFrame + readMetaFrame
    if sid = 0 then (st, some .connErr) else
    let padded := hasFlag flags 8
    if padded && p.isEmpty then (st, some .connErr) else
    let padLen := if padded then (p.headD 0).toNat else 0
    let p := if padded then p.drop 1 else p
    let prio := hasFlag flags 32
    if prio && p.length < 5 then (st, some .connErr) else
    let p := if prio then p.drop 5 else p
    if p.length < padLen then (st, some (.streamErr sid h2Protocol)) else
    let frag := p.take (p.length - padLen)
    let m : Meta := { sid := sid, es := hasFlag flags 1, remain := st.maxHdrList, invalid := false, sawRegular := false,
                      truncated := false, emit := true, fields := [], save := [] }
    metaFragment st m frag (hasFlag flags 4)
  | 2 => if sid = 0 || len ≠ 5 then (st, some .connErr) else (st, some .other)
  | 3 => if len ≠ 4 || sid = 0 then (st, some .connErr) else (st, some (.rst sid (u32 p)))
  | 4 =>
    if (hasFlag flags 1 && len > 0) || sid ≠ 0 || len % 6 ≠ 0 then (st, some .connErr) else
    let rec settings (p : Bytes) (fuel : Nat) : List (Nat × Nat) :=
      match fuel with
      | 0 => []
      | fuel + 1 =>
        match p with
        | a :: b' :: rest => if rest.length < 4 then [] else (a.toNat * 256 + b'.toNat, u32 rest) :: settings (rest.drop 4) fuel
        | _ => []
    let ss := settings p (len / 6 + 1)
    if (match ss.find? (fun s => s.1 = 4) with | some (_, v) => decide (v > 2147483647) | none => false) then (st, some .connErr)
    else (st, some (.settings (hasFlag flags 1) ss))
  | 5 =>
    if sid = 0 then (st, some .connErr) else
    let padded := hasFlag flags 8
    if padded && p.isEmpty then (st, some .connErr) else
    let padLen := if padded then (p.headD 0).toNat else 0
    let p := if padded then p.drop 1 else p
    if p.length < 4 then (st, some .connErr) else
    if padLen > p.length - 4 then (st, some .connErr) else (st, some .other)
  | 6 => if len ≠ 8 || sid ≠ 0 then (st, some .connErr) else (st, some (.ping (hasFlag flags 1) p))
  | 7 =>
    if sid ≠ 0 || len < 8 then (st, some .connErr)
    else (st, some (.goAway (u32 p % 2147483648) (u32 (p.drop 4)) (p.drop 8)))
  | 8 =>
    if len ≠ 4 then (st, some .connErr) else
    let inc := u32 p % 2147483648
    if inc = 0 then (if sid = 0 then (st, some .connErr) else (st, some (.streamErr sid h2Protocol)))
    else (st, some (.windowUpdate sid inc))
  | 9 =>
    -- a CONTINUATION accepted by checkFrameOrder while no meta frame is being assembled (the HEADERS
    -- frame was rejected by parseHeadersFrame): returned as a ContinuationFrame, which the reader ignores
    if sid = 0 then (st, some .connErr) else (st, some .other)
  | 16 =>
    if sid ≠ 0 || len < 4 || u32 p % 2147483648 = 0 then (st, some .connErr) else (st, some .other)
  | _ => (st, some .other)

end GrpcModel.H2Wire
