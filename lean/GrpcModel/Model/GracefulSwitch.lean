/-
Model of internal/balancer/gracefulswitch/gracefulswitch.go: the mutex-protected state machine of
`Balancer` (balancerCurrent / balancerPending / closed) and `balancerWrapper` (lastState, subconns):
  switchTo, swap, balancerCurrentOrPending, latestBalancer, UpdateClientConnState (with the
  automatic switch on an lbConfig), ResolverError, ExitIdle, updateSubConnState, Close,
  balancerWrapper.{Close, UpdateState, NewSubConn, ResolveNow, UpdateAddresses}.
Children are stub balancers built by stub builders (the harness builds the same): a child is
identified by its creation serial; it calls into its ClientConn (the wrapper) only when an op makes
it do so — also after it was closed or superseded.  `swap` closes the old current in a goroutine
(joined under `currentMu`); an op here is "call … and wait for quiescence", so the calls made by
that goroutine are part of the op's output (after the synchronous ones, see the driver).
-/
import GrpcModel.Model.LbConnState
namespace GrpcModel.GracefulSwitch
open GrpcModel.LbConnState

/-- `balancer.State` as far as it can be observed: connectivity state + identity of the picker
    (0 = the `base.NewErrPicker(ErrNoSubConnAvailable)` a wrapper starts with). -/
structure BState where
  state : ConnState
  picker : Nat
deriving DecidableEq, Repr

/-- `balancerWrapper` -/
structure BW where
  id : Nat                 -- creation serial of the child
  name : Nat               -- `builder.Name()`
  last : BState            -- `lastState`
  subconns : List Nat      -- keys of `subconns`
deriving DecidableEq, Repr

/-- what the parent ClientConn / the stub children observe -/
inductive Ev
  | push (owner : Nat) (s : BState)     -- cc.UpdateState; owner = child whose state it is (0: none)
  | build (id : Nat)                    -- builder.Build called
  | closeChild (id : Nat)               -- child.Close()
  | sd (sc : Nat)                       -- SubConn.Shutdown()
  | newSc (sc : Nat) (owner : Nat)      -- cc.NewSubConn
  | nscErr (id : Nat)                   -- NewSubConn refused (caller is deleted)
  | nscHeld (sc : Nat) (id : Nat)       -- cc.NewSubConn called for child id; the call is still inside the parent
  | ucc (id : Nat)                      -- child.UpdateClientConnState
  | resErr (id : Nat)                   -- child.ResolverError
  | exitIdle (id : Nat)                 -- child.ExitIdle
  | scListen (id sc : Nat) (s : ConnState)   -- the child's StateListener invoked
  | uscs (id sc : Nat) (s : ConnState)       -- child.UpdateSubConnState (deprecated path)
  | resolveNow                          -- cc.ResolveNow
  | updAddr (sc : Nat)                  -- cc.UpdateAddresses
deriving DecidableEq, Repr

structure St where
  current : Option BW := none
  pending : Option BW := none
  closed : Bool := false
  /-- wrappers no longer referenced by the balancer; their children may still call in -/
  dead : List BW := []
  serial : Nat := 0        -- children built so far
  scSerial : Nat := 0      -- SubConns created so far
  pkSerial : Nat := 0      -- pickers created by children so far
  /-- owner of every SubConn ever created (cc-level) -/
  scOwner : List (Nat × Nat) := []
  /-- NewSubConn calls that passed the first check and are still inside the parent ClientConn: (SubConn, child) -/
  inflight : List (Nat × Nat) := []
  /-- last state given to the channel (ghost: with its owner) -/
  pushed : Option (Nat × BState) := none
deriving Repr

/-- something a stub child does inline (inside Build / UpdateClientConnState) -/
inductive Script
  | nothing
  | st (s : ConnState)      -- cc.UpdateState
  | nsc                     -- cc.NewSubConn
  | retNil                  -- Build returns nil            (Build only)
  | retErr                  -- UpdateClientConnState returns an error (ucc only)
deriving DecidableEq, Repr

inductive Op
  | switchTo (name : Nat) (sc : Script)
  | ucc (name : Option Nat) (build : Script) (sc : Script)   -- name: gracefulswitch lbConfig child
  | resErr
  | exitIdle
  | close
  | st (child : Nat) (s : ConnState)       -- child calls UpdateState
  | nsc (child : Nat)                      -- child calls NewSubConn
  | nscb (child : Nat)                     -- child calls NewSubConn from its own goroutine; the parent holds the call
  | nsce (sc : Nat)                        -- the parent lets that call return
  | scst (sc : Nat) (s : ConnState)        -- the channel reports a SubConn state (StateListener)
  | uscs (sc : Nat) (s : ConnState)        -- gsb.UpdateSubConnState (deprecated)
  | scsd (sc : Nat)                        -- child calls sc.Shutdown() itself
  | rn (child : Nat)                       -- child calls ResolveNow
  | ua (child : Nat) (sc : Nat)            -- child calls UpdateAddresses
deriving Repr

inductive Res | ok | closed | bad | childErr | switchErr
deriving DecidableEq, Repr

def initBState : BState := ⟨.connecting, 0⟩

def isCur (s : St) (id : Nat) : Bool := s.current.any (·.id = id)
def isPend (s : St) (id : Nat) : Bool := s.pending.any (·.id = id)
/-- `balancerCurrentOrPending` -/
def curOrPend (s : St) (id : Nat) : Bool := isCur s id || isPend s id

/-- `latestBalancer` -/
def latest (s : St) : Option BW := match s.pending with | some p => some p | none => s.current

/-- every wrapper the model knows, by child id -/
def known (s : St) (id : Nat) : Bool := curOrPend s id || s.dead.any (·.id = id)

/-- `balancerWrapper.Close` (nil receiver: nothing): child.Close, then Shutdown of its subconns. -/
def closeBW : Option BW → List Ev
  | none => []
  | some b => .closeChild b.id :: b.subconns.map Ev.sd

def toDead (d : List BW) : Option BW → List BW
  | none => d
  | some b => d ++ [b]

/-- store `lastState` in whichever place the wrapper lives -/
def setLast (s : St) (id : Nat) (b : BState) : St :=
  { s with current := s.current.map fun w => if w.id = id then { w with last := b } else w,
           pending := s.pending.map fun w => if w.id = id then { w with last := b } else w,
           dead := s.dead.map fun w => if w.id = id then { w with last := b } else w }

/-- `swap`: push the pending's cached state, promote it, close the old current (goroutine). -/
def swap (s : St) : St × List Ev :=
  match s.pending with
  | none => (s, [])      -- not reachable: callers check
  | some p =>
    ({ s with current := some p, pending := none, dead := toDead s.dead s.current,
              pushed := some (p.id, p.last) },
     Ev.push p.id p.last :: closeBW s.current)

/-- `balancerWrapper.UpdateState` -/
def updateState (s : St) (id : Nat) (st : ConnState) : St × List Ev :=
  let b : BState := ⟨st, s.pkSerial + 1⟩
  let s := { setLast s id b with pkSerial := s.pkSerial + 1 }
  if !curOrPend s id then (s, [])
  else if isCur s id then
    if st ≠ .ready ∧ s.pending.isSome then swap s
    else ({ s with pushed := some (id, b) }, [.push id b])
  else
    if st ≠ .connecting ∨ (s.current.map (·.last.state)) ≠ some .ready then swap s
    else (s, [])

def addSc (w : BW) (id sc : Nat) : BW := if w.id = id then { w with subconns := w.subconns ++ [sc] } else w

/-- `balancerWrapper.NewSubConn` -/
def newSubConn (s : St) (id : Nat) : St × List Ev :=
  if !curOrPend s id then (s, [.nscErr id])
  else
    let sc := s.scSerial + 1
    ({ s with scSerial := sc, scOwner := s.scOwner ++ [(sc, id)],
              current := s.current.map (addSc · id sc), pending := s.pending.map (addSc · id sc) },
     [.newSc sc id])

/-- `balancerWrapper.NewSubConn` up to and including `bw.gsb.cc.NewSubConn(addrs, opts)`: the first
    `balancerCurrentOrPending` check, then the call into the parent (gsb.mu is not held) -/
def nscBegin (s : St) (id : Nat) : St × List Ev :=
  if !curOrPend s id then (s, [.nscErr id])
  else
    let sc := s.scSerial + 1
    ({ s with scSerial := sc, scOwner := s.scOwner ++ [(sc, id)], inflight := s.inflight ++ [(sc, id)] }, [.nscHeld sc id])

/-- … and after it: `if !balancerCurrentOrPending(bw) { sc.Shutdown(); return error }` ("balancer was
    closed during this call"), else `bw.subconns[sc] = true` -/
def nscEnd (s : St) (sc : Nat) : St × List Ev :=
  match s.inflight.find? (·.1 = sc) with
  | none => (s, [])
  | some (_, id) =>
    let s1 : St := { s with inflight := s.inflight.filter (·.1 ≠ sc) }
    if curOrPend s1 id then
      ({ s1 with current := s1.current.map (addSc · id sc), pending := s1.pending.map (addSc · id sc) }, [.newSc sc id])
    else (s1, [.sd sc, .nscErr id])

def runScript (s : St) (id : Nat) : Script → St × List Ev
  | .st x => updateState s id x
  | .nsc => newSubConn s id
  | _ => (s, [])

/-- `switchTo` -/
def switchTo (s : St) (name : Nat) (sc : Script) : St × List Ev × Res :=
  if s.closed then (s, [], .closed) else
  let id := s.serial + 1
  let bw : BW := ⟨id, name, initBState, []⟩
  let balToClose := s.pending
  let s1 : St :=
    if s.current.isNone then { s with current := some bw, serial := id }
    else { s with pending := some bw, dead := toDead s.dead s.pending, serial := id }
  let ev1 := closeBW balToClose ++ [.build id]
  if sc = .retNil then
    -- "This is illegal and should never happen; we clear the balancerWrapper"
    let s2 := if s1.pending.isSome then { s1 with pending := none } else { s1 with current := none }
    (s2, ev1, .bad)
  else
    let (s2, ev2) := runScript s1 id sc
    (s2, ev1 ++ ev2, .ok)

def rmSc (w : BW) (sc : Nat) : BW := { w with subconns := w.subconns.filter (· ≠ sc) }

/-- `updateSubConnState`: which wrapper gets the update, with the Shutdown bookkeeping -/
def scTarget (s : St) (sc : Nat) : Option BW :=
  match s.current with
  | some c => if sc ∈ c.subconns then some c else
    match s.pending with
    | some p => if sc ∈ p.subconns then some p else none
    | none => none
  | none =>
    match s.pending with
    | some p => if sc ∈ p.subconns then some p else none
    | none => none

def subConnState (s : St) (sc : Nat) (st : ConnState) (listener : Bool) : St × List Ev :=
  match scTarget s sc with
  | none => (s, [])
  | some w =>
    let s' := if st = .shutdown then
        { s with current := s.current.map fun c => if c.id = w.id then rmSc c sc else c,
                 pending := s.pending.map fun p => if p.id = w.id then rmSc p sc else p }
      else s
    (s', [if listener then Ev.scListen w.id sc st else Ev.uscs w.id sc st])

def step (s : St) : Op → St × List Ev × Res
  | .switchTo name sc => switchTo s name sc
  | .ucc name build sc =>
    let doFwd (s : St) (evs : List Ev) (w : BW) : St × List Ev × Res :=
      let (s2, ev2) := runScript s w.id sc
      (s2, evs ++ [.ucc w.id] ++ ev2, if sc = .retErr then .childErr else .ok)
    match name with
    | some n =>
      if (latest s).all (·.name ≠ n) then
        -- "Switch to the child in the config unless it is already active."
        let (s1, ev1, r) := switchTo s n build
        if r ≠ .ok then (s1, ev1, .switchErr) else
        -- `balToUpdate` is the wrapper switchTo returned, wherever it lives now
        doFwd s1 ev1 ⟨s1.serial, n, initBState, []⟩
      else match latest s with
        | some w => doFwd s [] w
        | none => (s, [], .closed)
    | none =>
      match latest s with
      | some w => doFwd s [] w
      | none => (s, [], .closed)
  | .resErr =>
    match latest s with
    | none => ({ s with pushed := some (0, ⟨.tf, 0⟩) }, [.push 0 ⟨.tf, 0⟩], .ok)
    | some w => (s, [.resErr w.id], .ok)
  | .exitIdle =>
    match latest s with
    | none => (s, [], .ok)
    | some w => (s, [.exitIdle w.id], .ok)
  | .close =>
    ({ s with closed := true, current := none, pending := none,
              dead := toDead (toDead s.dead s.current) s.pending },
     closeBW s.current ++ closeBW s.pending, .ok)
  | .st child x => let (s', ev) := updateState s child x; (s', ev, .ok)
  | .nsc child => let (s', ev) := newSubConn s child; (s', ev, .ok)
  | .nscb child => let (s', ev) := nscBegin s child; (s', ev, .ok)
  | .nsce sc => let (s', ev) := nscEnd s sc; (s', ev, .ok)
  | .scst sc x => let (s', ev) := subConnState s sc x true; (s', ev, .ok)
  | .uscs sc x => let (s', ev) := subConnState s sc x false; (s', ev, .ok)
  | .scsd sc => (s, [.sd sc], .ok)
  | .rn child => (s, if (latest s).any (·.id = child) then [.resolveNow] else [], .ok)
  | .ua child sc => (s, if curOrPend s child then [.updAddr sc] else [], .ok)

def run (s : St) : List Op → St
  | [] => s
  | op :: t => run (step s op).1 t

/-! ### the property's predicates (monitor + theorems) -/

/-- the swap rule of the statement, for a state report `x` of child `id` in state `s`:
    the pending becomes current exactly when the pending reports anything but CONNECTING, or reports
    while the current is not READY, or the current reports anything but READY while a pending exists. -/
def shouldSwap (s : St) (id : Nat) (x : ConnState) : Bool :=
  (isPend s id && (x != .connecting || (s.current.map (·.last.state)) != some .ready)) ||
  (isCur s id && s.pending.isSome && x != .ready)

/-- what the channel and the children must observe for a state report, per the statement -/
def specReport (s : St) (id : Nat) (x : ConnState) : List Ev :=
  if shouldSwap s id x then
    match s.pending with
    | some p =>
      -- the new policy's state (its cached one unless it is the reporter) reaches the channel,
      -- the old policy is closed and its subchannels are shut down
      let ps : BState := if p.id = id then ⟨x, s.pkSerial + 1⟩ else p.last
      Ev.push p.id ps :: closeBW s.current
    | none => []
  else if isCur s id then [.push id ⟨x, s.pkSerial + 1⟩]   -- the policy in use keeps updating the channel
  else []                                                   -- pending CONNECTING, closed or superseded: silence

/-- every push in `evs` is owned by the policy that is current afterwards (0 = no policy) -/
def pushesFromCurrent (s' : St) (evs : List Ev) : Bool :=
  evs.all fun e => match e with
    | .push o _ => (match s'.current with | some c => o = c.id | none => o = 0)
    | _ => true

/-- every policy that was current or pending before (`s`) and is neither afterwards (`s'`) was closed
    in `evs`, and every SubConn it created and still owned was shut down in `evs` -/
def retiredClosed (s s' : St) (evs : List Ev) : Bool :=
  (s.current.toList ++ s.pending.toList).all fun w =>
    curOrPend s' w.id || (evs.contains (.closeChild w.id) && w.subconns.all fun sc => evs.contains (.sd sc))

/-- a NewSubConn call that was inside the parent ClientConn while its policy was closed or superseded
    must not leave a SubConn behind: when it returns, the SubConn is shut down and the policy gets an
    error (it is registered with the policy only if the policy still has a role) -/
def lateSubConnOk (s : St) (sc : Nat) (evs : List Ev) : Bool :=
  match s.inflight.find? (·.1 = sc) with
  | none => true
  | some (_, id) =>
    if curOrPend s id then evs == [.newSc sc id]
    else evs.contains (.sd sc) && !(evs.any fun e => match e with | .newSc _ _ => true | _ => false)

/-- the channel always has the latest state of the policy in use (in particular while a switch is
    pending: RPCs keep using the old policy's picker); a policy that never reported has nothing to show -/
def gracefulOk (s' : St) (pushed : Option (Nat × BState)) : Bool :=
  match s'.current with
  | some c => c.last = initBState || pushed = some (c.id, c.last)
  | none => true

end GrpcModel.GracefulSwitch
