/-
Model of
  internal/xds/rbac/rbac_engine.go : NewChainEngine, newEngine, ChainEngine.IsAuthorized,
                                     engine.findMatchingPolicy, newRPCData
  internal/xds/rbac/matchers.go    : matchersFromPermissions / matchersFromPrincipals, policyMatcher,
                                     and/or/not/always/never matchers, header, urlPath, remote/local IP,
                                     port, requestedServerName, authenticated matcher
  internal/xds/matcher/matcher_header.go, string_matcher.go : the leaf matchers they delegate to.

Strings are byte lists (`Str`).  `strings.ToLower` is modelled on ASCII only (the tie generates ASCII;
Unicode folding is C47/F3's business).  Regular expressions are the three shapes the tie can model:
`.+` (what authz emits for "*"), `.*`, and a pattern that does not compile.

The Go code first turns the proto config into matcher objects (failing on unsupported / malformed
parts) and then evaluates them.  The model keeps one config type, a validity check `ok` (exactly the
error returns of the constructors) and an evaluator on valid configs.
-/
namespace GrpcModel.RBAC

abbrev Str := List UInt8

/-! ### strings -/

def lowerByte (b : UInt8) : UInt8 := if 65 ≤ b ∧ b ≤ 90 then b + 32 else b
/-- `strings.ToLower` on ASCII input. -/
def lower (s : Str) : Str := s.map lowerByte

/-- `strings.Contains(s, sub)`. -/
def hasSub (sub : Str) : Str → Bool
  | [] => sub.isEmpty
  | c :: t => sub.isPrefixOf (c :: t) || hasSub sub t

/-- `strings.Join(vs, ",")`. -/
def joinComma : List Str → Str
  | [] => []
  | [a] => a
  | a :: b :: t => a ++ 44 :: joinComma (b :: t)

inductive Regex
  | dotPlus   -- ".+"  compiled as ^(?:.+)$ : non-empty, no '\n'
  | dotStar   -- ".*"  compiled as ^(?:.*)$ : no '\n'
  | bad       -- does not compile → constructor error
deriving DecidableEq, Repr

def Regex.matches : Regex → Str → Bool
  | .dotPlus, s => !s.isEmpty && !s.contains 10
  | .dotStar, s => !s.contains 10
  | .bad, _ => false

inductive StrPat
  | exact (s : Str) | pfx (s : Str) | sfx (s : Str) | contains (s : Str) | regex (r : Regex) | unset
deriving DecidableEq, Repr

/-- `v3matcherpb.StringMatcher` (pattern oneof + ignore_case). -/
structure StrM where
  pat : StrPat
  ignoreCase : Bool
deriving DecidableEq, Repr

/-- `StringMatcherFromProto` error returns (nil proto is `none` at the use sites). -/
def StrM.ok (m : StrM) : Bool :=
  match m.pat with
  | .exact _ => true
  | .pfx s => !s.isEmpty
  | .sfx s => !s.isEmpty
  | .contains s => !s.isEmpty
  | .regex r => r != .bad
  | .unset => false

/-- `StringMatcher.Match` after `StringMatcherFromProto` (the pattern is lower-cased at construction
    when ignore_case; the regex case drops ignore_case). -/
def StrM.matches (m : StrM) (input : Str) : Bool :=
  let inp := if m.ignoreCase then lower input else input
  let p (s : Str) := if m.ignoreCase then lower s else s
  match m.pat with
  | .exact s => inp == p s
  | .pfx s => (p s).isPrefixOf inp
  | .sfx s => (p s).isSuffixOf inp
  | .contains s => hasSub (p s) inp
  | .regex r => r.matches input
  | .unset => false

def optStrOk : Option StrM → Bool
  | none => false
  | some m => m.ok

/-! ### `strconv.ParseInt(v, 10, 64)` -/

def isDigit (b : UInt8) : Bool := 48 ≤ b && b ≤ 57

def digitsVal (bs : Str) : Nat := bs.foldl (fun a b => a * 10 + (b.toNat - 48)) 0

def parseUDigits (bs : Str) : Option Nat :=
  if bs.isEmpty then none else if bs.all isDigit then some (digitsVal bs) else none

def parseInt64 (s : Str) : Option Int :=
  match s with
  | [] => none
  | c :: t =>
    if c = 45 then
      match parseUDigits t with
      | some v => if v ≤ 9223372036854775808 then some (-(v : Int)) else none
      | none => none
    else
      let body := if c = 43 then t else c :: t
      match parseUDigits body with
      | some v => if v ≤ 9223372036854775807 then some (v : Int) else none
      | none => none

/-! ### header matchers -/

inductive HdrSpec
  | exact (s : Str) | regex (r : Regex) | range (lo hi : Int) | present (b : Bool)
  | pfx (s : Str) | sfx (s : Str) | contains (s : Str) | str (m : Option StrM) | unset
deriving DecidableEq, Repr

/-- `v3route.HeaderMatcher`: name, specifier oneof, invert_match. -/
structure HdrM where
  name : Str
  spec : HdrSpec
  invert : Bool
deriving DecidableEq, Repr

/-- `newHeaderMatcher` error returns. -/
def HdrM.ok (h : HdrM) : Bool :=
  match h.spec with
  | .regex r => r != .bad
  | .str m => optStrOk m
  | .unset => false
  | _ => true

abbrev MD := List (Str × List Str)

/-- map lookup `md[key]`. -/
def mdGet (md : MD) (k : Str) : Option (List Str) := (md.find? (fun e => e.1 == k)).map (·.2)
/-- map assignment `md[key] = v`. -/
def mdSet (md : MD) (k : Str) (v : List Str) : MD := (k, v) :: md.filter (fun e => e.1 != k)
/-- `delete(md, key)`. -/
def mdDel (md : MD) (k : Str) : MD := md.filter (fun e => e.1 != k)

/-- `valueFromMD`. -/
def valueFromMD (md : MD) (k : Str) : Option Str := (mdGet md k).map joinComma

/-- `HeaderXxxMatcher.Match`. -/
def HdrM.matches (h : HdrM) (md : MD) : Bool :=
  match h.spec with
  | .present b =>
    -- NewHeaderPresentMatcher folds invert into `present`
    let want := if h.invert then !b else b
    let present := match valueFromMD md h.name with
      | some _ => true          -- after fix 8ad6d37 an empty-valued header is present
      | none => false
    present == want
  | .range lo hi =>
    match valueFromMD md h.name with
    | none => false
    | some v =>
      match parseInt64 v with
      | some i => if lo ≤ i ∧ i < hi then !h.invert else h.invert
      | none => h.invert
  | spec =>
    match valueFromMD md h.name with
    | none => false
    | some v =>
      let b := match spec with
        | .exact s => v == s
        | .regex r => r.matches v
        | .pfx s => s.isPrefixOf v
        | .sfx s => s.isSuffixOf v
        | .contains s => hasSub s v
        | .str (some m) => m.matches v
        | _ => false
      b != h.invert

/-! ### addresses -/

/-- a parsed `netip.Addr` without zone. -/
inductive IP
  | v4 (a : BitVec 32)
  | v6 (a : BitVec 128)
deriving DecidableEq, Repr

/-- `v3core.CidrRange` after `fmt.Sprintf("%s/%d")` + `netip.ParsePrefix`: `bad` = an address_prefix that is not
    an IP literal. -/
inductive Cidr
  | v4 (a : BitVec 32) (len : Nat)
  | v6 (a : BitVec 128) (len : Nat)
  | bad
deriving DecidableEq, Repr

/-- `netip.ParsePrefix` accepts the prefix length. -/
def Cidr.ok : Cidr → Bool
  | .v4 _ n => n ≤ 32
  | .v6 _ n => n ≤ 128
  | .bad => false

/-- `netip.Prefix.Contains` (families must agree; an IPv4-mapped IPv6 address is IPv6). -/
def Cidr.contains : Cidr → IP → Bool
  | .v4 a n, .v4 b => (a ^^^ b) >>> (32 - n) == 0
  | .v6 a n, .v6 b => (a ^^^ b) >>> (128 - n) == 0
  | _, _ => false

/-! ### request -/

structure Cert where
  uris : List Str
  dns : List Str
  subject : Str
deriving DecidableEq, Repr

/-- What `newRPCData` pulls out of the context. -/
structure Request where
  /-- some piece (metadata, peer, method, connection) is missing from the context -/
  missing : Bool
  /-- `grpc.Method(ctx)` -/
  path : Str
  /-- incoming metadata as attached to the context -/
  md : MD
  /-- host part of `peer.Addr.String()` parsed by `netip.ParseAddr` (`none`: not an IP literal) -/
  src : Option IP
  /-- host part of `conn.LocalAddr().String()` parsed by `netip.ParseAddr` -/
  dst : Option IP
  /-- port of `conn.LocalAddr().String()`; `none`: SplitHostPort/ParseUint fails → newRPCData error -/
  dstPort : Option Nat
  /-- `peer.AuthInfo` is a `credentials.TLSInfo` -/
  tls : Bool
  /-- `tlsInfo.State.PeerCertificates` -/
  certs : List Cert
deriving Repr

/-- the metadata the matchers see: `metadata.FromIncomingContext` lower-cases keys, then
    `md[":method"] = POST`, `delete(md, "TE")`, `md[":path"] = method`. -/
def Request.headers (r : Request) : MD :=
  mdSet (mdDel (mdSet (r.md.map fun e => (lower e.1, e.2)) [58, 109, 101, 116, 104, 111, 100] [[80, 79, 83, 84]]) [84, 69])
    [58, 112, 97, 116, 104] [r.path]

/-- `authenticatedMatcher.match`: `none` = principal_name unset. -/
def authEval (r : Request) (m : Option StrM) : Bool :=
  if !r.tls then false else
  match m with
  | none => true
  | some sm =>
    match r.certs with
    | [] => sm.matches []
    | c :: _ =>
      if !c.uris.isEmpty then c.uris.any sm.matches
      else if !c.dns.isEmpty then c.dns.any sm.matches
      else sm.matches c.subject

def srcIpEval (r : Request) (c : Cidr) : Bool :=
  match r.src with
  | some ip => c.contains ip
  | none => false

def dstIpEval (r : Request) (c : Cidr) : Bool :=
  match r.dst with
  | some ip => c.contains ip
  | none => false

/-! ### permissions and principals -/

mutual
/-- `v3rbac.Permission` -/
inductive Perm
  | and (l : PermList) | or (l : PermList) | any
  | header (h : HdrM)
  | urlPath (m : Option StrM)          -- `none`: PathMatcher without `path`
  | destIp (c : Cidr) | destPort (p : Nat)
  | not (p : Perm)
  | metadata (invert : Bool)
  | reqServerName (m : Option StrM)
  | unsupported                         -- any other / unset rule
inductive PermList
  | nil | cons (p : Perm) (t : PermList)
end

mutual
/-- `v3rbac.Principal` -/
inductive Prin
  | and (l : PrinList) | or (l : PrinList) | any
  | authenticated (name : Option StrM)
  | remoteIp (kind : Nat) (c : Cidr)    -- direct_remote_ip / source_ip / remote_ip: all the same matcher
  | header (h : HdrM)
  | urlPath (m : Option StrM)
  | metadata (invert : Bool)
  | not (p : Prin)
  | unsupported
inductive PrinList
  | nil | cons (p : Prin) (t : PrinList)
end

def PermList.toList : PermList → List Perm
  | .nil => []
  | .cons p t => p :: t.toList

def PrinList.toList : PrinList → List Prin
  | .nil => []
  | .cons p t => p :: t.toList

def PermList.ofList : List Perm → PermList
  | [] => .nil
  | p :: t => .cons p (PermList.ofList t)

def PrinList.ofList : List Prin → PrinList
  | [] => .nil
  | p :: t => .cons p (PrinList.ofList t)

mutual
/-- `matchersFromPermissions` returns no error. -/
def Perm.ok : Perm → Bool
  | .and l => l.ok
  | .or l => l.ok
  | .any => true
  | .header h => h.ok
  | .urlPath m => optStrOk m
  | .destIp c => c.ok
  | .destPort _ => true
  | .not p => p.ok
  | .metadata _ => true
  | .reqServerName m => optStrOk m
  | .unsupported => false
def PermList.ok : PermList → Bool
  | .nil => true
  | .cons p t => p.ok && t.ok
end

mutual
/-- `matchersFromPrincipals` returns no error. -/
def Prin.ok : Prin → Bool
  | .and l => l.ok
  | .or l => l.ok
  | .any => true
  | .authenticated none => true
  | .authenticated (some m) => m.ok
  | .remoteIp _ c => c.ok
  | .header h => h.ok
  | .urlPath m => optStrOk m
  | .metadata _ => true
  | .not p => p.ok
  | .unsupported => false
def PrinList.ok : PrinList → Bool
  | .nil => true
  | .cons p t => p.ok && t.ok
end

mutual
/-- `matcher.match` for the matcher built from a permission. -/
def Perm.eval (r : Request) : Perm → Bool
  | .and l => l.all r
  | .or l => l.any r
  | .any => true
  | .header h => h.matches r.headers
  | .urlPath (some m) => m.matches r.path
  | .urlPath none => false
  | .destIp c => dstIpEval r c
  | .destPort p => r.dstPort == some p
  | .not p => !p.eval r
  | .metadata invert => invert
  | .reqServerName (some m) => m.matches []
  | .reqServerName none => false
  | .unsupported => false
/-- `andMatcher.match`: first child that does not match decides. -/
def PermList.all (r : Request) : PermList → Bool
  | .nil => true
  | .cons p t => if !p.eval r then false else t.all r
/-- `orMatcher.match`: first child that matches decides. -/
def PermList.any (r : Request) : PermList → Bool
  | .nil => false
  | .cons p t => if p.eval r then true else t.any r
end

mutual
def Prin.eval (r : Request) : Prin → Bool
  | .and l => l.all r
  | .or l => l.any r
  | .any => true
  | .authenticated m => authEval r m
  | .remoteIp _ c => srcIpEval r c
  | .header h => h.matches r.headers
  | .urlPath (some m) => m.matches r.path
  | .urlPath none => false
  | .metadata invert => invert
  | .not p => !p.eval r
  | .unsupported => false
def PrinList.all (r : Request) : PrinList → Bool
  | .nil => true
  | .cons p t => if !p.eval r then false else t.all r
def PrinList.any (r : Request) : PrinList → Bool
  | .nil => false
  | .cons p t => if p.eval r then true else t.any r
end

/-! ### policies, engines, chain -/

/-- `v3rbac.Policy`: the two top-level lists are or-ed. -/
structure Policy where
  perms : PermList
  prins : PrinList

def Policy.ok (p : Policy) : Bool := p.perms.ok && p.prins.ok

/-- `policyMatcher.match`. -/
def Policy.matches (p : Policy) (r : Request) : Bool := p.perms.any r && p.prins.any r

inductive Action | allow | deny | log
deriving DecidableEq, Repr

/-- `v3rbac.RBAC`: action + policy map (names only matter for logging; map iteration order cannot
    change whether *some* policy matches). -/
structure Engine where
  action : Action
  policies : List Policy

/-- `newEngine` returns no error. -/
def Engine.ok (e : Engine) : Bool := e.action != .log && e.policies.all Policy.ok

/-- `engine.findMatchingPolicy` (the bool). -/
def Engine.findMatch (e : Engine) (r : Request) : Bool := e.policies.any (·.matches r)

abbrev Chain := List Engine

/-- `NewChainEngine`. -/
def newChainEngine (c : Chain) : Option Chain := if c.all Engine.ok then some c else none

inductive Decision | allow | deny | internal
deriving DecidableEq, Repr

/-- the loop of `ChainEngine.IsAuthorized`. -/
def chainLoop (r : Request) : Chain → Decision
  | [] => .allow
  | e :: t =>
    let ok := e.findMatch r
    if e.action = .allow ∧ !ok then .deny
    else if e.action = .deny ∧ ok then .deny
    else chainLoop r t

/-- `newRPCData` returns no error. -/
def Request.wellFormed (r : Request) : Bool := !r.missing && r.dstPort.isSome

/-- `ChainEngine.IsAuthorized`: `internal` = codes.Internal from newRPCData, `deny` = PermissionDenied. -/
def isAuthorized (c : Chain) (r : Request) : Decision :=
  if !r.wellFormed then .internal else chainLoop r c

def Decision.show : Decision → String
  | .allow => "allow" | .deny => "deny" | .internal => "internal"

end GrpcModel.RBAC

/-! ### reference semantics of a policy chain ("the policy semantics say so")

A policy matches when one of its permissions and one of its principals match; a DENY engine rejects if
some policy matches, an ALLOW engine rejects if none matches; the RPC is allowed when no engine rejects. -/
namespace GrpcModel.RBAC.Spec

def policyMatches (r : Request) (p : Policy) : Bool :=
  p.perms.toList.any (Perm.eval r) && p.prins.toList.any (Prin.eval r)

def engineRejects (r : Request) (e : Engine) : Bool :=
  match e.action with
  | .allow => !e.policies.any (policyMatches r)
  | .deny => e.policies.any (policyMatches r)
  | .log => false

def allowed (c : Chain) (r : Request) : Bool := !c.any (engineRejects r)

def decision (c : Chain) (r : Request) : Decision := if allowed c r then .allow else .deny

end GrpcModel.RBAC.Spec
