/-
Model of internal/wrr/edf.go : edfWrr.Add, edfWrr.Next.

`container/heap` with `Less = (deadline, orderOffset)` lexicographic is abstracted to "the entry
with the least (deadline, orderOffset)"; orderOffset is the insertion index (it is unique, so the
order is total and the heap's internal layout cannot influence the result). One definition,
generic over the arithmetic (`Arith` from Model/WRRStride.lean): `Rat` for the theorems,
`Float` for the bit-exact comparison with the Go code.
-/
import GrpcModel.Model.WRRStride
namespace GrpcModel.EDF
open GrpcModel.WRRStride (Arith)

/-- `edfEntry`; the position in `EDFState.items` is the `orderOffset` (and the item). -/
structure Entry (α : Type) where
  deadline : α
  weight : Nat

/-- `edfWrr` (the mutex serialises Add/Next). -/
structure EDFState (α : Type) where
  items : List (Entry α) := []
  currentTime : α

variable {α : Type} [Arith α]

def EDFState.init : EDFState α := { currentTime := Arith.zero }

/-- `1.0 / float64(weight)` -/
def period (w : Nat) : α := Arith.div (Arith.ofNat 1) (Arith.ofNat w)

/-- `edfWrr.Add`: deadline = currentTime + 1/weight, orderOffset = next index. -/
def EDFState.add (s : EDFState α) (weight : Nat) : EDFState α :=
  { s with items := s.items ++ [{ deadline := Arith.add s.currentTime (period weight), weight := weight }] }

/-- index of the least entry by (deadline, orderOffset): scan, replacing the candidate only on a
    strictly smaller deadline (so the lowest index wins ties). `none` for no entries. -/
def argminFrom : List (Entry α) → Nat → Nat → α → Nat
  | [], _, best, _ => best
  | e :: es, k, best, bd => if Arith.lt e.deadline bd then argminFrom es (k + 1) k e.deadline
                            else argminFrom es (k + 1) best bd

def argmin : List (Entry α) → Option Nat
  | [] => none
  | e :: es => some (argminFrom es 1 0 e.deadline)

/-- `edfWrr.Next`: pop the least entry, `currentTime = its deadline`, re-insert it with
    `deadline = currentTime + 1/weight`. Returns the item (= index). -/
def EDFState.next (s : EDFState α) : EDFState α × Option Nat :=
  match argmin s.items with
  | none => (s, none)
  | some i =>
    match s.items[i]? with
    | none => (s, none)
    | some e =>
      let t := e.deadline
      ({ items := s.items.set i { e with deadline := Arith.add t (period e.weight) }, currentTime := t }, some i)

/-- `NewEDF()` followed by `Add` of each weight in order. -/
def EDFState.ofWeights (ws : List Nat) : EDFState α := ws.foldl EDFState.add EDFState.init

/-- k calls of `Next`: the items returned (most recent last). -/
def EDFState.run (s : EDFState α) : Nat → EDFState α × List Nat
  | 0 => (s, [])
  | k + 1 =>
    let (s1, is) := s.run k
    match s1.next with
    | (s2, some i) => (s2, is ++ [i])
    | (s2, none) => (s2, is)

end GrpcModel.EDF
