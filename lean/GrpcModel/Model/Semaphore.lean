/-
Model of `atomicSemaphore` (server.go), the per-connection handler quota of C25:

    func (q *atomicSemaphore) acquire() { if q.n.Add(-1) < 0 { <-q.wait } }
    func (q *atomicSemaphore) release() { if q.n.Add(1) <= 0 { q.wait <- struct{}{} } }
    newHandlerQuota(n): wait = make(chan struct{}, 1); n.Store(n)

as a transition system whose rules are the individual atomic operations: the Add of acquire, the
channel receive, the Add of release, the channel send. The acquirer is ONE sequential goroutine
(the transport's reader calling the HandleStreams callback: "acquire should be called
synchronously"); releases come from any number of handler goroutines (counting abstraction).

`h` counts the slots that are held: acquire() has returned for them and the Add of the matching
release has not happened yet. "Handlers running" ≤ h, so h ≤ cap is the property's bound.
-/
namespace GrpcModel.Semaphore

inductive APc
  | idle      -- not inside acquire()
  | atAdd     -- inside acquire(), before n.Add(-1)
  | parked    -- n.Add(-1) returned < 0: blocked in `<-q.wait`
deriving DecidableEq, Repr

structure St where
  cap : Nat        -- newHandlerQuota(cap)
  n : Int          -- q.n
  c : Nat          -- len(q.wait): buffered wake-up tokens (capacity 1)
  apc : APc
  h : Nat          -- slots held
  fin : Nat        -- holders that have returned from their handler and stand before release's Add
  s : Nat          -- releasers whose Add(1) returned ≤ 0 and that have not sent yet
deriving DecidableEq, Repr

def init (cap : Nat) : St := ⟨cap, cap, 0, .idle, 0, 0, 0⟩

inductive Rule
  | aCall     -- the reader calls acquire()
  | aAdd      -- q.n.Add(-1); < 0 → park, else the slot is taken
  | aRecv     -- <-q.wait succeeds: the slot is taken
  | rCall     -- a handler returns and calls release()
  | rAdd      -- q.n.Add(1); ≤ 0 → must send
  | rSend     -- q.wait <- struct{}{} (needs room in the buffer)
deriving DecidableEq, Repr

def apply (s : St) : Rule → Option St
  | .aCall => if s.apc = .idle then some { s with apc := .atAdd } else none
  | .aAdd =>
    if s.apc = .atAdd then
      let n' := s.n - 1
      if n' < 0 then some { s with n := n', apc := .parked }
      else some { s with n := n', apc := .idle, h := s.h + 1 }
    else none
  | .aRecv =>
    if s.apc = .parked ∧ 0 < s.c then some { s with c := s.c - 1, apc := .idle, h := s.h + 1 } else none
  | .rCall => if s.fin < s.h then some { s with fin := s.fin + 1 } else none
  | .rAdd =>
    if 0 < s.fin ∧ 0 < s.h then
      let n' := s.n + 1
      some { s with n := n', fin := s.fin - 1, h := s.h - 1, s := if n' ≤ 0 then s.s + 1 else s.s }
    else none
  | .rSend => if 0 < s.s ∧ s.c < 1 then some { s with s := s.s - 1, c := s.c + 1 } else none

/-- states reachable from `newHandlerQuota cap` -/
inductive Reach (cap : Nat) : St → Prop
  | init : Reach cap (init cap)
  | step {s t : St} (r : Rule) : Reach cap s → apply s r = some t → Reach cap t

/-- fold a list of rules (used by the driver: one harness step = 1–3 rules) -/
def applyAll (s : St) : List Rule → Option St
  | [] => some s
  | r :: rs => match apply s r with
    | some t => applyAll t rs
    | none => none

/-- the executable predicate the monitor evaluates at quiescent points (no releaser between its
    Add and its send, i.e. s = 0): what the statement demands of the semaphore -/
def quiescentOK (cap : Nat) (n : Int) (c : Nat) (parked : Bool) (held : Nat) : Bool :=
  decide (held ≤ cap) && decide (n = (cap : Int) - held - (if parked then 1 else 0)) && decide (-1 ≤ n)
  && decide (c ≤ 1) && (if parked then decide (cap ≤ held) && c == 0 else c == 0)

end GrpcModel.Semaphore
