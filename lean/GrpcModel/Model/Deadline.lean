/-
Model of the client RPC goroutine's blocking points and of deadline propagation (C22).

  picker_wrapper.go                  : (*pickerWrapper).pick         select { <-ctx.Done(); <-ch }
  internal/transport/http2_client.go : (*http2Client).NewStream      select { <-ch; <-ctx.Done(); <-t.goAway; <-t.ctx.Done() }
                                       createHeaderFields             grpc-timeout = EncodeDuration(time.Until(deadline)), ≤ 0 → DEADLINE_EXCEEDED
  internal/transport/flowcontrol.go  : (*writeQuota).get             select { <-w.ch; <-w.done }   (w.done = s.done)
  internal/transport/client_stream.go: (*ClientStream).waitOnHeader  select { <-s.ctx.Done(); <-s.headerChan }
  internal/transport/transport.go    : (*recvBufferReader).readClient / readMessageHeaderClient
                                                                      select { <-r.ctxDone; m := <-r.recv.get() }
                                       ContextErr
  stream.go                          : newClientStream's watcher goroutine (non-unary only)
                                                                      select { <-cc.ctx.Done(); <-ctx.Done() } → cs.finish(toRPCErr(ctx.Err()))
                                       csAttempt.recvMsg, clientStream.RecvMsg / SendMsg
  internal/transport/http2_server.go : operateHeaders  context.WithTimeout(ctx, timeout) + timer → closeStream(RST_STREAM CANCEL)
                                       handleRSTStream → closeStream → s.cancel()

One RPC. The application goroutine is either parked in one of the five selects, or (streaming) back
in application code between two calls, or has returned a status code. Environment events make select
cases ready; `resume` runs the goroutine until it parks again. A `select` with several ready cases
picks any: the scheduler's choice is the explicit `preferCtx` argument.
-/
import GrpcModel.Generated.Deadline
import GrpcModel.Generated.Errors
import GrpcModel.Model.Timeout
namespace GrpcModel.Deadline
open GrpcModel.Generated

/-- `ctx.Err()` of a finished context. -/
inductive CtxErr | deadlineExceeded | canceled
deriving DecidableEq, Repr

/-- `ContextErr` / `toRPCErr` / `status.FromContextError` / the switch in `pick`: the status code of a context error. -/
def codeOfCtx : CtxErr → Nat
  | .deadlineExceeded => codeDeadlineExceeded
  | .canceled => codeCanceled

/-- The blocking points of the client path. -/
inductive Pos | pick | newStream | wquota | header | recv
deriving DecidableEq, Repr

/-- The cases of the `select` statements. -/
inductive Wake
  | ctxDone | pickerUpdate | streamQuota | goAway | transportDone | wqReplenish | streamDone | headerChan | recvItem
deriving DecidableEq, Repr

/-- The `select` set of each blocking point, in source order. -/
def selectSet : Pos → List Wake
  | .pick => [.ctxDone, .pickerUpdate]
  | .newStream => [.streamQuota, .ctxDone, .goAway, .transportDone]
  | .wquota => [.wqReplenish, .streamDone]
  | .header => [.ctxDone, .headerChan]
  | .recv => [.ctxDone, .recvItem]

/-- Entries of the stream's recvBuffer. -/
inductive Item
  | msg                 -- recvMsg{buffer}
  | err (code : Nat)    -- recvMsg{err: status / context error}
  | eof (code : Nat)    -- recvMsg{err: io.EOF} after trailers with this grpc-status
  | part                -- recvMsg{buffer}: a chunk holding a message's 5-byte header but not all of its payload
deriving DecidableEq, Repr

/-- The items that end a stream's buffer. -/
@[simp] def Item.terminal : Item → Bool
  | .err _ => true
  | .eof _ => true
  | _ => false

/-- Where the RPC goroutine is. -/
inductive PC
  | parked (p : Pos)
  | app                    -- streaming RPC: in application code between two calls
  | returned (code : Nat)  -- the call (unary) / the stream (streaming: final RecvMsg) returned this status
deriving DecidableEq, Repr

structure St where
  /-- the stream was created by the application through `ClientConn.NewStream` / `grpc.NewClientStream`
      (ANY StreamDesc, also one with neither ClientStreams nor ServerStreams) and is driven by the
      application's SendMsg / RecvMsg calls; `false` = `cc.Invoke` (desc == unaryStreamDesc), whose
      calls are made by grpc itself. newClientStream starts the context watcher iff this is true. -/
  streaming : Bool
  /-- `desc.ServerStreams` (false for Invoke): RecvMsg of a non-server-streaming RPC reads on after
      the message, expecting io.EOF. -/
  serverStreams : Bool := false
  pc : PC
  /-- `ctx.Err()`; `none` while the context is live -/
  ctx : Option CtxErr := none
  /-- the picker has a READY transport -/
  ready : Bool := false
  /-- `t.streamQuota` -/
  squota : Nat := 0
  /-- a stream exists on the transport (NewStream succeeded) -/
  created : Bool := false
  /-- `s.wq.quota` -/
  wq : Int := defaultWriteQuota
  /-- size of the message whose SendMsg is in progress / parked -/
  sendSz : Nat := 0
  /-- SendMsg calls completed or in progress -/
  sends : Nat := 0
  /-- `s.headerChan` closed -/
  hdr : Bool := false
  /-- `s.buf` -/
  buf : List Item := []
  /-- `s.done` closed (closeStream ran); once set, frames for the stream are dropped -/
  sdone : Bool := false
  /-- the client's closeStream put RST_STREAM(CANCEL) on the wire (`rst = err != nil` in `ClientStream.Close`) -/
  rstSent : Bool := false
  /-- the watcher goroutine of newClientStream is armed (non-unary RPCs, after stream creation) -/
  watcher : Bool := false
  /-- `cs.finished` with this status (set by cs.finish) -/
  finished : Option Nat := none
  /-- messages handed to the application -/
  delivered : Nat := 0
  /-- unary: the response message has been received (`cs.receivedFirstMsg`) -/
  gotMsg : Bool := false
  /-- the parser has read a message header (`readMessageHeaderClient`) and is reading that message's
      payload (`readClient`, the same select): parked at `recv` with this flag = parked in the middle
      of a message -/
  midMsg : Bool := false
deriving Repr

/-- A new RPC entering `newClientStream`; `reqSz` = size of a unary RPC's request message. -/
def St.init (streaming : Bool) (ready : Bool) (squota : Nat) (reqSz : Nat := 1) (serverStreams : Bool := streaming) : St :=
  { streaming := streaming, serverStreams := streaming && serverStreams, pc := .parked .pick, ready := ready,
    squota := squota, sendSz := reqSz }

/-- `closeStream(s, err, …)` on the client: first caller wins; writes the error to the END of the
    recv buffer, closes `s.done` and `headerChan`. -/
def closeStream (s : St) (code : Nat) : St :=
  if s.sdone then s else { s with sdone := true, rstSent := true, hdr := true, buf := s.buf ++ [.err code] }

/-- `cs.finish(err)`: first caller wins; closes the transport stream (RST_STREAM CANCEL when err ≠ nil). -/
def finish (s : St) (code : Nat) : St :=
  if s.finished.isSome then s else closeStream { s with finished := some code } code

/-- newClientStream starts the watcher goroutine for a non-unary RPC; if the context is already done
    it finishes the stream at once. -/
def armWatcher (s : St) : St :=
  match s.ctx with
  | some e => finish { s with watcher := true } (codeOfCtx e)
  | none => { s with watcher := true }

/-- The `<-r.ctxDone` case of `readClient`: close the stream with the context error (taken when it is
    the only ready case, or when the scheduler prefers it). -/
def recvClose (preferCtx : Bool) (s : St) : St :=
  match s.ctx with
  | some e => if s.buf.isEmpty || preferCtx then closeStream s (codeOfCtx e) else s
  | none => s

/-- `m := <-r.recv.get()` and what RecvMsg does with the HEAD of the buffer. -/
def takeHead (s : St) : Option St :=
  match s.buf with
  | [] => none
  | .msg :: rest =>
    if s.serverStreams then some { s with buf := rest, delivered := s.delivered + 1, midMsg := false, pc := .app }
    else if s.gotMsg then
      -- non-server-streaming: a second message where io.EOF was expected
      some { s with pc := .returned codeInternal }
    else
      -- unary RecvMsg: after the message it reads once more, expecting io.EOF
      some { s with buf := rest, delivered := s.delivered + 1, gotMsg := true, midMsg := false, pc := .parked .recv }
  | .err code :: _ => some { s with pc := .returned code }
  | .eof code :: _ =>
    -- io.EOF: the stream's status; a non-server-streaming RPC that got OK without a message is a cardinality violation
    if !s.serverStreams && !s.gotMsg && code == 0 then some { s with pc := .returned codeInternal }
    else some { s with pc := .returned code }
  | .part :: rest =>
    -- the header (and what there is of the payload) is consumed; the parser goes on to read the rest of
    -- the payload: parked again in the same select, now inside `readClient`
    some { s with buf := rest, midMsg := true, pc := .parked .recv }

/-- One attempt of the RPC goroutine to get past the select it is parked at (or to take the next
    step of the unary program). Returns `none` when no case is ready (stays parked).
    `preferCtx`: with both the context case and another case ready, which one `select` takes. -/
def wake (preferCtx : Bool) (s : St) : Option St :=
  match s.pc with
  | .parked .pick =>
    -- pickerWrapper.pick
    match s.ctx, s.ready with
    | some e, false => some { s with pc := .returned (codeOfCtx e) }
    | some e, true => if preferCtx then some { s with pc := .returned (codeOfCtx e) } else some { s with pc := .parked .newStream }
    | none, true => some { s with pc := .parked .newStream }
    | none, false => none
  | .parked .newStream =>
    -- http2Client.NewStream: quota check first (no select when quota is available)
    if s.squota > 0 then
      let s1 := { s with squota := s.squota - 1, created := true }
      if s.streaming then some (armWatcher { s1 with pc := .app })
      else
        -- unary: cs.SendMsg(req) (writeQuota.get with the initial quota), then cs.RecvMsg
        some { s1 with pc := .parked .wquota, sends := 1 }
    else match s.ctx with
      | some e => some { s with pc := .returned (codeOfCtx e) }   -- NewStreamError{ContextErr(ctx.Err())} → toRPCErr
      | none => none
  | .parked .wquota =>
    -- writeQuota.get
    if s.wq > 0 then
      let s1 := { s with wq := s.wq - s.sendSz }
      if s.streaming then some { s1 with pc := .app } else some { s1 with pc := .parked .header }
    else if s.sdone then
      -- errStreamDone → SendMsg returns io.EOF; the application then calls RecvMsg for the status
      -- (unary: invoke returns the SendMsg error only if it is not io.EOF, else goes on to RecvMsg)
      if s.streaming then some { s with pc := .app } else some { s with pc := .parked .recv }
    else none
  | .parked .header =>
    -- waitOnHeader
    match s.ctx, s.hdr with
    | some e, false => some { closeStream s (codeOfCtx e) with pc := .parked .recv }
    | some e, true => if preferCtx then some { closeStream s (codeOfCtx e) with pc := .parked .recv } else some { s with pc := .parked .recv }
    | none, true => some { s with pc := .parked .recv }
    | none, false => none
  | .parked .recv =>
    -- recvBufferReader.readClient: on ctxDone close the stream, then take the HEAD of the buffer
    takeHead (recvClose preferCtx s)
  | .app => none
  | .returned _ => none

/-- Run the goroutine until it parks (fuel = an upper bound on the steps; the program is a short
    straight line plus one step per buffered item). -/
def resume (preferCtx : Bool) : Nat → St → St
  | 0, s => s
  | fuel + 1, s => match wake preferCtx s with
    | none => s
    | some s' => resume preferCtx fuel s'

/-- Environment / application events. -/
inductive Ev
  | ctxFire (e : CtxErr)     -- the deadline passes or cancel() is called
  | pickerReady              -- a subchannel became READY
  | quotaAvail               -- a stream slot was freed (MAX_CONCURRENT_STREAMS)
  | replenish (n : Nat)      -- loopy wrote n bytes of this stream (needs flow-control window)
  | headers                  -- response headers arrived
  | message                  -- a response message arrived (or, in the middle of a message, the rest of it)
  | partialMsg               -- a DATA frame with a message header and only part of the payload arrived
  | trailers (code : Nat)    -- trailers with grpc-status arrived
  | appSend (sz : Nat)       -- streaming application calls SendMsg
  | appRecv                  -- streaming application calls RecvMsg
deriving DecidableEq, Repr

def fuelOf (s : St) : Nat := s.buf.length + 8

/-- One event followed by running the goroutine to quiescence. -/
def step (preferCtx : Bool) (s : St) : Ev → St
  | .ctxFire e =>
    match s.ctx with
    | some _ => s
    | none =>
      let s1 := { s with ctx := some e }
      -- the watcher goroutine (if armed): cs.finish(toRPCErr(ctx.Err()))
      let s2 := if s1.watcher then finish s1 (codeOfCtx e) else s1
      resume preferCtx (fuelOf s2) s2
  | .pickerReady => let s1 := { s with ready := true }; resume preferCtx (fuelOf s1) s1
  | .quotaAvail => let s1 := { s with squota := s.squota + 1 }; resume preferCtx (fuelOf s1) s1
  | .replenish n => let s1 := { s with wq := s.wq + n }; resume preferCtx (fuelOf s1) s1
  | .headers =>
    if s.sdone || !s.created then s else
    let s1 := { s with hdr := true }; resume preferCtx (fuelOf s1) s1
  | .message =>
    if s.sdone || !s.created then s else
    let s1 := { s with hdr := true, buf := s.buf ++ [.msg] }; resume preferCtx (fuelOf s1) s1
  | .partialMsg =>
    if s.sdone || !s.created then s else
    let s1 := { s with hdr := true, buf := s.buf ++ [.part] }; resume preferCtx (fuelOf s1) s1
  | .trailers code =>
    if s.sdone || !s.created then s else
    let s1 := { s with sdone := true, hdr := true, buf := s.buf ++ [.eof code] }; resume preferCtx (fuelOf s1) s1
  | .appSend sz =>
    match s.pc with
    | .app =>
      -- t.write: `s.getState() != streamActive → errStreamDone` (SendMsg returns io.EOF at once)
      if s.sdone then s else
      let s1 := { s with pc := .parked .wquota, sendSz := sz, sends := s.sends + 1 }; resume preferCtx (fuelOf s1) s1
    | _ => s
  | .appRecv =>
    match s.pc with
    | .app => let s1 := { s with pc := if s.hdr then .parked .recv else .parked .header }; resume preferCtx (fuelOf s1) s1
    | _ => s

/-- Run a list of events; `pref k` is the scheduler's choice for the k-th event. -/
def run (pref : Nat → Bool) : Nat → St → List Ev → St
  | _, s, [] => s
  | k, s, e :: es => run pref (k + 1) (step (pref k) s e) es

/-! ### Deadline on the wire and on the server -/

/-- `createHeaderFields`: `timeout := time.Until(dl); if timeout <= 0 → DEADLINE_EXCEEDED`, else the
    grpc-timeout header bytes. -/
def timeoutHeader (now deadline : Nat) : Except Nat (List UInt8) :=
  if deadline ≤ now then .error codeDeadlineExceeded
  else .ok (Timeout.encodeBytes (Int.ofNat (deadline - now)))

/-- `operateHeaders`: the handler's context deadline = arrival instant + decodeTimeout(header). -/
def serverDeadline (arrival : Nat) (hdr : List UInt8) : Option Nat :=
  (Timeout.decodeBytes hdr).map (arrival + ·)

/-- The server stream's context. -/
structure Srv where
  now : Nat
  deadline : Option Nat
  /-- `s.ctx.Err()` -/
  err : Option CtxErr := none
  /-- the stream is in `activeStreams` -/
  active : Bool := true
deriving Repr, DecidableEq

inductive SEv
  | delay (d : Nat)     -- time passes (cannot pass the deadline without `expire`)
  | expire              -- the deadline timers fire: ctx → DeadlineExceeded, closeStream(RST_STREAM CANCEL)
  | rst                 -- RST_STREAM from the client: handleRSTStream → closeStream → s.cancel()
  | finish              -- the handler returned: WriteStatus → s.cancel()
deriving Repr, DecidableEq

def SEv.ok (s : Srv) : SEv → Bool
  | .delay d => match s.deadline with
    | some dl => s.err.isSome || decide (s.now + d ≤ dl)
    | none => true
  | .expire => s.err.isNone && s.deadline == some s.now
  | _ => true

def sstep (s : Srv) : SEv → Srv
  | .delay d => { s with now := s.now + d }
  | .expire => if s.err.isSome then s else { s with err := some .deadlineExceeded, active := false }
  | .rst => if s.err.isSome then { s with active := false } else { s with err := some .canceled, active := false }
  | .finish => if s.err.isSome then { s with active := false } else { s with err := some .canceled, active := false }

def srun : Srv → List SEv → Srv
  | s, [] => s
  | s, e :: es => srun (sstep s e) es

def SValid : Srv → List SEv → Bool
  | _, [] => true
  | s, e :: es => e.ok s && SValid (sstep s e) es

end GrpcModel.Deadline
