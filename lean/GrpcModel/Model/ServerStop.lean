/-
Behavioural model of a grpc.Server with MaxConcurrentStreams(cap), its connections, the handlers
it runs and Stop / GracefulStop (C25):

  server.go : Serve / handleRawConn / serveStreams (handlersWG.Add; streamQuota.acquire; go handler;
              release; handlersWG.Done), addConn / removeConn, stop(graceful):
              closeListeners → serveWG.Wait → drainAll | closeAll → wait until s.conns is empty →
              (graceful ∨ waitForHandlers) handlersWG.Wait
  internal/transport/http2_server.go : HandleStreams reads frames in order and calls the stream
              callback synchronously (so a callback blocked in acquire() stalls the connection's
              reader), RST_STREAM cancels the stream's context, Drain = GOAWAY, Close cancels all.

Granularity: one external event, then run to quiescence (tie T2). Per connection the model keeps the
frames the client has sent and the server's reader has not read yet (`fifo`), the stream whose
callback is parked in the handler quota (`blocked`), and the handlers that are running.
The handler quota itself is proved at the grain of its atomic operations in Model/Semaphore.lean;
here it appears as "a stream is dispatched only while fewer than cap handlers of its connection run".
-/
namespace GrpcModel.ServerStop

inductive Ev
  | arrive (r : Nat)    -- HEADERS of RPC r
  | reset (r : Nat)     -- RST_STREAM (the client cancelled r)
deriving DecidableEq, Repr

structure Conn where
  id : Nat
  usable : Bool            -- client side: new streams can be started on it
  srvAlive : Bool          -- server side: still in s.conns (serveStreams has not returned)
  fifo : List Ev           -- sent by the client, not yet read by the server's reader
  blocked : Option Nat     -- stream whose HandleStreams callback waits in streamQuota.acquire()
  active : List Nat        -- server side: streams of the transport that are not finished/reset
  cliActive : Nat          -- client side: open streams (counted against MAX_CONCURRENT_STREAMS)
  cliWaiting : List Nat    -- client side: RPCs waiting for stream quota
  raw : Bool := false      -- the peer is not a grpc-go client: it ignores GOAWAY (or its frames cross it)
  draining : Bool := false -- server side: the FINAL GOAWAY of GracefulStop was written (state draining):
                           -- HEADERS read from now on are ignored (operateHeaders: `t.state != reachable`)
deriving DecidableEq, Repr

structure Rpc where
  id : Nat
  conn : Nat
  sent : Bool              -- HEADERS went out
  cli : Option Nat         -- status code the client has seen (none = still open)
  entered : Bool           -- the handler was entered
  running : Bool           -- … and has not returned
  ctxCancelled : Bool      -- the handler's context is cancelled
  whileServing : Bool      -- ghost: started before Stop/GracefulStop was called
deriving DecidableEq, Repr

inductive Phase | serving | graceful | hard
deriving DecidableEq, Repr

structure St where
  cap : Nat
  waitHandlers : Bool      -- grpc.WaitForHandlers(true)
  phase : Phase
  returned : Bool          -- Stop/GracefulStop has returned
  conns : List Conn
  rpcs : List Rpc
  run : List (Nat × Nat)   -- (rpc, connection) of the handlers entered and not returned, in entry order
deriving DecidableEq, Repr

def init (cap : Nat) (wait : Bool) : St := ⟨cap, wait, .serving, false, [], [], []⟩

def codeCancelled : Nat := 1
def codeUnavailable : Nat := 14

/-! ### access -/

def getConn (s : St) (c : Nat) : Option Conn := s.conns.find? (·.id = c)
def getRpc (s : St) (r : Nat) : Option Rpc := s.rpcs.find? (·.id = r)

def updConn (s : St) (c : Nat) (f : Conn → Conn) : St :=
  { s with conns := s.conns.map fun x => if x.id = c then f x else x }
def updRpc (s : St) (r : Nat) (f : Rpc → Rpc) : St :=
  { s with rpcs := s.rpcs.map fun x => if x.id = r then f x else x }

def rpcConn (s : St) (r : Nat) : Nat := match getRpc s r with | some x => x.conn | none => 0

/-- handlers of connection c that are running -/
def runningOn (s : St) (c : Nat) : List (Nat × Nat) := s.run.filter fun x => x.2 = c

/-! ### the server's reader -/

/-- the handler of r (a stream of connection c) is entered: a goroutine is started for it -/
def enter (s : St) (c r : Nat) : St :=
  let s := updRpc s r fun x => { x with entered := true, running := true }
  { s with run := s.run ++ [(r, c)] }

/-- The reader of connection c runs until it blocks: a parked callback proceeds when a slot is free;
    HEADERS dispatch a handler or park in the quota; RST_STREAM cancels the stream's context. -/
def pump : Nat → St → Nat → St
  | 0, s, _ => s
  | fuel + 1, s, c =>
    match getConn s c with
    | none => s
    | some conn =>
      match conn.blocked with
      | some r =>
        if (runningOn s c).length < s.cap then
          pump fuel (enter (updConn s c fun x => { x with blocked := none }) c r) c
        else s
      | none =>
        match conn.fifo with
        | [] => s
        | .arrive r :: rest =>
          if conn.draining then
            -- arrived after the final GOAWAY: no stream is created, no handler runs
            pump fuel (updConn s c fun x => { x with fifo := rest }) c
          else
          let s := updConn s c fun x => { x with fifo := rest, active := x.active ++ [r] }
          if (runningOn s c).length < s.cap then pump fuel (enter s c r) c
          else updConn s c fun x => { x with blocked := some r }
        | .reset r :: rest =>
          let s := updConn s c fun x => { x with fifo := rest, active := x.active.erase r }
          pump fuel (updRpc s r fun x => { x with ctxCancelled := true }) c

def pumpConn (s : St) (c : Nat) : St :=
  match getConn s c with
  | some conn => pump (conn.fifo.length + 2) s c
  | none => s

/-! ### the client -/

/-- HEADERS of r go out on c -/
def send (s : St) (c r : Nat) : St :=
  let s := updRpc s r fun x => { x with sent := true }
  let s := updConn s c fun x => { x with cliActive := x.cliActive + 1, fifo := x.fifo ++ [.arrive r] }
  pumpConn s c

/-- a stream ended on the client side: one waiting RPC (if any) gets the quota -/
def wakeWaiter (s : St) (c : Nat) : St :=
  match getConn s c with
  | some conn =>
    match conn.cliWaiting with
    | r :: rest =>
      if conn.usable ∧ conn.cliActive < s.cap then
        send (updConn s c fun x => { x with cliWaiting := rest }) c r
      else s
    | [] => s
  | none => s

/-! ### Stop / GracefulStop bookkeeping -/

/-- connections leave s.conns: graceful — when no stream is active; hard — at once; in both cases
    only when the reader is not parked in the quota. Then the stop call returns when s.conns is
    empty and (graceful or WaitForHandlers) no handler is left. -/
def settleStop (s : St) : St :=
  match s.phase with
  | .serving => s
  | ph =>
    let conns := s.conns.map fun x =>
      if x.srvAlive ∧ x.blocked.isNone ∧ (ph = .hard ∨ x.active.isEmpty) then { x with srvAlive := false } else x
    let s := { s with conns := conns }
    let connsGone := s.conns.all fun x => !x.srvAlive
    let handlersGone := s.run.isEmpty && s.conns.all fun x => x.blocked.isNone
    let needHandlers := ph = .graceful ∨ s.waitHandlers
    { s with returned := s.returned || (connsGone && (!needHandlers || handlersGone)) }

/-! ### operations (each followed by quiescence) -/

def dial (s : St) (c : Nat) : St :=
  if (getConn s c).isSome then s else
  let up := s.phase = .serving
  { s with conns := s.conns ++ [⟨c, up, up, [], none, [], 0, [], false, !up⟩] }

/-- a raw HTTP/2 peer connects (after a stop call the listener is closed: the connection is dead) -/
def rawdial (s : St) (c : Nat) : St :=
  if (getConn s c).isSome then s else
  let up := s.phase = .serving
  { s with conns := s.conns ++ [⟨c, false, up, [], none, [], 0, [], true, !up⟩] }

/-- the raw peer opens a stream whatever the server announced: HEADERS go out unless the connection is gone -/
def rawstart (s : St) (c r : Nat) : St :=
  match getConn s c with
  | none => s
  | some conn =>
    if (getRpc s r).isSome ∨ !conn.raw then s else
    let s := { s with rpcs := s.rpcs ++ [⟨r, c, false, none, false, false, false, s.phase = .serving⟩] }
    if !conn.srvAlive then updRpc s r fun x => { x with cli := some codeUnavailable }
    else settleStop (send s c r)

def start (s : St) (c r : Nat) : St :=
  match getConn s c with
  | none => s
  | some conn =>
    if (getRpc s r).isSome then s else
    let s := { s with rpcs := s.rpcs ++ [⟨r, c, false, none, false, false, false, s.phase = .serving⟩] }
    if !conn.usable then updRpc s r fun x => { x with cli := some codeUnavailable }
    else if conn.cliActive ≥ s.cap then updConn s c fun x => { x with cliWaiting := x.cliWaiting ++ [r] }
    else send s c r

def cancel (s : St) (r : Nat) : St :=
  match getRpc s r with
  | none => s
  | some x =>
    if x.cli.isSome then s else
    let s := updRpc s r fun y => { y with cli := some codeCancelled }
    if x.sent then
      let s := updConn s x.conn fun y => { y with cliActive := y.cliActive - 1, fifo := y.fifo ++ [.reset r] }
      settleStop (wakeWaiter (pumpConn s x.conn) x.conn)
    else
      updConn s x.conn fun y => { y with cliWaiting := y.cliWaiting.erase r }

/-- the handler of r returns status `code` -/
def finish (s : St) (r : Nat) (code : Nat) : St :=
  match getRpc s r with
  | none => s
  | some x =>
    if !x.running then s else
    let s := { s with run := s.run.filter fun y => y.1 ≠ r }
    let s := updRpc s r fun y => { y with running := false }
    let s :=
      if !x.ctxCancelled ∧ x.cli.isNone then
        let s := updRpc s r fun y => { y with cli := some code }
        updConn s x.conn fun y => { y with cliActive := y.cliActive - 1, active := y.active.erase r }
      else s
    settleStop (wakeWaiter (pumpConn s x.conn) x.conn)

/-- every RPC that waits for client stream quota on a connection that went away fails UNAVAILABLE -/
def failWaiters (s : St) : St :=
  let waiting := s.conns.flatMap (·.cliWaiting)
  let s := { s with rpcs := s.rpcs.map fun (x : Rpc) => if waiting.contains x.id ∧ x.cli.isNone then { x with cli := some codeUnavailable } else x }
  { s with conns := s.conns.map fun (x : Conn) => { x with cliWaiting := [] } }

def gstop (s : St) : St :=
  if s.phase ≠ .serving then s else
  let s := { s with phase := .graceful, conns := s.conns.map fun (x : Conn) => { x with usable := false, draining := true } }
  settleStop (failWaiters s)

def stop (s : St) : St :=
  if s.phase = .hard then s else
  let s := { s with phase := .hard, returned := false }
  -- every transport is closed: unread frames are lost, every stream's context is cancelled,
  -- the clients see their open RPCs fail
  let s := { s with conns := s.conns.map fun (x : Conn) => { x with usable := false, fifo := [], active := [], cliActive := 0 } }
  let s := failWaiters s
  let s := { s with rpcs := s.rpcs.map fun (x : Rpc) =>
      { x with cli := if x.cli.isNone ∧ x.sent then some codeUnavailable else x.cli,
               ctxCancelled := x.ctxCancelled || x.sent } }
  settleStop s

/-! ### the operations as a datatype (theorems quantify over op sequences) -/

inductive Op
  | dial (c : Nat) | start (c r : Nat) | cancel (r : Nat) | finish (r code : Nat) | gstop | stop
  | rawdial (c : Nat) | rawstart (c r : Nat)
deriving DecidableEq, Repr

def apply (s : St) : Op → St
  | .dial c => dial s c
  | .start c r => start s c r
  | .cancel r => cancel s r
  | .finish r code => finish s r code
  | .gstop => gstop s
  | .stop => stop s
  | .rawdial c => rawdial s c
  | .rawstart c r => rawstart s c r

def runOps (s : St) (ops : List Op) : St := ops.foldl apply s

end GrpcModel.ServerStop
