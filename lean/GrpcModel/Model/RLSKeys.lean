/-
Model of balancer/rls/internal/keys/builder.go: MakeBuilderMap, BuilderMap.RLSKey,
builder.buildHeaderKeys, mapToString.  Go strings are byte strings: `Str = List UInt8`.
Go maps are association lists written with `put` (replace or append), read with `mget`;
every result that leaves the model is sorted by key, as the harness does with the real maps.
`metadata.MD.Get(k)` looks up `strings.ToLower(k)`: modelled for ASCII names.
-/
namespace GrpcModel.RLSKeys

abbrev Str := List UInt8

def slash : UInt8 := 47   -- '/'
def comma : UInt8 := 44   -- ','
def eqs   : UInt8 := 61   -- '='

/-- Go map read / write on an association list -/
def mget (m : List (Str × Str)) (k : Str) : Option Str := (m.find? (·.1 = k)).map (·.2)

def put : List (Str × Str) → Str → Str → List (Str × Str)
  | [], k, v => [(k, v)]
  | (k', v') :: t, k, v => if k' = k then (k, v) :: t else (k', v') :: put t k v

/-- bytewise lexicographic `<` (Go string comparison) -/
def ltB : Str → Str → Bool
  | [], [] => false
  | [], _ :: _ => true
  | _ :: _, [] => false
  | a :: s, b :: t => a < b || (a == b && ltB s t)

def insertSorted (x : Str × Str) : List (Str × Str) → List (Str × Str)
  | [] => [x]
  | y :: ys => if ltB y.1 x.1 then y :: insertSorted x ys else x :: y :: ys

/-- sort.Strings(keys) applied to a map's entries -/
def sortKV (m : List (Str × Str)) : List (Str × Str) := m.foldl (fun acc x => insertSorted x acc) []

/-- strings.Join -/
def join (sep : Str) : List Str → Str
  | [] => []
  | [a] => a
  | a :: b :: t => a ++ sep ++ join sep (b :: t)

/-- mapToString: keys sorted, `k=v` joined by `,` -/
def mapToString (kv : List (Str × Str)) : Str :=
  join [comma] ((sortKV kv).map fun p => p.1 ++ [eqs] ++ p.2)

structure Matcher where
  key : Str
  names : List Str
deriving Repr, DecidableEq

structure Builder where
  headerKeys : List Matcher
  constantKeys : List (Str × Str)
  hostKey : Str
  serviceKey : Str
  methodKey : Str
deriving Repr, DecidableEq

/-! ### the RouteLookupConfig proto, as far as MakeBuilderMap reads it -/
structure NameP where
  service : Str
  method : Str
deriving Repr, DecidableEq

structure HeaderP where
  key : Str
  names : List Str
  requiredMatch : Bool
deriving Repr, DecidableEq

structure KB where
  names : List NameP
  headers : List HeaderP
  constantKeys : List (Str × Str)
  host : Str
  service : Str
  method : Str
deriving Repr, DecidableEq

/-- the `for _, h := range kb.GetHeaders()` loop: (seenKeys, matchers) or error -/
def headersLoop : List HeaderP → List Str → List Matcher → Option (List Str × List Matcher)
  | [], seen, ms => some (seen, ms)
  | h :: t, seen, ms =>
    if h.requiredMatch then none
    else if seen.contains h.key then none
    else headersLoop t (h.key :: seen) (ms ++ [{ key := h.key, names := h.names }])

/-- the `for _, name := range names` loop -/
def namesLoop (b : Builder) : List NameP → List (Str × Builder) → Option (List (Str × Builder))
  | [], bm => some bm
  | n :: t, bm =>
    if n.service = [] then none
    else if n.method.contains slash then none
    else
      let path := [slash] ++ n.service ++ [slash] ++ n.method
      if bm.any (·.1 = path) then none
      else namesLoop b t (bm ++ [(path, b)])

def kbLoop : List KB → List (Str × Builder) → Option (List (Str × Builder))
  | [], bm => some bm
  | kb :: t, bm =>
    match headersLoop kb.headers (kb.constantKeys.map (·.1)) [] with
    | none => none
    | some (seen, ms) =>
      if seen.contains kb.host then none
      else if seen.contains kb.service then none
      else if seen.contains kb.method then none
      else if kb.names = [] then none
      else
        match namesLoop { headerKeys := ms, constantKeys := kb.constantKeys, hostKey := kb.host,
                          serviceKey := kb.service, methodKey := kb.method } kb.names bm with
        | none => none
        | some bm' => kbLoop t bm'

/-- MakeBuilderMap: `none` = error -/
def makeBuilderMap (kbs : List KB) : Option (List (Str × Builder)) :=
  if kbs = [] then none else kbLoop kbs []

def lowerB (b : UInt8) : UInt8 := if 65 ≤ b ∧ b ≤ 90 then b + 32 else b

/-- md.Get(name): `md[strings.ToLower(name)]` -/
def mdGet (md : List (Str × List Str)) (name : Str) : Option (List Str) :=
  (md.find? (·.1 = name.map lowerB)).map (·.2)

/-- the inner loop of buildHeaderKeys: first name that is present -/
def firstPresent (md : List (Str × List Str)) : List Str → Option (List Str)
  | [] => none
  | n :: t => match mdGet md n with
    | some vals => some vals
    | none => firstPresent md t

/-- body of buildHeaderKeys' outer loop for one matcher -/
def headerStep (md : List (Str × List Str)) (kv : List (Str × Str)) (m : Matcher) : List (Str × Str) :=
  match firstPresent md m.names with
  | some vals => put kv m.key (join [comma] vals)
  | none => kv

/-- `for k, v := range b.constantKeys { kvMap[k] = v }` -/
def constStep (kv : List (Str × Str)) (c : Str × Str) : List (Str × Str) := put kv c.1 c.2

def buildHeaderKeys (b : Builder) (md : List (Str × List Str)) : List (Str × Str) :=
  if md = [] then [] else b.headerKeys.foldl (headerStep md) []

/-- strings.LastIndex(path, "/") + 1 (0 when there is no slash) -/
def afterLastSlash (p : Str) : Nat :=
  (List.range p.length).foldl (fun acc i => if p[i]? = some slash then i + 1 else acc) 0

/-- strings.Trim(s, "/") -/
def trimSlash (s : Str) : Str :=
  ((s.dropWhile (· = slash)).reverse.dropWhile (· = slash)).reverse

/-- RLSKey: `none` = KeyMap{} (no builder for the path) -/
def rlsKey (bm : List (Str × Builder)) (md : List (Str × List Str)) (host path : Str) :
    Option (List (Str × Str)) :=
  let i := afterLastSlash path
  let service := path.take i
  let method := path.drop i
  let look (p : Str) : Option Builder := (bm.find? (·.1 = p)).map (·.2)
  match (look path).orElse (fun _ => look service) with
  | none => none
  | some b =>
    let kv := buildHeaderKeys b md
    let kv := if b.hostKey ≠ [] then put kv b.hostKey host else kv
    let kv := if b.serviceKey ≠ [] then put kv b.serviceKey (trimSlash service) else kv
    let kv := if b.methodKey ≠ [] then put kv b.methodKey method else kv
    some (b.constantKeys.foldl constStep kv)

end GrpcModel.RLSKeys

namespace GrpcModel.RLSKeys

/-! ### the statement's reading of "the RLS key for a request", as a lookup function -/

/-- value contributed by the header key builders for key `k`: of the matchers carrying key `k` that
    have a header present in `md`, the last one (MakeBuilderMap rejects repeated keys, so there is
    at most one), with the comma-joined values of its FIRST present header name -/
def headerSpec (md : List (Str × List Str)) : List Matcher → Str → Option Str
  | [], _ => none
  | m :: t, k =>
    (headerSpec md t k).orElse fun _ =>
      if m.key = k then (firstPresent md m.names).map (join [comma]) else none

/-- constant keys: the last assignment wins (a proto map has unique keys) -/
def constSpec : List (Str × Str) → Str → Option Str
  | [], _ => none
  | c :: t, k => (constSpec t k).orElse fun _ => if c.1 = k then some c.2 else none

/-- the RLS key map of a request handled by builder `b`, as a function of the key -/
def keySpec (b : Builder) (md : List (Str × List Str)) (host service method : Str) (k : Str) : Option Str :=
  (constSpec b.constantKeys k).orElse fun _ =>
  if b.methodKey ≠ [] ∧ b.methodKey = k then some method
  else if b.serviceKey ≠ [] ∧ b.serviceKey = k then some (trimSlash service)
  else if b.hostKey ≠ [] ∧ b.hostKey = k then some host
  else if md = [] then none
  else headerSpec md b.headerKeys k

/-- which builder serves `path`: exact path first, then "/service/" -/
def findBuilder (bm : List (Str × Builder)) (path : Str) : Option Builder :=
  let look (p : Str) : Option Builder := (bm.find? (·.1 = p)).map (·.2)
  (look path).orElse fun _ => look (path.take (afterLastSlash path))

end GrpcModel.RLSKeys
