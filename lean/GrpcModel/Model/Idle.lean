/-
Model of internal/idle/idle.go (idle.Manager) at the grain of individual shared-memory
accesses: every `atomic.*` call, every acquisition of `idleMu`, and each stretch of code that
runs under `idleMu` between two atomics is ONE rule.  Threads are anonymous: the state counts
how many goroutines sit at each program point (counting abstraction), so every theorem about
this transition system holds for ANY number of concurrent RPCs, timer callbacks (a stopped
timer's callback may still be running when the next one fires), Connect calls and Close.

Program points (a goroutine is *at* a point when the access named there is its next action):

  OnCallBegin        b1  : AddInt32(&activeCallsCount, 1)            (isClosed() was false)
                     b2f : StoreInt32(&activeSinceLastTimerCheck, 1)  (fast path, Add > 0)
                     x0  : idleMu.Lock() in ExitIdleMode              (slow path, Add <= 0)
                     b2s : StoreInt32(&activeSinceLastTimerCheck, 1)  (after ExitIdleMode)
                     inCall : OnCallBegin has returned, OnCallEnd not yet called
  OnCallEnd          e1  : StoreInt64(&lastCallEndTime)               (isClosed() was false)
                     e2  : AddInt32(&activeCallsCount, -1)
  ExitIdleMode, under idleMu (`holder`):
                     xr1/xc1 : isClosed() load, then the actuallyIdle test (r = from OnCallBegin, c = from Connect)
                     xrcb/xccb : inside the cc.ExitIdleMode() callback (the channel is leaving idle mode)
                     xr2/xc2 : cc.ExitIdleMode() has returned; AddInt32(+MaxInt32); actuallyIdle = false
                     xr3/xc3 : isClosed() load in resetIdleTimerLocked; unlock
  handleIdleTimeout  h1  : LoadInt32(&activeCallsCount)               (isClosed() was false)
                     h2  : LoadInt32(&activeSinceLastTimerCheck)
                     h3  : StoreInt32(&activeSinceLastTimerCheck, 0)
                     h4  : LoadInt64(&lastCallEndTime)
                     r0  : idleMu.Lock() in resetIdleTimer;  r1 (holder): isClosed() load; unlock
  tryEnterIdleMode   t0  : CompareAndSwapInt32(&activeCallsCount, 0, -MaxInt32)
                     t1  : idleMu.Lock()
                     t2  (holder): LoadInt32(&activeCallsCount)
                     t2u (holder): AddInt32(+MaxInt32) undo; unlock
                     t3  (holder): LoadInt32(&activeSinceLastTimerCheck); on 0 → t3cb
                     t3cb (holder): inside the cc.EnterIdleMode() callback; then actuallyIdle = true; unlock
                     t3u (holder): AddInt32(+MaxInt32) undo; unlock
  Close              StoreInt32(&closed, 1) (the timer bookkeeping under idleMu touches nothing modelled)

`off` is a ghost flag: the -MaxInt32 offset is currently applied to activeCallsCount.
`z` is a ghost counter: RPCs whose OnCallEnd saw closed and therefore never decremented.
Not modelled: whether a timer is armed (timer callbacks may start at any time, which only adds
behaviours), UnsafeSetNotIdle / EnterIdleModeForTesting (documented caller contracts).
-/
namespace GrpcModel.Idle

/-- math.MaxInt32 -/
def M : Int := 2147483647

/-- who holds idleMu, and where -/
inductive Holder | free | xr1 | xrcb | xr2 | xr3 | xc1 | xccb | xc2 | xc3 | t2 | t2u | t3 | t3cb | t3u | r1
deriving DecidableEq, Repr, Inhabited

structure St where
  cnt    : Int     -- activeCallsCount
  act    : Bool    -- activeSinceLastTimerCheck
  idle   : Bool    -- actuallyIdle (guarded by idleMu)
  closed : Bool
  holder : Holder  -- idleMu
  off    : Bool    -- ghost
  b1 : Nat
  b2f : Nat
  x0 : Nat
  b2s : Nat
  inCall : Nat
  e1 : Nat
  e2 : Nat
  z : Nat          -- ghost
  h1 : Nat
  h2 : Nat
  h3 : Nat
  h4 : Nat
  t0 : Nat
  t1 : Nat
  r0 : Nat
  enters : Nat     -- cc.EnterIdleMode() calls so far
  exits  : Nat     -- cc.ExitIdleMode() calls so far
deriving Repr, DecidableEq, Inhabited

/-- NewManager: starts idle with the offset applied. -/
def init : St :=
  { cnt := -M, act := false, idle := true, closed := false, holder := .free, off := true,
    b1 := 0, b2f := 0, x0 := 0, b2s := 0, inCall := 0, e1 := 0, e2 := 0, z := 0,
    h1 := 0, h2 := 0, h3 := 0, h4 := 0, t0 := 0, t1 := 0, r0 := 0, enters := 0, exits := 0 }

/-- goroutines that have added 1 to activeCallsCount and not (yet) subtracted it -/
def St.counted (s : St) : Int :=
  (s.b2f + s.x0 + s.b2s + s.inCall + s.e1 + s.e2 + s.z : Nat) +
  (if s.holder = .xr1 ∨ s.holder = .xrcb ∨ s.holder = .xr2 ∨ s.holder = .xr3 then 1 else 0)

inductive Rule
  | beginCheck      -- OnCallBegin: isClosed() = false                    → b1
  | beginAddFast    -- b1: Add(+1) > 0                                      → b2f
  | beginAddSlow    -- b1: Add(+1) <= 0                                     → x0
  | beginStoreFast  -- b2f: Store(act,1); return                            → inCall
  | exitLockR       -- x0: idleMu.Lock()                                    → xr1
  | exitCheckClosedR   -- xr1: isClosed() = true; unlock                    → b2s
  | exitCheckNotIdleR  -- xr1: not closed, !actuallyIdle; unlock            → b2s
  | exitCheckIdleR     -- xr1: not closed, actuallyIdle; enters cc.ExitIdleMode() → xrcb
  | exitCbDoneR        -- xrcb: cc.ExitIdleMode() returns                    → xr2
  | exitAddR        -- xr2: Add(+M); actuallyIdle = false                   → xr3
  | exitResetR      -- xr3: isClosed() load (timer re-arm); unlock          → b2s
  | beginStoreSlow  -- b2s: Store(act,1); return                            → inCall
  | connectLock     -- Connect → ExitIdleMode: idleMu.Lock()                → xc1
  | exitCheckClosedC | exitCheckNotIdleC | exitCheckIdleC | exitCbDoneC | exitAddC | exitResetC
  | endCheckOpen    -- OnCallEnd: isClosed() = false                        inCall → e1
  | endCheckClosed  -- OnCallEnd: isClosed() = true; return                 inCall → (z)
  | endStoreTime    -- e1: Store(lastCallEndTime)                           → e2
  | endAdd          -- e2: Add(-1)
  | timerCheck      -- handleIdleTimeout: isClosed() = false                → h1
  | timerLoadBusy   -- h1: cnt > 0 → resetIdleTimer                         → r0
  | timerLoadFree   -- h1: cnt <= 0                                         → h2
  | timerActYes     -- h2: act = 1                                          → h3
  | timerActNo      -- h2: act = 0 → tryEnterIdleMode                       → t0
  | timerStoreAct   -- h3: Store(act,0)                                     → h4
  | timerLoadTime   -- h4: Load(lastCallEndTime) → resetIdleTimer           → r0
  | casOk           -- t0: CAS(0 → -M) succeeds                             → t1
  | casFail         -- t0: CAS fails → resetIdleTimer                       → r0
  | tryLock         -- t1: idleMu.Lock()                                    → t2
  | tryLoadLost     -- t2: cnt ≠ -M                                         → t2u
  | tryLoadOk       -- t2: cnt = -M                                         → t3
  | tryUndo2        -- t2u: Add(+M); unlock → resetIdleTimer                → r0
  | tryActYes       -- t3: act = 1                                          → t3u
  | tryEnter        -- t3: act = 0; enters cc.EnterIdleMode()                → t3cb
  | tryEnterDone    -- t3cb: cc.EnterIdleMode() returns; actuallyIdle = true; unlock
  | tryUndo3        -- t3u: Add(+M); unlock → resetIdleTimer                → r0
  | resetLock       -- r0: idleMu.Lock()                                    → r1
  | resetDone       -- r1: isClosed() load (timer re-arm); unlock
  | close           -- Close: Store(closed,1)
deriving DecidableEq, Repr

/-- One atomic step; `none` when the rule is not enabled in `s`.  The int32 range of the counter
    is the explicit guard `counted + 1 < M` on the two Add(+1) rules (fewer than 2^31-1 RPCs). -/
def apply (s : St) : Rule → Option St
  | .beginCheck => if s.closed = false then some { s with b1 := s.b1 + 1 } else none
  | .beginAddFast =>
    if s.b1 > 0 ∧ s.cnt + 1 > 0 ∧ s.counted + 1 < M then
      some { s with b1 := s.b1 - 1, cnt := s.cnt + 1, b2f := s.b2f + 1 } else none
  | .beginAddSlow =>
    if s.b1 > 0 ∧ ¬ (s.cnt + 1 > 0) ∧ s.counted + 1 < M then
      some { s with b1 := s.b1 - 1, cnt := s.cnt + 1, x0 := s.x0 + 1 } else none
  | .beginStoreFast =>
    if s.b2f > 0 then some { s with b2f := s.b2f - 1, act := true, inCall := s.inCall + 1 } else none
  | .exitLockR =>
    if s.x0 > 0 ∧ s.holder = .free then some { s with x0 := s.x0 - 1, holder := .xr1 } else none
  | .exitCheckClosedR =>
    if s.holder = .xr1 ∧ s.closed = true then some { s with holder := .free, b2s := s.b2s + 1 } else none
  | .exitCheckNotIdleR =>
    if s.holder = .xr1 ∧ s.closed = false ∧ s.idle = false then
      some { s with holder := .free, b2s := s.b2s + 1 } else none
  | .exitCheckIdleR =>
    if s.holder = .xr1 ∧ s.closed = false ∧ s.idle = true then
      some { s with holder := .xrcb, exits := s.exits + 1 } else none
  | .exitCbDoneR => if s.holder = .xrcb then some { s with holder := .xr2 } else none
  | .exitAddR =>
    if s.holder = .xr2 then some { s with holder := .xr3, cnt := s.cnt + M, idle := false, off := false } else none
  | .exitResetR =>
    if s.holder = .xr3 then some { s with holder := .free, b2s := s.b2s + 1 } else none
  | .beginStoreSlow =>
    if s.b2s > 0 then some { s with b2s := s.b2s - 1, act := true, inCall := s.inCall + 1 } else none
  | .connectLock => if s.holder = .free then some { s with holder := .xc1 } else none
  | .exitCheckClosedC =>
    if s.holder = .xc1 ∧ s.closed = true then some { s with holder := .free } else none
  | .exitCheckNotIdleC =>
    if s.holder = .xc1 ∧ s.closed = false ∧ s.idle = false then some { s with holder := .free } else none
  | .exitCheckIdleC =>
    if s.holder = .xc1 ∧ s.closed = false ∧ s.idle = true then
      some { s with holder := .xccb, exits := s.exits + 1 } else none
  | .exitCbDoneC => if s.holder = .xccb then some { s with holder := .xc2 } else none
  | .exitAddC =>
    if s.holder = .xc2 then some { s with holder := .xc3, cnt := s.cnt + M, idle := false, off := false } else none
  | .exitResetC => if s.holder = .xc3 then some { s with holder := .free } else none
  | .endCheckOpen =>
    if s.inCall > 0 ∧ s.closed = false then some { s with inCall := s.inCall - 1, e1 := s.e1 + 1 } else none
  | .endCheckClosed =>
    if s.inCall > 0 ∧ s.closed = true then some { s with inCall := s.inCall - 1, z := s.z + 1 } else none
  | .endStoreTime => if s.e1 > 0 then some { s with e1 := s.e1 - 1, e2 := s.e2 + 1 } else none
  | .endAdd => if s.e2 > 0 then some { s with e2 := s.e2 - 1, cnt := s.cnt - 1 } else none
  | .timerCheck => if s.closed = false then some { s with h1 := s.h1 + 1 } else none
  | .timerLoadBusy => if s.h1 > 0 ∧ s.cnt > 0 then some { s with h1 := s.h1 - 1, r0 := s.r0 + 1 } else none
  | .timerLoadFree => if s.h1 > 0 ∧ ¬ s.cnt > 0 then some { s with h1 := s.h1 - 1, h2 := s.h2 + 1 } else none
  | .timerActYes => if s.h2 > 0 ∧ s.act = true then some { s with h2 := s.h2 - 1, h3 := s.h3 + 1 } else none
  | .timerActNo => if s.h2 > 0 ∧ s.act = false then some { s with h2 := s.h2 - 1, t0 := s.t0 + 1 } else none
  | .timerStoreAct => if s.h3 > 0 then some { s with h3 := s.h3 - 1, act := false, h4 := s.h4 + 1 } else none
  | .timerLoadTime => if s.h4 > 0 then some { s with h4 := s.h4 - 1, r0 := s.r0 + 1 } else none
  | .casOk =>
    if s.t0 > 0 ∧ s.cnt = 0 then some { s with t0 := s.t0 - 1, cnt := -M, off := true, t1 := s.t1 + 1 } else none
  | .casFail => if s.t0 > 0 ∧ s.cnt ≠ 0 then some { s with t0 := s.t0 - 1, r0 := s.r0 + 1 } else none
  | .tryLock => if s.t1 > 0 ∧ s.holder = .free then some { s with t1 := s.t1 - 1, holder := .t2 } else none
  | .tryLoadLost => if s.holder = .t2 ∧ s.cnt ≠ -M then some { s with holder := .t2u } else none
  | .tryLoadOk => if s.holder = .t2 ∧ s.cnt = -M then some { s with holder := .t3 } else none
  | .tryUndo2 =>
    if s.holder = .t2u then some { s with holder := .free, cnt := s.cnt + M, off := false, r0 := s.r0 + 1 } else none
  | .tryActYes => if s.holder = .t3 ∧ s.act = true then some { s with holder := .t3u } else none
  | .tryEnter =>
    if s.holder = .t3 ∧ s.act = false then some { s with holder := .t3cb, enters := s.enters + 1 } else none
  | .tryEnterDone => if s.holder = .t3cb then some { s with holder := .free, idle := true } else none
  | .tryUndo3 =>
    if s.holder = .t3u then some { s with holder := .free, cnt := s.cnt + M, off := false, r0 := s.r0 + 1 } else none
  | .resetLock => if s.r0 > 0 ∧ s.holder = .free then some { s with r0 := s.r0 - 1, holder := .r1 } else none
  | .resetDone => if s.holder = .r1 then some { s with holder := .free } else none
  | .close => some { s with closed := true }

/-- run a schedule; rules that are not enabled are skipped (and reported by the driver) -/
def run (s : St) : List Rule → St
  | [] => s
  | r :: rs => match apply s r with
    | some t => run t rs
    | none => run s rs

/-- Reachable states: any schedule, any number of goroutines. -/
inductive Reach : St → Prop
  | init : Reach init
  | step {s t : St} (r : Rule) : Reach s → apply s r = some t → Reach t

end GrpcModel.Idle
