/-
Model of compression negotiation (C27):

  rpc_util.go  : compress, msgHeader/prepareMsg (flag), checkRecvPayload, recvAndDecompress, decompress,
                 newAcceptedCompressionConfig, acceptedCompressorAllows
  stream.go    : newClientStreamWithParams (UseCompressor / WithCompressor choice),
                 csAttempt.recvMsg (decompressor selection), serverStream.SendMsg / RecvMsg
  server.go    : processRPC (decompressor / compressor selection at stream start),
                 SetSendCompressor, validateSendCompressor
  internal/transport/http2_client.go : createHeaderFields (grpc-encoding, grpc-accept-encoding)
  internal/transport/http2_server.go : operateHeaders (grpc-encoding, grpc-accept-encoding),
                 writeHeaderLocked (grpc-encoding), ServerStream.ClientAdvertisedCompressors

Compressors are a parameter (`Codec`): `comp name data`, `decomp name wire`. The executable
instance `toy` is the transform the harness registers under every name (name ":" data^0x5a).
A registered (encoding.RegisterCompressor) and a legacy (grpc.Compressor) compressor of the same
name are the same function; what differs is WHERE the code looks them up, which is what is modelled.
-/
import GrpcModel.Generated.Framing
namespace GrpcModel.Compression
open GrpcModel.Generated

abbrev Bytes := List UInt8

/-- `encoding.Identity` -/
def identity : String := "identity"

/-- a grpc-encoding value that names a real compressor -/
def nonIdentity (s : String) : Bool := s != "" && s != identity

structure Codec where
  comp : String → Bytes → Bytes
  decomp : String → Bytes → Option Bytes

/-- `[]byte(name + ":")` for ASCII names (kernel-reducible form) -/
def toyPrefix (name : String) : Bytes := name.toList.map (fun c => UInt8.ofNat c.toNat) ++ [0x3a]

def stripPrefix : Bytes → Bytes → Option Bytes
  | [], w => some w
  | _ :: _, [] => none
  | a :: p, b :: w => if a = b then stripPrefix p w else none

/-- the harness' compressors -/
def toy : Codec where
  comp name d := toyPrefix name ++ d.map (· ^^^ 0x5a)
  decomp name w := (stripPrefix (toyPrefix name) w).map fun b => b.map (· ^^^ 0x5a)

inductive Code | ok | internal | unimplemented | invalidArgument
deriving DecidableEq, Repr

/-- one length-prefixed message: the compressed-flag byte and the payload bytes on the wire -/
structure Frame where
  flag : Nat
  data : Bytes
deriving DecidableEq, Repr

/-! ### sending -/

/-- `compress` + `msgHeader`: `cp` legacy compressor, `comp` registered compressor (names).
    No compression when both are nil OR THE MESSAGE IS EMPTY; `comp` has priority. -/
def prepareMsg (k : Codec) (cp comp : Option String) (d : Bytes) : Frame :=
  if (comp.isNone && cp.isNone) || d.length == 0 then ⟨compressionNone, d⟩
  else match comp with
    | some n => ⟨compressionMade, k.comp n d⟩
    | none => match cp with
      | some n => ⟨compressionMade, k.comp n d⟩
      | none => ⟨compressionNone, d⟩

/-! ### receiving (shared by client and server) -/

/-- `checkRecvPayload` (none = nil status) -/
def checkRecvPayload (pf : Nat) (recvCompress : String) (haveCompressor isServer : Bool) : Option Code :=
  if pf = compressionNone then none
  else if pf = compressionMade then
    if recvCompress = "" ∨ recvCompress = identity then some .internal
    else if !haveCompressor then (if isServer then some .unimplemented else some .internal)
    else none
  else some .internal

/-- `decompress`: legacy `dc` first, then the registered compressor; a failing decompressor or none
    at all is INTERNAL -/
def decompress (k : Codec) (dc compressor : Option String) (w : Bytes) : Except Code Bytes :=
  match dc with
  | some n => match k.decomp n w with
    | some d => .ok d
    | none => .error .internal
  | none => match compressor with
    | some n => match k.decomp n w with
      | some d => .ok d
      | none => .error .internal
    | none => .error .internal

/-- `recvAndDecompress` after the frame has been read -/
def recvMsg (k : Codec) (recvCompress : String) (dc compressor : Option String) (isServer : Bool)
    (f : Frame) : Except Code Bytes :=
  match checkRecvPayload f.flag recvCompress (compressor.isSome || dc.isSome) isServer with
  | some c => .error c
  | none => if f.flag = compressionMade then decompress k dc compressor f.data else .ok f.data

/-! ### client: opening a stream -/

structure Client where
  use : Option String            -- grpc.UseCompressor
  legacyComp : Option String     -- grpc.WithCompressor(cp).Type()
  legacyDecomp : Option String   -- grpc.WithDecompressor(dc).Type()
  accept : Option (List String)  -- experimental.AcceptCompressors(names...) ; none = option absent
deriving DecidableEq, Repr

def isSpace (c : Char) : Bool := c == ' ' || c == '\t' || c == '\n' || c == '\r' || c.toNat == 11 || c.toNat == 12

/-- `strings.TrimSpace` (ASCII white space) -/
def trimSpace (s : String) : String :=
  String.ofList ((s.toList.dropWhile isSpace).reverse.dropWhile isSpace).reverse

/-- `newAcceptedCompressionConfig` loop; the result `[]` is Go's nil slice ("no restriction") -/
def acceptedConfig (reg : List String) (allowed : List String) : List String → Except Code (List String)
  | [] => .ok allowed
  | name :: rest =>
    let name := trimSpace name
    if name = "" ∨ name = identity then acceptedConfig reg allowed rest
    else if !reg.contains name then .error .invalidArgument
    else if allowed.contains name then acceptedConfig reg allowed rest
    else acceptedConfig reg (allowed ++ [name]) rest

/-- `acceptedCompressorAllows` -/
def acceptedAllows (allowed : List String) (name : String) : Bool :=
  if allowed.isEmpty then true
  else if name = "" ∨ name = identity then true
  else allowed.contains name

structure ReqHdr where
  enc : Option String     -- grpc-encoding (none = header absent)
  acc : Option String     -- grpc-accept-encoding
deriving DecidableEq, Repr

structure ClientStream where
  hdr : ReqHdr
  cp : Option String       -- compressorV0 (legacy)
  comp : Option String     -- compressorV1 (registered)
  accepted : List String   -- callInfo.acceptedResponseCompressors
deriving DecidableEq, Repr

def joinComma (l : List String) : String := ",".intercalate l

/-- call options' `before`, `newClientStreamWithParams`, `createHeaderFields` (compression part) -/
def clientOpen (reg : List String) (c : Client) : Except Code ClientStream :=
  match (match c.accept with | some names => acceptedConfig reg [] names | none => .ok []) with
  | .error e => .error e
  | .ok accepted =>
    let useName := match c.use with | some ct => ct | none => ""
    -- (sendCompress, cp, comp) or the INTERNAL "Compressor is not installed"
    let choice : Except Code (String × Option String × Option String) :=
      if useName ≠ "" then
        if useName ≠ identity then
          if reg.contains useName then .ok (useName, none, some useName) else .error .internal
        else .ok (useName, none, none)
      else match c.legacyComp with
        | some t => .ok (t, some t, none)
        | none => .ok ("", none, none)
    match choice with
    | .error e => .error e
    | .ok (sendCompress, cp, comp) =>
      let base := if !accepted.isEmpty then joinComma accepted else joinComma reg
      let acc := if sendCompress ≠ "" ∧ !reg.contains sendCompress then
                   (if base ≠ "" then base ++ "," else base) ++ sendCompress else base
      .ok { hdr := { enc := if sendCompress ≠ "" then some sendCompress else none,
                     acc := if acc ≠ "" then some acc else none },
            cp := cp, comp := comp, accepted := accepted }

def ClientStream.send (k : Codec) (cs : ClientStream) (d : Bytes) : Frame := prepareMsg k cs.cp cs.comp d

/-! ### server -/

structure Server where
  legacyComp : Option String     -- grpc.RPCCompressor(cp).Type()
  legacyDecomp : Option String   -- grpc.RPCDecompressor(dc).Type()
deriving Repr

structure SrvStream where
  rc : String                    -- stream.RecvCompress()
  decompV0 : Option String
  decompV1 : Option String
  compV0 : Option String
  compV1 : Option String
  sendName : String              -- ss.sendCompressorName
  sendCompress : String          -- transport stream's sendCompress (what writeHeaderLocked emits)
  advertised : String            -- s.clientAdvertisedCompressors
  headerSent : Bool
deriving DecidableEq, Repr

/-- `processRPC`: "If dc is set and matches the stream's compression, use it. Otherwise, try to find
    a matching registered compressor for decomp." → (decompressorV0, decompressorV1) or UNIMPLEMENTED -/
def selectDecomp (reg : List String) (legacyDecomp : Option String) (rc : String) :
    Except Code (Option String × Option String) :=
  if legacyDecomp = some rc then .ok (some rc, none)
  else if rc ≠ "" ∧ rc ≠ identity then
    (if reg.contains rc then .ok (none, some rc) else .error .unimplemented)
  else .ok (none, none)

/-- `processRPC`: "If cp is set, use it. Otherwise, attempt to compress the response using the
    incoming message compression method." → (compressorV0, compressorV1, sendCompressorName) -/
def selectComp (reg : List String) (legacyComp : Option String) (rc : String) :
    Option String × Option String × String :=
  match legacyComp with
  | some t => (some t, none, t)
  | none =>
    if rc ≠ "" ∧ rc ≠ identity then
      (if reg.contains rc then (none, some rc, rc) else (none, none, ""))
    else (none, none, "")

/-- `processRPC` up to the handler call (none of this can be influenced by the handler) -/
def serverOpen (reg : List String) (s : Server) (h : ReqHdr) : Except Code SrvStream :=
  let rc := h.enc.getD ""
  match selectDecomp reg s.legacyDecomp rc with
  | .error e => .error e
  | .ok (d0, d1) =>
    let sel := selectComp reg s.legacyComp rc
    .ok { rc := rc, decompV0 := d0, decompV1 := d1, compV0 := sel.1, compV1 := sel.2.1, sendName := sel.2.2,
          sendCompress := sel.2.2, advertised := h.acc.getD "", headerSent := false }

def SrvStream.recv (k : Codec) (ss : SrvStream) (f : Frame) : Except Code Bytes :=
  recvMsg k ss.rc ss.decompV0 ss.decompV1 true f

/-- `strings.Split(s, ",")` on characters (structural, so that the kernel can evaluate it) -/
def splitCommaAux : List Char → List Char → List (List Char)
  | cur, [] => [cur.reverse]
  | cur, c :: cs => if c = ',' then cur.reverse :: splitCommaAux [] cs else splitCommaAux (c :: cur) cs

def splitComma (s : String) : List String := (splitCommaAux [] s.toList).map String.ofList

/-- `ServerStream.ClientAdvertisedCompressors` -/
def advertisedList (s : String) : List String := (splitComma s).map trimSpace

inductive SetSendRes | ok | notreg | notadv | late
deriving DecidableEq, Repr

/-- `grpc.SetSendCompressor` = validateSendCompressor + ServerStream.SetSendCompress -/
def SrvStream.setSend (reg : List String) (ss : SrvStream) (name : String) : SrvStream × SetSendRes :=
  let valid : Option SetSendRes :=
    if name = identity then none
    else if !reg.contains name then some .notreg
    else if (advertisedList ss.advertised).contains name then none
    else some .notadv
  match valid with
  | some e => (ss, e)
  | none => if ss.headerSent then (ss, .late) else ({ ss with sendCompress := name }, .ok)

/-- `serverStream.SendMsg`: if the handler changed the name (SetSendCompressor), drop the legacy
    compressorV0 (since /repo 25f0536; before that it was kept, defect F34) and re-resolve the
    registered compressor; prepareMsg; write (headers go out with the first message) -/
def SrvStream.send (k : Codec) (reg : List String) (ss : SrvStream) (d : Bytes) : SrvStream × Frame :=
  let ss1 := if ss.sendCompress ≠ ss.sendName then
      { ss with compV0 := none,
                compV1 := if reg.contains ss.sendCompress then some ss.sendCompress else none,
                sendName := ss.sendCompress }
    else ss
  ({ ss1 with headerSent := true }, prepareMsg k ss1.compV0 ss1.compV1 d)

/-- grpc-encoding of the response headers (`writeHeaderLocked`) -/
def SrvStream.respEnc (ss : SrvStream) : Option String :=
  if ss.sendCompress ≠ "" then some ss.sendCompress else none

/-! ### client: receiving -/

structure CliRecv where
  ct : String
  dcV0 : Option String
  dcV1 : Option String
deriving DecidableEq, Repr

/-- first `csAttempt.recvMsg`: pick the decompressor from the response's grpc-encoding -/
def clientRecvInit (reg : List String) (c : Client) (accepted : List String) (respEnc : Option String) :
    Except Code CliRecv :=
  let ct := respEnc.getD ""
  if ct ≠ "" ∧ ct ≠ identity then
    let (v0, v1) : Option String × Option String :=
      if c.legacyDecomp = some ct then (some ct, none)
      else (none, if reg.contains ct then some ct else none)
    if !acceptedAllows accepted ct then .error .internal
    else .ok { ct := ct, dcV0 := v0, dcV1 := v1 }
  else .ok { ct := ct, dcV0 := none, dcV1 := none }

def CliRecv.recv (k : Codec) (r : CliRecv) (f : Frame) : Except Code Bytes :=
  recvMsg k r.ct r.dcV0 r.dcV1 false f

/-! ### whole exchanges (what the harness ops do) -/

/-- receive frames in order until the first error -/
def recvAll (recv : Frame → Except Code Bytes) : List Frame → List Bytes × Option Code
  | [] => ([], none)
  | f :: rest => match recv f with
    | .error c => ([], some c)
    | .ok d => let (ds, e) := recvAll recv rest; (d :: ds, e)

/-- send messages in order, threading the stream state -/
def sendAll (k : Codec) (reg : List String) (ss : SrvStream) : List Bytes → SrvStream × List Frame
  | [] => (ss, [])
  | d :: rest =>
    let (ss1, f) := ss.send k reg d
    let (ss2, fs) := sendAll k reg ss1 rest
    (ss2, f :: fs)

inductive SrvResult | norun | ok | err (c : Code)
deriving DecidableEq, Repr

/-- the server half of an exchange: given the request headers and frames as they arrive -/
structure SrvSide where
  result : SrvResult
  got : List Bytes
  setsend : Option SetSendRes
  respHdr : Option (Option String)   -- none = trailers-only; some e = HEADERS with grpc-encoding e
  resps : List Frame
  status : Code
deriving DecidableEq, Repr

def serverSide (k : Codec) (reg : List String) (s : Server) (setsend : Option String)
    (h : ReqHdr) (frames : List Frame) (resps : List Bytes) : SrvSide :=
  match serverOpen reg s h with
  | .error c => ⟨.norun, [], none, none, [], c⟩
  | .ok ss =>
    match recvAll (ss.recv k) frames with
    | (got, some c) => ⟨.err c, got, none, none, [], c⟩
    | (got, none) =>
      let (ss1, r) := match setsend with
        | some n => let (a, b) := ss.setSend reg n; (a, some b)
        | none => (ss, none)
      let (_, fs) := sendAll k reg ss1 resps
      ⟨.ok, got, r, if resps.isEmpty then none else some ss1.respEnc, fs, .ok⟩

/-- the client's receiving half: response header encoding (none = trailers-only) and frames -/
def clientSide (k : Codec) (reg : List String) (c : Client) (accepted : List String)
    (respHdr : Option (Option String)) (frames : List Frame) (status : Code) : Code × List Bytes :=
  match respHdr with
  | none => (status, [])        -- trailers-only: nothing to decode, the server's status is the result
  | some enc =>
    match clientRecvInit reg c accepted enc with
    | .error e => (e, [])
    | .ok r =>
      match recvAll (r.recv k) frames with
      | (got, some e) => (e, got)
      | (got, none) => (status, got)

/-- how many request frames reach the wire in the e2e op: the client sends one message, lets the
    server react, and stops as soon as the server has ended the stream -/
def sentPrefix (recv : Frame → Except Code Bytes) : List Frame → List Frame
  | [] => []
  | f :: rest => match recv f with
    | .error _ => [f]
    | .ok _ => f :: sentPrefix recv rest

structure E2E where
  opened : Code
  reqHdr : Option ReqHdr
  reqs : List Frame
  srv : Option SrvSide
  cli : Option Code
  cgot : List Bytes
deriving Repr

def e2e (k : Codec) (reg : List String) (c : Client) (s : Server) (setsend : Option String)
    (reqs resps : List Bytes) : E2E :=
  match clientOpen reg c with
  | .error e => ⟨e, none, [], none, none, []⟩
  | .ok cs =>
    let frames := reqs.map (cs.send k)
    match serverOpen reg s cs.hdr with
    | .error e =>
      -- rejected at stream start: no request message is written
      ⟨.ok, some cs.hdr, [], some ⟨.norun, [], none, none, [], e⟩, some e, []⟩
    | .ok ss =>
      let wire := sentPrefix (ss.recv k) frames
      let sv := serverSide k reg s setsend cs.hdr wire resps
      let (code, got) := clientSide k reg c cs.accepted sv.respHdr sv.resps sv.status
      ⟨.ok, some cs.hdr, wire, some sv, some code, got⟩

end GrpcModel.Compression
