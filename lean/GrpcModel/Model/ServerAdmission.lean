/-
Model of server-side stream admission (C12)
  internal/transport/http2_server.go : operateHeaders (source order of the checks), HandleStreams'
                                       treatment of framer stream errors, handleRSTStream/closeStream,
                                       writeStatus/finishStream, the grpc-timeout timer
  internal/transport/http_util.go    : isReservedHeader, isWhitelistedHeader, decodeMetadataHeader,
                                       decodeBinHeader, decodeTimeout (via Model/Timeout)
  internal/grpcutil/method.go        : ContentSubtype
  server.go                          : handleStream (method-name parsing and dispatch)
and, as the ENVIRONMENT the transport sits on (modelled, tied by the same differential runs):
  golang.org/x/net/http2             : Framer.readMetaFrame + MetaHeadersFrame.checkPseudos
                                       (header validity, pseudo-header rules, MaxHeaderListSize truncation)
  encoding/base64                    : acceptance of Std / RawStd DecodeString

Header names and values are byte strings (`List UInt8`): HPACK delivers arbitrary bytes.
-/
import GrpcModel.Generated.ServerAdmission
import GrpcModel.Generated.Errors
import GrpcModel.Model.Timeout
namespace GrpcModel.ServerAdmission
open GrpcModel.Generated

abbrev Bytes := List UInt8

/-- ASCII string → bytes (kernel-reducible, unlike `String.toUTF8`) -/
def str (s : String) : Bytes := s.toList.map (fun c => UInt8.ofNat c.toNat)

structure Field where
  name : Bytes
  value : Bytes
deriving DecidableEq, Repr

/-! ### environment: x/net/http2 header validation -/

/-- `httpguts.isTokenTable` -/
def isTokenByte (b : UInt8) : Bool :=
  b == 33 || b == 35 || b == 36 || b == 37 || b == 38 || b == 39 || b == 42 || b == 43 || b == 45 || b == 46 ||
  (48 ≤ b && b ≤ 57) || (65 ≤ b && b ≤ 90) || b == 94 || b == 95 || b == 96 || (97 ≤ b && b ≤ 122) ||
  b == 124 || b == 126

/-- `http2.validWireHeaderFieldName`: non-empty, token bytes, no upper case -/
def validWireName (n : Bytes) : Bool :=
  !n.isEmpty && n.all (fun b => isTokenByte b && !(65 ≤ b && b ≤ 90))

/-- `httpguts.ValidHeaderFieldValue`: no control bytes other than SP / HTAB -/
def validValue (v : Bytes) : Bool :=
  v.all (fun b => !((b < 32 || b == 127) && !(b == 32 || b == 9)))

def isPseudo (f : Field) : Bool := f.name.head? == some 58

structure FrSt where
  invalid : Bool := false
  sawRegular : Bool := false
  remain : Nat
  truncated : Bool := false
  out : List Field := []      -- emitted fields, reversed

/-- the emit function of `readMetaFrame` for one decoded field -/
def frStep (st : FrSt) (f : Field) : FrSt :=
  if st.invalid || st.truncated then st            -- `hdec.SetEmitEnabled(false)`
  else
    let badValue := !validValue f.value
    let badHere := if isPseudo f then st.sawRegular else !validWireName f.name
    let saw := st.sawRegular || !isPseudo f
    if badValue || badHere then { st with invalid := true, sawRegular := saw }
    else
      let size := f.name.length + f.value.length + 32
      if size > st.remain then { st with truncated := true, remain := 0, sawRegular := saw }
      else { st with remain := st.remain - size, out := f :: st.out, sawRegular := saw }

def pseudoPrefix : List Field → List Field
  | [] => []
  | f :: t => if isPseudo f then f :: pseudoPrefix t else []

def requestPseudos : List Bytes := [str ":method", str ":path", str ":scheme", str ":authority", str ":protocol"]

/-- `MetaHeadersFrame.checkPseudos`: only known pseudo headers, no duplicates, request and response not mixed -/
def checkPseudosAux (seen : List Bytes) (isReq isResp : Bool) : List Field → Bool
  | [] => !(isReq && isResp)
  | f :: t =>
    let req := requestPseudos.contains f.name
    let resp := f.name == str ":status"
    if !(req || resp) then false
    else if seen.contains f.name then false
    else checkPseudosAux (f.name :: seen) (isReq || req) (isResp || resp) t

def checkPseudos (fields : List Field) : Bool := checkPseudosAux [] false false (pseudoPrefix fields)

inductive FramerOut
  /-- `StreamError{id, PROTOCOL_ERROR}` -/
  | streamErr
  | ok (fields : List Field) (truncated : Bool)
deriving DecidableEq, Repr

/-- `Framer.readMetaFrame` for a HEADERS frame with END_HEADERS whose block is within the
fragment-size and string-length limits (the generators respect them; see LEVEL_NOTE). -/
def framer (maxHL : Nat) (raw : List Field) : FramerOut :=
  let st := raw.foldl frStep { remain := maxHL }
  if st.invalid then .streamErr
  else if !checkPseudos st.out.reverse then .streamErr
  else .ok st.out.reverse st.truncated

/-! ### environment: encoding/base64 acceptance -/

def isB64 (b : UInt8) : Bool :=
  (65 ≤ b && b ≤ 90) || (97 ≤ b && b ≤ 122) || (48 ≤ b && b ≤ 57) || b == 43 || b == 47

def isNL (b : UInt8) : Bool := b == 10 || b == 13

def dropNL : Bytes → Bytes
  | [] => []
  | b :: t => if isNL b then dropNL t else b :: t

/-- `base64.StdEncoding.DecodeString` succeeds (`j` = characters collected in the current quantum) -/
def stdOK : Bytes → Nat → Bool
  | [], j => j == 0
  | c :: rest, j =>
    if isB64 c then stdOK rest ((j + 1) % 4)
    else if isNL c then stdOK rest j
    else if c == 61 then
      if j == 2 then
        match dropNL rest with
        | c2 :: rest' => c2 == 61 && (dropNL rest').isEmpty
        | [] => false
      else if j == 3 then (dropNL rest).isEmpty
      else false
    else false

/-- `base64.RawStdEncoding.DecodeString` succeeds -/
def rawOK : Bytes → Nat → Bool
  | [], j => j != 1
  | c :: rest, j =>
    if isB64 c then rawOK rest ((j + 1) % 4)
    else if isNL c then rawOK rest j
    else false

/-- `decodeBinHeader` returns no error -/
def binHeaderOK (v : Bytes) : Bool :=
  if v.length % 4 == 0 then stdOK v 0 else rawOK v 0

/-! ### http_util.go / grpcutil -/

def hasSuffix (s suf : Bytes) : Bool := suf.length ≤ s.length && s.drop (s.length - suf.length) == suf
def hasPrefix (s pre : Bytes) : Bool := s.take pre.length == pre

/-- `isReservedHeader` -/
def isReservedHeader (n : Bytes) : Bool :=
  n.head? == some 58 || (reservedHeaders.map str).contains n

/-- `isWhitelistedHeader` -/
def isWhitelistedHeader (n : Bytes) : Bool := (whitelistedHeaders.map str).contains n

/-- `decodeMetadataHeader` returns no error -/
def metadataHeaderOK (f : Field) : Bool :=
  if hasSuffix f.name (str "-bin") then binHeaderOK f.value else true

/-- `grpcutil.ContentSubtype`'s boolean -/
def validContentType (v : Bytes) : Bool :=
  let base := str "application/grpc"
  if v == base then true
  else if !hasPrefix v base then false
  else match v[base.length]? with
    | some c => c == 43 || c == 59      -- '+' or ';'
    | none => false

/-! ### operateHeaders -/

/-- what the loop over `frame.Fields` computes -/
structure Parsed where
  isGRPC : Bool := false
  method : Option Bytes := none         -- `httpMethod` (last `:method`)
  path : Bytes := []                    -- `s.method` (last `:path`)
  timeoutSet : Bool := false
  timeout : Nat := 0                    -- ns (last `grpc-timeout`, 0 when it failed to parse)
  headerError : Bool := false
  protocolError : Bool := false
  nAuthority : Nat := 0                 -- `len(mdata[":authority"])`
  nHost : Nat := 0                      -- `len(mdata["host"])`

/-- which arm of the `switch hf.Name` in operateHeaders a header name selects -/
inductive HKind
  | contentType | acceptEncoding | encoding | method | path | timeout | connection | other
deriving DecidableEq, Repr

def kindOf (n : Bytes) : HKind :=
  if n == str "content-type" then .contentType
  else if n == str "grpc-accept-encoding" then .acceptEncoding
  else if n == str "grpc-encoding" then .encoding
  else if n == str ":method" then .method
  else if n == str ":path" then .path
  else if n == str "grpc-timeout" then .timeout
  else if n == str "connection" then .connection
  else .other

def parseField (p : Parsed) (f : Field) : Parsed :=
  match kindOf f.name with
  | .contentType => if validContentType f.value then { p with isGRPC := true } else p
  | .acceptEncoding => p
  | .encoding => p
  | .method => { p with method := some f.value }
  | .path => { p with path := f.value }
  | .timeout =>
    match GrpcModel.Timeout.decodeBytes f.value with
    | some d => { p with timeoutSet := true, timeout := d }
    | none => { p with timeoutSet := true, timeout := 0, headerError := true }
  | .connection => { p with protocolError := true }
  | .other =>
    if isReservedHeader f.name && !isWhitelistedHeader f.name then p
    else if !metadataHeaderOK f then { p with headerError := true }
    else if f.name == str ":authority" then { p with nAuthority := p.nAuthority + 1 }
    else if f.name == str "host" then { p with nHost := p.nHost + 1 }
    else p

def parse (fields : List Field) : Parsed := fields.foldl parseField {}

inductive Decision
  /-- the framer reports a connection error (HEADERS on stream 0): `t.Close`, no GOAWAY -/
  | connClose
  /-- illegal stream id: operateHeaders returns an error → GOAWAY(PROTOCOL_ERROR), connection closed -/
  | connError
  /-- RST_STREAM with this code, nothing else -/
  | rst (code : Nat)
  /-- `writeEarlyAbort(http status, grpc status)` -/
  | earlyAbort (http : Nat) (grpc : Nat)
  /-- transport no longer reachable: silently dropped -/
  | drop
  /-- `handle(s)`: the stream is registered and passed to the server -/
  | handle (timeout : Option Nat)
deriving DecidableEq, Repr

structure Active where
  id : Nat
  half : Bool                 -- client has sent END_STREAM
  deadline : Option Nat       -- absolute virtual time (ns) at which the grpc-timeout timer fires
  running : Bool              -- a registered handler is running for it
  /-- loopy has forgotten the stream (a truncated HEADERS re-using its id made operateHeaders queue a
  cleanupStream for it): the handler's trailers will be dropped and `deleteStream` will not run on
  completion — only RST_STREAM from the client, the timeout or Close remove it from activeStreams -/
  orphaned : Bool := false
deriving DecidableEq, Repr

structure SrvState where
  maxStreamID : Nat := 0
  active : List Active := []
  /-- `t.maxStreams` (MaxConcurrentStreams, 0 ⇒ MaxUint32) -/
  maxStreams : Nat
  /-- the framer's MaxHeaderListSize -/
  maxHL : Nat
  /-- `t.state == reachable` -/
  reachable : Bool := true
  now : Nat := 0
deriving Repr

structure Req where
  id : Nat
  endStream : Bool
  raw : List Field

/-- `operateHeaders` on a frame the framer delivered -/
def operateHeaders (s : SrvState) (id : Nat) (fields : List Field) (truncated : Bool) : Decision :=
  if truncated then .rst 6                                           -- FRAME_SIZE_ERROR
  else if id % 2 != 1 || id ≤ s.maxStreamID then .connError
  else
    let p := parse fields
    if p.nAuthority > 1 || p.nHost > 1 then .earlyAbort 400 codeInternal
    else if p.protocolError then .rst 1                              -- PROTOCOL_ERROR
    else if !p.isGRPC then .earlyAbort 415 codeInvalidArgument
    else if p.headerError then .earlyAbort 400 codeInternal
    else if !s.reachable then .drop
    else if s.active.length ≥ s.maxStreams then .rst 7               -- REFUSED_STREAM
    else if p.method != some (str "POST") then .earlyAbort 405 codeInternal
    else if p.timeoutSet && p.timeout == 0 then .earlyAbort 200 codeDeadlineExceeded
    else .handle (if p.timeoutSet then some p.timeout else none)

/-- framer, then operateHeaders -/
def serve (s : SrvState) (r : Req) : Decision :=
  if r.id == 0 then .connClose
  else match framer s.maxHL r.raw with
    | .streamErr => .rst 1
    | .ok fields tr => operateHeaders s r.id fields tr

/-- the framer rejects the header block with a stream error (never reaches operateHeaders) -/
def framerRejects (s : SrvState) (r : Req) : Bool :=
  match framer s.maxHL r.raw with
  | .streamErr => true
  | .ok _ _ => false

/-- the framer delivered the frame with `Truncated` set -/
def isTruncated (s : SrvState) (r : Req) : Bool :=
  match framer s.maxHL r.raw with
  | .streamErr => false
  | .ok _ tr => tr

/-- does `t.maxStreamID = streamID` execute? -/
def passesIdCheck (s : SrvState) (r : Req) : Bool :=
  r.id != 0 && match framer s.maxHL r.raw with
    | .streamErr => false
    | .ok _ tr => !tr && r.id % 2 == 1 && r.id > s.maxStreamID

/-! ### server.go handleStream: method-name parsing and dispatch -/

inductive Dispatch
  | malformed          -- no leading '/', or no second '/'
  | unknown            -- service or method not registered
  | known
deriving DecidableEq, Repr

/-- index of the last '/' (byte 47) -/
def lastSlash (b : Bytes) : Option Nat :=
  let idx := (b.zipIdx.filter (fun p => p.1 == 47)).map (·.2)
  idx.getLast?

def dispatch (registered : List (Bytes × Bytes)) (path : Bytes) : Dispatch :=
  match path with
  | 47 :: sm =>
    match lastSlash sm with
    | none => .malformed
    | some pos => if registered.contains (sm.take pos, sm.drop (pos + 1)) then .known else .unknown
  | _ => .malformed

def pathOf (s : SrvState) (r : Req) : Bytes :=
  match framer s.maxHL r.raw with
  | .ok fields _ => (parse fields).path
  | .streamErr => []

/-! ### the connection as a state machine -/

inductive Op
  | headers (r : Req)
  /-- RST_STREAM from the client -/
  | rst (id : Nat)
  /-- empty DATA frame from the client, with or without END_STREAM -/
  | data (id : Nat) (endStream : Bool)
  /-- the handler of stream `id` returns -/
  | finish (id : Nat)
  /-- virtual time advances by `ns` -/
  | sleep (ns : Nat)

inductive Out
  | rst (id code : Nat)
  /-- HEADERS with END_STREAM: (:status, grpc-status) -/
  | trailers (id http grpc : Nat)
  | goAway (code : Nat)
  | closed
  | handlerStarted (id : Nat)
deriving DecidableEq, Repr

def removeActive (s : SrvState) (id : Nat) : SrvState := { s with active := s.active.filter (·.id != id) }

/-- apply `f` to the active stream `id` -/
def updActive (s : SrvState) (id : Nat) (f : Active → Active) : SrvState :=
  { s with active := s.active.map fun a => if a.id == id then f a else a }

/-- `t.maxStreamID = streamID`, when operateHeaders gets that far -/
def bumpId (s : SrvState) (r : Req) : SrvState :=
  if passesIdCheck s r then { s with maxStreamID := r.id } else s

/-- `handleStream` run to completion for a stream that is NOT dispatched to a blocking handler:
trailers-only UNIMPLEMENTED, then RST_STREAM(NO_ERROR) unless the client had half-closed. -/
def unimplementedOut (id : Nat) (endStream : Bool) : List Out :=
  .trailers id 200 codeUnimplemented :: (if endStream then [] else [.rst id 0])

def stepHeaders (registered : List (Bytes × Bytes)) (s : SrvState) (r : Req) : SrvState × List Out :=
  let s1 := bumpId s r
  match serve s r with
  | .connClose => ({ s1 with reachable := false, active := [] }, [.closed])
  | .connError => ({ s1 with reachable := false }, [.goAway 1])
  | .rst c =>
    -- a framer stream error on an ACTIVE stream closes it (HandleStreams); a truncated HEADERS that
    -- re-uses the id of an active stream makes loopy forget the stream; other resets touch nothing
    let s2 :=
      if framerRejects s r then removeActive s1 r.id
      else if isTruncated s r then updActive s1 r.id (fun a => { a with orphaned := true })
      else s1
    (s2, [.rst r.id c])
  | .earlyAbort h g => (s1, .trailers r.id h g :: (if r.endStream then [] else [.rst r.id 0]))
  | .drop => (s1, [])
  | .handle to =>
    match dispatch registered (pathOf s r) with
    | .known =>
      ({ s1 with active := s1.active ++ [⟨r.id, r.endStream, to.map (· + s.now), true, false⟩] }, [.handlerStarted r.id])
    | _ => (s1, unimplementedOut r.id r.endStream)

def step (registered : List (Bytes × Bytes)) (s : SrvState) : Op → SrvState × List Out
  | .headers r => stepHeaders registered s r
  | .rst id => (removeActive s id, [])
  | .data id es =>
    match s.active.find? (·.id == id) with
    | some a =>
      if a.half then (removeActive s id, [.rst id 5])            -- STREAM_CLOSED
      else if es then (updActive s id (fun a => { a with half := true }), [])
      else (s, [])
    | none => (s, [])
  | .finish id =>
    match s.active.find? (·.id == id) with
    | some a =>
      if !a.running then (s, [])
      else if a.orphaned then (updActive s id (fun a => { a with running := false }), [])
      else (removeActive s id, .trailers id 200 0 :: (if a.half then [] else [.rst id 0]))
    | none => (s, [])
  | .sleep ns =>
    let now := s.now + ns
    let expired := s.active.filter fun a => match a.deadline with | some d => d ≤ now | none => false
    ({ s with now := now, active := s.active.filter fun a => match a.deadline with | some d => !(d ≤ now) | none => true },
     expired.map fun a => .rst a.id 8)       -- CANCEL

def run (registered : List (Bytes × Bytes)) (s : SrvState) : List Op → SrvState
  | [] => s
  | o :: os => run registered (step registered s o).1 os

/-- `NewServerTransport`: `maxStreams == 0` means no limit -/
def initState (maxConcurrentStreams maxHL : Nat) : SrvState :=
  { maxStreams := if maxConcurrentStreams == 0 then 4294967295 else maxConcurrentStreams, maxHL := maxHL }

/-! ### legality: the property's list, on the request as the client sent it -/

def countName (raw : List Field) (n : Bytes) : Nat := raw.countP (·.name == n)

/-- the checks of the statement that concern the header list (reading: see Properties/C12) -/
structure HeaderLegal (raw : List Field) : Prop where
  /-- exactly one `:method`, and it is POST -/
  method : countName raw (str ":method") = 1 ∧ ∀ f ∈ raw, f.name = str ":method" → f.value = str "POST"
  /-- some content-type is a gRPC content type -/
  contentType : ∃ f ∈ raw, f.name = str "content-type" ∧ validContentType f.value = true
  /-- every grpc-timeout decodes -/
  timeout : ∀ f ∈ raw, f.name = str "grpc-timeout" → (GrpcModel.Timeout.decodeBytes f.value).isSome
  /-- at most one :authority and at most one host -/
  authority : countName raw (str ":authority") ≤ 1 ∧ countName raw (str "host") ≤ 1
  /-- every non-reserved `-bin` header is valid base64 -/
  binary : ∀ f ∈ raw, hasSuffix f.name (str "-bin") = true →
    (isReservedHeader f.name && !isWhitelistedHeader f.name) = false → binHeaderOK f.value = true
  /-- no `connection` header -/
  noConnection : ∀ f ∈ raw, f.name ≠ str "connection"

/-- executable form of the header clauses used by the monitor; `strictCT` demands that EVERY
content-type field is valid (the strict reading of "invalid content-type") -/
def headerLegalB (strictCT : Bool) (raw : List Field) : Bool :=
  countName raw (str ":method") == 1 && raw.all (fun f => f.name != str ":method" || f.value == str "POST") &&
  raw.any (fun f => f.name == str "content-type" && validContentType f.value) &&
  (!strictCT || raw.all (fun f => f.name != str "content-type" || validContentType f.value)) &&
  raw.all (fun f => f.name != str "grpc-timeout" || (GrpcModel.Timeout.decodeBytes f.value).isSome) &&
  countName raw (str ":authority") ≤ 1 && countName raw (str "host") ≤ 1 &&
  raw.all (fun f => !hasSuffix f.name (str "-bin") || (isReservedHeader f.name && !isWhitelistedHeader f.name) ||
    binHeaderOK f.value) &&
  raw.all (fun f => f.name != str "connection")

end GrpcModel.ServerAdmission
