/-
Model of balancer/weightedtarget/weightedaggregator/aggregator.go (the weighted_target state
aggregator, also the pattern of clustermanager's): Start, Stop/clearStates, Add, Remove,
UpdateWeight, PauseStateUpdates, ResumeStateUpdates, NeedUpdateStateOnResume, UpdateState (with the
"TRANSIENT_FAILURE → CONNECTING still counts as TRANSIENT_FAILURE" rule), buildAndUpdateLocked, build.
The embedded ConnectivityStateEvaluator is the one of Model/LbConnState.lean.  All methods run under
wbsa.mu: a history is a sequence of ops.
-/
import GrpcModel.Model.LbConnState
namespace GrpcModel.WAgg
open GrpcModel.LbConnState (ConnState CSE prec)

/-- `weightedPickerState` of one sub-balancer id -/
structure Entry where
  id : Nat
  weight : Nat
  /-- `state.ConnectivityState`: what the sub-balancer reported last -/
  reported : ConnState := .connecting
  /-- identity of `state.Picker` (0 = the initial `base.NewErrPicker(ErrNoSubConnAvailable)`) -/
  picker : Nat := 0
  /-- `stateToAggregate`: what is counted for it in the evaluator -/
  agg : ConnState := .connecting
deriving DecidableEq, Repr

inductive PickerD
  | errNoSub                                  -- base.NewErrPicker(balancer.ErrNoSubConnAvailable)
  | errNoTargets                              -- "weighted-target: no targets to pick from"
  | group (members : List (Nat × Nat × Nat))  -- weightedPickerGroup: (child id, picker id, weight)
deriving DecidableEq, Repr

structure Push where
  state : ConnState
  picker : PickerD
deriving DecidableEq, Repr

structure St where
  started : Bool := false
  entries : List Entry := []      -- idToPickerState (insertion order; the real map has none)
  cse : CSE := {}
  paused : Bool := false          -- pauseUpdateState
  need : Bool := false            -- needUpdateStateOnResume
  pkSerial : Nat := 0
  /-- ghost: Stop was called (clearStates resets the entries but not the evaluator) -/
  stopped : Bool := false
deriving Repr

def member (e : Entry) : Nat × Nat × Nat := (e.id, e.picker, e.weight)

/-- `build` -/
def build (s : St) : Push :=
  if s.entries.isEmpty then ⟨.tf, .errNoTargets⟩
  else match s.cse.currentState with
    | .connecting => ⟨.connecting, .errNoSub⟩
    | .tf => ⟨.tf, .group (s.entries.map member)⟩
    | st => ⟨st, .group ((s.entries.filter (·.agg = .ready)).map member)⟩

/-- `buildAndUpdateLocked` -/
def buildAndUpdate (s : St) : St × Option Push :=
  if !s.started then (s, none)
  else if s.paused then ({ s with need := true }, none)
  else (s, some (build s))

inductive Op
  | start | stop
  | add (id weight : Nat)
  | remove (id : Nat)
  | weight (id w : Nat)
  | pause | resume | needUpd
  | upd (id : Nat) (st : ConnState)
deriving Repr

def idxOf (s : St) (id : Nat) : Option Nat := s.entries.findIdx? (·.id = id)

def step (s : St) : Op → St × Option Push
  | .start => ({ s with started := true }, none)
  | .stop =>
    -- clearStates: "Reset everything to init state (Connecting) but keep the entry in map"
    ({ s with started := false, stopped := true,
              entries := s.entries.map fun e => { e with reported := .connecting, picker := 0, agg := .connecting } }, none)
  | .add id w =>
    let e : Entry := { id := id, weight := w }
    let entries := match idxOf s id with
      | some i => s.entries.set i e
      | none => s.entries ++ [e]
    buildAndUpdate { s with entries := entries, cse := (s.cse.recordTransition .shutdown .connecting).1 }
  | .remove id =>
    match idxOf s id with
    | none => (s, none)
    | some i =>
      match s.entries[i]? with
      | none => (s, none)
      | some e =>
        buildAndUpdate { s with cse := (s.cse.recordTransition e.agg .shutdown).1, entries := s.entries.eraseIdx i }
  | .weight id w =>
    match idxOf s id with
    | none => (s, none)
    | some i => ({ s with entries := s.entries.modify i fun e => { e with weight := w } }, none)
  | .pause => ({ s with paused := true, need := false }, none)
  | .resume =>
    let s := { s with paused := false }
    if s.need then (s, some (build s)) else (s, none)
  | .needUpd => ({ s with need := true }, none)
  | .upd id st =>
    match idxOf s id with
    | none => (s, none)
    | some i =>
      match s.entries[i]? with
      | none => (s, none)
      | some e =>
        let pk := s.pkSerial + 1
        -- "If old state is TransientFailure, and new state is Connecting, don't update the state"
        let sticky : Bool := e.reported = .tf ∧ st = .connecting
        let cse := if sticky then s.cse else (s.cse.recordTransition e.agg st).1
        let e' : Entry := { e with reported := st, picker := pk, agg := if sticky then e.agg else st }
        buildAndUpdate { s with cse := cse, entries := s.entries.set i e', pkSerial := pk }

def run (s : St) : List Op → St
  | [] => s
  | op :: t => run (step s op).1 t

/-- how a parent uses the aggregator (balancergroup / weighted_target): an id is added once until it
    is removed, and the aggregator is not used any more after Stop -/
def opOk (s : St) : Op → Bool
  | .add id _ => !s.stopped && (idxOf s id).isNone
  | _ => !s.stopped

def RunOk : St → List Op → Prop
  | _, [] => True
  | s, op :: t => opOk s op = true ∧ RunOk (step s op).1 t

/-- C35 for this aggregator (monitor + theorem): the reported state is TRANSIENT_FAILURE without
    children, else the precedence-rule state of the children's counted states -/
def pushOk (counted : List ConnState) (p : Push) : Bool :=
  p.state == (if counted.isEmpty then .tf else prec counted)

end GrpcModel.WAgg
