import GrpcModel.Model.ClientConnSim
/-!
# Monitors: the C14 / C11 property predicates evaluated on the IMPLEMENTATION's snapshots

A monitor only looks at the ops (inputs) and at what the real `http2Client` printed; the model's
prediction is not consulted.  `feed` (framer glue) is used on the *input* frame to know whether an op
is a well-formed GOAWAY and with which last-stream-id.
-/
namespace GrpcModel.ClientConnMon
open GrpcModel.ClientConn GrpcModel.H2Wire GrpcModel.Driver

/-- one RPC entry of a snapshot -/
structure REntry where
  kind : Char            -- 'W' blocked, 'E' NewStream failed, 'A'/'B' open, 'D' done
  id : Nat
  flags : String
  term : String          -- for D: "<err>/<status>", for E: "<code>.<retry>"
deriving Repr, Inhabited, DecidableEq

structure Snap where
  res : String
  rpcs : List REntry
  st : String            -- R / D / C
  next : Nat
  prev : Nat
  ga : Bool
  cd : Bool
  eof : Bool
  leak : Int := 0
deriving Repr, Inhabited

def parseEntry (t : String) : REntry :=
  match t.toList with
  | [] => { kind := '?', id := 0, flags := "", term := "" }
  | 'W' :: _ => { kind := 'W', id := 0, flags := "", term := "" }
  | 'E' :: r => { kind := 'E', id := 0, flags := "", term := String.ofList r }
  | k :: r =>
    let parts := (String.ofList r).splitOn ":"
    let id := (parts.headD "").toNat?.getD 0
    let flags := parts.getD 1 ""
    let term := if k = 'D' then parts.getD 2 "" else ""
    { kind := k, id := id, flags := flags, term := term }

def kv (fields : List String) (k : String) : String :=
  match fields.find? (fun f => f.startsWith (k ++ "=")) with
  | some f => (f.drop (k.length + 1)).toString
  | none => ""

def parseSnap4 (res rp cn : String) : Option Snap :=
    if !rp.startsWith "rpcs=" || !cn.startsWith "conn=" then none else
    let rs := (rp.drop 5).toString
    let rpcs := if rs = "-" then [] else (rs.splitOn ",").map parseEntry
    let cf := ((cn.drop 5).toString).splitOn ","
    some { res := res, rpcs := rpcs, st := cf.headD "-", next := (kv cf "next").toNat?.getD 0,
           prev := (kv cf "prev").toNat?.getD 0, ga := kv cf "ga" = "1", cd := kv cf "cd" = "1", eof := kv cf "eof" = "1" }

def parseSnap (line : String) : Option Snap :=
  match line.splitOn " " with
  | [res, rp, _w, cn] => parseSnap4 res rp cn
  | [res, rp, _w, cn, lk] =>
    (parseSnap4 res rp cn).map fun sn => { sn with leak := ((lk.drop 5).toString.toInt?).getD 1 }
  | _ => none

def REntry.open (e : REntry) : Bool := e.kind = 'A' || e.kind = 'B'
def REntry.hasFlag (e : REntry) (c : Char) : Bool := e.flags.toList.contains c

/-- monitor state shared by both components -/
structure MonSt where
  prev : Option Snap          -- the implementation's previous snapshot
  fr : FramerSt               -- framer glue state for the input frames
  now : Nat
  deadlines : List (Option Nat)   -- absolute deadline per RPC, from the `new` ops
  started : Bool
deriving Inhabited

def MonSt.init : MonSt := { prev := none, fr := FramerSt.init 256, now := 0, deadlines := [], started := false }

/-- bookkeeping common to both monitors: returns the input frame (if the op is one) -/
def MonSt.advance (m : MonSt) (fs : List String) : MonSt × Option Frame :=
  match fs with
  | ["start", _, _] => ({ m with started := true }, none)
  | ["new", _, d] =>
    let dl := match d.toNat? with | some 0 => none | some k => some (m.now + k) | none => none
    ({ m with deadlines := m.deadlines ++ [dl] }, none)
  | ["sleep", ms] => ({ m with now := m.now + (ms.toNat?.getD 0) }, none)
  | ["f", typ, flags, sid, hex] =>
    (match typ.toNat?, flags.toNat?, sid.toNat?, unhex hex with
     | some typ, some flags, some sid, some p =>
       let (fr, ev) := feed m.fr typ flags sid p
       ({ m with fr := fr }, ev)
     | _, _, _, _ => (m, none))
  | _ => (m, none)

/-! ## C14 (client half) -/

def firstViol (l : List (Option String)) : String :=
  match l.filterMap id with
  | [] => "ok"
  | v :: _ => "VIOL " ++ v

/-- C14 on one op: `p` = implementation snapshot before the op, `c` = after. -/
def c14Verdict (fs : List String) (frame : Option Frame) (p c : Snap) : String :=
  let alive := p.st ≠ "C" && !p.eof
  -- (1) no new stream on this connection once a GOAWAY was received
  let noNew : Option String :=
    if p.ga && c.next ≠ p.next then some s!"a stream was opened after GOAWAY (nextID {p.next} -> {c.next})" else none
  let noNewRpc : Option String :=
    match fs with
    | ["new", _, _] =>
      if p.ga then
        (match c.rpcs.getLast? with
         | some e => if e.open || e.kind = 'D' then some s!"NewStream succeeded (stream {e.id}) after GOAWAY" else none
         | none => none)
      else none
    | _ => none
  let ga : List (Option String) :=
    match frame with
    | some (.goAway n _ _) =>
      if !alive then [] else
      if p.ga && n > p.prev then
        -- (4) a later GOAWAY with a larger id is a connection error
        [if c.st = "C" then none else some s!"GOAWAY(last={n}) after GOAWAY(last={p.prev}) is not treated as a connection error: transport state {c.st}, still serving"]
      else if n > 0 && n % 2 = 0 then []     -- even ids are rejected by the code (not part of the statement)
      else
        let upper := if p.ga && p.prev ≠ 0 then p.prev else 4294967295
        (p.rpcs.zip c.rpcs).map fun (a, d) =>
          if !a.open || !a.hasFlag 'a' then none
          else if a.id ≤ n then
            -- (2) streams with id <= N are not failed by the GOAWAY
            if d.open then none else some s!"stream {a.id} <= last-stream-id {n} was failed by the GOAWAY ({d.term})"
          else if a.id ≤ upper then
            -- (3) streams with id > N fail as unprocessed
            if d.kind = 'D' && d.hasFlag 'u' && d.term.startsWith "14/" then none
            else some s!"stream {a.id} > last-stream-id {n} did not fail as unprocessed (now {d.kind}{d.id}:{d.flags}:{d.term})"
          else none
    | _ => []
  firstViol ([noNew, noNewRpc] ++ ga)

/-! ## C11 -/

def codeLegal (term : String) : Bool :=
  match term.splitOn "/" with
  | e :: s :: _ =>
    if e = "eof" then s ≠ "-"            -- the server's grpc-status (any uint32), or the client's own code
    else (match e.toNat? with | some c => c ≤ 16 | none => false)
  | _ => false

/-- C11 on one op. `deadlines`/`now` come from the ops. -/
def c11Verdict (fs : List String) (m : MonSt) (p c : Snap) : String :=
  let grow : Option String :=
    let want := p.rpcs.length + (match fs with | ["new", _, _] => 1 | _ => 0)
    if c.rpcs.length ≠ want then some s!"RPC table has {c.rpcs.length} entries, expected {want}" else none
  let per : List (Option String) := (p.rpcs.zip c.rpcs).map fun (a, d) =>
    if a.kind = 'D' then
      if d.kind ≠ 'D' || d.id ≠ a.id then some s!"stream {a.id} was done and is now {d.kind}{d.id}"
      else if d.term ≠ a.term then some s!"stream {a.id}: status changed after the RPC had terminated: {a.term} -> {d.term}"
      else none
    else if a.kind = 'E' then
      if d != a then some s!"a failed NewStream changed its outcome: E{a.term} -> {d.kind}{d.term}" else none
    else if a.open then
      if (d.open || d.kind = 'D') && d.id = a.id then none else some s!"stream {a.id} turned into {d.kind}{d.id}"
    else none
  let legal : List (Option String) := c.rpcs.map fun d =>
    if d.kind = 'D' && !codeLegal d.term then some s!"stream {d.id} ended with an illegal status {d.term}" else none
  let dl : List (Option String) := (c.rpcs.zip m.deadlines).map fun (d, t) =>
    match t with
    | some t => if t ≤ m.now && (d.kind = 'W' || d.open) then some s!"RPC with deadline {t} still pending at {m.now}: {d.kind}{d.id}" else none
    | none => none
  let closed : List (Option String) :=
    if c.st = "C" && c.cd && c.eof then c.rpcs.map fun d =>
      if d.kind = 'W' || d.open then some s!"RPC outlives the closed connection: {d.kind}{d.id}" else none
    else []
  let leak : Option String :=
    if c.leak ≠ 0 then some s!"{c.leak} goroutine(s) outlive the closed connection" else none
  let ended : List (Option String) :=
    match fs with
    | ["end"] => c.rpcs.map fun d => if d.kind = 'W' || d.open then some s!"RPC not terminated after Close: {d.kind}{d.id}" else none
    | _ => []
  firstViol ([grow] ++ per ++ legal ++ dl ++ closed ++ [leak] ++ ended)

end GrpcModel.ClientConnMon
