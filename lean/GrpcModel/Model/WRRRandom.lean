/-
Model of
  internal/wrr/random.go                       : randomWRR.Add, randomWRR.Next
  internal/xds/balancer/clusterimpl/picker.go  : gcd, newDropper, dropper.drop, picker.Pick (drop / circuit-breaking part)
  internal/xds/balancer/clusterimpl/clusterimpl.go : dropRequestsPerMillion
  internal/xds/xdsclient/requests_counter.go   : ClusterRequestsCounter.StartRequest / EndRequest
The random source `randInt64n` is an explicit argument: `range` is the bound the code passes to
it, `pick r` what the code returns when the source answers `r`.
Weights are natural numbers (every caller passes a uint32; negative or overflowing int64 sums
are outside the model).
-/
import GrpcModel.Generated.WRRRandom
import GrpcModel.Model.SortSearch
namespace GrpcModel.WRRRandom
open GrpcModel.Generated GrpcModel.SortSearch

/-- `weightedItem` (the item itself is its index in `items`). -/
structure Item where
  weight : Nat
  accumulatedWeight : Nat
deriving DecidableEq, Repr

/-- `randomWRR`. -/
structure RW where
  items : List Item := []
  equalWeights : Bool := false
deriving DecidableEq, Repr

/-- `randomWRR.Add`. -/
def RW.add (rw : RW) (weight : Nat) : RW :=
  match rw.items.getLast? with
  | none => { items := [⟨weight, weight⟩], equalWeights := true }
  | some lastItem =>
    { items := rw.items ++ [⟨weight, lastItem.accumulatedWeight + weight⟩]
      equalWeights := rw.equalWeights && weight == lastItem.weight }

/-- `NewRandom()` followed by `Add` of each weight in order. -/
def RW.ofWeights (ws : List Nat) : RW := ws.foldl RW.add {}

/-- The argument of the one `randInt64n` call made by `Next` (`none`: no call, `Next` returns nil).
    `rand.Int64N` panics on an argument ≤ 0. -/
def RW.range (rw : RW) : Option Nat :=
  match rw.items.getLast? with
  | none => none
  | some lastItem => if rw.equalWeights then some rw.items.length else some lastItem.accumulatedWeight

/-- `randomWRR.Next` when the random source answers `r`: the index of the returned item. -/
def RW.pick (rw : RW) (r : Nat) : Option Nat :=
  if rw.items.isEmpty then none
  else if rw.equalWeights then some r
  else some (search rw.items.length fun i => decide ((rw.items.getD i ⟨0, 0⟩).accumulatedWeight > r))

/-! ### clusterimpl droppers -/

abbrev million : Nat := clusterimplMillion

/-- `gcd(a, b uint32)`: `for b != 0 { t := b; b = a % b; a = t }` -/
def gcdLoop : Nat → Nat → Nat → Nat
  | 0, a, _ => a
  | fuel + 1, a, b => if b ≠ 0 then gcdLoop fuel b (a % b) else a

def gcd32 (a b : Nat) : Nat := gcdLoop (b + 1) a b

/-- `dropRequestsPerMillion(numerator, denominator)` (uint64 product, capped at a million);
    the Go code panics for `denominator = 0` (EDS parsing only produces 100, 10000, 1000000). -/
def dropRequestsPerMillion (numerator denominator : Nat) : Nat :=
  let rpm := numerator * million / denominator
  if rpm > million then million else rpm

/-- `newDropper`: the two-item WRR `[true ↦ rpm/g, false ↦ (million-rpm)/g]`; `million - rpm`
    is a uint32 subtraction (wraps when rpm > million). -/
def newDropper (rpm : Nat) : RW :=
  let g := gcd32 rpm million
  RW.ofWeights [rpm / g, ((million + 4294967296 - rpm) % 4294967296) / g]

/-- `dropper.drop()` when the random source answers `r`: item 0 is `true`. -/
def dropOf (d : RW) (r : Nat) : Bool := d.pick r == some 0

/-! ### picker.Pick: drops and circuit breaking -/

inductive PickResult
  | dropped (category : Nat)   -- index of the dropper that fired
  | cbDropped                  -- circuit breaking: max requests exceeded
  | childErr                   -- the child picker failed: the request count is released
  | ok                         -- admitted; `Done` will release the request count
deriving DecidableEq, Repr

/-- the drop loop: droppers are consulted in order, each consuming one random value;
    the first one that fires drops the RPC. Returns the index of that dropper. -/
def firstDrop : List RW → List Nat → Nat → Option Nat
  | [], _, _ => none
  | d :: ds, rs, k =>
    match rs with
    | [] => none
    | r :: rs' => if dropOf d r then some k else firstDrop ds rs' (k + 1)

/-- `StartRequest(max)`: `if numRequests >= max { error }; numRequests++`. -/
def startRequest (count max : Nat) : Option Nat := if count ≥ max then none else some (count + 1)

/-- `EndRequest()`: `numRequests += ^uint32(0)` (uint32, wraps below 0). -/
def endRequest (count : Nat) : Nat := (count + 4294967295) % 4294967296

/-- `picker.Pick`: `ready` = child state READY, `drops` = the droppers, `rs` = the answers of the
    random source (one per consulted dropper), `counter` = `some max` when circuit breaking is on,
    `childOK` = whether the child picker's Pick succeeds; `count` = numRequests before.
    Returns the result and numRequests after. -/
def pick (ready : Bool) (drops : List RW) (rs : List Nat) (counter : Option Nat) (childOK : Bool)
    (count : Nat) : PickResult × Nat :=
  match (if ready then firstDrop drops rs 0 else none) with
  | some k => (.dropped k, count)
  | none =>
    match counter with
    | none => (if childOK then .ok else .childErr, count)
    | some max =>
      match startRequest count max with
      | none => (.cbDropped, count)
      | some c => if childOK then (.ok, c) else (.childErr, endRequest c)

/-! ### clusterimpl: drop configuration across EDS updates (handleClusterConfigLocked) -/

/-- `DropConfig` -/
structure DropCfg where
  category : String
  rpm : Nat
deriving DecidableEq, Repr

/-- `b.dropCategories` and `b.drops` -/
structure DropState where
  cats : List DropCfg := []
  drops : List RW := []

/-- The drop part of `handleClusterConfigLocked` for an EDS update with overloads
    (category, numerator, denominator): `newDrops` via `dropRequestsPerMillion`; if it differs from
    `b.dropCategories` (`slices.Equal`: category AND rate, in order) every dropper is rebuilt with
    `newDropper`, otherwise nothing changes. -/
def handleDrops (s : DropState) (overloads : List (String × Nat × Nat)) : DropState :=
  let newDrops := overloads.map fun (c, n, d) => (⟨c, dropRequestsPerMillion n d⟩ : DropCfg)
  if s.cats ≠ newDrops then { cats := newDrops, drops := newDrops.map fun c => newDropper c.rpm } else s

end GrpcModel.WRRRandom
