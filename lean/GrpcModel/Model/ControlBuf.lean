/-!
Model of the throttling / close protocol of `controlBuffer` in `internal/transport/controlbuf.go`
(C16): `executeAndPut`, `get` / `getOnceLocked`, `throttle`, `finish`.

Atomic steps (= what the interleaving theorems quantify over):

* `put it`      — `executeAndPut(nil, it)`: one critical section under `c.mu`.
* `get block`   — the locked part of one iteration of `get`: `getOnceLocked`, and if nothing was
                  read and `block`, `consumerWaiting = true` (the caller is then parked in the
                  `select` on `wakeupCh` / `done`).  Single consumer (loopy) — caller contract.
* `wake`        — the parked consumer's `select` fires: token in `wakeupCh`, or `done` closed.
* `thr1 r`      — reader `r` executes `c.trfChan.Load()` (atomic, WITHOUT `c.mu`).
* `thr2 r`      — reader `r`'s `select { case <-*ch: case <-c.done: }`: passes iff that channel
                  generation has been closed or `done` is closed, otherwise it stays blocked.
* `finish`      — `finish()`: one critical section.
* `closeDone`   — the transport closes `done`.

Channels created for `trfChan` are numbered (`nextGen`); `closedGens` lists those that were closed,
so "reader `r` loaded the pointer, then the queue dropped below the limit, then rose again" is a
reader holding an old generation.  Go semantics ported as `Out.panic`: `close(*ch)` with `ch == nil`
(getOnceLocked dereferences the swapped pointer unconditionally) and closing a closed channel.
`limit` = `maxQueuedControlBufferItems` (from `envconfig.ControlBufferThrottleLimit`, clamped to
1…10000 there); the theorems hold for every `limit ≥ 1`.
-/
namespace GrpcModel.ControlBuf

/-- A control item: `throttled` = `it.isThrottled()`, `hdr` = it is a `*clientHeaders`. -/
structure Item where
  id        : Nat
  throttled : Bool
  hdr       : Bool
deriving Repr, DecidableEq

structure St where
  limit           : Nat
  list            : List Item
  trf             : Nat               -- transportResponseFrames
  chan            : Option Nat        -- trfChan: the generation stored, or nil
  nextGen         : Nat               -- channels made so far
  closedGens      : List Nat          -- channels closed so far
  closed          : Bool
  consumerWaiting : Bool
  wakeup          : Bool              -- wakeupCh (capacity 1) holds a token
  done            : Bool              -- c.done is closed
  parked          : Bool              -- the consumer sits in get's select
  readers         : List (Nat × Nat)  -- (reader, generation it loaded and waits on)
deriving Repr, DecidableEq

def init (limit : Nat) : St :=
  { limit, list := [], trf := 0, chan := none, nextGen := 0, closedGens := [], closed := false,
    consumerWaiting := false, wakeup := false, done := false, parked := false, readers := [] }

inductive Op
  | put (it : Item)
  | get (block : Bool)
  | wake
  | thr1 (r : Nat)
  | thr2 (r : Nat)
  | finish
  | closeDone
deriving Repr, DecidableEq

inductive Out
  | putOk | putErr
  | got (it : Item) | getErr | getNone | parkedNow | busy
  | woke | doneErr | blocked
  | pass | loaded (g : Nat)
  | orphaned (ids : List Nat)
  | none
  | panic
deriving Repr, DecidableEq

/-- `close(ch)` for generation `g`: (new closed list, panicked?). -/
def closeGen (s : St) (g : Nat) : List Nat × Bool :=
  if s.closedGens.contains g then (s.closedGens, true) else (g :: s.closedGens, false)

def step (s : St) : Op → St × Out
  /- func (c *controlBuffer) executeAndPut(f func() bool, it cbItem) with f == nil, it != nil -/
  | .put it =>
    if s.closed then (s, .putErr) else
    let wakeUp := s.consumerWaiting
    let s := { s with consumerWaiting := false, list := s.list ++ [it] }
    let s :=
      if it.throttled then
        let s := { s with trf := s.trf + 1 }
        if s.trf = s.limit then { s with chan := some s.nextGen, nextGen := s.nextGen + 1 } else s
      else s
    let s := if wakeUp then { s with wakeup := true } else s
    (s, .putOk)
  /- the locked part of one iteration of get(block) -/
  | .get block =>
    if s.parked then (s, .busy) else
    if s.closed then (s, .getErr) else
    match s.list with
    | [] => if block then ({ s with consumerWaiting := true, parked := true }, .parkedNow) else (s, .getNone)
    | h :: rest =>
      let s' := { s with list := rest }
      if h.throttled then
        if s.trf = s.limit then
          match s.chan with
          | none => (s, .panic)                       -- close(*nil): the process dies here
          | some g =>
            let c := closeGen s g
            if c.2 then (s, .panic) else
            ({ s' with chan := none, closedGens := c.1, trf := s.trf - 1 }, .got h)
        else ({ s' with trf := s.trf - 1 }, .got h)
      else (s', .got h)
  /- the consumer's select { case <-c.wakeupCh: case <-c.done: } -/
  | .wake =>
    if !s.parked then (s, .none)
    else if s.wakeup then ({ s with wakeup := false, parked := false }, .woke)
    else if s.done then ({ s with parked := false }, .doneErr)
    else (s, .blocked)
  /- throttle(), first half: ch := c.trfChan.Load() -/
  | .thr1 r =>
    match s.chan with
    | none => (s, .pass)
    | some g => ({ s with readers := s.readers ++ [(r, g)] }, .loaded g)
  /- throttle(), second half: select { case <-(*ch): case <-c.done: } -/
  | .thr2 r =>
    match s.readers.lookup r with
    | none => (s, .none)
    | some g =>
      if s.closedGens.contains g || s.done then ({ s with readers := s.readers.filter (·.1 ≠ r) }, .pass)
      else (s, .blocked)
  /- func (c *controlBuffer) finish() -/
  | .finish =>
    if s.closed then (s, .none) else
    let ids := (s.list.filter (·.hdr)).map (·.id)
    let s' := { s with closed := true, list := [] }
    match s.chan with
    | none => (s', .orphaned ids)
    | some g =>
      let c := closeGen s g
      if c.2 then (s, .panic) else ({ s' with chan := none, closedGens := c.1 }, .orphaned ids)
  | .closeDone => ({ s with done := true }, .none)

def run (s : St) : List Op → St × List (Op × Out)
  | [] => (s, [])
  | o :: os =>
    let r := step s o
    let q := run r.1 os
    (q.1, (o, r.2) :: q.2)

/-- Number of throttled items queued. -/
def throttledCount (l : List Item) : Nat := (l.filter (·.throttled)).length

/-- Reader `r` is blocked: it waits on a generation that is still open, and `done` is open. -/
def readerBlocked (s : St) (r : Nat) : Bool :=
  match s.readers.lookup r with
  | some g => !s.closedGens.contains g && !s.done
  | none => false

def acceptedOf : List (Op × Out) → List Item
  | [] => []
  | (.put it, .putOk) :: t => it :: acceptedOf t
  | _ :: t => acceptedOf t

def deliveredOf : List (Op × Out) → List Item
  | [] => []
  | (_, .got it) :: t => it :: deliveredOf t
  | _ :: t => deliveredOf t

def orphanedOf : List (Op × Out) → List Nat
  | [] => []
  | (_, .orphaned ids) :: t => ids ++ orphanedOf t
  | _ :: t => orphanedOf t

/-! ### The executable property predicate (monitor) for C16

State-free of the implementation: it sees the op, its result, and — at quiescence — which reader
goroutines are still blocked inside `throttle()`. -/

structure Mon where
  limit     : Nat
  queue     : List Item     -- accepted, not yet taken by the writer
  closeSeen : Bool
  doneSeen  : Bool
deriving Repr, DecidableEq

def Mon.init (limit : Nat) : Mon := ⟨limit, [], false, false⟩

inductive Verdict
  | ok
  | na
  | viol (code : Nat)
deriving Repr, DecidableEq

def violText : Nat → String
  | 1 => "item accepted after the control buffer was closed"
  | 2 => "item rejected although the control buffer is open"
  | 3 => "writer received an item out of order / twice / never put"
  | 4 => "get failed although the control buffer is open"
  | 5 => "get returned an item after the control buffer was closed"
  | 6 => "finish did not orphan exactly the queued clientHeaders, each once"
  | 7 => "reader blocked in throttle() although fewer than `limit` throttled items are queued"
  | 8 => "reader still blocked in throttle() after the control buffer was closed (or done)"
  | 9 => "runtime panic (nil / double channel close)"
  | 10 => "get returned nothing although items are queued"
  | 11 => "clientHeaders orphaned although the buffer was already closed / orphaned twice"
  | 12 => "unparsable answer of the implementation"
  | 13 => "a clientHeaders was failed by the finish() of a control buffer it was not queued in"
  | _ => "?"

/-- Verdict on one op and its result. -/
def Mon.step (m : Mon) (o : Op) (out : Out) : Mon × Verdict :=
  match o, out with
  | _, .panic => (m, .viol 9)
  | .put it, .putOk => if m.closeSeen then (m, .viol 1) else ({ m with queue := m.queue ++ [it] }, .ok)
  | .put _, .putErr => if m.closeSeen then (m, .ok) else (m, .viol 2)
  | .get _, .got it =>
    if m.closeSeen then (m, .viol 5) else
    match m.queue with
    | h :: rest => if h = it then ({ m with queue := rest }, .ok) else (m, .viol 3)
    | [] => (m, .viol 3)
  | .get _, .getErr => if m.closeSeen then (m, .ok) else (m, .viol 4)
  | .get _, .getNone => if !m.closeSeen && !m.queue.isEmpty then (m, .viol 10) else (m, .ok)
  | .get _, .parkedNow => if !m.closeSeen && !m.queue.isEmpty then (m, .viol 10) else (m, .ok)
  | .finish, .orphaned ids =>
    if m.closeSeen then (if ids.isEmpty then (m, .ok) else (m, .viol 11))
    else if ids = (m.queue.filter (·.hdr)).map (·.id) then ({ m with closeSeen := true, queue := [] }, .ok)
    else ({ m with closeSeen := true, queue := [] }, .viol 6)
  | .finish, .none => if m.closeSeen then (m, .ok) else (m, .viol 6)
  | .closeDone, _ => ({ m with doneSeen := true }, .na)
  | _, _ => (m, .na)

/-- Verdict on the set of blocked readers observed in the current state. -/
def Mon.readers (m : Mon) (anyBlocked : Bool) : Verdict :=
  if !anyBlocked then .ok
  else if m.closeSeen || m.doneSeen then .viol 8
  else if throttledCount m.queue < m.limit then .viol 7
  else .ok

def anyBlocked (s : St) : Bool := s.readers.any fun p => readerBlocked s p.1

/-- Model + monitor over an op list: after every step both verdicts. -/
def verdicts (s : St) (m : Mon) : List Op → List Verdict
  | [] => []
  | o :: os =>
    let r := step s o
    let q := Mon.step m o r.2
    q.2 :: q.1.readers (anyBlocked r.1) :: verdicts r.1 q.1 os

end GrpcModel.ControlBuf
