/-!
Model of the client's stream-quota waiters in `internal/transport/http2_client.go` (C17, second
half): `NewStream`'s `checkForStreamQuota` + wait loop, `addBackStreamQuota` (closeStream),
`updateStreamQuota` (SETTINGS_MAX_CONCURRENT_STREAMS).

`checkForStreamQuota`, `addBackStreamQuota` and `updateStreamQuota` all run as the `f` of
`controlBuf.executeAndPut`, i.e. under `controlBuf.mu`: each is one atomic step. A waiter's
`select { case <-ch: … }` is a separate atomic step on the channel value `ch` it remembered.

* `newStream w` — first attempt of waiter `w`: quota ≤ 0 → `waitingStreams++`, remember the current
  `streamsQuotaAvailable` and park; else `streamQuota--`, create the stream, and pass the baton on
  (`if streamQuota > 0 && waitingStreams > 0 { non-blocking send }`).
* `wake w` — parked `w`'s select: its channel was closed (it is an old generation) or is the current
  one and holds a token (taken) → `w` goes to `retry`; otherwise blocked.
* `retry w` — next attempt (`firstTry == false`): quota ≤ 0 → park again on the current channel
  (no `waitingStreams++`); else `waitingStreams--`, `streamQuota--`, create, pass the baton.
* `giveUp w` — parked `w` leaves through ctx.Done / goAway / transport done. As in the code,
  `waitingStreams` is NOT decremented (it over-counts from then on; harmless, see theorems).
* `closeStream` — `addBackStreamQuota`: `streamQuota++`, baton.
* `settings d` — `updateStreamQuota` with `delta = d`: `streamQuota += d`; if `d > 0 && waitingStreams > 0`
  the channel is closed (wakes everybody parked on it) and replaced by a fresh empty one (`gen+1`).

The draining / `activeStreams == nil` early return inside `checkForStreamQuota` (transport going
away) is not modelled.
-/
namespace GrpcModel.QuotaWait

inductive WSt
  | parked (g : Nat)
  | retry
deriving Repr, DecidableEq

structure St where
  quota   : Int                 -- t.streamQuota
  waiting : Nat                 -- t.waitingStreams
  gen     : Nat                 -- which channel t.streamsQuotaAvailable is (older ones are closed)
  token   : Bool                -- the current channel (capacity 1) holds a token
  waiters : List (Nat × WSt)
deriving Repr, DecidableEq

def init (maxStreams : Nat) : St := ⟨maxStreams, 0, 0, false, []⟩

inductive Op
  | newStream (w : Nat)
  | wake (w : Nat)
  | retry (w : Nat)
  | giveUp (w : Nat)
  | closeStream
  | settings (d : Int)
deriving Repr, DecidableEq

inductive Out
  | created
  | parked
  | woken
  | blocked
  | gaveUp
  | none
deriving Repr, DecidableEq

/-- `if t.streamQuota > 0 && t.waitingStreams > 0 { select { case ch <- struct{}{}: default: } }` -/
def baton (s : St) : St := if s.quota > 0 ∧ s.waiting > 0 then { s with token := true } else s

def setW (l : List (Nat × WSt)) (w : Nat) (st : WSt) : List (Nat × WSt) :=
  l.map fun p => if p.1 = w then (w, st) else p

def step (s : St) : Op → St × Out
  | .newStream w =>
    if (s.waiters.lookup w).isSome then (s, .none)
    else if s.quota ≤ 0 then
      ({ s with waiting := s.waiting + 1, waiters := s.waiters ++ [(w, .parked s.gen)] }, .parked)
    else (baton { s with quota := s.quota - 1 }, .created)
  | .wake w =>
    match s.waiters.lookup w with
    | some (.parked g) =>
      if g ≠ s.gen then ({ s with waiters := setW s.waiters w .retry }, .woken)
      else if s.token then ({ s with token := false, waiters := setW s.waiters w .retry }, .woken)
      else (s, .blocked)
    | _ => (s, .none)
  | .retry w =>
    match s.waiters.lookup w with
    | some .retry =>
      if s.quota ≤ 0 then ({ s with waiters := setW s.waiters w (.parked s.gen) }, .parked)
      else
        (baton { s with waiting := s.waiting - 1, quota := s.quota - 1,
                        waiters := s.waiters.filter (·.1 ≠ w) }, .created)
    | _ => (s, .none)
  | .giveUp w =>
    match s.waiters.lookup w with
    | some (.parked _) => ({ s with waiters := s.waiters.filter (·.1 ≠ w) }, .gaveUp)
    | _ => (s, .none)
  | .closeStream => (baton { s with quota := s.quota + 1 }, .none)
  | .settings d =>
    let s := { s with quota := s.quota + d }
    if d > 0 ∧ s.waiting > 0 then ({ s with gen := s.gen + 1, token := false }, .none) else (s, .none)

def run (s : St) : List Op → St × List (Op × Out)
  | [] => (s, [])
  | o :: os =>
    let r := step s o
    let q := run r.1 os
    (q.1, (o, r.2) :: q.2)

/-- Waiter entry `p` can move: it retries, or its select has a ready case. -/
def canMove (s : St) (p : Nat × WSt) : Bool :=
  match p.2 with
  | .retry => true
  | .parked g => g != s.gen || s.token

/-- Some waiter is parked and nobody can move: the waiters are stuck. -/
def stuck (s : St) : Bool := !s.waiters.isEmpty && !(s.waiters.any (canMove s))

def createdCount : List (Op × Out) → Int
  | [] => 0
  | (_, .created) :: t => 1 + createdCount t
  | _ :: t => createdCount t

def closedCount : List (Op × Out) → Int
  | [] => 0
  | (.closeStream, _) :: t => 1 + closedCount t
  | _ :: t => closedCount t

def deltaSum : List (Op × Out) → Int
  | [] => 0
  | (.settings d, _) :: t => d + deltaSum t
  | _ :: t => deltaSum t

/-! ### Monitor (stream-quota half of C17): sees stream creations, stream closes, SETTINGS deltas
and, at a quiescent point, whether some NewStream call is still waiting. -/

structure Mon where
  quota : Int
deriving Repr, DecidableEq

def Mon.init (maxStreams : Nat) : Mon := ⟨maxStreams⟩

inductive Verdict
  | ok
  | na
  | viol (code : Nat)
deriving Repr, DecidableEq

def violText : Nat → String
  | 1 => "stream created although no stream quota was available"
  | 2 => "NewStream still waiting although stream quota is free (lost wake-up)"
  | 3 => "streamQuota differs from max - created + closed + settings deltas"
  | _ => "?"

def Mon.step (m : Mon) (o : Op) (out : Out) : Mon × Verdict :=
  match o, out with
  | _, .created => if m.quota > 0 then ({ m with quota := m.quota - 1 }, .ok) else ({ m with quota := m.quota - 1 }, .viol 1)
  | .closeStream, _ => ({ m with quota := m.quota + 1 }, .na)
  | .settings d, _ => ({ m with quota := m.quota + d }, .na)
  | _, _ => (m, .na)

def Mon.quiescent (m : Mon) (someoneWaiting : Bool) : Verdict :=
  if someoneWaiting && decide (m.quota > 0) then .viol 2 else .ok

def Mon.ledger (m : Mon) (observed : Int) : Verdict := if observed = m.quota then .ok else .viol 3

def verdicts (s : St) (m : Mon) : List Op → List Verdict
  | [] => []
  | o :: os =>
    let r := step s o
    let q := Mon.step m o r.2
    q.2 :: q.1.quiescent (stuck r.1) :: q.1.ledger r.1.quota :: verdicts r.1 q.1 os

end GrpcModel.QuotaWait
