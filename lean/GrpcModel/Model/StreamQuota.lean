/-
Model of the client-side stream admission ledger (C13)
  internal/transport/http2_client.go :
    NewStream            — the closure `checkForHeaderListSize() && checkForStreamQuota()` run under
                           `controlBuf.executeAndPut`, and the `select` a refused caller parks in
    closeStream          — `addBackStreamQuota`
    handleSettings       — `updateStreamQuota` (delta + close-and-replace broadcast) and
                           `maxSendHeaderListSize`
    handleGoAway         — `close(t.goAway)`, `t.state = draining`
    NewHTTP2Client       — initial values (`defaultMaxStreamsClient`, nextID = 1)

Granularity: one rule = one critical section of `controlBuf.mu` (executeAndPut runs the closure
under that mutex: Generated.executeAndPutSrc pins its source) or one channel operation of a
parked caller. Every interleaving of callers, the reader goroutine and stream closers is a list of
rules. A rule that is not enabled in a state is a no-op.

Unsigned/size facts: `streamQuota` is int64, `maxConcurrentStreams`/`waitingStreams`/`nextID` are
uint32. The model uses Int/Nat; `waiting_ge_waiters` (GrpcProofs) shows the `waitingStreams--`
never goes below zero, `nextID_bound` bounds `nextID`.
-/
import GrpcModel.Generated.StreamQuota
namespace GrpcModel.StreamQuota
open GrpcModel.Generated

/-- why a NewStream call returned an error -/
inductive Fail
  | hdrsize    -- checkForHeaderListSize failed
  | ctx        -- `<-ctx.Done()` (deadline or cancellation)
  | drain      -- `<-t.goAway`
deriving DecidableEq, Repr, Hashable

/-- Where a NewStream call is. -/
inductive Phase
  /-- `NewStream` entered, closure not yet run (`firstTry = true`) -/
  | fresh
  /-- closure returned false with `ch` = the wake-up channel of generation `gen`; parked in `select` -/
  | blocked (gen : Nat)
  /-- received from `ch` (token or closed channel); about to re-run the closure (`firstTry = false`) -/
  | woken
  /-- the closure took the `draining` early return while `t.goAway` is open (GracefulClose without
  GOAWAY): the caller is back in `select` with a nil or stale `ch`; only ctx / transport close end it -/
  | stuck
  /-- closure returned true: HEADERS enqueued with this stream id; `drainReq` = `transportDrainRequired` -/
  | admitted (sid : Nat) (drainReq : Bool)
  | failed (why : Fail)
deriving DecidableEq, Repr, Hashable

structure Caller where
  /-- header list size of this call: Σ `hf.Size()` -/
  hsz : Nat
  phase : Phase
deriving DecidableEq, Repr, Hashable

/-- a stream whose HEADERS has been enqueued and for which closeStream has not run its closure -/
structure Stream where
  id : Nat
  /-- client has half-closed (`streamWriteDone`): decides only whether an END_STREAM from the server is answered by RST_STREAM -/
  half : Bool
deriving DecidableEq, Repr, Hashable

structure State where
  /-- `t.streamQuota` (int64; "can go negative if server decreases it") -/
  quota : Int
  /-- `t.maxConcurrentStreams`: the latest advertised MAX_CONCURRENT_STREAMS -/
  maxC : Nat
  /-- `t.waitingStreams` -/
  waiting : Nat
  /-- `len(t.streamsQuotaAvailable) = 1`: the one-slot channel holds a token -/
  token : Bool
  /-- number of times `t.streamsQuotaAvailable` has been closed and replaced -/
  gen : Nat
  /-- `t.nextID` -/
  nextID : Nat
  /-- `t.maxSendHeaderListSize` -/
  hdrLimit : Option Nat
  openS : List Stream
  callers : List Caller
  /-- `t.state == draining` -/
  draining : Bool
  /-- `t.goAway` is closed -/
  goAwayClosed : Bool
  /-- `MaxStreamID` (a package variable; NewStream drains the transport once `nextID` passes it) -/
  maxSID : Nat
  /-- ghost: quota units consumed by the `draining` early return of the closure (never given back) -/
  leaked : Nat
  /-- ghost: admissions that found `nextID > MaxStreamID` (their caller goes on to GracefulClose) -/
  flagged : Nat
deriving DecidableEq, Repr, Hashable

inductive Ev
  /-- HEADERS for a new stream put on the control buffer (loopy writes the buffer in FIFO order) -/
  | hdr (id : Nat)
  /-- RST_STREAM put on the control buffer by closeStream -/
  | rst (id : Nat) (code : Nat)
  /-- DATA with END_STREAM -/
  | endStream (id : Nat)
deriving DecidableEq, Repr

inductive Rule
  /-- a goroutine calls NewStream with a header list of this size -/
  | call (hsz : Nat)
  /-- a fresh caller runs the closure (firstTry) -/
  | tryNew (c : Nat)
  /-- a parked caller receives from its channel -/
  | wake (c : Nat)
  /-- a woken caller re-runs the closure -/
  | retry (c : Nat)
  /-- a parked caller leaves through `ctx.Done()` -/
  | abandon (c : Nat)
  /-- a parked caller leaves through `t.goAway` -/
  | failDrain (c : Nat)
  /-- closeStream on stream `sid` (`rst` = code of the RST_STREAM it sends, if any) -/
  | closeStream (sid : Nat) (rst : Option Nat)
  /-- client half-close of stream `sid` -/
  | halfClose (sid : Nat)
  /-- handleSettings with MAX_CONCURRENT_STREAMS = n -/
  | settings (n : Nat)
  /-- handleSettings with MAX_HEADER_LIST_SIZE = n -/
  | hls (n : Nat)
  /-- handleGoAway (first GOAWAY): goAway closed, state draining -/
  | goAway
  /-- an admitted caller with `transportDrainRequired` calls GracefulClose -/
  | gracefulClose (c : Nat)
deriving DecidableEq, Repr

/-- NewHTTP2Client's literal initial values. -/
def init0 : State :=
  { quota := defaultMaxStreamsClient, maxC := defaultMaxStreamsClient, waiting := 0, token := false,
    gen := 0, nextID := 1, hdrLimit := none, openS := [], callers := [], draining := false,
    goAwayClosed := false, maxSID := maxStreamID, leaked := 0, flagged := 0 }

def setPhase (s : State) (c : Nat) (p : Phase) : State :=
  match s.callers[c]? with
  | some cal => { s with callers := s.callers.set c { cal with phase := p } }
  | none => s

/-- `checkForHeaderListSize` is false -/
def tooBig (s : State) (cal : Caller) : Bool :=
  match s.hdrLimit with
  | some l => decide (cal.hsz > l)
  | none => false

/-- `if t.streamQuota > 0 && t.waitingStreams > 0 { select { case t.streamsQuotaAvailable <- struct{}{}: default: } }` -/
def signal (s : State) : State :=
  if s.quota > 0 ∧ s.waiting > 0 then { s with token := true } else s

/-- The closure `checkForHeaderListSize() && checkForStreamQuota()` for caller `c`, then what the
caller does with its result (park / return error / return the stream). -/
def closure (s : State) (c : Nat) (cal : Caller) (firstTry : Bool) : State × List Ev :=
  if tooBig s cal then (setPhase s c (.failed .hdrsize), [])
  else if s.quota ≤ 0 then
    let s := if firstTry then { s with waiting := s.waiting + 1 } else s
    (setPhase s c (.blocked s.gen), [])
  else
    let s := if firstTry then s else { s with waiting := s.waiting - 1 }
    let s := { s with quota := s.quota - 1 }
    if s.draining then
      -- `return false` with the quota unit taken; the caller's select then sees `t.goAway` closed,
      -- or (GracefulClose without GOAWAY) parks on a nil/stale channel
      (setPhase { s with leaked := s.leaked + 1 } c (if s.goAwayClosed then .failed .drain else .stuck), [])
    else
      let id := s.nextID
      let s := { s with nextID := id + 2, openS := s.openS ++ [⟨id, false⟩] }
      let dr := decide (s.nextID > s.maxSID)
      let s := if dr then { s with flagged := s.flagged + 1 } else s
      (setPhase (signal s) c (.admitted id dr), [.hdr id])

def hasStream (s : State) (sid : Nat) : Bool := s.openS.any (·.id == sid)

def step (s : State) : Rule → State × List Ev
  | .call hsz => ({ s with callers := s.callers ++ [⟨hsz, .fresh⟩] }, [])
  | .tryNew c =>
    match s.callers[c]? with
    | some cal => if cal.phase = .fresh then closure s c cal true else (s, [])
    | none => (s, [])
  | .wake c =>
    match s.callers[c]? with
    | some cal =>
      match cal.phase with
      | .blocked g =>
        if g < s.gen then (setPhase s c .woken, [])               -- closed channel
        else if s.token then (setPhase { s with token := false } c .woken, [])
        else (s, [])
      | _ => (s, [])
    | none => (s, [])
  | .retry c =>
    match s.callers[c]? with
    | some cal => if cal.phase = .woken then closure s c cal false else (s, [])
    | none => (s, [])
  | .abandon c =>
    match s.callers[c]? with
    | some cal =>
      match cal.phase with
      | .blocked _ => (setPhase s c (.failed .ctx), [])
      | .stuck => (setPhase s c (.failed .ctx), [])
      | _ => (s, [])
    | none => (s, [])
  | .failDrain c =>
    match s.callers[c]? with
    | some cal =>
      match cal.phase with
      | .blocked _ => if s.goAwayClosed then (setPhase s c (.failed .drain), []) else (s, [])
      | _ => (s, [])
    | none => (s, [])
  | .closeStream sid rst =>
    if hasStream s sid then
      let s := { s with openS := s.openS.eraseP (·.id == sid), quota := s.quota + 1 }
      (signal s, match rst with | some code => [.rst sid code] | none => [])
    else (s, [])
  | .halfClose sid =>
    if s.openS.any (fun st => st.id == sid && !st.half) then
      ({ s with openS := s.openS.map fun st => if st.id == sid then { st with half := true } else st }, [.endStream sid])
    else (s, [])
  | .settings n =>
    let delta : Int := (n : Int) - (s.maxC : Int)
    let s' := { s with maxC := n, quota := s.quota + delta }
    if delta > 0 ∧ s.waiting > 0 then ({ s' with gen := s.gen + 1, token := false }, [])
    else (s', [])
  | .hls n => ({ s with hdrLimit := some n }, [])
  | .goAway => ({ s with draining := true, goAwayClosed := true }, [])
  | .gracefulClose c =>
    match s.callers[c]? with
    | some cal =>
      match cal.phase with
      | .admitted sid true => (setPhase { s with draining := true } c (.admitted sid false), [])
      | _ => (s, [])
    | none => (s, [])

/-- final state of a schedule -/
def run (s : State) : List Rule → State
  | [] => s
  | r :: rs => run (step s r).1 rs

/-- everything put on the wire (control buffer) by a schedule, in order -/
def trace (s : State) : List Rule → List Ev
  | [] => []
  | r :: rs => (step s r).2 ++ trace (step s r).1 rs

/-- The state when NewHTTP2Client returns: the server preface has been handled with
`handleSettings(sf, isFirst = true)`; a preface without MAX_CONCURRENT_STREAMS counts as MaxUint32. -/
def initAfterPreface (mcs : Option Nat) (hl : Option Nat) : State :=
  let s := (step init0 (.settings (mcs.getD 4294967295))).1
  match hl with
  | some l => (step s (.hls l)).1
  | none => s

def hdrIds : List Ev → List Nat
  | [] => []
  | .hdr id :: t => id :: hdrIds t
  | _ :: t => hdrIds t

/-! ### predicates the theorems and the monitor share -/

def isParked (p : Phase) : Bool := match p with | .blocked _ => true | _ => false
def isWoken (p : Phase) : Bool := match p with | .woken => true | _ => false
def isFresh (p : Phase) : Bool := match p with | .fresh => true | _ => false
/-- counted in `waitingStreams`: has failed the quota check at least once and not returned -/
def isWaiter (p : Phase) : Bool := isParked p || isWoken p

def nParked (s : State) : Nat := s.callers.countP (fun c => isParked c.phase)
def nWoken (s : State) : Nat := s.callers.countP (fun c => isWoken c.phase)
def nWaiters (s : State) : Nat := s.callers.countP (fun c => isWaiter c.phase)
def nParkedOld (s : State) : Nat :=
  s.callers.countP (fun c => match c.phase with | .blocked g => decide (g < s.gen) | _ => false)
def nFresh (s : State) : Nat := s.callers.countP (fun c => isFresh c.phase)

/-- no caller can take a step on its own: nothing fresh, nothing woken, nobody parked on a closed
channel, and the token (if any) has no taker -/
def quiescent (s : State) : Bool :=
  nFresh s == 0 && nWoken s == 0 && nParkedOld s == 0 && (!s.token || nParked s == 0)

/-- "a caller is parked although stream quota is free" — the lost-wake-up condition -/
def starved (s : State) : Bool := decide (s.quota > 0) && nParked s > 0

end GrpcModel.StreamQuota
