/-
Model of internal/xds/clients/xdsclient/ads_stream.go (adsStreamImpl): subscribe / unsubscribe,
the `send` goroutine (sendNewLocked, sendExisting), the `recv` goroutine (recv, onRecv, ACK/NACK,
adsFlowControl), the `runner` (stream creation, backoff.RunF) — as a big-step machine: one
external event, then the three goroutines run until all of them are blocked (`settle`).

Time is in milliseconds; the backoff function is the constant `backoffMs` (a parameter of the
real constructor too). Watch-expiry timers are not modelled (they belong to C43).
Requests emitted within one step are reported sorted by type: `sendExisting` ranges over a Go map.
-/
namespace GrpcModel.Ads

structure TypeSt where
  version : String := ""        -- last ACKed version; survives stream restarts
  nonce   : String := ""        -- last nonce received on the current stream
  subs    : List String := []   -- subscribed names, kept sorted and duplicate free
deriving Repr, DecidableEq

structure Req where
  typ : String
  version : String
  nonce : String
  names : List String
  err : Bool          -- ErrorDetail present (NACK)
  node : Bool         -- Node present
deriving Repr, DecidableEq

structure Msg where
  typ : String
  version : String
  nonce : String
  verdict : String    -- what xdsChannel.onResponse will answer: ack | nack | unsup
  names : List String
deriving Repr, DecidableEq

structure St where
  types : List (String × TypeSt)          -- resourceTypeState (created on first subscribe)
  pending : List (String × List String)   -- pendingRequests
  up : Bool                               -- the transport can create streams
  live : Bool                             -- the runner's current stream exists and is not broken
  hasStream : Bool                        -- the runner is inside recv(stream) (stream may be broken)
  senderStream : Bool                     -- the send goroutine holds a stream object
  senderLive : Bool                       -- … and that object is not broken
  first : Bool                            -- firstRequest
  fcPending : Bool                        -- adsFlowControl.pending
  unread : List Msg                       -- sent by the server on the current stream, not yet read
  msgReceived : Bool                      -- recv's local flag for the current stream
  now : Nat
  retryAt : Option Nat                    -- RunF's timer when the runner is between streams
  streams : Nat                           -- streams created so far
  backoffMs : Nat
deriving Repr

def insertSorted (x : String) : List String → List String
  | [] => [x]
  | y :: ys => if x = y then y :: ys else if x < y then x :: y :: ys else y :: insertSorted x ys

def getT (ts : List (String × TypeSt)) (t : String) : Option TypeSt := (ts.find? (·.1 = t)).map (·.2)

def setT (ts : List (String × TypeSt)) (t : String) (v : TypeSt) : List (String × TypeSt) :=
  if ts.any (·.1 = t) then ts.map (fun p => if p.1 = t then (t, v) else p) else ts ++ [(t, v)]

inductive Ev | streamErr (afterRecv : Bool)
deriving Repr, DecidableEq

/-- sendMessageLocked on a live stream -/
def emit (s : St) (t : String) (names : List String) (version nonce : String) (err : Bool) : St × Req :=
  ({ s with first := false }, ⟨t, version, nonce, names, err, s.first⟩)

/-- the `send` goroutine woken by notifySender -/
def senderNotify (s : St) : St × List Req :=
  if !s.senderStream then (s, [])                          -- no stream yet: requests stay queued
  else if !s.senderLive then ({ s with senderStream := false, pending := [] }, [])  -- Send fails
  else
    let rec go (s : St) (ps : List (String × List String)) (acc : List Req) : St × List Req :=
      match ps with
      | [] => (s, acc)
      | (t, names) :: rest =>
        match getT s.types t with
        | none => go s rest acc
        | some ts => let (s', r) := emit s t names ts.version ts.nonce false; go s' rest (acc ++ [r])
    let (s', rs) := go s s.pending []
    ({ s' with pending := [] }, rs)

/-- the `send` goroutine receiving a new stream: sendExisting -/
def sendExisting (s : St) : St × List Req :=
  let s := { s with pending := [], senderStream := true, senderLive := true,
                    types := s.types.map fun p => (p.1, { p.2 with nonce := "" }) }
  let rec go (s : St) (ts : List (String × TypeSt)) (acc : List Req) : St × List Req :=
    match ts with
    | [] => (s, acc)
    | (t, st) :: rest =>
      if st.subs = [] then go s rest acc
      else let (s', r) := emit s t st.subs st.version "" false; go s' rest (acc ++ [r])
  go s s.types []

/-- the runner tries to create a stream (RunF fired) -/
def tryStream (s : St) : St × List Req × List Ev :=
  if s.up then
    let s := { s with streams := s.streams + 1, first := true, live := true, hasStream := true,
                      msgReceived := false, unread := [], retryAt := none }
    let (s, rs) := sendExisting s
    (s, rs, [])
  else
    ({ s with retryAt := some (s.now + s.backoffMs), live := false, hasStream := false }, [], [.streamErr false])

/-- recv goroutine: one received message (onResponse + onRecv) -/
def handleMsg (s : St) (m : Msg) : St × List Req :=
  let s := { s with msgReceived := true, fcPending := true }
  if m.verdict = "unsup" then (s, [])
  else match getT s.types m.typ with
    | none => (s, [])                         -- no state for this type URL: ignored
    | some ts =>
      let prev := ts.version
      let ts' := { ts with nonce := m.nonce, version := if m.verdict = "ack" then m.version else ts.version }
      let s := { s with types := setT s.types m.typ ts' }
      if m.verdict = "ack" then
        let (s, r) := emit s m.typ ts'.subs m.version m.nonce false; (s, [r])
      else
        let (s, r) := emit s m.typ ts'.subs prev m.nonce true; (s, [r])

/-- run the goroutines until all are blocked. -/
def settle (fuel : Nat) (s : St) (rs : List Req) (evs : List Ev) : St × List Req × List Ev :=
  match fuel with
  | 0 => (s, rs, evs)
  | fuel + 1 =>
    if s.hasStream then
      if s.fcPending then (s, rs, evs)                 -- reader blocked in fc.wait()
      else if !s.live then
        -- Recv fails: onError, then RunF decides
        let ev := Ev.streamErr s.msgReceived
        let s := { s with hasStream := false, senderLive := false }
        if s.msgReceived then
          let (s, r2, e2) := tryStream s              -- ErrResetBackoff: timer.Reset(0)
          settle fuel s (rs ++ r2) (evs ++ [ev] ++ e2)
        else (({ s with retryAt := some (s.now + s.backoffMs) }), rs, evs ++ [ev])
      else match s.unread with
        | [] => (s, rs, evs)                           -- reader blocked in Recv
        | m :: rest =>
          let (s, r2) := handleMsg { s with unread := rest } m
          settle fuel s (rs ++ r2) evs
    else match s.retryAt with
      | some t =>
        if t ≤ s.now then
          let (s, r2, e2) := tryStream s
          settle fuel s (rs ++ r2) (evs ++ e2)
        else (s, rs, evs)
      | none => (s, rs, evs)

inductive Op
  | up | down
  | sub (t n : String) | unsub (t n : String)
  | recv (m : Msg)
  | done
  | brk
  | sleep (ms : Nat)
deriving Repr

/-- newADSStreamImpl: the runner's first attempt happens at once -/
def init (backoffMs : Nat) : St :=
  { types := [], pending := [], up := false, live := false, hasStream := false, senderStream := false,
    senderLive := false, first := false, fcPending := false, unread := [], msgReceived := false,
    now := 0, retryAt := some 0, streams := 0, backoffMs := backoffMs }

/-- advance time to `target`, firing the retry timer whenever it is due -/
def advance (fuel : Nat) (s : St) (target : Nat) (rs : List Req) (evs : List Ev) : St × List Req × List Ev :=
  match fuel with
  | 0 => ({ s with now := target }, rs, evs)
  | fuel + 1 =>
    match s.retryAt with
    | some t =>
      if !s.hasStream ∧ t ≤ target then
        let (s, r2, e2) := settle 64 { s with now := max s.now t } [] []
        if s.retryAt = some t then ({ s with now := target }, rs ++ r2, evs ++ e2)   -- no progress (cannot happen)
        else advance fuel s target (rs ++ r2) (evs ++ e2)
      else ({ s with now := target }, rs, evs)
    | none => ({ s with now := target }, rs, evs)

def step (s : St) (op : Op) : St × List Req × List Ev :=
  match op with
  | .up => settle 64 { s with up := true } [] []
  | .down => settle 64 { s with up := false } [] []
  | .sub t n =>
    let ts := (getT s.types t).getD {}
    let ts' := { ts with subs := insertSorted n ts.subs }
    let s := { s with types := setT s.types t ts', pending := s.pending ++ [(t, ts'.subs)] }
    let (s, rs) := senderNotify s
    settle 64 s rs []
  | .unsub t n =>
    match getT s.types t with
    | none => settle 64 s [] []
    | some ts =>
      if !ts.subs.contains n then settle 64 s [] []
      else
        let ts' := { ts with subs := ts.subs.filter (· ≠ n) }
        let s := { s with types := setT s.types t ts', pending := s.pending ++ [(t, ts'.subs)] }
        let (s, rs) := senderNotify s
        settle 64 s rs []
  | .recv m => if s.live then settle 64 { s with unread := s.unread ++ [m] } [] [] else (s, [], [])
  | .done => settle 64 { s with fcPending := false } [] []
  | .brk => settle 64 { s with live := false, senderLive := false, unread := [] } [] []
  | .sleep ms => advance 4096 s (s.now + ms) [] []

end GrpcModel.Ads
