import GrpcModel.Model.Serializer
/-!
Model of `internal/grpcsync/pubsub.go` (`PubSub`), C31.

`Subscribe`, the returned cancel func, `Publish` and the body of every scheduled callback hold
`ps.mu` for their whole duration, so each is one atomic action; the PubSub's private
`CallbackSerializer` is the small-step model of `Model/Serializer.lean` with callbacks
`(subscriber, msg)`.  Subscribers and messages are `Nat`s (subscriber identity = the interface value
used as map key; messages are never `nil`).

`Publish` ranges over a Go map: the order in which callbacks for *different* subscribers are
scheduled is unspecified; the model uses subscription order. The property (and the monitor) is per
subscriber, so it does not depend on that order.

`ever` is a history variable (every subscriber that ever subscribed); it is not read by `step`'s
behaviour, only used to state the "a Subscriber value subscribes at most once" hypothesis.
-/
namespace GrpcModel.PubSub
open GrpcModel

abbrev Cb := Nat × Nat   -- (subscriber, message)

structure St where
  ser  : Serializer.St Cb
  msg  : Option Nat
  subs : List Nat
  ever : List Nat
deriving Repr, DecidableEq

def init : St := ⟨Serializer.init, none, [], []⟩

inductive Act
  | subscribe (s : Nat)
  | unsubscribe (s : Nat)
  | publish (v : Nat)
  | cancel
  | fire
  | run
  | ret
deriving Repr, DecidableEq

inductive Ev
  | subscribed (s : Nat)
  | unsubscribed (s : Nat)
  | published (v : Nat)
  | closed
  | delivered (s v : Nat)   -- sub.OnMessage(msg) was called
  | skipped (s v : Nat)     -- callback ran, found the subscriber gone
  | none
deriving Repr, DecidableEq

/-- `ps.cs.TrySchedule(cb)`: the result of `Put` is dropped. -/
def trySchedule (ser : Serializer.St Cb) (cb : Cb) : Serializer.St Cb :=
  (Serializer.step ser (.sched cb)).1

def step (st : St) : Act → St × Ev
  /- func (ps *PubSub) Subscribe(sub Subscriber) -/
  | .subscribe s =>
    let subs := if st.subs.contains s then st.subs else st.subs ++ [s]
    let ser := match st.msg with
      | some m => trySchedule st.ser (s, m)
      | none => st.ser
    ({ st with subs := subs, ser := ser, ever := s :: st.ever }, .subscribed s)
  /- the cancel func returned by Subscribe: delete(ps.subscribers, sub) -/
  | .unsubscribe s => ({ st with subs := st.subs.filter (· ≠ s) }, .unsubscribed s)
  /- func (ps *PubSub) Publish(msg any) -/
  | .publish v =>
    ({ st with msg := some v, ser := st.subs.foldl (fun ser s => trySchedule ser (s, v)) st.ser }, .published v)
  | .cancel => ({ st with ser := (Serializer.step st.ser .cancel).1 }, .none)
  | .fire =>
    let r := Serializer.step st.ser .fire
    ({ st with ser := r.1 }, match r.2 with | .closed => .closed | _ => .none)
  /- one step of the serializer's run goroutine; entering a callback runs its (locked, non-blocking) body -/
  | .run =>
    let r := Serializer.step st.ser .run
    match r.2 with
    | .started (s, v) =>
      if st.subs.contains s then ({ st with ser := r.1 }, .delivered s v)
      else ({ st with ser := r.1 }, .skipped s v)
    | _ => ({ st with ser := r.1 }, .none)
  | .ret => ({ st with ser := (Serializer.step st.ser .ret).1 }, .none)

def run (st : St) : List Act → St × List Ev
  | [] => (st, [])
  | a :: as =>
    let r := step st a
    let q := run r.1 as
    (q.1, r.2 :: q.2)

/-- "Each Subscriber value subscribes at most once" (the domain on which the property holds; see
    `pubsub_resubscribe_counterexample` for what happens outside it). -/
def Fresh (ever : List Nat) : List Act → Prop
  | [] => True
  | .subscribe s :: t => s ∉ ever ∧ Fresh (s :: ever) t
  | _ :: t => Fresh ever t

/-! ### The executable property predicate (trace monitor) for PubSub -/

structure Mon where
  subs    : List Nat
  msg     : Option Nat
  pend    : List Cb     -- deliveries still owed, in the order they were requested
  stopped : Bool        -- the serializer's buffer was closed (context cancelled)
deriving Repr, DecidableEq

def Mon.init : Mon := ⟨[], none, [], false⟩

def violText : Nat → String
  | 1 => "message delivered to a subscriber after it unsubscribed (or that never subscribed)"
  | 2 => "message delivered out of publish order / not the latest at subscription / twice"
  | 3 => "message delivered that the subscriber was never owed"
  | 4 => "owed messages not delivered although the PubSub is idle"
  | _ => "?"

/-- Remove the first entry for subscriber `s`. -/
def dropFirst (s : Nat) : List Cb → List Cb
  | [] => []
  | p :: t => if p.1 = s then t else p :: dropFirst s t

def firstFor (s : Nat) : List Cb → Option Nat
  | [] => none
  | p :: t => if p.1 = s then some p.2 else firstFor s t

def Mon.step (m : Mon) : Ev → Mon × Unbounded.Verdict
  | .subscribed s =>
    let subs := if m.subs.contains s then m.subs else m.subs ++ [s]
    let pend := match m.msg with
      | some v => if m.stopped then m.pend else m.pend ++ [(s, v)]
      | none => m.pend
    ({ m with subs := subs, pend := pend }, .na)
  | .unsubscribed s => ({ m with subs := m.subs.filter (· ≠ s), pend := m.pend.filter (·.1 ≠ s) }, .na)
  | .published v =>
    ({ m with msg := some v, pend := if m.stopped then m.pend else m.pend ++ m.subs.map (·, v) }, .na)
  | .closed => ({ m with stopped := true }, .na)
  | .delivered s v =>
    if !m.subs.contains s then (m, .viol 1)
    else match firstFor s m.pend with
      | some v' => if v' = v then ({ m with pend := dropFirst s m.pend }, .ok) else (m, .viol 2)
      | none => (m, .viol 3)
  | .skipped _ _ => (m, .na)
  | .none => (m, .na)

def Mon.run (m : Mon) : List Ev → Mon × List Unbounded.Verdict
  | [] => (m, [])
  | e :: es =>
    let r := Mon.step m e
    let q := Mon.run r.1 es
    (q.1, r.2 :: q.2)

/-- Quiescence check (serializer idle): nothing may still be owed. -/
def Mon.quiescent (m : Mon) : Unbounded.Verdict := if m.pend.isEmpty then .ok else .viol 4

end GrpcModel.PubSub
