/-
Model of
  balancer/weightedroundrobin/scheduler.go : edfScheduler.nextIndex, rrScheduler.nextIndex,
                                             picker.newScheduler (scaling, RR fallbacks)
  balancer/weightedroundrobin/balancer.go  : picker.inc, endpointWeight.OnLoadReport,
                                             endpointWeight.weight
The integer part (schedulers) is over `Nat` with the uint32 wrap of the sequence counter made
explicit. The floating-point part (`newScheduler`, `OnLoadReport`) is ONE definition, generic over
the arithmetic `Arith α`; it is instantiated with exact rationals (`Rat`, what the theorems are
about) and with IEEE doubles (`Float`, what the real code is diffed against bit for bit).
-/
import GrpcModel.Generated.WRRStride
namespace GrpcModel.WRRStride
open GrpcModel.Generated

/-- `const maxWeight = math.MaxUint16` (regenerated from the source, tie T4). -/
abbrev maxWeight : Nat := wrrMaxWeight

/-- `const offset = maxWeight / 2` (local constant of `edfScheduler.nextIndex`). -/
def offset : Nat := maxWeight / 2

/-- 2^32: the sequence counter is an `atomic.Uint32`. -/
abbrev seqMod : Nat := 4294967296

/-- `picker.inc`: `p.idx.Add(1)` on a uint32 — returns (and stores) the incremented value. -/
def inc (v : Nat) : Nat := (v + 1) % seqMod

/-- One iteration of the `for` loop of `edfScheduler.nextIndex` on sequence number `idx`
    (`idx` is `uint64(uint32)`, so none of the uint64 products can wrap, see
    `GrpcProofs.Lemmas.WRRStride.no_uint64_overflow`):
    `some backendIndex` when the iteration returns, `none` when it `continue`s.
    The Go code divides by `len(s.weights)`: `ws = []` panics there (never built by newScheduler). -/
def edfTry (ws : List Nat) (idx : Nat) : Option Nat :=
  let n := ws.length
  let backendIndex := idx % n
  let generation := idx / n
  let weight := ws.getD backendIndex 0
  let mod := (weight * generation + backendIndex * offset) % maxWeight
  if mod < maxWeight - weight then none else some backendIndex

/-- `edfScheduler.nextIndex` from counter value `v`, giving up after `fuel` sequence numbers
    (the Go loop has no bound): `some (index, new counter)`. -/
def edfNext : Nat → List Nat → Nat → Option (Nat × Nat)
  | 0, _, _ => none
  | fuel + 1, ws, v =>
    let idx := inc v
    match edfTry ws idx with
    | some i => some (i, idx)
    | none => edfNext fuel ws idx

/-- `rrScheduler.nextIndex`: `idx := s.inc(); return int(idx % s.numSCs)`. -/
def rrNext (numSCs v : Nat) : Nat × Nat := (inc v % numSCs, inc v)

/-- What `newScheduler` returns. -/
inductive Sched
  | rr (numSCs : Nat)
  | edf (weights : List Nat)
deriving DecidableEq, Repr

/-- Sequence numbers consumed by a call that moved the counter from `v` to `v'`. -/
def consumed (v v' : Nat) : Nat := (v' + seqMod - v) % seqMod

/-! ### arithmetic the float code is generic over -/

class Arith (α : Type) where
  zero : α
  ofNat : Nat → α
  add : α → α → α
  mul : α → α → α
  div : α → α → α
  /-- `a < b` -/
  lt : α → α → Bool
  /-- `a == b` -/
  eq : α → α → Bool
  /-- `uint16(math.Round(x))` (round half away from zero; in-range arguments only) -/
  roundU16 : α → Nat

open Arith

/-- Exact arithmetic. `roundU16 x = ⌊x + 1/2⌋` (= round half away from zero for x ≥ 0). -/
instance : Arith Rat where
  zero := 0
  ofNat n := (n : Rat)
  add := (· + ·)
  mul := (· * ·)
  div := (· / ·)
  lt a b := decide (a < b)
  eq a b := decide (a = b)
  roundU16 x := (x + 1 / 2).floor.toNat

/-- IEEE-754 binary64, the arithmetic of the Go code. -/
instance : Arith Float where
  zero := 0.0
  ofNat n := Float.ofNat n
  add := (· + ·)
  mul := (· * ·)
  div := (· / ·)
  lt a b := a < b
  eq a b := a == b
  roundU16 x := x.round.toUInt16.toNat

variable {α : Type} [Arith α]

/-- `sum += w` over the endpoint weights, from 0, left to right. -/
def sumW (ep : List α) : α := ep.foldl add zero

/-- `if w > max { max = w }` from 0. -/
def maxW (ep : List α) : α := ep.foldl (fun m w => if lt m w then w else m) zero

/-- `if w == 0 { numZero++ }`. -/
def numZero (ep : List α) : Nat := ep.countP (fun w => eq w zero)

/-- `scalingFactor := maxWeight / max`. -/
def scalingFactor (ep : List α) : α := div (ofNat maxWeight) (maxW ep)

/-- `mean := uint16(math.Round(scalingFactor * unscaledMean))`,
    `unscaledMean := sum / float64(n-numZero)`. -/
def meanW (ep : List α) : Nat :=
  roundU16 (mul (scalingFactor ep) (div (sumW ep) (ofNat (ep.length - numZero ep))))

/-- `scaledWeight := uint16(math.Round(scalingFactor * w))`. -/
def scaled (ep : List α) (w : α) : Nat := roundU16 (mul (scalingFactor ep) w)

/-- the `weights` slice: the mean for `w == 0`, the scaled weight otherwise. -/
def scaledWeights (ep : List α) : List Nat :=
  ep.map fun w => if eq w zero then meanW ep else scaled ep w

/-- `allEqual`: every non-zero weight scales to the mean. -/
def allEqual (ep : List α) : Bool :=
  ep.all fun w => eq w zero || scaled ep w == meanW ep

/-- `picker.newScheduler` on the endpoint weights (`none` = the `nil` scheduler for n = 0). -/
def newScheduler (ep : List α) : Option Sched :=
  let n := ep.length
  if n = 0 then none
  else if n = 1 then some (.rr 1)
  else if numZero ep ≥ n - 1 then some (.rr n)
  else if allEqual ep then some (.rr n)
  else some (.edf (scaledWeights ep))

/-! ### endpointWeight -/

/-- The mutex-protected fields of `endpointWeight`; `none` is the zero `time.Time`. Times are
    nanoseconds on the (virtual) clock `internal.TimeNow`. -/
structure EW (α : Type) where
  weightVal : α
  nonEmptySince : Option Int
  lastUpdated : Option Int

def EW.init : EW α := { weightVal := zero, nonEmptySince := none, lastUpdated := none }

/-- The fields of an `OrcaLoadReport` that `OnLoadReport` reads. -/
structure Report (α : Type) where
  appUtil : α
  cpuUtil : α
  rps : α
  eps : α

/-- `utilization := load.ApplicationUtilization; if utilization == 0 { utilization = load.CpuUtilization }` -/
def Report.utilization (r : Report α) : α := if eq r.appUtil zero then r.cpuUtil else r.appUtil

/-- `utilization == 0 || load.RpsFractional == 0` -/
def Report.empty (r : Report α) : Bool := eq r.utilization zero || eq r.rps zero

/-- `errorRate := eps / rps; weightVal = rps / (utilization + errorRate*penalty)` -/
def Report.weight (penalty : α) (r : Report α) : α :=
  div r.rps (add r.utilization (mul (div r.eps r.rps) penalty))

/-- `endpointWeight.OnLoadReport` at time `now` with `cfg.ErrorUtilizationPenalty = penalty`. -/
def onLoadReport (penalty : α) (now : Int) (w : EW α) (r : Report α) : EW α :=
  if r.empty then w else
  { weightVal := r.weight penalty
    lastUpdated := some now
    nonEmptySince := match w.nonEmptySince with
      | none => some now
      | some t => some t }

/-- `endpointWeight.weight(now, weightExpirationPeriod, blackoutPeriod, _)`: new state and result. -/
def weight (now exp blackout : Int) (w : EW α) : EW α × α :=
  match w.lastUpdated with
  | none => (w, zero)
  | some lu =>
    if now - lu ≥ exp then ({ w with nonEmptySince := none }, zero)
    else if blackout ≠ 0 && (match w.nonEmptySince with
                              | none => true
                              | some ne => decide (now - ne < blackout)) then (w, zero)
    else (w, w.weightVal)

/-! ### IEEE double ↔ exact rational (used by the driver to feed both instances the same value) -/

/-- Exact value of a finite, non-negative binary64 given by its bit pattern
    (sign bit ignored by the caller's domain check). -/
def ratOfBits (b : Nat) : Rat :=
  let e := (b / 4503599627370496) % 2048
  let m := b % 4503599627370496
  let sgn : Rat := if b / 9223372036854775808 % 2 = 1 then -1 else 1
  if e = 0 then sgn * ((m : Rat) / ((2 : Rat) ^ 1074))
  else if e ≥ 1075 then sgn * (((m + 4503599627370496 : Nat) : Rat) * ((2 : Rat) ^ (e - 1075)))
  else sgn * (((m + 4503599627370496 : Nat) : Rat) / ((2 : Rat) ^ (1075 - e)))

/-- finite (exponent field ≠ 2047) and not negative (sign bit clear, or -0). -/
def bitsFiniteNonneg (b : Nat) : Bool :=
  (b / 4503599627370496) % 2048 ≠ 2047 && (b < 9223372036854775808 || b = 9223372036854775808)

end GrpcModel.WRRStride
