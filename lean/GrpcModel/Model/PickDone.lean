/-
Model of the pick side of an RPC attempt (C23):

  picker_wrapper.go : pickerWrapper.pick (the loop over picker results; Done on a non-ready SubConn)
  stream.go         : csAttempt.getTransport (keeps the pick result), csAttempt.finish
                      (calls pickResult.Done once, guarded by `finished`)

and the bookkeeping that joins it with the retry loop of Model/RetryLoop.lean: which pick belongs
to which attempt, and when its Done runs (when that attempt's `finish` runs for the first time).
-/
import GrpcModel.Model.RetryLoop
namespace GrpcModel.PickDone
open GrpcModel.Retry GrpcModel.RetryLoop

/-- what the scripted picker returns for one `Pick` call -/
inductive PickBeh
  | ok                 -- a READY SubConn, with a Done callback
  | oknd               -- a READY SubConn, no Done callback
  | notready           -- a SubConn that is not READY, with a Done callback
  | nosc               -- ErrNoSubConnAvailable (a new picker will be published)
  | hang               -- ErrNoSubConnAvailable and no new picker ever
  | drop (code : Nat)  -- a status error: the RPC ends with it (dropError)
  | notreadyCancel     -- like `notready`, and the RPC's context ends while `Pick` runs
  | noscCancel         -- like `nosc`, and the RPC's context ends while `Pick` runs
deriving Repr, DecidableEq

inductive PEv
  | pick (id : Nat) (b : PickBeh)
  | done (id : Nat) (code : Nat)
deriving Repr, DecidableEq

inductive PickOutcome
  | picked (hasDone : Bool) (id : Nat)
  | hangs
  | dropped (code : Nat)
  | cancelled          -- the blocked pick saw `ctx.Done()`: status CANCELLED, no pick result is kept
deriving Repr, DecidableEq

/-- `pickerWrapper.pick` against the scripted picker (every blocked iteration is woken by the next
    picker update; an exhausted script answers `ok`).  `n` = ids handed out so far. -/
def pickLoop : List PickBeh → Nat → List PEv × List PickBeh × Nat × PickOutcome
  | [], n => ([.pick (n + 1) .ok], [], n + 1, .picked true (n + 1))
  | b :: rest, n =>
    let id := n + 1
    match b with
    | .ok => ([.pick id .ok], rest, id, .picked true id)
    | .oknd => ([.pick id .oknd], rest, id, .picked false id)
    | .notready =>
      -- "the picked transport is not ready": Done(DoneInfo{}) at once, then repick
      let r := pickLoop rest id
      (.pick id .notready :: .done id 0 :: r.1, r.2.1, r.2.2.1, r.2.2.2)
    | .nosc =>
      let r := pickLoop rest id
      (.pick id .nosc :: r.1, r.2.1, r.2.2.1, r.2.2.2)
    | .hang => ([.pick id .hang], rest, id, .hangs)
    | .drop c => ([.pick id (.drop c)], rest, id, .dropped c)
    | .notreadyCancel =>
      -- not ready: Done(DoneInfo{}) at once — whatever became of the context — then the loop goes round,
      -- finds it has already asked this picker, waits, and `ctx.Done()` ends the pick
      ([.pick id .notreadyCancel, .done id 0], rest, id, .cancelled)
    | .noscCancel => ([.pick id .noscCancel], rest, id, .cancelled)

/-- gRFC A54: a picker's status error with one of these codes is replaced by INTERNAL
    (`istatus.IsRestrictedControlPlaneCode`): InvalidArgument, NotFound, AlreadyExists,
    FailedPrecondition, Aborted, OutOfRange, DataLoss. -/
def dropStatus (code : Nat) : Nat :=
  if [3, 5, 6, 9, 10, 11, 15].contains code then 13 else code

/-- Which stream creations of an RPC fail, given the picker script and the per-RPC credentials script:
    a pick that ends with the context cancelled fails the creation with CANCELLED (1) and does not
    reach the credentials; otherwise the next credentials outcome applies.  (`hang` / `drop` only
    occur as the outcome of the first pick and end the script.) -/
def mergeNS : Nat → List PickBeh → List (Option Nat) → List (Option Nat)
  | 0, _, creds => creds
  | fuel + 1, picks, creds =>
    if picks.isEmpty then creds
    else
      let r := pickLoop picks 0
      match r.2.2.2 with
      | .cancelled => [some 1]
      | .picked _ _ => creds.head?.join :: mergeNS fuel r.2.1 creds.tail
      | _ => creds

structure PickSt where
  script : List PickBeh
  nextId : Nat := 0
  attPick : List (Option Nat) := []    -- per attempt, in creation order: id of its pick if that pick has a Done
deriving Repr

/-- the Done of attempt `i` (1-based) if its `finish` ran for the first time between `before` and `after`. -/
def doneOf (before after : St) (ps : PickSt) (i : Nat) : List PEv :=
  match after.atts[i - 1]?, ps.attPick[i - 1]? with
  | some a, some (some id) =>
    let was := match before.atts[i - 1]? with | some b => b.finishCalls | none => 0
    if i ≥ 1 ∧ was = 0 ∧ a.finishCalls = 1 then [.done id a.doneCode] else []
  | _, _ => []

/-- pick / Done events of one client operation, from the retry-loop events it produced.  Before a new
    attempt is created (whether its stream creation then succeeds, `newAttempt`, or fails, `failed`)
    the attempt that was current has been finished; then the picker is asked; an attempt whose stream
    creation failed is finished at the top of the next turn of `retryLocked`'s loop, with the error
    of the failed creation.  `cur` = index of the attempt that is current, `emitted` = attempts whose
    Done was already reported in this operation. -/
def pkEventsAux (before after : St) : List Ev → PickSt → Nat → List Nat → PickSt × List PEv
  | [], ps, _, emitted =>
    let last := after.atts.length
    (ps, if emitted.contains last then [] else doneOf before after ps last)
  | .newAttempt i _ :: evs, ps, _, emitted =>
    let d := if i ≥ 2 ∧ !emitted.contains (i - 1) then doneOf before after ps (i - 1) else []
    let (pe, rest, n', out) := pickLoop ps.script ps.nextId
    let rec_ : Option Nat := match out with | .picked true id => some id | _ => none
    let ps' : PickSt := { script := rest, nextId := n', attPick := ps.attPick ++ [rec_] }
    let (ps'', more) := pkEventsAux before after evs ps' i ((i - 1) :: emitted)
    (ps'', d ++ pe ++ more)
  | .failed c :: evs, ps, cur, emitted =>
    let d := if cur ≥ 1 ∧ !emitted.contains cur then doneOf before after ps cur else []
    let (pe, rest, n', out) := pickLoop ps.script ps.nextId
    let fin : List PEv := match out with | .picked true id => [.done id c] | _ => []
    let ps' : PickSt := { ps with script := rest, nextId := n' }
    let (ps'', more) := pkEventsAux before after evs ps' cur (cur :: emitted)
    (ps'', d ++ pe ++ fin ++ more)
  | _ :: evs, ps, cur, emitted => pkEventsAux before after evs ps cur emitted

def pkEvents (before after : St) (evs : List Ev) (ps : PickSt) : PickSt × List PEv :=
  pkEventsAux before after evs ps before.atts.length []

end GrpcModel.PickDone
