/-
Model of internal/transport/http_util.go :
  encodeGrpcMessage, encodeGrpcMessageUnchecked, decodeGrpcMessage, decodeGrpcMessageUnchecked
(the percent-encoding of the `grpc-message` trailer). Strings are byte lists.
`spaceByte`, `tildeByte`, `percentByte` are regenerated from the Go source (T4).
-/
import GrpcModel.Generated.GrpcMessage
import GrpcModel.Prim.Utf8
namespace GrpcModel.GrpcMessage
open GrpcModel.Generated GrpcModel.Utf8

/-- `c >= spaceByte && c <= tildeByte && c != percentByte` -/
def isPlain (c : UInt8) : Bool :=
  decide (spaceByte ≤ c.toNat) && decide (c.toNat ≤ tildeByte) && (c.toNat != percentByte)

/-- one upper-case hex digit (`%X`). -/
def hexUpper (n : Nat) : UInt8 := if n < 10 then UInt8.ofNat (48 + n) else UInt8.ofNat (55 + n)

/-- `fmt.Fprintf(&sb, "%%%02X", b)` for a byte `b`. -/
def pct (b : UInt8) : List UInt8 :=
  [UInt8.ofNat percentByte, hexUpper (b.toNat / 16), hexUpper (b.toNat % 16)]

/-- body of the inner loop of `encodeGrpcMessageUnchecked` for one byte of `string(r)`. -/
def encByte (size : Nat) (b : UInt8) : List UInt8 :=
  if size > 1 then pct b
  else if isPlain b then [b] else pct b

/-- inner loop: `for _, b := range []byte(string(r))`. -/
def encRune (r size : Nat) : List UInt8 := (encodeRune r).flatMap (encByte size)

/-- `for len(msg) > 0 { r, size := utf8.DecodeRuneInString(msg); …; msg = msg[size:] }`;
    `fuel` bounds the number of iterations (each consumes ≥ 1 byte, so `msg.length` suffices). -/
def encLoop : Nat → List UInt8 → List UInt8
  | 0, _ => []
  | fuel + 1, msg =>
    if msg.isEmpty then [] else
    let p := decodeRune msg
    encRune p.1 p.2 ++ encLoop fuel (msg.drop p.2)

/-- `encodeGrpcMessageUnchecked` -/
def encodeUnchecked (msg : List UInt8) : List UInt8 := encLoop msg.length msg

/-- `encodeGrpcMessage`: empty → empty; all bytes plain → msg itself; else the slow path. -/
def encode (msg : List UInt8) : List UInt8 :=
  if msg.isEmpty then []
  else if msg.all isPlain then msg
  else encodeUnchecked msg

/-! ### decoding -/

def hexVal (c : UInt8) : Option Nat :=
  if 48 ≤ c.toNat ∧ c.toNat ≤ 57 then some (c.toNat - 48)
  else if 97 ≤ c.toNat ∧ c.toNat ≤ 102 then some (c.toNat - 97 + 10)
  else if 65 ≤ c.toNat ∧ c.toNat ≤ 70 then some (c.toNat - 65 + 10)
  else none

/-- `strconv.ParseUint(s, 16, 8)`: `none` = err ≠ nil (empty, a non-hex byte — base 16 is explicit
    so no `0x` prefix and no underscores — or value > 255). -/
def parseUint16_8 (s : List UInt8) : Option Nat :=
  if s.isEmpty then none else
  match s.foldl (fun acc c => match acc, hexVal c with
      | some a, some d => some (a * 16 + d)
      | _, _ => none) (some 0) with
  | some v => if v ≤ 255 then some v else none
  | none => none

/-- `msg[lo:hi]`; `none` = the Go slice expression panics. -/
def slice? (msg : List UInt8) (lo hi : Nat) : Option (List UInt8) :=
  if lo ≤ hi ∧ hi ≤ msg.length then some ((msg.drop lo).take (hi - lo)) else none

/-- `decodeGrpcMessageUnchecked`, index for index. `none` = a run-time panic (index or slice out
    of range). State: loop index `i`, the builder `sb`; `fuel` bounds the iterations. -/
def decIdx (msg : List UInt8) : Nat → Nat → List UInt8 → Option (List UInt8)
  | 0, _, sb => some sb
  | fuel + 1, i, sb =>
    if i < msg.length then
      match msg[i]? with
      | none => none
      | some c =>
        if c.toNat = percentByte ∧ i + 2 < msg.length then
          match slice? msg (i + 1) (i + 3) with
          | none => none
          | some h =>
            match parseUint16_8 h with
            | none => decIdx msg fuel (i + 1) (sb ++ [c])
            | some v => decIdx msg fuel (i + 3) (sb ++ [byte v])
        else decIdx msg fuel (i + 1) (sb ++ [c])
    else some sb

/-- `decodeGrpcMessageUnchecked` (`none` = panic). -/
def decodeUncheckedP (msg : List UInt8) : Option (List UInt8) := decIdx msg (msg.length + 1) 0 []

/-- The same loop by recursion on the unread suffix (`i + 2 < lenMsg` ⇔ two more bytes follow). -/
def decLoop : List UInt8 → List UInt8
  | [] => []
  | [c] => [c]
  | [c, d] => [c, d]
  | c :: h1 :: h2 :: rest =>
    if c.toNat = percentByte then
      match parseUint16_8 [h1, h2] with
      | none => c :: decLoop (h1 :: h2 :: rest)
      | some v => byte v :: decLoop rest
    else c :: decLoop (h1 :: h2 :: rest)

/-- `for i := 0; i < lenMsg; i++ { if msg[i] == percentByte && i+2 < lenMsg {…} }` of
    `decodeGrpcMessage`: is there a `%` with at least two bytes after it? -/
def hasEscape : List UInt8 → Bool
  | c :: h1 :: h2 :: rest => (c.toNat == percentByte) || hasEscape (h1 :: h2 :: rest)
  | _ => false

/-- `decodeGrpcMessage` (`none` = panic). -/
def decodeP (msg : List UInt8) : Option (List UInt8) :=
  if msg.isEmpty then some []
  else if hasEscape msg then decodeUncheckedP msg
  else some msg

/-- `decodeGrpcMessage` as a total function (see `decodeP_eq` in the proofs). -/
def decode (msg : List UInt8) : List UInt8 :=
  if msg.isEmpty then [] else if hasEscape msg then decLoop msg else msg

/-- The property's "printable ASCII". -/
def printable (b : UInt8) : Bool := decide (0x20 ≤ b.toNat) && decide (b.toNat ≤ 0x7E)

end GrpcModel.GrpcMessage
