/-
Self-contained model (for C10) of how a status message crosses the wire:
  internal/transport/http_util.go : encodeGrpcMessage, encodeGrpcMessageUnchecked,
                                    decodeGrpcMessage, decodeGrpcMessageUnchecked
  unicode/utf8                    : DecodeRuneInString (validity + size only), Valid
(The complete treatment of the percent-encoding is property C08; this copy has exactly what
the status round trip needs.)

`utf8.DecodeRune` is modelled by its size/validity result: `runeLen bs = some n` (a valid
encoding of n bytes starts `bs`) or `none` (RuneError, size 1). The Go code re-encodes the
decoded rune with `string(r)`; for a valid encoding that yields the same n bytes (UTF-8
encodings accepted by DecodeRune are canonical), for RuneError it yields EF BF BD — the model
uses the original bytes / EF BF BD directly.
-/
import GrpcModel.Prim.Base64
namespace GrpcModel.StatusMsg
open GrpcModel.Base64 (Bytes)

def isCont (b : UInt8) : Bool := 0x80 ≤ b && b ≤ 0xBF

/-- Size of the valid UTF-8 encoding at the head of `bs` (Go's `first`/`acceptRanges` tables),
    `none` for an invalid or truncated one (and for the empty list). -/
def runeLen : Bytes → Option Nat
  | [] => none
  | b0 :: rest =>
    if b0 < 0x80 then some 1
    else if 0xC2 ≤ b0 && b0 ≤ 0xDF then
      match rest with
      | b1 :: _ => if isCont b1 then some 2 else none
      | _ => none
    else if 0xE0 ≤ b0 && b0 ≤ 0xEF then
      match rest with
      | b1 :: b2 :: _ =>
        let lo : UInt8 := if b0 == 0xE0 then 0xA0 else 0x80
        let hi : UInt8 := if b0 == 0xED then 0x9F else 0xBF
        if lo ≤ b1 && b1 ≤ hi && isCont b2 then some 3 else none
      | _ => none
    else if 0xF0 ≤ b0 && b0 ≤ 0xF4 then
      match rest with
      | b1 :: b2 :: b3 :: _ =>
        let lo : UInt8 := if b0 == 0xF0 then 0x90 else 0x80
        let hi : UInt8 := if b0 == 0xF4 then 0x8F else 0xBF
        if lo ≤ b1 && b1 ≤ hi && isCont b2 && isCont b3 then some 4 else none
      | _ => none
    else none

/-- U+FFFD in UTF-8. -/
def replacement : Bytes := [0xEF, 0xBF, 0xBD]

/-- The message as a list of runes: each valid encoding as its bytes (`true`), each invalid byte
    as one `false` entry holding that byte. Structural recursion with fuel = length. -/
def runesAux : Nat → Bytes → List (Bool × Bytes)
  | 0, _ => []
  | _, [] => []
  | fuel + 1, b :: rest =>
    match runeLen (b :: rest) with
    | some n => (true, (b :: rest).take n) :: runesAux fuel ((b :: rest).drop n)
    | none => (false, [b]) :: runesAux fuel rest

def runes (bs : Bytes) : List (Bool × Bytes) := runesAux bs.length bs

/-- `utf8.Valid`. -/
def validUtf8 (bs : Bytes) : Bool := (runes bs).all fun r => r.1

/-- What the property calls "invalid UTF-8 replaced by U+FFFD" (Go semantics: every byte that
    does not start a valid encoding is replaced on its own). -/
def sanitize (bs : Bytes) : Bytes :=
  (runes bs).flatMap fun r => if r.1 then r.2 else replacement

/-- `c >= ' ' && c <= '~' && c != '%'`. -/
def isSafe (c : UInt8) : Bool := 0x20 ≤ c && c ≤ 0x7E && c != 0x25

def hexUpper (n : Nat) : UInt8 := if n < 10 then UInt8.ofNat (48 + n) else UInt8.ofNat (55 + n)

/-- `fmt.Fprintf(&sb, "%%%02X", b)`. -/
def pct (b : UInt8) : Bytes := [0x25, hexUpper (b.toNat / 16), hexUpper (b.toNat % 16)]

/-- One rune of `encodeGrpcMessageUnchecked`. -/
def encRune (r : Bool × Bytes) : Bytes :=
  if !r.1 then replacement.flatMap pct          -- RuneError: size 1, string(r) = EF BF BD, none is safe
  else if r.2.length > 1 then r.2.flatMap pct   -- size > 1: always percent-encode
  else r.2.flatMap fun b => if isSafe b then [b] else pct b

/-- `encodeGrpcMessageUnchecked`. -/
def encodeUnchecked (msg : Bytes) : Bytes := (runes msg).flatMap encRune

/-- `encodeGrpcMessage`. -/
def encode (msg : Bytes) : Bytes :=
  if msg.isEmpty then []
  else if msg.all isSafe then msg
  else encodeUnchecked msg

def hexVal (c : UInt8) : Option Nat :=
  if 48 ≤ c && c ≤ 57 then some (c.toNat - 48)
  else if 97 ≤ c && c ≤ 102 then some (c.toNat - 87)
  else if 65 ≤ c && c ≤ 70 then some (c.toNat - 55)
  else none

/-- `decodeGrpcMessageUnchecked`: `%` followed by at least two more bytes (`i+2 < lenMsg`) that
    are both hex digits (`strconv.ParseUint(msg[i+1:i+3], 16, 8)` succeeds) is one byte;
    anything else is copied. -/
def decodeUnchecked : Bytes → Bytes
  | [] => []
  | c :: rest =>
    match rest with
    | h :: l :: rest' =>
      if c == 0x25 then
        match hexVal h, hexVal l with
        | some x, some y => UInt8.ofNat (x * 16 + y) :: decodeUnchecked rest'
        | _, _ => c :: decodeUnchecked (h :: l :: rest')
      else c :: decodeUnchecked (h :: l :: rest')
    | [x] => [c, x]      -- fewer than two bytes follow: `i+2 < lenMsg` fails for both
    | [] => [c]
termination_by structural l => l

/-- The guard of `decodeGrpcMessage`: some `%` has at least two bytes after it. -/
def hasEscape : Bytes → Bool
  | [] => false
  | c :: rest => (c == 0x25 && rest.length ≥ 2) || hasEscape rest

/-- `decodeGrpcMessage`. -/
def decode (msg : Bytes) : Bytes :=
  if msg.isEmpty then []
  else if hasEscape msg then decodeUnchecked msg
  else msg

end GrpcModel.StatusMsg
